#!/usr/bin/env python3
"""(reproduction aid for notes/C17-report.md and notes/C20-report.md; expects the patched scratch tree under /tmp/tdd-builder/repo)
Apply one source mutant at a time to a copy of the PATCHED scratch tree and run the recorded-trace part of the
check (same harness arguments as the quick tier, seed 1) against it.  Usage: mutants.py tdigest|density [name...]"""
import sys, os, subprocess, shutil, json, re
sys.path.insert(0, '/verif/bin')
from vlib import core, props
props.load_all()
BASE = '/tmp/tdd-builder/repo'; MUT = '/tmp/tdd-builder/mut/repo'
TD = 'tdigest/include/tdigest_impl.hpp'; TDH = 'tdigest/include/tdigest.hpp'; DS = 'density/include/density_sketch_impl.hpp'
M = {
 'tdigest': {
  'T1_merge_loses_buffered_weight': (TD, "  merge(tmp, buffer_.size() + other.get_total_weight());", "  merge(tmp, buffer_.size() + other.centroids_weight_);"),
  'T2_minmax_only_from_centroids': (TD, "  buffer_.push_back(value);\n  min_ = std::min(min_, value);\n  max_ = std::max(max_, value);", "  buffer_.push_back(value);"),
  'T3_no_reverse_after_reverse_merge': (TD, "  if (reverse_merge_) std::reverse(centroids_.begin(), centroids_.end());\n  min_ =", "  min_ ="),
  'T4_left_tail_sign': (TD, "    return min_ + (weight - 1.0) / (first_weight / 2.0 - 1.0) * (centroids_.front().get_mean() - min_);", "    return min_ - (weight - 1.0) / (first_weight / 2.0 - 1.0) * (centroids_.front().get_mean() - min_);"),
  'T5_centroid_add_mean': (TDH, "      mean_ += (other.mean_ - mean_) * other.weight_ / weight_;", "      mean_ += (other.mean_ - mean_) / weight_;"),
  'T6_never_cluster': (TD, "    if (add_this) {\n      centroids_.back().add(*it);", "    if (add_this && weight_so_far < 0) {\n      centroids_.back().add(*it);"),
  'T7_cluster_limit_x8': (TD, "      add_this = proposed_weight <= centroids_weight_ * std::min(", "      add_this = proposed_weight <= 8 * centroids_weight_ * std::min("),
  'T8_compress_drops_a_buffered_value': (TD, "  for (const T value: buffer_) tmp.push_back(centroid(value, 1));\n  merge(tmp, buffer_.size());", "  for (size_t i = 1; i < buffer_.size(); ++i) tmp.push_back(centroid(buffer_[i], 1));\n  merge(tmp, buffer_.size());"),
  'T9_reverse_flag_not_restored': (TD, "  const bool reverse_merge = flags_byte & (1 << flags::REVERSE_MERGE);\n  if (is_single_value) {\n    ensure_minimum_memory", "  const bool reverse_merge = false;\n  if (is_single_value) {\n    ensure_minimum_memory"),
  'T10_rank_midpoint_weight': (TD, "  weight_below += lower->get_weight() / 2.0;", "  weight_below += lower->get_weight();"),
  'T11_singleton_right_threshold': (TD, "        if (weight_so_far + dw - weight <= 0.5) return centroids_[i + 1].get_mean();", "        if (weight_so_far + dw - weight <= 1.5) return centroids_[i + 1].get_mean();"),
  'T12_nan_counted': (TD, "  if (std::isnan(value)) return;\n  if (buffer_.size()", "  if (buffer_.size()"),
 },
 'density': {
  'D1_retained_not_decremented': (DS, "    } else {\n      --num_retained_;\n    }", "    }"),
  'D2_threshold_gt': (DS, "  while (num_retained_ >= k_ * levels_.size()) compact();\n  levels_[0].push_back", "  while (num_retained_ > k_ * levels_.size()) compact();\n  levels_[0].push_back"),
  'D3_iterator_skip_height': (DS, "      level_it_ = levels_it_->begin();\n      if (level_it_ != levels_it_->end()) break;\n      ++levels_it_;\n      ++height_;\n    }\n  }\n  return *this;", "      level_it_ = levels_it_->begin();\n      if (level_it_ != levels_it_->end()) break;\n      ++levels_it_;\n    }\n  }\n  return *this;"),
  'D4_estimate_scaling': (DS, "      density += (1 << height) * kernel_(p, point) / n_;", "      density += (1 << height) * kernel_(p, point) / (n_ + 1);"),
  'D4b_estimate_over_retained': (DS, "      density += (1 << height) * kernel_(p, point) / n_;", "      density += (1 << height) * kernel_(p, point) / num_retained_;"),
  'D5_dimension_check_lt': (DS, "  if (point.size() != dim_) throw std::invalid_argument(\"dimension mismatch\");\n  while", "  if (point.size() < dim_) throw std::invalid_argument(\"dimension mismatch\");\n  while"),
  'D6_merge_adds_retained': (DS, "  n_ += other.n_;", "  n_ += other.num_retained_;"),
  'D7_merge_no_dimension_check': (DS, "  if (other.dim_ != dim_) throw std::invalid_argument(\"dimension mismatch\");\n", ""),
  'D8_merge_no_compaction': (DS, "  n_ += other.n_;\n  while (num_retained_ >= k_ * levels_.size()) compact();", "  n_ += other.n_;"),
  'D9_iterator_weight_base': (DS, "  return value_type(*level_it_, 1ULL << height_);", "  return value_type(*level_it_, height_ == 0 ? 1ULL : 2ULL << height_);"),
  'D10_update_counts_refused': (DS, "void density_sketch<T, K, A>::update(FwdVector&& point) {\n  if (point.size() != dim_) throw", "void density_sketch<T, K, A>::update(FwdVector&& point) {\n  ++n_; --n_;\n  if (point.size() != dim_) { ++n_; throw std::invalid_argument(\"dimension mismatch\"); }\n  if (point.size() != dim_) throw"),
 },
}
fam = sys.argv[1]; names = sys.argv[2:] or list(M[fam])
jobs = {'tdigest': ['tdigest', 'tdigest_stat'], 'density': ['density']}[fam]
for name in names:
    path, a, b = M[fam][name]
    shutil.rmtree(MUT, ignore_errors=True)
    subprocess.run(['rsync', '-a', BASE + '/', MUT + '/'], check=True)
    s = open(os.path.join(MUT, path)).read()
    assert s.count(a) == 1, (name, s.count(a))
    open(os.path.join(MUT, path), 'w').write(s.replace(a, b))
    res = []
    for prof in ('default', 'serde'):
        for jn in jobs:
            if prof == 'serde' and not props.JOBS[jn].get('serde'): continue
            job = dict(props.JOBS[jn]); job['profile'] = prof
            oc = core.Outcome('C09' if prof == 'serde' else job['owners'][0])
            try:
                core.trace_job(oc, job, MUT, 1, 'quick')
            except core.MachineryError as ex:
                res.append('%s/%s: MACHINERY %s' % (jn, prof, str(ex)[:200])); continue
            cl = sorted(set(re.findall(r'<<"REJECT", "([^"]+)"', ' '.join(d for _, d in oc.violations))))
            crash = sum(1 for _, d in oc.violations if 'exited' in d)
            res.append('%s/%s(%s): %d violations %s%s, %d segments ok; notes %d' % (jn, prof, oc.prop, len(oc.violations), cl, ' +%d crashes' % crash if crash else '', oc.traces, len(oc.notes)))
    print('MUTANT %s\n   ' % name + '\n   '.join(res), flush=True)
    for f in os.listdir('/verif/replays'):
        if f.startswith(('C17.tdigest', 'C20.density', 'C09.tdigest', 'C09.density')): os.remove(os.path.join('/verif/replays', f))
shutil.rmtree(MUT, ignore_errors=True)
