// C11 repro: var_opt_union::deserialize(bytes) reads its 32-byte preamble after checking 8 bytes
// build: g++ -std=c++17 -g -fsanitize=address -I/repo/common/include -I/repo/sampling/include reader_varopt_union_short_buffer.cpp -o reader_varopt_union_short_buffer
// pinned tree : ASan heap-buffer-overflow READ in var_opt_union::deserialize
// with reader_varopt_union_short_buffer.diff : rejected with "Insufficient buffer size detected: bytes available 8, minimum needed 32"
#include <cstdio>
#include <cstdint>
#include <cstring>
#include <vector>
#include <string>
#include <sstream>
#include <stdexcept>
#include <var_opt_union.hpp>
using namespace datasketches;
// the reader gets a heap buffer of EXACTLY n bytes, so AddressSanitizer sees the first byte read past it
static std::vector<uint8_t> exact(const std::vector<uint8_t>& img, size_t n) { return std::vector<uint8_t>(img.begin(), img.begin() + n); }
template<class F> static void attempt(const char* what, F f) {
  try { f(); printf("%s: accepted\n", what); }
  catch (const std::exception& e) { printf("%s: rejected with \"%s\"\n", what, e.what()); }
}
int main() {
  var_opt_sketch<int> sk(8);
  for (int i = 0; i < 5; i++) sk.update(i, 1.0);
  var_opt_union<int> u(8);
  u.update(sk);
  auto v = u.serialize();
  std::vector<uint8_t> img(v.begin(), v.end());
  auto b = exact(img, 8);
  attempt("deserialize(var_opt_union image, 8 bytes)", [&] { var_opt_union<int>::deserialize(b.data(), b.size()); });
  return 0;
}
