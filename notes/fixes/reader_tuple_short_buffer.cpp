// C11 repro: compact_tuple_sketch::deserialize(bytes) reads num_entries, theta and keys past a short buffer
// build: g++ -std=c++17 -g -fsanitize=address -I/repo/common/include -I/repo/theta/include -I/repo/tuple/include reader_tuple_short_buffer.cpp -o reader_tuple_short_buffer
// pinned tree : ASan heap-buffer-overflow READ in compact_tuple_sketch::deserialize for n = 8 (num_entries), and for n = 40 (a key after the last complete entry)
// with reader_tuple_short_buffer.diff : both rejected with "Insufficient buffer size detected ..."
#include <cstdio>
#include <cstdint>
#include <cstring>
#include <vector>
#include <string>
#include <sstream>
#include <stdexcept>
#include <tuple_sketch.hpp>
using namespace datasketches;
// the reader gets a heap buffer of EXACTLY n bytes, so AddressSanitizer sees the first byte read past it
static std::vector<uint8_t> exact(const std::vector<uint8_t>& img, size_t n) { return std::vector<uint8_t>(img.begin(), img.begin() + n); }
template<class F> static void attempt(const char* what, F f) {
  try { f(); printf("%s: accepted\n", what); }
  catch (const std::exception& e) { printf("%s: rejected with \"%s\"\n", what, e.what()); }
}
int main() {
  auto u = update_tuple_sketch<double>::builder().set_lg_k(5).build();
  for (int i = 0; i < 6; i++) u.update(i, 1.0);
  auto v = u.compact().serialize();                         // 16-byte preamble + 6 x (key, double)
  std::vector<uint8_t> img(v.begin(), v.end());
  for (size_t n : {size_t(8), size_t(40)}) {
    auto b = exact(img, n);
    attempt(("deserialize(tuple image, " + std::to_string(n) + " bytes)").c_str(), [&] { compact_tuple_sketch<double>::deserialize(b.data(), b.size()); });
  }
  return 0;
}
