// C04: hll_union::reset() keeps the lg_k the gadget was down-sampled to.
//   g++ -std=c++17 -I/repo/common/include -I/repo/hll/include hll_union_reset.cpp && ./a.out
// pinned tree: lg_k after reset = 8 (lg_max_k = 12); the two presentation orders end at lg_k 8 and 10; exit status 1
// with hll_union_reset.diff: 12 after reset, 10 and 10; exit status 0
#include <hll.hpp>
#include <cstdio>
using namespace datasketches;
int main() {
  hll_sketch small(8, HLL_8), ten(10, HLL_8);
  for (int i = 0; i < 2000; i++) small.update(i);
  for (int i = 0; i < 5000; i++) ten.update(i + 100000);
  hll_union a(12), b(12);
  a.update(small); a.reset();
  b.update(small); b.reset();
  int after_reset = a.get_lg_config_k();
  for (int i = 0; i < 3000; i++) a.update(i);     // raw items first, then the lg_k 10 sketch
  a.update(ten);
  b.update(ten);                                   // the lg_k 10 sketch first, then the same raw items
  for (int i = 0; i < 3000; i++) b.update(i);
  int la = a.get_result().get_lg_config_k(), lb = b.get_result().get_lg_config_k();
  printf("lg_max_k 12: lg_k after reset %d; result lg_k items-then-sketch %d, sketch-then-items %d\n", after_reset, la, lb);
  return (after_reset == 12 && la == 10 && lb == 10) ? 0 : 1;
}
