// C11 repro: serde<std::string>::deserialize(istream) reserves and loops over an untrusted 32-bit length
// build: g++ -std=c++17 -g -fsanitize=address -I/repo/common/include -I/repo/kll/include reader_serde_string_stream_length.cpp -o reader_serde_string_stream_length
// pinned tree : num_levels := 0 makes the reader take the level offsets for a string: a reserve() of that many bytes and a loop of is.get() on a stream that has already ended - here some 10^8 iterations (seconds; the harness's 2 s CPU limit is hit), in general up to 4 GB and minutes
// with reader_serde_string_stream_length.diff : rejected at once with "error reading from std::istream at item 0"
#include <cstdio>
#include <cstdint>
#include <cstring>
#include <vector>
#include <string>
#include <sstream>
#include <stdexcept>
#include <kll_sketch.hpp>
#include <chrono>
using namespace datasketches;
// the reader gets a heap buffer of EXACTLY n bytes, so AddressSanitizer sees the first byte read past it
static std::vector<uint8_t> exact(const std::vector<uint8_t>& img, size_t n) { return std::vector<uint8_t>(img.begin(), img.begin() + n); }
template<class F> static void attempt(const char* what, F f) {
  try { f(); printf("%s: accepted\n", what); }
  catch (const std::exception& e) { printf("%s: rejected with \"%s\"\n", what, e.what()); }
}
int main() {
  kll_sketch<std::string> s(8);
  const char* w[] = {"a0", "bb37", "74", "dddd10", "eeeeeeeee47"};
  for (auto x : w) s.update(x);
  auto img = s.serialize();
  img[18] = 0;                                              // num_levels
  std::istringstream is(std::string(img.begin(), img.end()));
  const auto t0 = std::chrono::steady_clock::now();
  attempt("deserialize(stream, kll<string> image with num_levels = 0)", [&] { kll_sketch<std::string>::deserialize(is); });
  printf("took %.2f s\n", std::chrono::duration<double>(std::chrono::steady_clock::now() - t0).count());
  return 0;
}
