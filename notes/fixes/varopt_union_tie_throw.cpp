// Minimal repro: var_opt_union::update throws std::logic_error("sketch not in valid estimation mode")
// on two perfectly valid input sketches.
#include <var_opt_sketch.hpp>
#include <var_opt_union.hpp>
#include <cstdio>
using namespace datasketches;
int main() {
  var_opt_sketch<int> a(3);                 // estimation mode: h=0, r=3, total_wt_r=28, tau=28/3
  for (int i = 0; i < 4; i++) a.update(i, 7.0);
  var_opt_sketch<int> b(10);                // exact mode, 6 items
  const double wb[] = {4, 9, 9, 10, 6, 12};
  for (int i = 0; i < 6; i++) b.update(100 + i, wb[i]);
  var_opt_union<int> u(7);
  u.update(a);
  try {
    u.update(b);
    auto r = u.get_result();
    double sum = 0; for (auto p : r) sum += p.second;
    printf("ok: n=%llu samples=%u sum=%.17g (expected 78)\n", (unsigned long long) r.get_n(), r.get_num_samples(), sum);
    return 0;
  } catch (const std::logic_error& e) {
    printf("DEFECT: union.update(b) threw std::logic_error: %s\n", e.what());
    return 1;
  }
}
