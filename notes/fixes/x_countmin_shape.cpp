// X02 finding: count_min_sketch(num_hashes, num_buckets) computes num_hashes * num_buckets in 32 bits.  The documented limit
// ("These parameters generate a sketch that exceeds 2^30 elements") is not enforced when the product wraps: (2, 2^31) -> 0,
// (3, 1431655766) -> 2, ... : the constructor succeeds with an array of 0 (or a few) cells while get_num_buckets() reports 2^31,
// and the first update / get_estimate writes / reads far outside the array.  A sketch with 0 hash functions is accepted as well
// and get_estimate() dereferences an empty array.
//   g++ -std=c++17 -I/repo/common/include -I/repo/count/include x_countmin_shape.cpp && ./a.out
// unchanged tree: "accepted" twice (exit 1; add any argument to also run the update that crashes); with x_countmin_shape.diff both refused, exit 0.
#include <count_min.hpp>
#include <iostream>
using namespace datasketches;
int main(int argc, char**) {
  int bad = 0;
  try { count_min_sketch<uint64_t> s(2, 1u << 31); std::cout << "count_min_sketch(2, 2^31): accepted, num_buckets = " << s.get_num_buckets() << "\n"; bad++;
        if (argc > 1) { s.update((uint64_t)1, 1); std::cout << "estimate " << s.get_estimate((uint64_t)1) << "\n"; } }
  catch (const std::invalid_argument& e) { std::cout << "count_min_sketch(2, 2^31): refused: " << e.what() << "\n"; }
  try { count_min_sketch<uint64_t> s(0, 10); std::cout << "count_min_sketch(0, 10): accepted\n"; bad++;
        if (argc > 1) std::cout << "estimate " << s.get_estimate((uint64_t)1) << "\n"; }
  catch (const std::invalid_argument& e) { std::cout << "count_min_sketch(0, 10): refused: " << e.what() << "\n"; }
  return bad ? 1 : 0;
}
