// Minimal repro (C15): query_and_update() on a filter whose bit count is dirty (any update() since the last
// recount) calls update_num_bits_set(num_bits_set_ + new_bits), which clears the dirty flag and installs a count that
// ignores every bit set by update().  On a plain OWNED filter: update(42); query_and_update(42) returns true, adds no
// bit, and leaves num_bits_set_ = 0 / not dirty -> is_empty() = true, query(42) = false (false negative),
// get_bits_used() = 0, serialize() writes the EMPTY image.  After writable_wrap / deserialize of an image serialized
// while dirty (NumBitsSet = DIRTY_BITS_VALUE) the same call makes get_bits_used() return 2^64 - 1.
//   g++ -std=c++11 -I/repo/common/include -I/repo/filters/include bloom_qau_dirty.cpp && ./a.out
// exit 0 = property holds, 1 = defect present.  Fix: bloom_qau_dirty.diff (a dirty count stays dirty until recounted,
// as in the Java BitArray; apply together with bloom_dirty_writethrough.diff for filters in caller memory).
#include <bloom_filter.hpp>
#include <cstdio>
using namespace datasketches;
int main() {
  int bad = 0;
  auto f = bloom_filter::builder::create_by_size(256, 3, 7);
  f.update(static_cast<uint64_t>(42));
  const bool seen = f.query_and_update(static_cast<uint64_t>(42));
  printf("update(42); query_and_update(42) = %d; is_empty = %d; query(42) = %d; bits_used = %llu (3 bits are set)\n",
         seen, f.is_empty(), f.query(static_cast<uint64_t>(42)), static_cast<unsigned long long>(f.get_bits_used()));
  if (!seen || f.is_empty() || !f.query(static_cast<uint64_t>(42)) || f.get_bits_used() != 3) bad = 1;
  auto g = bloom_filter::builder::create_by_size(1024, 3, 7);
  g.update(static_cast<uint64_t>(1));
  g.query_and_update(static_cast<uint64_t>(2));
  const unsigned long long used = g.get_bits_used();
  auto bytes = g.serialize();
  unsigned long long truth = 0;
  for (size_t i = 32; i < bytes.size(); i++) for (int b = 0; b < 8; b++) truth += (bytes[i] >> b) & 1;
  printf("update(1); query_and_update(2): bits_used = %llu, bits set in the image = %llu\n", used, truth);
  if (used != truth) bad = 1;
  auto h = bloom_filter::builder::create_by_size(256, 3, 7);
  h.update(static_cast<uint64_t>(42));
  auto img = h.serialize();                                   // dirty: NumBitsSet = DIRTY_BITS_VALUE
  auto w = bloom_filter::writable_wrap(img.data(), img.size());
  w.query_and_update(static_cast<uint64_t>(42));
  printf("writable_wrap(dirty image); query_and_update(42): bits_used = %llu\n", static_cast<unsigned long long>(w.get_bits_used()));
  if (w.get_bits_used() != 3) bad = 1;
  printf(bad ? "DEFECT: query_and_update overwrote a dirty bit count\n" : "ok\n");
  return bad;
}
