// C19 repro: density_sketch has an unused member `Allocator allocator_` that its constructors never initialise, so an
// allocator instance is default-constructed instead of using the one supplied (the repository's own test_allocator
// forbids exactly that: DISALLOW_DEFAULT_CONSTRUCTOR); an allocator without default constructor does not compile.
//   g++ -std=c++17 -I/repo/common/include -I/repo/common/test -I/repo/density/include c19_density_allocator_member.cpp /repo/common/test/test_allocator.cpp && ./a.out
// pinned tree prints: "exception: test_allocator: default constructor"
#include <cstdio>
#include "test_allocator.hpp"
#include "density_sketch.hpp"
struct kernel {
  float operator()(const std::vector<float, datasketches::test_allocator<float>>&, const std::vector<float, datasketches::test_allocator<float>>&) const { return 1.0f; }
};
int main() {
  using namespace datasketches;
  try {
    density_sketch<float, kernel, test_allocator<float>> s(4, 2, kernel(), test_allocator<float>(0));
    printf("constructed\n");
  } catch (const std::exception& e) { printf("exception: %s\n", e.what()); }
  return 0;
}
