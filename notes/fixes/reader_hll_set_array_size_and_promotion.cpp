// C11 repro: HLL set readers trust the array-size byte and ignore a promotion during reading
// build: g++ -std=c++17 -g -fsanitize=address -I/repo/common/include -I/repo/hll/include reader_hll_set_array_size_and_promotion.cpp -o reader_hll_set_array_size_and_promotion
// pinned tree : lgArr := 32: the length check uses 1 << (32 & 31) = 1 slot, then coupons_.resize(2^32) asks for 16 GB; lgK 10 -> 8 in a compact set of 40 coupons: the set promotes to HLL inside the loop, the returned HllArray is leaked (ASan LeakSanitizer) and the next insert throws "Key not found and no empty slots!"
// with reader_hll_set_array_size_and_promotion.diff : rejected with "Possible corruption: coupon array size 2^32 for lgConfigK 8" / "Possible corruption: too many coupons for a set"
#include <cstdio>
#include <cstdint>
#include <cstring>
#include <vector>
#include <string>
#include <sstream>
#include <stdexcept>
#include <hll.hpp>
using namespace datasketches;
// the reader gets a heap buffer of EXACTLY n bytes, so AddressSanitizer sees the first byte read past it
static std::vector<uint8_t> exact(const std::vector<uint8_t>& img, size_t n) { return std::vector<uint8_t>(img.begin(), img.begin() + n); }
template<class F> static void attempt(const char* what, F f) {
  try { f(); printf("%s: accepted\n", what); }
  catch (const std::exception& e) { printf("%s: rejected with \"%s\"\n", what, e.what()); }
}
int main() {
  hll_sketch s(8, HLL_8);
  for (uint64_t i = 0; i < 12; i++) s.update(i);
  auto img = s.serialize_updatable();                       // SET mode
  img[4] = 32;                                              // LG_ARR_BYTE
  attempt("deserialize(bytes, set image with lgArr = 32)", [&] { hll_sketch::deserialize(img.data(), img.size()); });
  hll_sketch t(10, HLL_8);
  for (uint64_t i = 0; i < 40; i++) t.update(i);
  auto c = t.serialize_compact();
  c[3] = 8;                                                 // LG_K_BYTE 10 -> 8: 40 coupons do not fit a set of lgK 8
  attempt("deserialize(bytes, compact set image with lgK 10 -> 8)", [&] { hll_sketch::deserialize(c.data(), c.size()); });
  return 0;
}
