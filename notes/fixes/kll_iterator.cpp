// C07 repro: kll_sketch::const_iterator reports weight 1 for every item when level 0 is empty (after a merge).
// g++ -std=c++17 -I/repo/common/include -I/repo/kll/include kll_iterator.cpp && ./a.out
// unchanged tree: "n=24 retained=12 iterated=12 weight_sum=12" (exit 1); with kll_iterator.diff: weight_sum=24 (exit 0)
#include <kll_sketch.hpp>
#include <cstdio>
int main() {
  datasketches::kll_sketch<float> x(8), y(8);
  for (int i = 0; i < 12; i++) { x.update((float)i); y.update((float)(100 + i)); }
  x.merge(y);   // general_compress compacts level 0 completely: level 0 is empty, all items sit on level 1 (weight 2)
  unsigned long long sum = 0; unsigned cnt = 0;
  for (auto p : x) { sum += p.second; cnt++; }
  printf("n=%llu retained=%u iterated=%u weight_sum=%llu\n", (unsigned long long)x.get_n(), x.get_num_retained(), cnt, sum);
  return sum == x.get_n() ? 0 : 1;
}
