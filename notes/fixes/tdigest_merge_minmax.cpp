// C17: tdigest::merge(other) never looks at other.min_ / other.max_: it takes the new extremes from the means of the first
// and last centroid after the merge.  When an extreme centroid of `other` stands for more than one value (images of the
// reference implementation, other scale functions) the exact minimum / maximum of the merged stream is lost.
//   g++ -std=c++11 -I/repo/common/include -I/repo/tdigest/include tdigest_merge_minmax.cpp && ./a.out   (exit 1 = defect present)
#include <tdigest.hpp>
#include <cstdio>
#include <string>
using namespace datasketches;
static void be(std::string& s, const void* p, size_t n) { const char* c = (const char*)p; for (size_t i = n; i > 0; i--) s.push_back(c[i - 1]); }
int main() {
  std::string img; uint32_t t = 1; double mn = -19.5, mx = 95.25, k = 10; be(img, &t, 4); be(img, &mn, 8); be(img, &mx, 8); be(img, &k, 8);
  uint32_t n = 3; be(img, &n, 4);
  double ws[] = {40, 70, 8}, ms[] = {-19, 1.5, 90};
  for (int i = 0; i < 3; i++) { be(img, &ws[i], 8); be(img, &ms[i], 8); }
  auto other = tdigest<double>::deserialize(img.data(), img.size());
  tdigest<double> td(10);
  td.update(3); td.update(4);
  td.merge(other);
  printf("other: min %g max %g; merged: min %g max %g (expected -19.5 and 95.25)\n", other.get_min_value(), other.get_max_value(), td.get_min_value(), td.get_max_value());
  return (td.get_min_value() == -19.5 && td.get_max_value() == 95.25) ? 0 : 1;
}
