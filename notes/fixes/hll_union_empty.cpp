// C04: hll_union loses every earlier input once its gadget has been down-sampled.
//   g++ -std=c++17 -I/repo/common/include -I/repo/hll/include hll_union_empty.cpp && ./a.out
// pinned tree:  is_empty() after the first update = 1, estimate a-then-b 19 864 (b alone), b-then-a 39 982,
//               b+c+d 2 990 (d alone); exit status 1
// with hll_union_empty.diff: is_empty() = 0, 39 982 in both orders with identical registers, b+c+d 26 774; exit status 0
#include <hll.hpp>
#include <cstdio>
using namespace datasketches;
int main() {
  hll_sketch a(12, HLL_8), b(10, HLL_8);                // both in HLL mode; a has lg_k > lg_max_k
  for (int i = 0; i < 20000; i++) a.update(i);
  for (int i = 0; i < 20000; i++) b.update(i + 1000000);
  hll_union ab(10), ba(10);
  ab.update(a);                                          // gadget = a down-sampled to lg_k 10 (mergeHll: rebuild flag set, numAtCurMin stays k)
  bool empty_after_a = ab.is_empty();
  ab.update(b);                                          // pinned: "gadget is empty" branch -> gadget replaced by b, a is lost
  ba.update(b); ba.update(a);
  auto rab = hll_sketch(ab.get_result(HLL_8), HLL_8).serialize_updatable();
  auto rba = hll_sketch(ba.get_result(HLL_8), HLL_8).serialize_updatable();
  bool same_registers = std::equal(rab.begin() + 40, rab.end(), rba.begin() + 40);
  printf("is_empty after first (non-empty) input: %d\n", (int)empty_after_a);
  printf("estimate a then b: %.0f   b then a: %.0f   (about 40 000 distinct items offered)\n", ab.get_composite_estimate(), ba.get_composite_estimate());
  printf("registers equal in both orders: %d\n", (int)same_registers);
  // the same loss with a later, smaller HLL-mode input: c (lg_k 8) down-samples the gadget, d then replaces it
  hll_sketch c(8, HLL_4), d(9, HLL_6);
  for (int i = 0; i < 3000; i++) { c.update(i + 2000000); d.update(i + 3000000); }
  hll_union u(10); u.update(b); u.update(c); u.update(d);
  printf("b(20000) + c(3000) + d(3000): estimate %.0f\n", u.get_composite_estimate());
  return (!empty_after_a && same_registers && u.get_composite_estimate() > 20000) ? 0 : 1;
}
