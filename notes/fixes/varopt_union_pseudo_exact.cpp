// Minimal repro: var_opt_union::get_result() returns a sketch whose H region holds items lighter than tau
// (the "pseudo-exact" shortcut tests them against the gadget's own tau, which is NaN while the gadget is in
// exact mode), and the next update() of that result throws std::logic_error.
#include <var_opt_sketch.hpp>
#include <var_opt_union.hpp>
#include <cstdio>
using namespace datasketches;
int main() {
  var_opt_sketch<int> a(2);                 // estimation mode: r = 2, tau = 15
  for (int i = 0; i < 3; i++) a.update(i, 10.0);
  var_opt_sketch<int> b(10);                // exact mode, items lighter than a's tau
  for (int i = 0; i < 3; i++) b.update(100 + i, 1.0);
  var_opt_union<int> u(10);
  u.update(a); u.update(b);
  var_opt_sketch<int> r = u.get_result();
  printf("%s", r.to_string().c_str());
  for (auto p : r) printf("  item %d wt %g\n", p.first, p.second);   // three exact items of weight 1 next to tau = 15
  try { r.update(200, 1.0); printf("result.update: ok\n"); return 0; }
  catch (const std::logic_error& e) { printf("DEFECT: result.update threw std::logic_error: %s\n", e.what()); return 1; }
}
