// C11 repro: HLL list / set readers accept any lgK byte
// build: g++ -std=c++17 -g -fsanitize=address -I/repo/common/include -I/repo/hll/include reader_hll_list_set_lgk_unchecked.cpp -o reader_hll_list_set_lgk_unchecked
// pinned tree : the 20-byte LIST image with lgK := 0 is accepted (get_lg_config_k() = 0); the update that fills the list promotes it to an HLL array of 1 << (0 - 1) bytes: 2 GB requested (ASan: allocation-size-too-big / bad_alloc / 2 GB allocated)
// with reader_hll_list_set_lgk_unchecked.diff : rejected with "Invalid value of k: 0"
#include <cstdio>
#include <cstdint>
#include <cstring>
#include <vector>
#include <string>
#include <sstream>
#include <stdexcept>
#include <csignal>
#include <unistd.h>
#include <hll.hpp>
using namespace datasketches;
template<class F> static void attempt(const char* what, F f) {
  try { f(); printf("%s: accepted and used\n", what); }
  catch (const std::exception& e) { printf("%s: rejected with \"%s\"\n", what, e.what()); }
}
int main() {
  setvbuf(stdout, nullptr, _IONBF, 0);
  alarm(20);   // two of these defects are (practically) endless loops
  hll_sketch s(8, HLL_4);
  for (uint64_t i = 0; i < 3; i++) s.update(i);
  auto img = s.serialize_compact();                         // LIST mode
  img[3] = 0;                                               // LG_K_BYTE
  attempt("deserialize(list image with lgK = 0) + 40 updates", [&] {
    auto r = hll_sketch::deserialize(img.data(), img.size());
    printf("  lg_config_k %d\n", r.get_lg_config_k());
    for (uint64_t i = 0; i < 40; i++) r.update(i + 100);
    printf("  estimate %f\n", r.get_estimate());
  });
  return 0;
}
