// Minimal repro: frequent_items_sketch whose map was emptied by a purge is treated as "never updated" by
// merge() and by the serializers (property C12, serialization side C09).
//
//   g++ -std=c++11 -I/repo/common/include -I/repo/fi/include fi_empty_map.cpp -o fi_empty_map && ./fi_empty_map
//
// lg_max_map_size = 3: 8 slots, capacity 6.  Seven distinct items of weight 1: the 7th insert exceeds the capacity,
// the purge subtracts the median counter (1) from every counter and drops the non-positive ones - ALL of them.
// The sketch now has total weight 7, maximum error (offset) 1 and no active rows; is_empty() returns true.
//   * merge(g) returns early on `other.is_empty()`: g's total weight and offset are lost, so afterwards
//     get_total_weight() is not the sum of the update weights and get_upper_bound(item) < true weight.
//   * serialize() writes the 8-byte "empty" image: the round trip loses total weight and offset.
// Expected output with the proposed patch (fi_empty_map.diff): "OK", exit status 0.
#include <iostream>
#include <sstream>
#include <frequent_items_sketch.hpp>

using namespace datasketches;

int main() {
  int bad = 0;
  frequent_items_sketch<int> g(3);
  for (int i = 1; i <= 7; i++) g.update(i, 1);
  std::cout << "g: total=" << g.get_total_weight() << " max_error=" << g.get_maximum_error()
            << " active=" << g.get_num_active_items() << " is_empty=" << g.is_empty() << "\n";

  frequent_items_sketch<int> f(3);
  f.update(100, 5);
  f.merge(g);
  std::cout << "f after merge(g): total=" << f.get_total_weight() << " (offered 12)  ub(1)=" << f.get_upper_bound(1)
            << " (item 1 was offered once)  max_error=" << f.get_maximum_error() << "\n";
  if (f.get_total_weight() != 12) { std::cout << "DEFECT: merge lost the total weight of the other sketch\n"; bad = 1; }
  if (f.get_upper_bound(1) < 1) { std::cout << "DEFECT: upper bound of item 1 is below its true weight\n"; bad = 1; }

  auto bytes = g.serialize();
  auto r = frequent_items_sketch<int>::deserialize(bytes.data(), bytes.size());
  std::cout << "g round trip (" << bytes.size() << " bytes): total=" << r.get_total_weight() << " max_error=" << r.get_maximum_error() << "\n";
  if (r.get_total_weight() != g.get_total_weight() || r.get_maximum_error() != g.get_maximum_error()) {
    std::cout << "DEFECT: serialization round trip lost total weight / maximum error\n"; bad = 1;
  }
  std::stringstream ss; g.serialize(ss);
  auto r2 = frequent_items_sketch<int>::deserialize(ss);
  if (r2.get_total_weight() != g.get_total_weight() || r2.get_maximum_error() != g.get_maximum_error()) {
    std::cout << "DEFECT: stream round trip lost total weight / maximum error\n"; bad = 1;
  }
  if (bytes.size() != g.get_serialized_size_bytes() || ss.str().size() != bytes.size()) { std::cout << "DEFECT: size mismatch\n"; bad = 1; }
  if (!bad) std::cout << "OK\n";
  return bad;
}
