// C09: tdigest::serialize(header_size_bytes > 0, ...) sizes the vector WITHOUT the header but writes the image at offset
// header_size_bytes: heap-buffer-overflow WRITE of header_size_bytes bytes, and the returned vector is header bytes short.
//   g++ -std=c++11 -fsanitize=address -I/repo/common/include -I/repo/tdigest/include tdigest_serialize_header.cpp && ./a.out
// Without ASan the overflow is silent; the size mismatch is still visible (exit 1 = defect present).
#include <tdigest.hpp>
#include <cstdio>
using namespace datasketches;
int main() {
  tdigest<double> t(100);
  for (int i = 0; i < 1000; i++) t.update(i);
  const size_t plain = t.serialize().size();
  const size_t advertised = t.get_serialized_size_bytes();
  const size_t with_header = t.serialize(8).size();   // ASan: heap-buffer-overflow in copy_to_mem
  printf("image %zu bytes (advertised %zu); serialize(8) returned %zu bytes, expected %zu\n", plain, advertised, with_header, plain + 8);
  return with_header == plain + 8 ? 0 : 1;
}
