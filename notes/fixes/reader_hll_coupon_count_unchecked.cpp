// C11 repro: HLL list / set readers trust the coupon count byte
// build: g++ -std=c++17 -g -fsanitize=address -I/repo/common/include -I/repo/hll/include reader_hll_coupon_count_unchecked.cpp -o reader_hll_coupon_count_unchecked
// pinned tree : count := 255: ASan heap-buffer-overflow (memcpy of 1020 bytes into / from the 8-slot coupon array); count := 0 with 3 coupons stored: accepted, then serialize_compact() writes 12 bytes past its 8-byte buffer (ASan heap-buffer-overflow WRITE)
// with reader_hll_coupon_count_unchecked.diff : both rejected with "Possible corruption: coupon count ..."
#include <cstdio>
#include <cstdint>
#include <cstring>
#include <vector>
#include <string>
#include <sstream>
#include <stdexcept>
#include <hll.hpp>
using namespace datasketches;
// the reader gets a heap buffer of EXACTLY n bytes, so AddressSanitizer sees the first byte read past it
static std::vector<uint8_t> exact(const std::vector<uint8_t>& img, size_t n) { return std::vector<uint8_t>(img.begin(), img.begin() + n); }
template<class F> static void attempt(const char* what, F f) {
  try { f(); printf("%s: accepted\n", what); }
  catch (const std::exception& e) { printf("%s: rejected with \"%s\"\n", what, e.what()); }
}
int main() {
  hll_sketch s(8, HLL_8);
  for (uint64_t i = 0; i < 3; i++) s.update(i);
  auto v = s.serialize_updatable();                         // LIST mode: 8-byte preamble + 8 coupon slots
  std::vector<uint8_t> img(v.begin(), v.end());
  auto big = img; big[6] = 255;                             // LIST_COUNT_BYTE
  attempt("deserialize(list image, count byte = 255)", [&] { hll_sketch::deserialize(big.data(), big.size()); });
  auto zero = img; zero[6] = 0;
  attempt("deserialize(list image, count byte = 0) + serialize_compact()", [&] {
    std::istringstream is(std::string(zero.begin(), zero.end()));
    auto r = hll_sketch::deserialize(is);
    auto c = r.serialize_compact();
    printf("  compact image of %zu bytes\n", c.size());
  });
  return 0;
}
