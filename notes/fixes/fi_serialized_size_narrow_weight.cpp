// Minimal repro: frequent_items_sketch<T, W> with sizeof(W) != 8 (e.g. W = float, uint32_t): get_serialized_size_bytes()
// counts the non-empty preamble as 4 * 8 bytes although total weight and offset are written with sizeof(W) bytes each, so
//   * serialize() (bytes) returns a vector that is 2 * (8 - sizeof(W)) bytes LONGER than what serialize(ostream) writes
//     (trailing zero bytes), i.e. the two forms of the same sketch differ, and
//   * the advertised size is not the size of the stream form.
// (property C09: bytes and stream forms identical, of the advertised size.)
//
//   g++ -std=c++11 -I/repo/common/include -I/repo/fi/include fi_serialized_size_narrow_weight.cpp -o t && ./t
// Expected with the proposed patch: "OK", exit status 0.
#include <iostream>
#include <sstream>
#include <frequent_items_sketch.hpp>

using namespace datasketches;

template<typename W> int check(const char* name) {
  frequent_items_sketch<int, W> sk(4);
  for (int i = 1; i <= 5; i++) sk.update(i, static_cast<W>(i));
  auto bytes = sk.serialize();
  std::ostringstream os; sk.serialize(os);
  const std::string st = os.str();
  std::cout << name << ": bytes form " << bytes.size() << ", stream form " << st.size() << ", advertised " << sk.get_serialized_size_bytes() << "\n";
  int bad = 0;
  if (bytes.size() != st.size() || std::string(bytes.begin(), bytes.end()) != st) { std::cout << "  DEFECT: bytes and stream forms differ\n"; bad = 1; }
  if (sk.get_serialized_size_bytes() != st.size()) { std::cout << "  DEFECT: advertised size is not the size written to the stream\n"; bad = 1; }
  auto r = frequent_items_sketch<int, W>::deserialize(bytes.data(), bytes.size());
  std::istringstream is(st);
  auto r2 = frequent_items_sketch<int, W>::deserialize(is);
  if (r.get_total_weight() != sk.get_total_weight() || r2.get_total_weight() != sk.get_total_weight() || r.get_estimate(5) != sk.get_estimate(5)) { std::cout << "  DEFECT: round trip\n"; bad = 1; }
  return bad;
}

// with the size fixed, a purge-emptied sketch (no rows, total weight > 0) of a narrow W serializes to 16 + 2 * sizeof(W) bytes:
// the bytes reader must not demand 4 * 8 bytes for it
template<typename W> int check_no_rows(const char* name) {
  frequent_items_sketch<int, W> sk(3);
  for (int i = 1; i <= 7; i++) sk.update(i, static_cast<W>(1));    // the 7th insert purges every row
  auto bytes = sk.serialize();
  try {
    auto r = frequent_items_sketch<int, W>::deserialize(bytes.data(), bytes.size());
    if (r.get_total_weight() != sk.get_total_weight() || r.get_maximum_error() != sk.get_maximum_error()) { std::cout << name << ": DEFECT: round trip of a sketch without rows\n"; return 1; }
  } catch (const std::exception& e) { std::cout << name << ": DEFECT: image of " << bytes.size() << " bytes refused: " << e.what() << "\n"; return 1; }
  return 0;
}

int main() {
  int bad = check<uint64_t>("W = uint64_t") + check<double>("W = double") + check<float>("W = float") + check<uint32_t>("W = uint32_t")
          + check_no_rows<uint64_t>("W = uint64_t, no rows") + check_no_rows<float>("W = float, no rows");
  if (!bad) std::cout << "OK\n";
  return bad ? 1 : 0;
}
