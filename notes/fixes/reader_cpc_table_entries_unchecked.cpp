// C11 repro: cpc_sketch::deserialize trusts the table entry count of a windowed image
// build: g++ -std=c++17 -g -fsanitize=address -I/repo/common/include -I/repo/cpc/include reader_cpc_table_entries_unchecked.cpp -o reader_cpc_table_entries_unchecked
// pinned tree : SEGV / ASan heap-buffer-overflow READ in cpc_compressor::low_level_uncompress_pairs (8 million pairs decoded from a few words)
// with reader_cpc_table_entries_unchecked.diff : rejected with "Possible corruption: table entries 8323082 exceed the number of coupons ..."
#include <cstdio>
#include <cstdint>
#include <cstring>
#include <vector>
#include <string>
#include <sstream>
#include <stdexcept>
#include <cpc_sketch.hpp>
using namespace datasketches;
// the reader gets a heap buffer of EXACTLY n bytes, so AddressSanitizer sees the first byte read past it
static std::vector<uint8_t> exact(const std::vector<uint8_t>& img, size_t n) { return std::vector<uint8_t>(img.begin(), img.begin() + n); }
template<class F> static void attempt(const char* what, F f) {
  try { f(); printf("%s: accepted\n", what); }
  catch (const std::exception& e) { printf("%s: rejected with \"%s\"\n", what, e.what()); }
}
int main() {
  cpc_sketch s(6);
  for (uint64_t i = 0; i < 2000; i++) s.update(i);
  auto img = s.serialize();
  img[14] = 127;                                            // table_num_entries (u32 @12) += 127 << 16
  attempt("deserialize(bytes, cpc image with table_num_entries += 127 << 16)", [&] { cpc_sketch::deserialize(img.data(), img.size()); });
  return 0;
}
