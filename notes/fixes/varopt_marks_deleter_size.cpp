// Minimal repro: var_opt_sketch::marks_deleter (used while deserializing a gadget image, i.e. by
// var_opt_union::deserialize) returns the marks array to the allocator with size 1 instead of the number of
// elements it was allocated with.  It runs whenever the reader throws after the marks were allocated, e.g. on a
// truncated union image.  With std::allocator this is a sized-delete mismatch (ASan: new-delete-type-mismatch);
// with a user allocator (a documented template parameter) allocate / deallocate no longer balance.
#include <var_opt_sketch.hpp>
#include <var_opt_union.hpp>
#include <cstdio>
#include <map>
static std::map<void*, size_t> g_live; static int g_bad = 0;
template<class T> struct chk_alloc {
  typedef T value_type;
  chk_alloc() {}
  template<class U> chk_alloc(const chk_alloc<U>&) {}
  T* allocate(size_t n) { T* p = static_cast<T*>(::operator new(n * sizeof(T))); g_live[p] = n * sizeof(T); return p; }
  void deallocate(T* p, size_t n) {
    auto f = g_live.find(p);
    if (f == g_live.end() || f->second != n * sizeof(T)) { g_bad++; printf("deallocate(%p, %zu x %zu bytes) but %zu bytes were allocated\n", (void*)p, n, sizeof(T), f == g_live.end() ? 0 : f->second); }
    if (f != g_live.end()) g_live.erase(f);
    ::operator delete(p);
  }
  template<class U> bool operator==(const chk_alloc<U>&) const { return true; }
  template<class U> bool operator!=(const chk_alloc<U>&) const { return false; }
};
using namespace datasketches;
int main() {
  typedef chk_alloc<int> A;
  var_opt_sketch<int, A> a(4);
  for (int i = 0; i < 10; i++) a.update(i, 1.0 + i);
  var_opt_union<int, A> u(8);
  u.update(a);
  auto bytes = u.serialize();
  try { var_opt_union<int, A>::deserialize(bytes.data(), bytes.size() - 3); printf("truncated image accepted?\n"); }
  catch (const std::exception& e) { printf("truncated union image refused: %s\n", e.what()); }
  if (g_bad) { printf("DEFECT: %d deallocation(s) with a size different from the allocation\n", g_bad); return 1; }
  printf("ok\n"); return 0;
}
