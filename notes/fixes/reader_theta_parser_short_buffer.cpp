// C11 repro: compact theta parser reads num_entries / theta of v1, v2, v3 images after checking only 8 bytes
// build: g++ -std=c++17 -g -fsanitize=address -I/repo/common/include -I/repo/theta/include reader_theta_parser_short_buffer.cpp -o reader_theta_parser_short_buffer
// pinned tree : ASan heap-buffer-overflow READ of size 4 in compact_theta_sketch_parser::parse (n = 8..11 of an exact-mode image; n = 8..23 of a v1 image)
// with reader_theta_parser_short_buffer.diff : both attempts rejected with "at least 12 bytes expected, actual 8" / "at least 24 bytes expected, actual 8"
#include <cstdio>
#include <cstdint>
#include <cstring>
#include <vector>
#include <string>
#include <sstream>
#include <stdexcept>
#include <theta_sketch.hpp>
using namespace datasketches;
// the reader gets a heap buffer of EXACTLY n bytes, so AddressSanitizer sees the first byte read past it
static std::vector<uint8_t> exact(const std::vector<uint8_t>& img, size_t n) { return std::vector<uint8_t>(img.begin(), img.begin() + n); }
template<class F> static void attempt(const char* what, F f) {
  try { f(); printf("%s: accepted\n", what); }
  catch (const std::exception& e) { printf("%s: rejected with \"%s\"\n", what, e.what()); }
}
int main() {
  auto u = update_theta_sketch::builder().set_lg_k(5).build();
  for (int i = 0; i < 6; i++) u.update(i);
  auto c = u.compact();
  auto v3 = c.serialize();                                  // 16-byte preamble + 6 entries
  std::vector<uint8_t> img(v3.begin(), v3.end());
  auto b = exact(img, 8);
  attempt("wrap(v3 exact image, 8 bytes)", [&] { wrapped_compact_theta_sketch::wrap(b.data(), b.size()); });
  std::vector<uint8_t> v1 = {3, 1, 3, 0, 0, 0, 0, 0};       // legacy v1 header: preLongs 3, serVer 1, type 3
  attempt("deserialize(v1 image, 8 bytes)", [&] { auto h = exact(v1, 8); compact_theta_sketch::deserialize(h.data(), h.size()); });
  return 0;
}
