// C09: deserialize(std::istream&) does not consume the coupon array of an EMPTY updatable image.
//   g++ -std=c++17 -I/repo/common/include -I/repo/hll/include hll_stream_empty_list.cpp && ./a.out
// pinned tree: image 40 bytes, consumed 8; exit status 1.  With hll_stream_empty_list.diff: 40 / 40; exit 0
#include <hll.hpp>
#include <sstream>
#include <cstdio>
using namespace datasketches;
int main() {
  hll_sketch e(10, HLL_8), f(10, HLL_8);
  f.update(1);
  std::stringstream ss;
  e.serialize_updatable(ss);                        // empty sketch, then a non-empty one
  f.serialize_updatable(ss);
  long size = (long)e.get_updatable_serialization_bytes();
  hll_sketch r1 = hll_sketch::deserialize(ss);
  long consumed = (long)ss.tellg();
  printf("updatable image of an empty sketch: %ld bytes, stream reader consumed %ld\n", size, consumed);
  bool second_ok = true;
  try { hll_sketch r2 = hll_sketch::deserialize(ss); second_ok = !r2.is_empty(); }
  catch (const std::exception& ex) { printf("second image: %s\n", ex.what()); second_ok = false; }
  return (consumed == size && second_ok) ? 0 : 1;
}
