// C09: density_sketch::serialize(header_size_bytes > 0) always throws "Actual output size does not equal expected output
// size": the vector is sized header + image, ptr starts at data() + header, but end_ptr = ptr + size counts the header twice.
//   g++ -std=c++11 -I/repo/common/include -I/repo/density/include density_serialize_header.cpp && ./a.out   (exit 1 = defect present)
#include <density_sketch.hpp>
#include <cstdio>
using namespace datasketches;
int main() {
  density_sketch<float> s(10, 2);
  for (int i = 0; i < 100; i++) s.update(std::vector<float>{(float)(i % 7), (float)(i % 11)});
  const auto plain = s.serialize();
  try {
    const auto h = s.serialize(8);
    const bool same = h.size() == plain.size() + 8 && std::equal(plain.begin(), plain.end(), h.begin() + 8);
    printf("serialize(8): %zu bytes, image %zu bytes, %s\n", h.size(), plain.size(), same ? "8 reserved bytes + the same image" : "DIFFERENT IMAGE");
    return same ? 0 : 1;
  } catch (const std::exception& e) {
    printf("serialize(8) threw: %s\n", e.what());
    return 1;
  }
}
