// C11 (found while auditing coverage of the HLL consistency throws): an HLL_4 image whose nibble array holds an AUX_TOKEN (15)
// that has no entry in the aux map deserializes without complaint and then CRASHES on first use.  With aux count 0 the map
// pointer is null: hll_sketch(r, HLL_8), iteration, to_string(detail) and update() of that slot dereference it (SIGSEGV);
// with a non-empty map that lacks the slot the library throws std::invalid_argument from mustFindValueFor much later.
//   g++ -std=c++17 -I/repo/common/include -I/repo/hll/include reader_hll_aux_token_without_exception.cpp && ./a.out
// pinned tree: "deserialized", then Segmentation fault.  With the .diff: deserialize throws std::invalid_argument; exit 0.
#include <hll.hpp>
#include <cstdio>
using namespace datasketches;
int main() {
  hll_sketch s(4, HLL_4, true);
  for (int i = 0; i < 40; i++) s.update(i);
  auto img = s.serialize_compact();             // HLL_4, lg_k 4, aux count 0
  img[40] |= 0x0f;                               // slot 0 := AUX_TOKEN, one corrupted byte
  try {
    hll_sketch r = hll_sketch::deserialize(img.data(), img.size());
    printf("deserialized\n"); fflush(stdout);
    hll_sketch c(r, HLL_8);                      // walks the slots: exceptions->mustFindValueFor(0) through a null pointer
    printf("converted, estimate %f\n", c.get_estimate());
    return 1;                                    // a corrupted image was accepted
  } catch (const std::exception& e) { printf("refused: %s\n", e.what()); }
  return 0;
}
