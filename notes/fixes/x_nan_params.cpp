// X02/X05 finding: range checks written "x <= 0 || x > 1" let NaN through (every comparison with NaN is false).
//   update_theta_sketch::builder().set_p(NaN)  (and the tuple builders that share it)  -> accepted; starting theta = (uint64)(NaN * MAX)
//   bloom_filter::builder::suggest_num_hashes(NaN) -> 0; suggest_num_filter_bits(n, NaN) -> (uint64)NaN
//   g++ -std=c++17 -I/repo/common/include -I/repo/theta/include -I/repo/filters/include x_nan_params.cpp && ./a.out
// exit 1 on the unchanged tree, 0 with x_nan_params.diff.
#include <theta_sketch.hpp>
#include <bloom_filter.hpp>
#include <iostream>
#include <cmath>
using namespace datasketches;
int main() {
  int bad = 0;
  try { auto s = update_theta_sketch::builder().set_p(std::nanf("")).build(); std::cout << "set_p(NaN): accepted\n"; bad++; }
  catch (const std::invalid_argument& e) { std::cout << "set_p(NaN): refused: " << e.what() << "\n"; }
  try { auto h = bloom_filter::builder::suggest_num_hashes(std::nan("")); std::cout << "suggest_num_hashes(NaN) = " << h << "\n"; bad++; }
  catch (const std::invalid_argument& e) { std::cout << "suggest_num_hashes(NaN): refused: " << e.what() << "\n"; }
  try { auto b = bloom_filter::builder::suggest_num_filter_bits(100, std::nan("")); std::cout << "suggest_num_filter_bits(100, NaN) = " << b << "\n"; bad++; }
  catch (const std::invalid_argument& e) { std::cout << "suggest_num_filter_bits(100, NaN): refused: " << e.what() << "\n"; }
  return bad ? 1 : 0;
}
