// Minimal repro (compile with -fsanitize=address to see the first bad access; without it glibc usually aborts
// with "free(): invalid next size" / "malloc(): corrupted top size"):
// var_opt_sketch::reset() recomputes curr_items_alloc_ from k but re-allocates the arrays only when the new size
// is SMALLER than the old one.  A sketch restored from the image of a nearly empty sketch has arrays sized for its
// few items (2 here), so after reset() curr_items_alloc_ = 16 while the arrays still hold 2 slots, and the next
// updates write past them.  The same happens to a var_opt_union restored from an image and reset (its gadget).
#include <var_opt_sketch.hpp>
#include <cstdio>
using namespace datasketches;
int main() {
  var_opt_sketch<int> a(100);
  a.update(1, 1.0); a.update(2, 1.0);
  auto bytes = a.serialize();
  var_opt_sketch<int> b = var_opt_sketch<int>::deserialize(bytes.data(), bytes.size());
  printf("restored:\n%s", b.to_string().c_str());      // Current size : 2
  b.reset();
  printf("after reset:\n%s", b.to_string().c_str());   // Current size : 16, arrays still 2 slots
  for (int i = 0; i < 16; i++) b.update(10 + i, 1.0);   // heap-buffer-overflow WRITE
  double sum = 0; for (auto p : b) sum += p.second;
  printf("survived by luck: n=%llu sum=%g\n", (unsigned long long) b.get_n(), sum);
  return 0;
}
