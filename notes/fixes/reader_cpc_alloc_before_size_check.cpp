// C11 repro: cpc_sketch::deserialize(bytes) resizes the compressed word vectors before checking the buffer
// build: g++ -std=c++17 -g -fsanitize=address -I/repo/common/include -I/repo/cpc/include reader_cpc_alloc_before_size_check.cpp -o reader_cpc_alloc_before_size_check
// pinned tree : tries to allocate ~8.5 GB for an 80-byte image (bad_alloc, or success under overcommit followed by out_of_range)
// with reader_cpc_alloc_before_size_check.diff : rejected with "Attempt to access memory beyond limits ..." without allocating
#include <cstdio>
#include <cstdint>
#include <cstring>
#include <vector>
#include <string>
#include <sstream>
#include <stdexcept>
#include <cpc_sketch.hpp>
using namespace datasketches;
// the reader gets a heap buffer of EXACTLY n bytes, so AddressSanitizer sees the first byte read past it
static std::vector<uint8_t> exact(const std::vector<uint8_t>& img, size_t n) { return std::vector<uint8_t>(img.begin(), img.begin() + n); }
template<class F> static void attempt(const char* what, F f) {
  try { f(); printf("%s: accepted\n", what); }
  catch (const std::exception& e) { printf("%s: rejected with \"%s\"\n", what, e.what()); }
}
int main() {
  cpc_sketch s(6);
  for (uint64_t i = 0; i < 2000; i++) s.update(i);
  auto img = s.serialize();                                 // sliding flavor: table and window word counts at 32..39
  printf("image of %zu bytes, preamble ints %d\n", img.size(), img[0]);
  img[39] = 127;                                            // high byte of window_data_words
  attempt("deserialize(bytes, cpc image with window_data_words += 127 << 24)", [&] { cpc_sketch::deserialize(img.data(), img.size()); });
  return 0;
}
