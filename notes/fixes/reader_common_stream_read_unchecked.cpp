// C11 repro: read<T>(istream) returns an indeterminate value when the stream has ended; most stream readers use it before (or without) checking the stream
// build: g++ -std=c++17 -g -fsanitize=address -I/repo/common/include -I/repo/theta/include -I/repo/tdigest/include -I/repo/count/include reader_common_stream_read_unchecked.cpp -o reader_common_stream_read_unchecked
// pinned tree : theta: num_entries is whatever was on the stack: typically std::bad_alloc / length_error after asking for gigabytes; t-digest and count-min: the truncated stream is ACCEPTED and the sketch is built from garbage (different from run to run)
// with reader_common_stream_read_unchecked.diff : all three rejected with "error reading from std::istream"
#include <cstdio>
#include <cstdint>
#include <cstring>
#include <vector>
#include <string>
#include <sstream>
#include <stdexcept>
#include <theta_sketch.hpp>
#include <tdigest.hpp>
#include <count_min.hpp>
using namespace datasketches;
// the reader gets a heap buffer of EXACTLY n bytes, so AddressSanitizer sees the first byte read past it
static std::vector<uint8_t> exact(const std::vector<uint8_t>& img, size_t n) { return std::vector<uint8_t>(img.begin(), img.begin() + n); }
template<class F> static void attempt(const char* what, F f) {
  try { f(); printf("%s: accepted\n", what); }
  catch (const std::exception& e) { printf("%s: rejected with \"%s\"\n", what, e.what()); }
}
int main() {
  auto u = update_theta_sketch::builder().set_lg_k(5).build();
  for (int i = 0; i < 6; i++) u.update(i);
  auto t = u.compact().serialize();
  { std::istringstream is(std::string(t.begin(), t.begin() + 9));
    attempt("theta deserialize(stream of 9 of 64 bytes)", [&] { compact_theta_sketch::deserialize(is); }); }
  tdigest<double> td(10);
  for (int i = 0; i < 60; i++) td.update(i);
  auto d = td.serialize();
  { std::istringstream is(std::string(d.begin(), d.begin() + 100));
    attempt("tdigest deserialize(stream of 100 bytes)", [&] { auto r = tdigest<double>::deserialize(is); printf("  total weight %llu (original 60)\n", (unsigned long long)r.get_total_weight()); }); }
  count_min_sketch<uint64_t> cm(3, 8);
  for (uint64_t i = 0; i < 20; i++) cm.update(i, 1);
  auto c = cm.serialize();
  { std::istringstream is(std::string(c.begin(), c.begin() + 100));
    attempt("count-min deserialize(stream of 100 of 216 bytes)", [&] { auto r = count_min_sketch<uint64_t>::deserialize(is); printf("  total weight %llu (original 20)\n", (unsigned long long)r.get_total_weight()); }); }
  return 0;
}
