#include <hll.hpp>
#include <cstdio>
#include <cmath>
#include <map>
using namespace datasketches;
int main(){
  const int lgk=10; const long n=512; const int T=36000; uint64_t key=1;
  static const target_hll_type TY[] = {HLL_4, HLL_6, HLL_8};
  std::map<int,std::pair<double,int>> by;
  for(int t=0;t<T;t++){
      const int la = lgk + (int)(t % 3), lb2 = lgk + (int)((t / 3) % 2);
      hll_sketch a(la, TY[t % 3]), b(lb2, TY[(t / 3) % 3]);
      for (long j = 0; j < n; j++) { if (j % 2) a.update(key + j); else b.update(key + j); if (j % 4 == 0) a.update(key + j); }
      key+=n*2+17;
      hll_union u(lgk);
      if ((t / 9) % 2) { u.update(b); u.update(a); } else { u.update(a); u.update(b); }
      auto r=u.get_result(TY[(t / 2) % 3]);
      double e=(r.get_estimate()-n)/n;
      int cls = (t%3)*100 + ((t/3)%2)*10 + ((t/9)%2);
      by[cls].first+=e; by[cls].second++;
  }
  for(auto&kv:by) printf("la+%d lb+%d order%d: mean err %.3f%% n=%d\n",kv.first/100,(kv.first/10)%10,kv.first%10,100*kv.second.first/kv.second.second,kv.second.second);
}
