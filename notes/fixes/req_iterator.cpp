// C07 repro: iterating an EMPTY req_sketch: begin() != end(), the loop body would dereference the empty level-0 compactor.
// g++ -std=c++17 -I/repo/common/include -I/repo/req/include req_iterator.cpp && ./a.out
// unchanged tree: "retained=0 begin==end: 0" (exit 1); with req_iterator.diff: "begin==end: 1" (exit 0)
#include <req_sketch.hpp>
#include <cstdio>
int main() {
  datasketches::req_sketch<float> s(12);
  const bool same = s.begin() == s.end();
  printf("retained=%u begin==end: %d\n", s.get_num_retained(), (int)same);
  // for (auto p : s) { ... }  // on the unchanged tree this reads uninitialized memory and runs off the end
  return same ? 0 : 1;
}
