// Minimal repro: when one side of ebpps_sketch::merge() is EMPTY and was configured with the smaller k,
//  (1) empty argument: merge() returns early and keeps the larger k;
//  (2) empty receiver: k becomes the smaller k but the sample is never downsampled: get_c() = 10 > k = 3 and
//      get_result() returns 10 items from a sketch whose k is 3.
#include <ebpps_sketch.hpp>
#include <cstdio>
using namespace datasketches;
int main() {
  ebpps_sketch<int> a(10), e(3);
  for (int i = 0; i < 30; i++) a.update(i, 1.0 + i % 5);
  ebpps_sketch<int> a2(a), e2(e);
  a.merge(e);      // empty into non-empty
  e2.merge(a2);    // non-empty into empty
  printf("a.merge(empty k=3): k=%u c=%g result size=%zu\n", a.get_k(), a.get_c(), a.get_result().size());
  printf("empty(k=3).merge(a): k=%u c=%g result size=%zu\n", e2.get_k(), e2.get_c(), e2.get_result().size());
  if (a.get_k() != 3 || e2.get_k() != 3 || e2.get_c() > 3.0 || e2.get_result().size() > 3 || a.get_c() > 3.0) {
    printf("DEFECT: after a merge with an empty sketch of smaller k, k / c / the sample size are not bounded by the smaller k\n"); return 1; }
  printf("ok\n"); return 0;
}
