// C19 repro (two defects of ebpps_sketch::merge):
// (a) merge(const ebpps_sketch&) calls swap() unqualified; it compiles only if argument-dependent lookup reaches namespace
//     std through the template arguments (std::allocator), not for user item/allocator types:  -DPART_A -fsyntax-only
// (b) merging a sketch with heavy items segfaults (valid calls only): replace_content(item, rho * weight) is given a theta
//     of 1.0000000000000002, builds a sample with c_ > 1 and no full item, the invariant data_.size() == floor(c_) breaks
//     and subsample() swaps out of bounds.
//   g++ -std=c++17 -fsanitize=address -I/repo/common/include -I/repo/sampling/include c19_ebpps_swap_and_theta_clamp.cpp && ./a.out
#include <cstdio>
#include "ebpps_sketch.hpp"
#ifdef PART_A
namespace user {
  struct item { int v; };
  template<class T> struct alloc {
    using value_type = T;
    alloc() = default;
    template<class U> alloc(const alloc<U>&) {}
    T* allocate(std::size_t n) { return static_cast<T*>(::operator new(n * sizeof(T))); }
    void deallocate(T* p, std::size_t) { ::operator delete(p); }
    template<class U> bool operator==(const alloc<U>&) const { return true; }
    template<class U> bool operator!=(const alloc<U>&) const { return false; }
  };
}
void part_a() { datasketches::ebpps_sketch<user::item, user::alloc<user::item>> a(4), b(4); a.merge(b); }
#endif
int main() {
  using namespace datasketches;
  random_utils::override_seed(0x5eedc19ULL);
  ebpps_sketch<int> a(6);
  for (int n = 0; n < 14; n++) a.update(2000 - 7 * (n / 2), 1.0 + 20.0 * (n % 5 == 0));
  ebpps_sketch<int> b(a);
  random_utils::override_seed(0x5eedc19ULL);
  a.merge(b);                                   // pinned tree: SEGV in ebpps_sample::subsample
  printf("merged n=%llu c=%f result size %zu\n", (unsigned long long)a.get_n(), a.get_c(), a.get_result().size());
  return 0;
}
