// C11 repro: kll_sketch::deserialize does not relate n to the retained items
// build: g++ -std=c++17 -g -fsanitize=address -I/repo/common/include -I/repo/kll/include reader_kll_n_unchecked.cpp -o reader_kll_n_unchecked
// pinned tree : n with its top byte set to 0x40 (4.6e18) is accepted; merge() sizes its work from n (60+ levels) and runs for minutes (killed by the 20 s alarm)
// with reader_kll_n_unchecked.diff : rejected with "Possible corruption: n is 4611686018427387964, the retained items weigh 60"
#include <cstdio>
#include <cstdint>
#include <cstring>
#include <vector>
#include <string>
#include <sstream>
#include <stdexcept>
#include <csignal>
#include <unistd.h>
#include <kll_sketch.hpp>
using namespace datasketches;
template<class F> static void attempt(const char* what, F f) {
  try { f(); printf("%s: accepted and used\n", what); }
  catch (const std::exception& e) { printf("%s: rejected with \"%s\"\n", what, e.what()); }
}
int main() {
  setvbuf(stdout, nullptr, _IONBF, 0);
  alarm(20);   // two of these defects are (practically) endless loops
  kll_sketch<float> s(8);
  for (int i = 0; i < 60; i++) s.update((float)i);
  auto img = s.serialize();
  img[15] = 0x40;                                           // most significant byte of n (u64 @8)
  attempt("deserialize(kll image with n += 2^62) + merge", [&] {
    auto r = kll_sketch<float>::deserialize(img.data(), img.size());
    printf("  n %llu retained %u\n", (unsigned long long)r.get_n(), r.get_num_retained());
    kll_sketch<float> d(r);
    r.merge(d);
    printf("  merged\n");
  });
  return 0;
}
