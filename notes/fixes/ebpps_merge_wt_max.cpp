// Minimal repro: ebpps_sketch::internal_merge computes new_wt_max but never stores it in wt_max_, so after merging a
// sketch that saw a heavier item every later update scales with a stale maximum and c != min(k, cumWt / wtMax).
#include <ebpps_sketch.hpp>
#include <cstdio>
#include <cmath>
using namespace datasketches;
int main() {
  ebpps_sketch<int> a(20), b(20);
  for (int i = 0; i < 20; i++) a.update(i, 1.0);        // cumWt 20, wtMax 1 (the larger sketch: b is replayed into it)
  for (int i = 0; i < 3; i++) b.update(100 + i, 4.0);   // cumWt 12, wtMax 4
  a.merge(b);                                           // cumWt 32, wtMax 4: c = 8
  printf("after merge : c = %.6f (expected %.6f)\n", a.get_c(), 32.0 / 4);
  a.update(200, 1.0);                                   // cumWt 33: c = 8.25
  printf("after update: c = %.6f (expected %.6f)\n", a.get_c(), 33.0 / 4);
  if (std::fabs(a.get_c() - 33.0 / 4) > 1e-9) { printf("DEFECT: c != min(k, cumWt / wtMax) after merge + update\n"); return 1; }
  printf("ok\n"); return 0;
}
