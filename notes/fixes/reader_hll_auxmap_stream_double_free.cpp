// C11 repro: AuxHashMap::deserialize(istream) deletes the map twice when the entry count does not match
// build: g++ -std=c++17 -g -fsanitize=address -I/repo/common/include -I/repo/hll/include reader_hll_auxmap_stream_double_free.cpp -o reader_hll_auxmap_stream_double_free
// pinned tree : ASan attempting double-free (make_deleter()(auxHashMap) and then the unique_ptr)
// with reader_hll_auxmap_stream_double_free.diff : rejected with "Deserialized AuxHashMap has wrong number of entries"
#include <cstdio>
#include <cstdint>
#include <cstring>
#include <vector>
#include <string>
#include <sstream>
#include <stdexcept>
#include <hll.hpp>
using namespace datasketches;
// the reader gets a heap buffer of EXACTLY n bytes, so AddressSanitizer sees the first byte read past it
static std::vector<uint8_t> exact(const std::vector<uint8_t>& img, size_t n) { return std::vector<uint8_t>(img.begin(), img.begin() + n); }
template<class F> static void attempt(const char* what, F f) {
  try { f(); printf("%s: accepted\n", what); }
  catch (const std::exception& e) { printf("%s: rejected with \"%s\"\n", what, e.what()); }
}
int main() {
  // an HLL_4 sketch whose aux map is in use: a register far above the others
  hll_sketch s(5, HLL_4);
  for (uint64_t i = 0; i < 12; i++) s.update(i);
  for (uint64_t i = 1; i < 3000000; i++) {                  // find an item whose coupon value is >= 16
    hll_sketch one(4, HLL_8); one.update(i);
    auto c = one.serialize_compact();
    if ((c[11] >> 2) >= 16) { s.update(i); break; }
  }
  auto img = s.serialize_updatable();
  printf("aux count in image: %d\n", img[36]);
  img[36] += 1;                                             // AUX_COUNT_INT
  std::istringstream is(std::string(img.begin(), img.end()));
  attempt("deserialize(stream, HLL_4 image with aux count + 1)", [&] { hll_sketch::deserialize(is); });
  return 0;
}
