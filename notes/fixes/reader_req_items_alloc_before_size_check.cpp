// C11 repro: req_compactor::deserialize_items(bytes) allocates for an untrusted item count before looking at the buffer
// build: g++ -std=c++17 -g -fsanitize=address -I/repo/common/include -I/repo/req/include reader_req_items_alloc_before_size_check.cpp -o reader_req_items_alloc_before_size_check
// pinned tree : tries to allocate ~26 GB for a 48-byte image (std::bad_alloc, or the allocation succeeds where memory is overcommitted)
// with reader_req_items_alloc_before_size_check.diff : rejected with "Insufficient buffer size detected ..."
#include <cstdio>
#include <cstdint>
#include <cstring>
#include <vector>
#include <string>
#include <sstream>
#include <stdexcept>
#include <req_sketch.hpp>
using namespace datasketches;
// the reader gets a heap buffer of EXACTLY n bytes, so AddressSanitizer sees the first byte read past it
static std::vector<uint8_t> exact(const std::vector<uint8_t>& img, size_t n) { return std::vector<uint8_t>(img.begin(), img.begin() + n); }
template<class F> static void attempt(const char* what, F f) {
  try { f(); printf("%s: accepted\n", what); }
  catch (const std::exception& e) { printf("%s: rejected with \"%s\"\n", what, e.what()); }
}
int main() {
  req_sketch<std::string> s(4);
  s.update("a37"); s.update("bb74"); s.update("10");
  auto img = s.serialize();                                 // "raw items" form: preamble + 3 strings
  img[3] &= ~(1 << 4);                                      // clear RAW_ITEMS (bit 4 of the flags byte): the strings are now parsed as a compactor header
  attempt("deserialize(req raw-items image with the RAW_ITEMS flag cleared)", [&] { req_sketch<std::string>::deserialize(img.data(), img.size()); });
  return 0;
}
