// C09: deserialize(std::istream&) does not consume the unused aux area of an updatable HLL_4 image.
//   g++ -std=c++17 -I/repo/common/include -I/repo/hll/include hll_stream_aux.cpp && ./a.out
// pinned tree: image 616 bytes, consumed 552, second object cannot be read; exit status 1.  With hll_stream_aux.diff: 616 / 616; exit 0
#include <hll.hpp>
#include <sstream>
#include <cstdio>
using namespace datasketches;
int main() {
  hll_sketch s(10, HLL_4);
  for (int i = 0; i < 5000; i++) s.update(i);
  std::stringstream ss;
  s.serialize_updatable(ss);                        // two images back to back
  s.serialize_updatable(ss);
  long size = (long)s.get_updatable_serialization_bytes();
  hll_sketch r1 = hll_sketch::deserialize(ss);
  long consumed = (long)ss.tellg();
  printf("updatable HLL_4 image: %ld bytes, stream reader consumed %ld\n", size, consumed);
  bool second_ok = true;
  try { hll_sketch r2 = hll_sketch::deserialize(ss); second_ok = r2.get_estimate() == s.get_estimate(); }
  catch (const std::exception& e) { printf("second image: %s\n", e.what()); second_ok = false; }
  return (consumed == size && second_ok) ? 0 : 1;
}
