// C11 repro: bloom_filter::deserialize(istream) never looks at the stream state
// build: g++ -std=c++17 -g -fsanitize=address -I/repo/common/include -I/repo/filters/include reader_bloom_stream_truncated_bit_array.cpp -o reader_bloom_stream_truncated_bit_array
// pinned tree : a stream that ends inside the bit array is accepted: the filter is built from whatever the allocation contained (ASan: use of uninitialised heap is not reported, the result simply differs from run to run)
// with reader_bloom_stream_truncated_bit_array.diff : rejected with "error reading from std::istream"
#include <cstdio>
#include <cstdint>
#include <cstring>
#include <vector>
#include <string>
#include <sstream>
#include <stdexcept>
#include <bloom_filter.hpp>
using namespace datasketches;
// the reader gets a heap buffer of EXACTLY n bytes, so AddressSanitizer sees the first byte read past it
static std::vector<uint8_t> exact(const std::vector<uint8_t>& img, size_t n) { return std::vector<uint8_t>(img.begin(), img.begin() + n); }
template<class F> static void attempt(const char* what, F f) {
  try { f(); printf("%s: accepted\n", what); }
  catch (const std::exception& e) { printf("%s: rejected with \"%s\"\n", what, e.what()); }
}
int main() {
  auto f = bloom_filter::builder::create_by_size(128, 3, 123);
  for (uint64_t i = 0; i < 10; i++) f.update(i);
  auto img = f.serialize();
  std::istringstream is(std::string(img.begin(), img.begin() + 40));   // 8 bytes of the bit array are missing
  attempt("deserialize(stream of 40 of 48 bytes)", [&] {
    auto r = bloom_filter::deserialize(is);
    printf("  bits used %llu (original %llu)\n", (unsigned long long)r.get_bits_used(), (unsigned long long)f.get_bits_used());
  });
  return 0;
}
