// C11 repro: count_min_sketch::deserialize(bytes) size check leaves out the 16-byte preamble
// build: g++ -std=c++17 -g -fsanitize=address -I/repo/common/include -I/repo/count/include reader_countmin_size_check_omits_preamble.cpp -o reader_countmin_size_check_omits_preamble
// pinned tree : ASan heap-buffer-overflow READ in count_min_sketch::deserialize (the last 16 bytes are read from a buffer that lacks them)
// with reader_countmin_size_check_omits_preamble.diff : rejected with "Insufficient buffer size detected: bytes available 208, minimum needed 216"
#include <cstdio>
#include <cstdint>
#include <cstring>
#include <vector>
#include <string>
#include <sstream>
#include <stdexcept>
#include <count_min.hpp>
using namespace datasketches;
// the reader gets a heap buffer of EXACTLY n bytes, so AddressSanitizer sees the first byte read past it
static std::vector<uint8_t> exact(const std::vector<uint8_t>& img, size_t n) { return std::vector<uint8_t>(img.begin(), img.begin() + n); }
template<class F> static void attempt(const char* what, F f) {
  try { f(); printf("%s: accepted\n", what); }
  catch (const std::exception& e) { printf("%s: rejected with \"%s\"\n", what, e.what()); }
}
int main() {
  count_min_sketch<uint64_t> s(3, 8);
  for (uint64_t i = 0; i < 20; i++) s.update(i, 1);
  auto v = s.serialize();                                   // 16 + 8 * (1 + 24) = 216 bytes
  std::vector<uint8_t> img(v.begin(), v.end());
  auto b = exact(img, img.size() - 8);
  attempt("deserialize(count-min image without its last 8 bytes)", [&] { count_min_sketch<uint64_t>::deserialize(b.data(), b.size()); });
  return 0;
}
