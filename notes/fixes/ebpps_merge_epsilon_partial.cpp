// Minimal repro: ebpps_sample::merge promotes a partial item to a full item whenever the summed c_ is integral,
// also when the two fractional parts are round-off residue summing to ~0 (not ~1).  Here sketch a has
// c = 3.0000000000000004 (3 full items + a partial item of fraction 4e-16); after b.merge(a) the merged sketch has
// k = 3, c = 3 but FOUR items in every result.
#include <ebpps_sketch.hpp>
#include <cstdio>
using namespace datasketches;
int main() {
  random_utils::override_seed(18);
  const double wa[] = {9, 6, 7, 3, 4, 1, 7};
  const double wb[] = {7, 5, 6, 1, 3, 8, 4, 8, 8, 8, 6, 2};
  ebpps_sketch<int> a(3), b(7); int id = 0;
  for (double w : wa) a.update(id++, w);
  for (double w : wb) b.update(id++, w);
  b.merge(a);
  size_t worst = 0; for (int t = 0; t < 20; t++) worst = std::max(worst, b.get_result().size());
  printf("k = %u, c = %.17g, largest result size = %zu\n%s", b.get_k(), b.get_c(), worst, b.items_to_string().c_str());
  if (worst > 3) { printf("DEFECT: result larger than ceil(c) and than k\n"); return 1; }
  printf("ok\n"); return 0;
}
