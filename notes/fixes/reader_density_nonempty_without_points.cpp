// C11 repro: density_sketch::deserialize accepts a non-empty image without retained points
// build: g++ -std=c++17 -g -fsanitize=address -I/repo/common/include -I/repo/density/include reader_density_nonempty_without_points.cpp -o reader_density_nonempty_without_points
// pinned tree : accepted: n = 5, no levels; update() evaluates 'while (num_retained >= k * levels.size()) compact()' with 0 >= 0 and never returns (killed by the 20 s alarm)
// with reader_density_nonempty_without_points.diff : rejected with "Possible corruption: non-empty sketch without retained points"
#include <cstdio>
#include <cstdint>
#include <cstring>
#include <vector>
#include <string>
#include <sstream>
#include <stdexcept>
#include <csignal>
#include <unistd.h>
#include <density_sketch.hpp>
using namespace datasketches;
template<class F> static void attempt(const char* what, F f) {
  try { f(); printf("%s: accepted and used\n", what); }
  catch (const std::exception& e) { printf("%s: rejected with \"%s\"\n", what, e.what()); }
}
int main() {
  setvbuf(stdout, nullptr, _IONBF, 0);
  alarm(20);   // two of these defects are (practically) endless loops
  density_sketch<float> s(4, 2);
  for (int i = 0; i < 5; i++) s.update(std::vector<float>{(float)i, 1.0f});
  auto img = s.serialize();
  img[12] = 0;                                              // num_retained (u32 @12): 5 -> 0
  attempt("deserialize(density image with num_retained = 0) + update", [&] {
    auto r = density_sketch<float>::deserialize(img.data(), img.size());
    printf("  n %llu retained %u\n", (unsigned long long)r.get_n(), r.get_num_retained());
    r.update(std::vector<float>{1.0f, 1.0f});
    printf("  updated\n");
  });
  return 0;
}
