// C09: a t-digest holding ONE value that is still buffered is written by serialize(..., with_buffer = true) in the
// "single value" form, and deserialize() restores that value as a CENTROID.  The restored sketch has one item less in its
// buffer, so under the same continued updates it compresses one update later than the original; from then on the two hold
// different centroids and answer queries differently (the statement: "continuing the same updates ... on the original and on
// the restored sketch keeps their logical content identical wherever the algorithm is deterministic").
//   g++ -std=c++11 -I/repo/common/include -I/repo/tdigest/include tdigest_single_buffered.cpp && ./a.out   (exit 1 = defect present)
#include <tdigest.hpp>
#include <cstdio>
#include <cmath>
#include <random>
using namespace datasketches;
int main() {
  tdigest<double> a(10);
  a.update(5.0);
  auto img = a.serialize(0, true);            // one buffered value, image "with buffer"
  auto b = tdigest<double>::deserialize(img.data(), img.size());
  std::mt19937_64 g(1); std::uniform_real_distribution<double> u(0, 100);
  for (int i = 0; i < 200; i++) { double v = u(g); a.update(v); b.update(v); }   // buffer capacity of k = 10 is 200
  int diff = 0; double worst = 0;
  for (int j = 0; j <= 100; j++) {
    double qa = a.get_quantile(j / 100.0), qb = b.get_quantile(j / 100.0);
    if (qa != qb) { diff++; worst = std::max(worst, std::fabs(qa - qb)); }
  }
  printf("image of the single buffered value: %zu bytes; after 200 identical updates %d of 101 quantiles differ (largest difference %g); images equal: %d\n",
         img.size(), diff, worst, (int)(a.serialize() == b.serialize()));
  return diff ? 1 : 0;
}
