// C09 repro (benign): an EMPTY kll_sketch that was asked for its sorted view serializes with the IS_LEVEL_ZERO_SORTED
// flag set (flags byte 0x03); deserialize() of an empty image returns a freshly constructed sketch (flag clear), so the
// restored sketch re-serializes to a different image (flags byte 0x01): not "the same image byte for byte".
// g++ -std=c++17 -I/repo/common/include -I/repo/kll/include kll_empty_sorted_flag.cpp && ./a.out
// unchanged tree: "flags 03 -> 01" (exit 1); with kll_empty_sorted_flag.diff: "flags 03 -> 03" (exit 0)
#include <kll_sketch.hpp>
#include <cstdio>
int main() {
  datasketches::kll_sketch<float> s(8);
  s.get_sorted_view();                       // sort_level_zero() marks the (empty) level zero as sorted
  auto img = s.serialize();
  auto r = datasketches::kll_sketch<float>::deserialize(img.data(), img.size());
  auto img2 = r.serialize();
  printf("flags %02x -> %02x\n", img[3], img2[3]);
  return img == img2 ? 0 : 1;
}
