// C11 repro: compact_theta_sketch::deserialize(istream) accepts entry_bits = 0 in a compressed (v4) image
// build: g++ -std=c++17 -g -fsanitize=address -I/repo/common/include -I/repo/theta/include reader_theta_v4_stream_entry_bits.cpp -o reader_theta_v4_stream_entry_bits
// pinned tree : SEGV: unpack_bits() dereferences the data() of an empty unpacking buffer
// with reader_theta_v4_stream_entry_bits.diff : rejected with "wrong number of entry bits: 0"
#include <cstdio>
#include <cstdint>
#include <cstring>
#include <vector>
#include <string>
#include <sstream>
#include <stdexcept>
#include <theta_sketch.hpp>
using namespace datasketches;
// the reader gets a heap buffer of EXACTLY n bytes, so AddressSanitizer sees the first byte read past it
static std::vector<uint8_t> exact(const std::vector<uint8_t>& img, size_t n) { return std::vector<uint8_t>(img.begin(), img.begin() + n); }
template<class F> static void attempt(const char* what, F f) {
  try { f(); printf("%s: accepted\n", what); }
  catch (const std::exception& e) { printf("%s: rejected with \"%s\"\n", what, e.what()); }
}
int main() {
  auto u = update_theta_sketch::builder().set_lg_k(5).build();
  for (int i = 0; i < 6; i++) u.update(i);
  auto img = u.compact().serialize_compressed();
  img[3] = 0;                                               // entry_bits
  std::istringstream is(std::string(img.begin(), img.end()));
  attempt("deserialize(stream, v4 image with entry_bits = 0)", [&] { compact_theta_sketch::deserialize(is); });
  return 0;
}
