#include <cpc_sketch.hpp>
#include <cstdio>
using namespace datasketches;
int main(){ cpc_sketch s(10); auto b=s.serialize(); auto r=cpc_sketch::deserialize(b.data(),b.size()); for(int i=0;i<100;i++){ r.update(i); s.update(i);} printf("fresh %f restored %f  lb %f ub %f\n", s.get_estimate(), r.get_estimate(), r.get_lower_bound(2), r.get_upper_bound(2)); return 0; }
