// C08 repro: REQ rank estimates are biased after an exact (never compacted) sketch absorbs a sketch whose
// level-0 compactor has performed an odd number of compactions.  req_compactor::merge ORs the compaction
// counters (state_ |= other.state_) but keeps its own coin_, which was never drawn (false since construction);
// the next level-0 compaction sees an odd state and uses the "opposite of the previous coin" = always odd positions.
// Exhaustive over the 2^f outcomes of the fair coin (hook: -DDATASKETCHES_VERIF), inclusive rank of the smallest item.
// g++ -std=c++17 -DDATASKETCHES_VERIF -I/repo/common/include -I/repo/req/include req_merge_coin.cpp && ./a.out
#include <req_sketch.hpp>
#include <cstdio>
using namespace datasketches;
struct Bits { uint32_t bits, pos; } g = {0, 0};
static uint32_t next_bit(void* c) { Bits* b = static_cast<Bits*>(c); return b->pos < 32 ? (b->bits >> b->pos++) & 1u : (b->pos++, 0u); }
static double run(uint32_t coins, uint64_t& flips, float probe) {
  g.bits = coins; g.pos = 0; random_utils::random_bit.calls = 0;
  req_sketch<float> a(4, false), b(4, false);          // LRA: the high end of a compactor is compacted
  for (int i = 0; i < 4; i++) a.update(1000.0f + i);   // a: exact, level 0 never compacted (state 0, coin never drawn)
  for (int i = 0; i < 24; i++) b.update((float)i);     // b: exactly one level-0 compaction (state 1)
  a.merge(b);                                          // a.level0.state = 0 | 1 = 1, a.level0.coin_ still false
  for (int i = 0; i < 24; i++) a.update(2000.0f + i);  // next level-0 compaction of a: odd state -> coin_ = !false, no flip
  flips = random_utils::random_bit.calls;
  return a.get_rank(probe, true) * a.get_n();
}
int main() {
  random_utils::random_bit.source = &next_bit; random_utils::random_bit.context = &g;
  uint64_t f; run(0, f, 0);
  printf("flips per run: %llu\n", (unsigned long long)f);
  int bad = 0;
  for (float probe : {1003.0f, 2010.0f, 2022.0f, 2023.0f}) {
    double sum = 0; for (uint32_t c = 0; c < (1u << f); c++) { uint64_t ff; sum += run(c, ff, probe); }
    double truth = probe < 2000 ? 24 + (probe - 1000 + 1) : 28 + (probe - 2000 + 1);
    printf("probe %.0f: mean estimated weight over all %u coin strings = %.4f, true weight = %.0f\n", probe, 1u << f, sum / (1u << f), truth);
    if (sum != truth * (1u << f)) bad++;
  }
  return bad ? 1 : 0;
}
