// C19 repro: density_sketch::compact_level() uses a std::vector<bool> with the DEFAULT allocator as scratch space.
//   g++ -std=c++17 -I/repo/common/include -I/repo/density/include c19_density_vector_bool_global_new.cpp && ./a.out
// pinned tree: "global operator new calls: N" with N > 0 (one per compaction)
#include "c19_global_new_observer.hpp"
#include <vector>
#include "density_sketch.hpp"
struct kernel { float operator()(const std::vector<float, user_alloc<float>>&, const std::vector<float, user_alloc<float>>&) const { return 1.0f; } };
int main() {
  using A = user_alloc<float>;
  observing = true;
  {
    datasketches::density_sketch<float, kernel, A> s(4, 2, kernel(), A(1));
    for (int i = 0; i < 60; i++) { std::vector<float, A> p(2, 0.0f, A(1)); p[0] = (float)i; s.update(p); }
  }
  observing = false;
  printf("global operator new calls: %ld\n", global_news);
  return global_news != 0;
}
