// shared by the c19_*_global_new repros: counts calls of the global operator new while `observing` is set, and a
// minimal malloc-based user allocator without default constructor
#pragma once
#include <cstdlib>
#include <cstdio>
#include <new>
static bool observing = false;
static long global_news = 0;
void* operator new(std::size_t n) { if (observing) ++global_news; void* p = malloc(n ? n : 1); if (!p) throw std::bad_alloc(); return p; }
void operator delete(void* p) noexcept { free(p); }
void operator delete(void* p, std::size_t) noexcept { free(p); }
template<class T> struct user_alloc {
  using value_type = T;
  int id;
  explicit user_alloc(int i) : id(i) {}
  template<class U> user_alloc(const user_alloc<U>& o) : id(o.id) {}
  T* allocate(std::size_t n) { return static_cast<T*>(malloc(n * sizeof(T) ? n * sizeof(T) : 1)); }
  void deallocate(T* p, std::size_t) { free(p); }
  template<class U> bool operator==(const user_alloc<U>& o) const { return id == o.id; }
  template<class U> bool operator!=(const user_alloc<U>& o) const { return id != o.id; }
};
