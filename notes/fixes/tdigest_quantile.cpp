// C17: tdigest::get_quantile is not monotone, is biased, can leave [min, max] and can return NaN.
//   g++ -std=c++11 -I/repo/common/include -I/repo/tdigest/include tdigest_quantile.cpp && ./a.out   (exit 1 = defect present)
// (1) the interpolation between two centroids passes the two weights to weighted_average() in the wrong order
//     (reference MergingDigest.quantile: weightedAverage(mean[i], z2, mean[i + 1], z1));
// (2) weighted_average() is not clamped to [x1, x2] (the reference clamps): a constant stream gives 42.00000000000001 > max;
// (3) upper tail branch: "max_ + ..." where the reference has "max - ...": above max for a last centroid heavier than 1
//     (reachable through images of the reference implementation / other scale functions);
// (4) the same branch is 0/0 = NaN when the last centroid has weight 2 and rank * n == n - 1 exactly (the reference has this too);
// (5) the unreachable fall-through uses get_weight() where get_mean() is meant.
#include <tdigest.hpp>
#include <cstdio>
#include <cmath>
#include <string>
using namespace datasketches;
static void be(std::string& s, const void* p, size_t n) { const char* c = (const char*)p; for (size_t i = n; i > 0; i--) s.push_back(c[i - 1]); }
// image in the format of the reference implementation (MergingDigest.asBytes): min, max, compression, n, (weight, mean)*
static tdigest<double> ref(double mn, double mx, double k, const std::vector<std::pair<double, double>>& c) {
  std::string img; uint32_t t = 1; be(img, &t, 4); be(img, &mn, 8); be(img, &mx, 8); be(img, &k, 8);
  uint32_t n = (uint32_t)c.size(); be(img, &n, 4);
  for (auto& x : c) { be(img, &x.second, 8); be(img, &x.first, 8); }
  return tdigest<double>::deserialize(img.data(), img.size());
}
int main() {
  int bad = 0;
  { tdigest<double> t(10); for (int i = 0; i <= 16; i++) t.update(i);
    double a = t.get_quantile(0.12), b = t.get_quantile(0.17), c = t.get_quantile(0.18);
    printf("(1) k=10, 0..16: q(.12)=%g q(.17)=%g q(.18)=%g  %s\n", a, b, c, (a <= b && b <= c) ? "monotone" : "NOT MONOTONE");
    if (!(a <= b && b <= c)) bad++; }
  { tdigest<double> t(100); for (int i = 0; i < 100000; i++) t.update(i);
    int dec = 0; double prev = t.get_quantile(0);
    for (int j = 1; j <= 10000; j++) { double q = t.get_quantile(j / 10000.0); if (q < prev) dec++; prev = q; }
    printf("(1) k=100, 0..99999: q(.5)=%g (exact 49999.5), %d of 10000 consecutive rank steps decrease\n", t.get_quantile(0.5), dec);
    if (dec > 0 || std::fabs(t.get_quantile(0.5) - 49999.5) > 500) bad++; }
  { tdigest<double> t(10); for (int i = 0; i < 588; i++) t.update(42.0);
    double worst = 42; for (int j = 0; j <= 588; j++) worst = std::max(worst, t.get_quantile(j / 588.0));
    printf("(2) 588 x 42.0: largest quantile %.17g, max %.17g  %s\n", worst, t.get_max_value(), worst <= 42 ? "ok" : "ABOVE MAX");
    if (worst > 42) bad++; }
  { auto t = ref(0, 100, 10, {{10, 10}, {50, 5}, {90, 8}});
    double q = t.get_quantile(0.83);
    printf("(3) centroids (10,w10) (50,w5) (90,w8), min 0, max 100: q(.83)=%g  %s\n", q, q <= 100 ? "ok" : "ABOVE MAX");
    if (q > 100) bad++; }
  { auto t = ref(0, 100, 10, {{0, 1}, {50, 1}, {99, 2}});
    double q = t.get_quantile(0.75);
    printf("(4) last centroid of weight 2, n=4: q(.75)=%g  %s\n", q, std::isnan(q) ? "NaN" : "ok");
    if (std::isnan(q)) bad++; }
  return bad ? 1 : 0;
}
