// C11 repro: hll_sketch::deserialize(bytes, 0) reads the first byte of an empty buffer
// build: g++ -std=c++17 -g -fsanitize=address -I/repo/common/include -I/repo/hll/include reader_hll_empty_buffer.cpp -o reader_hll_empty_buffer
// pinned tree : ASan heap-buffer-overflow READ of size 1 in HllSketchImplFactory::deserialize
// with reader_hll_empty_buffer.diff : rejected with "Input data length insufficient to hold HLL sketch"
#include <cstdio>
#include <cstdint>
#include <cstring>
#include <vector>
#include <string>
#include <sstream>
#include <stdexcept>
#include <hll.hpp>
using namespace datasketches;
// the reader gets a heap buffer of EXACTLY n bytes, so AddressSanitizer sees the first byte read past it
static std::vector<uint8_t> exact(const std::vector<uint8_t>& img, size_t n) { return std::vector<uint8_t>(img.begin(), img.begin() + n); }
template<class F> static void attempt(const char* what, F f) {
  try { f(); printf("%s: accepted\n", what); }
  catch (const std::exception& e) { printf("%s: rejected with \"%s\"\n", what, e.what()); }
}
int main() {
  std::vector<uint8_t> block(16, 0);
  const uint8_t* end = block.data() + block.size();         // zero readable bytes from here on
  attempt("deserialize(ptr, 0)", [&] { hll_sketch::deserialize(end, 0); });
  return 0;
}
