// C19 repro: hll_sketch copy assignment is unsafe for self-assignment and for a moved-from target.
//   g++ -std=c++11 -fsanitize=address -I/repo/common/include -I/repo/hll/include c19_hll_copy_assign.cpp && ./a.out
// pinned tree: (1) heap-use-after-free in CouponList::copy() (operator= deletes sketch_impl, then copies from it);
//              (2) SEGV: operator= dereferences the null sketch_impl of a moved-from object.
// The same operator is used by hll_union (defaulted operator= over its gadget sketch).
#include <cstdio>
#include "hll.hpp"
int main(int argc, char**) {
  using namespace datasketches;
  hll_sketch a(9);
  for (int i = 0; i < 3; i++) a.update(i);
  if (argc == 1) {
    hll_sketch& r = a;
    a = r;                                   // (1) self-assignment
    printf("self-assign ok, estimate %f\n", a.get_estimate());
  }
  hll_sketch b(std::move(a));                // a is moved-from
  a = b;                                     // (2) assignment to a moved-from object
  printf("assign to moved-from ok, estimate %f\n", a.get_estimate());
  return 0;
}
