// Minimal repro: a var_opt_sketch restored from the image of a sketch in estimation mode cannot be updated any more.
#include <var_opt_sketch.hpp>
#include <var_opt_union.hpp>
#include <cstdio>
#include <sstream>
using namespace datasketches;
int main() {
  var_opt_sketch<int> a(4);
  for (int i = 0; i < 10; i++) a.update(i, 1.0 + i);     // n > k: estimation mode (r > 0)
  auto bytes = a.serialize();
  var_opt_sketch<int> b = var_opt_sketch<int>::deserialize(bytes.data(), bytes.size());
  int bad = 0;
  try { b.update(100, 1.0); printf("light update after deserialize: ok\n"); }
  catch (const std::logic_error& e) { printf("DEFECT: light update after deserialize threw: %s\n", e.what()); bad++; }
  std::stringstream ss; a.serialize(ss);
  var_opt_sketch<int> c = var_opt_sketch<int>::deserialize(ss);
  try { c.update(101, 1000.0); printf("heavy update after deserialize: ok\n"); }
  catch (const std::logic_error& e) { printf("DEFECT: heavy update after deserialize threw: %s\n", e.what()); bad++; }
  // the same through a union image (its gadget is a sketch image)
  var_opt_union<int> u(4); u.update(a);
  auto ub = u.serialize();
  var_opt_union<int> u2 = var_opt_union<int>::deserialize(ub.data(), ub.size());
  var_opt_sketch<int> d(4); for (int i = 0; i < 3; i++) d.update(200 + i, 2.0);
  try { u2.update(d); auto r = u2.get_result(); printf("union update after deserialize: ok (n=%llu)\n", (unsigned long long) r.get_n()); }
  catch (const std::logic_error& e) { printf("DEFECT: union update after deserialize threw: %s\n", e.what()); bad++; }
  return bad ? 1 : 0;
}
