// X01 finding: kolmogorov_smirnov::delta overstates the Kolmogorov-Smirnov statistic when both sketches retain an equal
// item with different multiplicity or weight (any discrete-valued data).  delta is documented as "the raw delta between two
// quantile sketches for the Kolmogorov-Smirnov test", i.e. D = sup_x |F1(x) - F2(x)|; the merge walk advances both iterators by
// ONE entry on equal items and compares the cumulative weights in the middle of the jump.
//   g++ -std=c++17 -I/repo/common/include -I/repo/kll/include -I/repo/quantiles/include x_ks_ties.cpp && ./a.out
// unchanged tree: prints 0.5 / 0.3 / 0.375 (test = 1: the null hypothesis is rejected for identical distributions) and exits 1; with x_ks_ties.diff: 0 / 0 / 0, exit 0.
#include <kll_sketch.hpp>
#include <quantiles_sketch.hpp>
#include <kolmogorov_smirnov.hpp>
#include <iostream>
using namespace datasketches;
int main() {
  int bad = 0;
  { // the same distribution (all mass at 5), different stream lengths
    kll_sketch<double> a(200), b(200);
    a.update(5); a.update(5); b.update(5);
    const double d = kolmogorov_smirnov::delta(a, b);
    std::cout << "kll {5,5} vs {5}: delta = " << d << " (ranks of 5: " << a.get_rank(5) << ", " << b.get_rank(5) << "; expected 0)\n";
    bad += d != 0;
  }
  { // the same two-point distribution, 10 against 4 items
    quantiles_sketch<double> a(128), b(128);
    for (int i = 0; i < 10; i++) a.update(i % 2);
    for (int i = 0; i < 4; i++) b.update(i % 2);
    const double d = kolmogorov_smirnov::delta(a, b);
    std::cout << "quantiles {0,1}x5 vs {0,1}x2: delta = " << d << " (expected 0)\n";
    bad += d != 0;
  }
  { // a false rejection of the null hypothesis: the same two-point distribution, 400 against 100 items, exact mode
    kll_sketch<int> a(200), b(200);
    for (int i = 0; i < 400; i++) a.update(i % 2);
    for (int i = 0; i < 100; i++) b.update(i % 2);
    const double d = kolmogorov_smirnov::delta(a, b);
    std::cout << "kll {0,1}x200 vs {0,1}x50: delta = " << d << " test(p=0.05) = " << kolmogorov_smirnov::test(a, b, 0.05) << " (expected 0, 0)\n";
    bad += d != 0 || kolmogorov_smirnov::test(a, b, 0.05);
  }
  return bad ? 1 : 0;
}
