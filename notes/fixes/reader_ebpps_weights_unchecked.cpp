// C11 repro: ebpps_sketch::deserialize accepts negative / NaN / infinite cumulative weight, maximum weight and rho
// build: g++ -std=c++17 -g -fsanitize=address -I/repo/common/include -I/repo/sampling/include reader_ebpps_weights_unchecked.cpp -o reader_ebpps_weights_unchecked
// pinned tree : rho with the sign bit set is accepted; the next update() / merge() down-samples with a negative ratio and indexes the sample vector with the result (SEGV / ASan heap-buffer-overflow)
// with reader_ebpps_weights_unchecked.diff : rejected with "sketch fails internal consistency check"
#include <cstdio>
#include <cstdint>
#include <cstring>
#include <vector>
#include <string>
#include <sstream>
#include <stdexcept>
#include <csignal>
#include <unistd.h>
#include <ebpps_sketch.hpp>
using namespace datasketches;
template<class F> static void attempt(const char* what, F f) {
  try { f(); printf("%s: accepted and used\n", what); }
  catch (const std::exception& e) { printf("%s: rejected with \"%s\"\n", what, e.what()); }
}
int main() {
  setvbuf(stdout, nullptr, _IONBF, 0);
  alarm(20);   // two of these defects are (practically) endless loops
  ebpps_sketch<int> s(6);
  for (int i = 0; i < 4; i++) s.update(i, 1.0 + i * 0.5);
  auto img = s.serialize();
  img[39] |= 0x80;                                          // sign bit of rho (double @32)
  attempt("deserialize(ebpps image with rho < 0) + updates + merge", [&] {
    auto r = ebpps_sketch<int>::deserialize(img.data(), img.size());
    for (int i = 0; i < 12; i++) r.update(100 + i, 1.0 + i * 0.25);
    auto d = ebpps_sketch<int>::deserialize(img.data(), img.size());
    r.merge(d);
    printf("  result size %zu\n", r.get_result().size());
  });
  return 0;
}
