// Minimal repro (memory-unsafe; compile with -fsanitize=address to see the out-of-bounds access, without it the
// program usually dies with SIGSEGV): in ebpps_sketch::internal_merge the inclusion probability of a merged item,
// new_rho * avg_wt, can round to 1.0000000000000002; replace_content() tests theta == 1.0, so the item is stored as
// a PARTIAL item with c_ > 1.  The receiving sample then holds fewer full items than floor(c_) and the next
// downsample() calls subsample(n) with n > data_.size(): random_idx(0) and a swap far outside the vector.
#include <ebpps_sketch.hpp>
#include <cstdio>
#include <string>
using namespace datasketches;
int main() {
  random_utils::override_seed(1496);
  const double wa[] = {3, 6, 8, 2, 8, 7, 1, 7};
  const double wb[] = {5, 1, 6, 9};
  ebpps_sketch<std::string> a(8), b(6); int id = 0;
  for (double w : wa) a.update("item-" + std::to_string(id++), w);
  for (double w : wb) b.update("item-" + std::to_string(id++), w);
  b.merge(a);
  printf("survived: k = %u, c = %.17g, result size = %zu\n%s", b.get_k(), b.get_c(), b.get_result().size(), b.items_to_string().c_str());
  return 0;
}
