// Minimal repro: the sketch returned by var_opt_union::get_result() through the "pseudo-exact" shortcut
// (mark_moving_gadget_coercer) has an H region that is not a heap (the gadget keeps arrival order while it is
// in exact mode).  Updating the result then reads a wrong minimum: an item HEAVIER than the threshold is moved
// into the reservoir and loses its exact weight (and lighter items stay behind in H).
#include <var_opt_sketch.hpp>
#include <var_opt_union.hpp>
#include <cstdio>
#include <map>
using namespace datasketches;
int main() {
  var_opt_sketch<int> a(4);                       // estimation mode: h = 0, r = 4, total 36, tau = 9
  const double wa[] = {7, 7, 7, 7, 8};
  for (int i = 0; i < 5; i++) a.update(i, wa[i]);
  var_opt_sketch<int> b(10);                      // exact mode; arrival order is not a heap order
  const double wb[] = {13, 24, 9, 10, 12, 13, 11};
  std::map<int, double> w;
  for (int i = 0; i < 7; i++) { b.update(100 + i, wb[i]); w[100 + i] = wb[i]; }
  var_opt_union<int> u(20);
  u.update(b); u.update(a);
  var_opt_sketch<int> r = u.get_result();         // H = b's items in arrival order, R = 4 items with tau = 9
  const double more[] = {8, 9};
  for (int j = 0; j < 2; j++) {
    try { r.update(200 + j, more[j]); } catch (const std::exception& e) { printf("update threw: %s\n", e.what()); return 1; }
    w[200 + j] = more[j];
  }
  double tau = -1;
  for (auto p : r) if (w.count(p.first) && w[p.first] != p.second) tau = p.second;   // weight of the reservoir items
  int bad = 0;
  std::map<int, double> samp;
  for (auto p : r) { samp[p.first] = p.second; printf("  item %d stream weight %g iterated weight %g\n", p.first, w.count(p.first) ? w[p.first] : -1.0, p.second); }
  for (auto& kv : w) if (kv.second > tau && (!samp.count(kv.first) || samp[kv.first] != kv.second)) bad++;   // heavier than tau: must be kept exactly
  printf(bad ? "DEFECT: %d item(s) heavier than tau = %g are not kept with their exact weight\n" : "ok (%d, tau = %g)\n", bad, tau);
  return bad ? 1 : 0;
}
