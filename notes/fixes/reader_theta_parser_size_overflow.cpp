// C11 repro: compact theta parser computes the expected size of v2 / v4 images in 32 bits
// build: g++ -std=c++17 -g -fsanitize=address -I/repo/common/include -I/repo/theta/include reader_theta_parser_size_overflow.cpp -o reader_theta_parser_size_overflow
// pinned tree : the 56-byte v2 image claiming 0x80000005 entries is accepted (get_num_retained() = 2147483653); iterating it / deserialize() reads gigabytes past the buffer (ASan heap-buffer-overflow)
// with reader_theta_parser_size_overflow.diff : rejected with "at least 17179869224 bytes expected, actual 56"
#include <cstdio>
#include <cstdint>
#include <cstring>
#include <vector>
#include <string>
#include <sstream>
#include <stdexcept>
#include <theta_sketch.hpp>
using namespace datasketches;
// the reader gets a heap buffer of EXACTLY n bytes, so AddressSanitizer sees the first byte read past it
static std::vector<uint8_t> exact(const std::vector<uint8_t>& img, size_t n) { return std::vector<uint8_t>(img.begin(), img.begin() + n); }
template<class F> static void attempt(const char* what, F f) {
  try { f(); printf("%s: accepted\n", what); }
  catch (const std::exception& e) { printf("%s: rejected with \"%s\"\n", what, e.what()); }
}
int main() {
  auto u = update_theta_sketch::builder().set_lg_k(5).build();
  for (int i = 0; i < 5; i++) u.update(i);
  auto c = u.compact();
  std::vector<uint8_t> img = {2, 2, 3, 0, 0, 0, 0, 0};      // legacy v2 exact image: preLongs 2, serVer 2, type 3
  const uint16_t sh = c.get_seed_hash(); memcpy(&img[6], &sh, 2);
  const uint32_t n = 0x80000005u;                           // (2 + n) << 3 wraps to 56 in 32-bit arithmetic
  img.resize(16); memcpy(&img[8], &n, 4);
  for (auto h : c) { img.resize(img.size() + 8); memcpy(&img[img.size() - 8], &h, 8); }
  attempt("wrap(v2 image, num_entries = 0x80000005, 56 bytes)", [&] {
    auto w = wrapped_compact_theta_sketch::wrap(img.data(), img.size());
    printf("  num_retained = %u\n", w.get_num_retained());
    uint64_t s = 0; for (auto h : w) s += h;               // walks off the buffer
    printf("  sum %llu\n", (unsigned long long)s);
  });
  return 0;
}
