// Minimal repro (C15): union_with / intersect / invert are not refused on a read-only wrap and modify the
// wrapped (const) memory; update / query_and_update / reset check is_read_only_, these three do not.
//   g++ -std=c++11 -I/repo/common/include -I/repo/filters/include bloom_readonly_setops.cpp && ./a.out
// exit 0 = property holds, 1 = defect present.  Fix: bloom_readonly_setops.diff.
#include <bloom_filter.hpp>
#include <cstdio>
#include <stdexcept>
using namespace datasketches;
int main() {
  auto f = bloom_filter::builder::create_by_size(256, 3, 7);
  f.update(static_cast<uint64_t>(42));
  const auto image = f.serialize();
  auto other = bloom_filter::builder::create_by_size(256, 3, 7);
  other.update(static_cast<uint64_t>(43));
  int bad = 0;
  for (int op = 0; op < 3; op++) {
    auto bytes = image;
    auto ro = bloom_filter::wrap(bytes.data(), bytes.size());   // const memory by contract
    const char* name = op == 0 ? "union_with" : op == 1 ? "intersect" : "invert";
    bool refused = false;
    try { if (op == 0) ro.union_with(other); else if (op == 1) ro.intersect(other); else ro.invert(); }
    catch (const std::logic_error&) { refused = true; }
    printf("%s on a read-only wrap: is_read_only=%d refused=%d wrapped memory modified=%d\n", name, ro.is_read_only(), refused, bytes != image);
    if (!refused || bytes != image) bad = 1;
  }
  printf(bad ? "DEFECT: a read-only view was written through\n" : "ok\n");
  return bad;
}
