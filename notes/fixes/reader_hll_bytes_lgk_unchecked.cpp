// C11 repro: HllArray::newHll(bytes) computes the array size from an unvalidated lgK
// build: g++ -std=c++17 -g -fsanitize=address -I/repo/common/include -I/repo/hll/include reader_hll_bytes_lgk_unchecked.cpp -o reader_hll_bytes_lgk_unchecked
// pinned tree : lgK := 66: 1 << (66 & 31) passes the length check; the aux map is sized for 2^66 slots (275 GB requested: ASan allocation-size error / bad_alloc); without an aux map the image is accepted as a sketch with lg_config_k = 66
// with reader_hll_bytes_lgk_unchecked.diff : rejected with "Invalid value of k: 66"
#include <cstdio>
#include <cstdint>
#include <cstring>
#include <vector>
#include <string>
#include <sstream>
#include <stdexcept>
#include <hll.hpp>
using namespace datasketches;
// the reader gets a heap buffer of EXACTLY n bytes, so AddressSanitizer sees the first byte read past it
static std::vector<uint8_t> exact(const std::vector<uint8_t>& img, size_t n) { return std::vector<uint8_t>(img.begin(), img.begin() + n); }
template<class F> static void attempt(const char* what, F f) {
  try { f(); printf("%s: accepted\n", what); }
  catch (const std::exception& e) { printf("%s: rejected with \"%s\"\n", what, e.what()); }
}
int main() {
  hll_sketch s(5, HLL_4);
  for (uint64_t i = 0; i < 12; i++) s.update(i);
  for (uint64_t i = 1; i < 3000000; i++) {                  // one register far above the others: an aux map entry
    hll_sketch one(4, HLL_8); one.update(i);
    auto c = one.serialize_compact();
    if ((c[11] >> 2) >= 16) { s.update(i); break; }
  }
  auto img = s.serialize_compact();
  img[3] = 66;                                              // LG_K_BYTE
  attempt("deserialize(bytes, HLL_4 image with lgK = 66)", [&] {
    auto r = hll_sketch::deserialize(img.data(), img.size());
    printf("  lg_config_k %d\n", r.get_lg_config_k());
  });
  return 0;
}
