// C20: density_sketch::merge(other) returns early when other.is_empty(), and is_empty() means "no retained points".
// A compaction promotes nothing when all kernel values in the level are 0 and the coin is 0 (Gaussian kernel in float:
// points more than ~10.2 apart, exp(-d^2) underflows to 0; any user kernel of compact support), so a sketch can hold
// n > 0 points and retain none.  Merging such a sketch loses its n ("merging adds n"), the dimension check is skipped,
// and get_estimate() throws "undefined for an empty sketch" although n > 0.
// (Its image is also the 12-byte EMPTY image, and any image whose top level is empty loses that level in
//  deserialize(): the layout does not record the number of levels - not addressed by the patch, see C20-report.md.)
//   g++ -std=c++17 -DDATASKETCHES_VERIF -I/repo/common/include -I/repo/density/include density_merge_n.cpp && ./a.out   (exit 1 = defect present)
// (-DDATASKETCHES_VERIF only to dictate the coin; without it the outcome occurs with probability 1/2)
#include <density_sketch.hpp>
#include <cstdio>
using namespace datasketches;
int main() {
#ifdef DATASKETCHES_VERIF
  random_utils::random_bit.source = +[](void*) -> uint32_t { return 0; };
#endif
  density_sketch<float> t(2, 1), u(2, 1), v(2, 1);
  t.update(std::vector<float>{0}); t.update(std::vector<float>{100});
  u.update(std::vector<float>{200}); u.update(std::vector<float>{300});
  t.merge(u);   // 4 points in level 0 >= k * levels: compacted; all kernel values are 0
  printf("t: n=%llu retained=%u is_empty=%d\n", (unsigned long long)t.get_n(), t.get_num_retained(), (int)t.is_empty());
  int bad = 0;
  v.update(std::vector<float>{7});
  v.merge(t);
  printf("v.merge(t): n=%llu (expected 5)\n", (unsigned long long)v.get_n());
  if (v.get_n() != 5) bad++;
  if (t.get_n() > 0) {
    try { printf("t.get_estimate(0) = %g\n", t.get_estimate({0})); }
    catch (const std::exception& e) { printf("t.get_estimate(0) threw: %s (n = %llu)\n", e.what(), (unsigned long long)t.get_n()); bad++; }
  }
  return bad ? 1 : 0;
}
