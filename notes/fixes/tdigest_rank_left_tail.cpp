// C17: tdigest::get_rank, left tail (min < value < mean of the first centroid): the interpolated weight is not divided by
// the total weight (the reference MergingDigest.cdf divides: "(1 + (x - min) / (mean[0] - min) * (weight[0] / 2 - 1)) / totalWeight"),
// so the "rank" is >= 1 and rank is not monotone.  The branch needs a first centroid heavier than one value, which
// tdigest itself never builds (it protects the extreme centroids) but accepts from images of the reference implementation.
//   g++ -std=c++11 -I/repo/common/include -I/repo/tdigest/include tdigest_rank_left_tail.cpp && ./a.out   (exit 1 = defect present)
#include <tdigest.hpp>
#include <cstdio>
#include <string>
using namespace datasketches;
static void be(std::string& s, const void* p, size_t n) { const char* c = (const char*)p; for (size_t i = n; i > 0; i--) s.push_back(c[i - 1]); }
int main() {
  std::string img; uint32_t t = 1; double mn = 0, mx = 100, k = 10; be(img, &t, 4); be(img, &mn, 8); be(img, &mx, 8); be(img, &k, 8);
  uint32_t n = 3; be(img, &n, 4);
  double ws[] = {10, 5, 8}, ms[] = {10, 50, 90};
  for (int i = 0; i < 3; i++) { be(img, &ws[i], 8); be(img, &ms[i], 8); }
  auto td = tdigest<double>::deserialize(img.data(), img.size());
  int bad = 0; double prev = 0;
  for (double x : {0.0, 1.0, 5.0, 9.9, 10.0, 11.0}) {
    double r = td.get_rank(x);
    printf("rank(%g) = %g%s\n", x, r, (r > 1 || r < prev) ? "   <-- outside [0,1] / decreasing" : "");
    if (r > 1 || r < prev) bad++;
    prev = r;
  }
  return bad ? 1 : 0;
}
