// C19 repro: kll_sketch / req_sketch / quantiles_sketch assignment releases the cached sorted view through the OTHER
// sketch's allocator (allocator_ is swapped before reset_sorted_view()), and move assignment leaves the source holding a
// view that belongs to its old allocator and its old content.
//   g++ -std=c++17 -I/repo/common/include -I/repo/kll/include c19_sorted_view_allocator.cpp && ./a.out
// pinned tree prints: "block of allocator 1 released through allocator 2"
#include <cstdio>
#include <map>
#include "kll_sketch.hpp"
static std::map<void*, int> owner;
template<class T> struct id_alloc {
  using value_type = T;
  using propagate_on_container_copy_assignment = std::true_type;
  using propagate_on_container_move_assignment = std::true_type;
  using propagate_on_container_swap = std::true_type;
  int id;
  explicit id_alloc(int i) : id(i) {}
  template<class U> id_alloc(const id_alloc<U>& o) : id(o.id) {}
  T* allocate(std::size_t n) { T* p = static_cast<T*>(::operator new(n * sizeof(T))); owner[p] = id; return p; }
  void deallocate(T* p, std::size_t) {
    if (owner[p] != id) printf("block of allocator %d released through allocator %d\n", owner[p], id);
    owner.erase(p); ::operator delete(p);
  }
  template<class U> bool operator==(const id_alloc<U>& o) const { return id == o.id; }
  template<class U> bool operator!=(const id_alloc<U>& o) const { return id != o.id; }
};
int main() {
  using sketch = datasketches::kll_sketch<float, std::less<float>, id_alloc<float>>;
  sketch a(200, std::less<float>(), id_alloc<float>(1));
  for (int i = 0; i < 10; i++) a.update(i);
  (void)a.get_rank(5.0f);                                      // builds the cached sorted view with allocator 1
  a = sketch(200, std::less<float>(), id_alloc<float>(2));     // view of allocator 1 is released through allocator 2
  printf("done\n");
  return 0;
}
