// X05 finding: count_min_sketch::suggest_num_buckets / suggest_num_hashes convert a double that does not fit the result type
// (undefined behaviour; observed results below) and let NaN through their range checks.
//   suggest_num_buckets(1e-9)  = 2718281829, suggest_num_buckets(1e-10) = 1413014509 (wrapped: FEWER buckets for a smaller error),
//   suggest_num_buckets(0) = 0;  suggest_num_hashes(0.999999) = 14, suggest_num_hashes(1.0) = 0 (documented range "between 0 and 1.0
//   (inclusive)": std::min<uint8_t>(inf, 255) converts first);  suggest_num_buckets(NaN) / suggest_num_hashes(NaN) return instead of throwing.
//   g++ -std=c++17 -I/repo/common/include -I/repo/count/include x_countmin_suggest.cpp && ./a.out    (exit 1 unchanged, 0 with x_countmin_suggest.diff)
#include <count_min.hpp>
#include <iostream>
#include <cmath>
using namespace datasketches;
using cm = count_min_sketch<uint64_t>;
int main() {
  int bad = 0;
  auto buckets = [&](double e) -> long long { try { return cm::suggest_num_buckets(e); } catch (const std::invalid_argument&) { return -1; } };
  auto hashes = [&](double c) -> int { try { return cm::suggest_num_hashes(c); } catch (const std::invalid_argument&) { return -1; } };
  const long long b9 = buckets(1e-9), b10 = buckets(1e-10), b0 = buckets(0.0), bn = buckets(std::nan(""));
  std::cout << "suggest_num_buckets: 1e-9 -> " << b9 << ", 1e-10 -> " << b10 << ", 0 -> " << b0 << ", NaN -> " << bn << "   (-1 = refused)\n";
  bad += (b10 != -1 && b10 < b9) + (b0 != -1 && b0 < b9) + (bn != -1);
  const int h6 = hashes(0.999999), h1 = hashes(1.0), hn = hashes(std::nan(""));
  std::cout << "suggest_num_hashes: 0.999999 -> " << h6 << ", 1.0 -> " << h1 << ", NaN -> " << hn << "\n";
  bad += (h1 < h6) + (hn != -1);
  return bad ? 1 : 0;
}
