// C11 repro: req_sketch::deserialize accepts a non-empty image with zero levels
// build: g++ -std=c++17 -g -fsanitize=address -I/repo/common/include -I/repo/req/include reader_req_nonempty_without_levels.cpp -o reader_req_nonempty_without_levels
// pinned tree : the image is accepted; the image is accepted as a non-empty sketch without compactors; serialize() / get_min_item() then read through compactors_[0] of an empty vector (ASan: SEGV / heap-buffer-overflow)
// with reader_req_nonempty_without_levels.diff : rejected with "Possible corruption: non-empty sketch with zero levels"
#include <cstdio>
#include <cstdint>
#include <cstring>
#include <vector>
#include <string>
#include <sstream>
#include <stdexcept>
#include <req_sketch.hpp>
using namespace datasketches;
// the reader gets a heap buffer of EXACTLY n bytes, so AddressSanitizer sees the first byte read past it
static std::vector<uint8_t> exact(const std::vector<uint8_t>& img, size_t n) { return std::vector<uint8_t>(img.begin(), img.begin() + n); }
template<class F> static void attempt(const char* what, F f) {
  try { f(); printf("%s: accepted\n", what); }
  catch (const std::exception& e) { printf("%s: rejected with \"%s\"\n", what, e.what()); }
}
int main() {
  req_sketch<float> s(4);
  auto img = s.serialize();                                 // empty sketch: 8 bytes
  img[3] &= ~(1 << 2);                                      // clear the EMPTY flag (bit 2 of the flags byte)
  attempt("deserialize(empty req image with the empty flag cleared)", [&] {
    auto r = req_sketch<float>::deserialize(img.data(), img.size());
    printf("  is_empty %d n %llu\n", r.is_empty(), (unsigned long long)r.get_n());
    auto again = r.serialize();                             // walks the (empty) vector of compactors
    printf("  serialized %zu bytes\n", again.size());
  });
  return 0;
}
