// C19 repro: count_min_sketch keeps its hash seeds in a std::vector<uint64_t> with the DEFAULT allocator and builds two more
// default-allocator vectors per update / estimate (get_hashes, estimates): memory is taken from the global heap whatever
// allocator the user supplied.
//   g++ -std=c++17 -I/repo/common/include -I/repo/count/include c19_countmin_global_new.cpp && ./a.out
// pinned tree: "global operator new calls: 11" (constructor, every update, estimate twice, copy)
#include "c19_global_new_observer.hpp"
#include "count_min.hpp"
int main() {
  using A = user_alloc<uint64_t>;
  observing = true;
  {
    datasketches::count_min_sketch<uint64_t, A> s(3, 16, datasketches::DEFAULT_SEED, A(1));
    for (uint64_t i = 0; i < 5; i++) s.update(i, 1);
    (void)s.get_estimate((uint64_t)3);
    auto c = s;
    c.merge(s);
    auto b = c.serialize();
  }
  observing = false;
  printf("global operator new calls: %ld\n", global_news);
  return global_news != 0;
}
