// X02 finding: req_sketch(k) truncates k to 8 bits.  The constructor is documented "k ... must be even and in the range
// [4, 1024], inclusive", but initializes k_ with std::max<uint8_t>(k & -2, MIN_K): every k >= 256 is reduced modulo 256
// (256 -> 4, 300 -> 44, 512 -> 4, 1024 -> 4), silently giving a sketch with a far larger error than asked for.
//   g++ -std=c++17 -I/repo/common/include -I/repo/req/include x_req_k.cpp && ./a.out      (exit 1 unchanged, 0 with x_req_k.diff)
#include <req_sketch.hpp>
#include <iostream>
using namespace datasketches;
int main() {
  int bad = 0;
  for (int k : {4, 12, 254, 256, 300, 512, 1000, 1024}) {
    req_sketch<float> s((uint16_t)k);
    std::cout << "req_sketch(" << k << ").get_k() = " << s.get_k() << (s.get_k() == k ? "" : "   <-- expected " + std::to_string(k)) << "\n";
    bad += s.get_k() != k;
  }
  return bad ? 1 : 0;
}
