// X02 finding: a Bloom filter with num_hashes = 65535 (the largest value of the parameter type; the builder only demands
// "strictly positive") never returns from update() / query(): the loops "for (uint16_t i = 1; i <= num_hashes_; i++)" cannot
// terminate because a 16-bit counter never exceeds 65535.
//   g++ -std=c++17 -I/repo/common/include -I/repo/filters/include x_bloom_hashes_loop.cpp && ./a.out
// unchanged tree: killed by the alarm after 3 s (exit status 142); with x_bloom_hashes_loop.diff: prints "query = 1", exit 0.
#include <bloom_filter.hpp>
#include <iostream>
#include <unistd.h>
using namespace datasketches;
int main() {
  alarm(3);
  auto f = bloom_filter::builder::create_by_size(1 << 20, 65535, 1);
  f.update((uint64_t)5);
  std::cout << "query = " << f.query((uint64_t)5) << "\n";
  return 0;
}
