// C11 repro: HllArray::newHll(istream) allocates 2^lgK registers before validating lgK
// build: g++ -std=c++17 -g -fsanitize=address -I/repo/common/include -I/repo/hll/include reader_hll_stream_lgk_unchecked.cpp -o reader_hll_stream_lgk_unchecked
// pinned tree : lgK := 127: 1 << 127 registers requested before any validation: std::length_error / bad_alloc out of the HllArray constructor, whose raw allocation is leaked (LeakSanitizer); other values (e.g. 33) are accepted as a sketch with that lg_config_k
// with reader_hll_stream_lgk_unchecked.diff : rejected with "Invalid value of k: 127"
#include <cstdio>
#include <cstdint>
#include <cstring>
#include <vector>
#include <string>
#include <sstream>
#include <stdexcept>
#include <hll.hpp>
using namespace datasketches;
// the reader gets a heap buffer of EXACTLY n bytes, so AddressSanitizer sees the first byte read past it
static std::vector<uint8_t> exact(const std::vector<uint8_t>& img, size_t n) { return std::vector<uint8_t>(img.begin(), img.begin() + n); }
template<class F> static void attempt(const char* what, F f) {
  try { f(); printf("%s: accepted\n", what); }
  catch (const std::exception& e) { printf("%s: rejected with \"%s\"\n", what, e.what()); }
}
int main() {
  hll_sketch s(8, HLL_8);
  for (uint64_t i = 0; i < 400; i++) s.update(i);
  auto img = s.serialize_compact();
  img[3] = 127;                                             // LG_K_BYTE
  std::istringstream is(std::string(img.begin(), img.end()));
  attempt("deserialize(stream, HLL image with lgK = 127)", [&] { hll_sketch::deserialize(is); });
  return 0;
}
