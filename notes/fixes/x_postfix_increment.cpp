// X07 finding: the POSTFIX operator++(int) of kll_sketch::const_iterator, req_sketch::const_iterator,
// quantiles_sketch::const_iterator, density_sketch::const_iterator, ebpps_sample::const_iterator, var_opt_sketch::const_iterator
// (and the private var_opt_sketch::iterator) is declared to return a REFERENCE and returns a reference to its local copy
//     const_iterator tmp(*this); operator++(); return tmp;          // -Wreturn-local-addr
// Any use of the result (`*it++`, `auto prev = it++`) is undefined behaviour; g++ 12 returns a null reference (SIGSEGV at the first
// use), clang returns the dead stack slot (often "works", reported by -fsanitize=address with detect_stack_use_after_return=1).
//   g++ -std=c++17 -I/repo/common/include -I/repo/kll/include -I/repo/req/include -I/repo/quantiles/include -I/repo/density/include \
//       -I/repo/sampling/include x_postfix_increment.cpp && ./a.out
// unchanged tree: every family reports "crashed" (exit 1); with x_postfix_increment.diff (return by value): every family "ok", exit 0.
#include <kll_sketch.hpp>
#include <req_sketch.hpp>
#include <quantiles_sketch.hpp>
#include <density_sketch.hpp>
#include <var_opt_sketch.hpp>
#include <ebpps_sketch.hpp>
#include <iostream>
#include <vector>
#include <sys/wait.h>
#include <unistd.h>
using namespace datasketches;

// runs the post-increment walk in a child process: 0 = same entries as the pre-increment walk, 1 = different, 2 = crashed
template<class S, class Key> static int walk(const S& s, Key key) {
  std::vector<long> pre; for (auto it = s.begin(); it != s.end(); ++it) pre.push_back(key(*it));
  pid_t pid = fork();
  if (pid == 0) {
    std::vector<long> post;
    auto it = s.begin();
    while (it != s.end()) { auto prev = it++; post.push_back(key(*prev)); }
    _exit(post == pre ? 0 : 1);
  }
  int st = 0; waitpid(pid, &st, 0);
  return WIFEXITED(st) ? WEXITSTATUS(st) : 2;
}
int main() {
  random_utils::override_seed(1);
  kll_sketch<float> k(20); req_sketch<float> r(12); quantiles_sketch<float> q(16); density_sketch<float> d(8, 1); var_opt_sketch<int> v(16); ebpps_sketch<int> e(16);
  for (int i = 0; i < 10; i++) { k.update(i); r.update(i); q.update(i); d.update(std::vector<float>{(float)i}); v.update(i, 1.0 + i); e.update(i, 1.0); }
  const char* verdict[] = {"ok", "different entries", "crashed"};
  int bad = 0;
  auto report = [&](const char* name, int res) { std::cout << name << ": " << verdict[res] << "\n"; bad += res != 0; };
  report("kll_sketch", walk(k, [](const std::pair<const float&, const uint64_t>& p) { return (long)p.first; }));
  report("req_sketch", walk(r, [](const std::pair<const float&, const uint64_t>& p) { return (long)p.first; }));
  report("quantiles_sketch", walk(q, [](const std::pair<const float&, const uint64_t>& p) { return (long)p.first; }));
  report("density_sketch", walk(d, [](const std::pair<const std::vector<float>&, const uint64_t>& p) { return (long)p.first[0]; }));
  report("var_opt_sketch", walk(v, [](const std::pair<const int&, const double>& p) { return (long)p.first; }));
  report("ebpps_sketch", [&] { random_utils::override_seed(7); return walk(e, [](const int& x) { return (long)x; }); }());
  return bad ? 1 : 0;
}
