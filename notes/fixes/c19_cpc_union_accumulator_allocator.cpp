// C19 repro: cpc_union replaces the content of its accumulator by the first sparse input (*accumulator = sketch), which
// also replaces the accumulator's allocator; the accumulator OBJECT, obtained from the union's allocator, is later released
// through the input sketch's allocator.
//   g++ -std=c++17 -I/repo/common/include -I/repo/cpc/include c19_cpc_union_accumulator_allocator.cpp && ./a.out
// pinned tree prints: "block of allocator 2 released through allocator 1"
#include <cstdio>
#include <map>
#include "cpc_sketch.hpp"
#include "cpc_union.hpp"
static std::map<void*, int> owner;
template<class T> struct id_alloc {
  using value_type = T;
  using propagate_on_container_copy_assignment = std::true_type;
  using propagate_on_container_move_assignment = std::true_type;
  using propagate_on_container_swap = std::true_type;
  int id;
  explicit id_alloc(int i) : id(i) {}
  template<class U> id_alloc(const id_alloc<U>& o) : id(o.id) {}
  T* allocate(std::size_t n) { T* p = static_cast<T*>(::operator new(n * sizeof(T))); owner[p] = id; return p; }
  void deallocate(T* p, std::size_t) {
    if (owner[p] != id) printf("block of allocator %d released through allocator %d\n", owner[p], id);
    owner.erase(p); ::operator delete(p);
  }
  template<class U> bool operator==(const id_alloc<U>& o) const { return id == o.id; }
  template<class U> bool operator!=(const id_alloc<U>& o) const { return id != o.id; }
};
int main() {
  using A = id_alloc<uint8_t>;
  datasketches::cpc_sketch_alloc<A> s(6, datasketches::DEFAULT_SEED, A(1));
  for (int i = 0; i < 3; i++) s.update(i);
  {
    datasketches::cpc_union_alloc<A> u(6, datasketches::DEFAULT_SEED, A(2));
    u.update(s);
  }
  printf("done\n");
  return 0;
}
