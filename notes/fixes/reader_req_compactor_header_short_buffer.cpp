// C11 repro: req_compactor::deserialize(bytes) reads its 20-byte header after checking 8 bytes
// build: g++ -std=c++17 -g -fsanitize=address -I/repo/common/include -I/repo/req/include reader_req_compactor_header_short_buffer.cpp -o reader_req_compactor_header_short_buffer
// pinned tree : ASan heap-buffer-overflow READ in req_compactor::deserialize
// with reader_req_compactor_header_short_buffer.diff : rejected with "Insufficient buffer size detected: bytes available 8, minimum needed 20"
#include <cstdio>
#include <cstdint>
#include <cstring>
#include <vector>
#include <string>
#include <sstream>
#include <stdexcept>
#include <req_sketch.hpp>
using namespace datasketches;
// the reader gets a heap buffer of EXACTLY n bytes, so AddressSanitizer sees the first byte read past it
static std::vector<uint8_t> exact(const std::vector<uint8_t>& img, size_t n) { return std::vector<uint8_t>(img.begin(), img.begin() + n); }
template<class F> static void attempt(const char* what, F f) {
  try { f(); printf("%s: accepted\n", what); }
  catch (const std::exception& e) { printf("%s: rejected with \"%s\"\n", what, e.what()); }
}
int main() {
  req_sketch<float> s(4);
  for (int i = 0; i < 10; i++) s.update(i);
  auto v = s.serialize();                                   // 8-byte preamble, then one compactor
  std::vector<uint8_t> img(v.begin(), v.end());
  auto b = exact(img, 16);
  attempt("deserialize(req image, 16 bytes)", [&] { req_sketch<float>::deserialize(b.data(), b.size()); });
  return 0;
}
