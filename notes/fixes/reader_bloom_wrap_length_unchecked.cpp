// C11 repro: bloom_filter::wrap / writable_wrap accept a buffer shorter than the bit array; a 24-byte image with the empty flag cleared is read past its end
// build: g++ -std=c++17 -g -fsanitize=address -I/repo/common/include -I/repo/filters/include reader_bloom_wrap_length_unchecked.cpp -o reader_bloom_wrap_length_unchecked
// pinned tree : wrap(40 of 48 bytes) is accepted and query() / serialize() read past the buffer (ASan heap-buffer-overflow READ); deserialize(24-byte image, flags := 0) reads num_bits_set at offset 24
// with reader_bloom_wrap_length_unchecked.diff : both rejected with "Insufficient buffer size detected ..."
#include <cstdio>
#include <cstdint>
#include <cstring>
#include <vector>
#include <string>
#include <sstream>
#include <stdexcept>
#include <bloom_filter.hpp>
using namespace datasketches;
// the reader gets a heap buffer of EXACTLY n bytes, so AddressSanitizer sees the first byte read past it
static std::vector<uint8_t> exact(const std::vector<uint8_t>& img, size_t n) { return std::vector<uint8_t>(img.begin(), img.begin() + n); }
template<class F> static void attempt(const char* what, F f) {
  try { f(); printf("%s: accepted\n", what); }
  catch (const std::exception& e) { printf("%s: rejected with \"%s\"\n", what, e.what()); }
}
int main() {
  auto f = bloom_filter::builder::create_by_size(128, 3, 123);
  for (uint64_t i = 0; i < 10; i++) f.update(i);
  auto v = f.serialize();                                   // 32-byte preamble + 16 bytes of bits
  std::vector<uint8_t> img(v.begin(), v.end());
  auto b = exact(img, 40);
  attempt("wrap(bloom image, 40 of 48 bytes) + serialize()", [&] {
    auto w = bloom_filter::wrap(b.data(), b.size());
    auto s = w.serialize();
    printf("  serialized %zu bytes\n", s.size());
  });
  auto e = bloom_filter::builder::create_by_size(128, 3, 123).serialize();   // empty filter: 24 bytes
  e[3] = 0;                                                 // clear the EMPTY flag
  attempt("deserialize(empty bloom image with the empty flag cleared)", [&] { auto x = exact(std::vector<uint8_t>(e.begin(), e.end()), 24); bloom_filter::deserialize(x.data(), x.size()); });
  return 0;
}
