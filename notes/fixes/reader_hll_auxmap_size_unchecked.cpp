// C11 repro: AuxHashMap::deserialize allocates 2^lgAuxArrInts slots taken from the image without a bound
// build: g++ -std=c++17 -g -fsanitize=address -I/repo/common/include -I/repo/hll/include reader_hll_auxmap_size_unchecked.cpp -o reader_hll_auxmap_size_unchecked
// pinned tree : stream: std::length_error from the vector constructor and the half-constructed AuxHashMap is leaked (ASan LeakSanitizer: 64 bytes); bytes with byte 4 := 32: a 16 GB allocation
// with reader_hll_auxmap_size_unchecked.diff : rejected with "Possible corruption: AuxHashMap array size 2^127 for lgConfigK 5"
#include <cstdio>
#include <cstdint>
#include <cstring>
#include <vector>
#include <string>
#include <sstream>
#include <stdexcept>
#include <hll.hpp>
using namespace datasketches;
// the reader gets a heap buffer of EXACTLY n bytes, so AddressSanitizer sees the first byte read past it
static std::vector<uint8_t> exact(const std::vector<uint8_t>& img, size_t n) { return std::vector<uint8_t>(img.begin(), img.begin() + n); }
template<class F> static void attempt(const char* what, F f) {
  try { f(); printf("%s: accepted\n", what); }
  catch (const std::exception& e) { printf("%s: rejected with \"%s\"\n", what, e.what()); }
}
int main() {
  hll_sketch s(5, HLL_4);
  for (uint64_t i = 0; i < 12; i++) s.update(i);
  for (uint64_t i = 1; i < 3000000; i++) {
    hll_sketch one(4, HLL_8); one.update(i);
    auto c = one.serialize_compact();
    if ((c[11] >> 2) >= 16) { s.update(i); break; }
  }
  auto img = s.serialize_updatable();
  img[4] = 127;                                             // LG_ARR_BYTE = lg size of the aux array
  std::istringstream is(std::string(img.begin(), img.end()));
  attempt("deserialize(stream, HLL_4 image with lgAuxArrInts = 127)", [&] { hll_sketch::deserialize(is); });
  return 0;
}
