// C11 repro: req_sketch::deserialize accepts k below MIN_K
// build: g++ -std=c++17 -g -fsanitize=address -I/repo/common/include -I/repo/req/include reader_req_k_unchecked.cpp -o reader_req_k_unchecked
// pinned tree : k := 0 is accepted (the public constructor would raise it to 4); the first update() computes section sizes from k = 0 and the compaction runs off its buffers (SEGV / ASan heap-buffer-overflow)
// with reader_req_k_unchecked.diff : rejected with "Possible corruption: k must be at least 4, got 0"
#include <cstdio>
#include <cstdint>
#include <cstring>
#include <vector>
#include <string>
#include <sstream>
#include <stdexcept>
#include <csignal>
#include <unistd.h>
#include <req_sketch.hpp>
using namespace datasketches;
template<class F> static void attempt(const char* what, F f) {
  try { f(); printf("%s: accepted and used\n", what); }
  catch (const std::exception& e) { printf("%s: rejected with \"%s\"\n", what, e.what()); }
}
int main() {
  setvbuf(stdout, nullptr, _IONBF, 0);
  alarm(20);   // two of these defects are (practically) endless loops
  req_sketch<float> s(4);
  s.update(1.0f);
  auto img = s.serialize();
  img[4] = 0;                                               // low byte of k
  attempt("deserialize(req image with k = 0) + updates", [&] {
    auto r = req_sketch<float>::deserialize(img.data(), img.size());
    printf("  k %d\n", r.get_k());
    for (int i = 0; i < 50; i++) r.update((float)i);
    printf("  n %llu\n", (unsigned long long)r.get_n());
  });
  return 0;
}
