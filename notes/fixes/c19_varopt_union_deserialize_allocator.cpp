// C19 repro: var_opt_union::deserialize() of the image of an EMPTY union returns var_opt_union(max_k), i.e. with a
// default-constructed allocator instead of the one supplied by the caller (both the bytes and the stream form).
//   g++ -std=c++17 -I/repo/common/include -I/repo/common/test -I/repo/sampling/include c19_varopt_union_deserialize_allocator.cpp /repo/common/test/test_allocator.cpp && ./a.out
// pinned tree: "exception: test_allocator: default constructor"
#include <cstdio>
#include "test_allocator.hpp"
#include "var_opt_union.hpp"
int main() {
  using namespace datasketches;
  using A = test_allocator<int>;
  try {
    var_opt_union<int, A> u(8, A(0));
    auto bytes = u.serialize();
    auto d = var_opt_union<int, A>::deserialize(bytes.data(), bytes.size(), serde<int>(), A(0));
    printf("deserialized\n");
  } catch (const std::exception& e) { printf("exception: %s\n", e.what()); return 1; }
  return 0;
}
