// Minimal repro (C15): update() through a filter living in caller memory never stores the dirty marker / bit
// count in that memory, so a later wrap / writable_wrap / deserialize of the same memory reads NumBitsSet = 0,
// believes the filter is empty and answers "absent" for every inserted item (false negative).
//   g++ -std=c++11 -I/repo/common/include -I/repo/filters/include bloom_dirty_writethrough.cpp && ./a.out
// exit 0 = property holds, 1 = defect present.  Fix: bloom_dirty_writethrough.diff (internal_update stores
// DIRTY_BITS_VALUE at NUM_BITS_SET_OFFSET_BYTES of wrapped memory, the way update_num_bits_set stores a count).
#include <bloom_filter.hpp>
#include <cstdio>
#include <vector>
using namespace datasketches;
int main() {
  std::vector<uint8_t> mem(bloom_filter::get_serialized_size_bytes(256));
  auto f = bloom_filter::builder::initialize_by_size(mem.data(), mem.size(), 256, 3, 7);
  f.update(static_cast<uint64_t>(42));
  int bad = 0;
  if (!f.query(static_cast<uint64_t>(42))) { printf("original view: query(42) = false\n"); bad = 1; }
  auto ro = bloom_filter::wrap(mem.data(), mem.size());
  printf("wrap(mem):          is_empty=%d query(42)=%d\n", ro.is_empty(), ro.query(static_cast<uint64_t>(42)));
  if (ro.is_empty() || !ro.query(static_cast<uint64_t>(42))) bad = 1;
  auto rw = bloom_filter::writable_wrap(mem.data(), mem.size());
  printf("writable_wrap(mem): is_empty=%d query(42)=%d bits_used=%llu\n", rw.is_empty(), rw.query(static_cast<uint64_t>(42)),
         static_cast<unsigned long long>(rw.get_bits_used()));
  if (rw.is_empty() || !rw.query(static_cast<uint64_t>(42))) bad = 1;
  auto de = bloom_filter::deserialize(mem.data(), mem.size());
  printf("deserialize(mem):   is_empty=%d query(42)=%d\n", de.is_empty(), de.query(static_cast<uint64_t>(42)));
  if (de.is_empty() || !de.query(static_cast<uint64_t>(42))) bad = 1;
  printf(bad ? "DEFECT: an inserted item is reported absent through a later view of the same memory\n" : "ok\n");
  return bad;
}
