// C09 repro: req_sketch::serialize() (bytes form) is longer than the stream form for n = 2..4, because
// get_serialized_size_bytes() tests n == 1 where both writers test n <= MIN_K (raw items layout).
// g++ -std=c++17 -I/repo/common/include -I/repo/req/include req_serialize_size.cpp && ./a.out
// unchanged tree: n=2: bytes 36 stream 16; n=3: 40 / 20; n=4: 44 / 24 (exit 1); with req_serialize_size.diff: equal (exit 0)
#include <req_sketch.hpp>
#include <sstream>
#include <cstdio>
int main() {
  int bad = 0;
  for (int n = 0; n <= 6; n++) {
    datasketches::req_sketch<float> s(12);
    for (int i = 0; i < n; i++) s.update((float)i);
    auto bytes = s.serialize();
    std::ostringstream os; s.serialize(os);
    printf("n=%d bytes=%zu stream=%zu advertised=%zu\n", n, bytes.size(), os.str().size(), s.get_serialized_size_bytes());
    if (bytes.size() != os.str().size()) bad++;
  }
  return bad ? 1 : 0;
}
