// C11 repro: density_sketch::deserialize(bytes) reads a level size without checking the buffer and trusts it
// build: g++ -std=c++17 -g -fsanitize=address -I/repo/common/include -I/repo/density/include reader_density_level_size.cpp -o reader_density_level_size
// pinned tree : ASan heap-buffer-overflow READ of size 4 (num_retained lowered by one: the reader looks for one more level header at the end of the buffer)
// with reader_density_level_size.diff : rejected with "Error deserializing sketch: level size exceeds the number of retained points" / "Insufficient buffer size ..."
#include <cstdio>
#include <cstdint>
#include <cstring>
#include <vector>
#include <string>
#include <sstream>
#include <stdexcept>
#include <density_sketch.hpp>
using namespace datasketches;
// the reader gets a heap buffer of EXACTLY n bytes, so AddressSanitizer sees the first byte read past it
static std::vector<uint8_t> exact(const std::vector<uint8_t>& img, size_t n) { return std::vector<uint8_t>(img.begin(), img.begin() + n); }
template<class F> static void attempt(const char* what, F f) {
  try { f(); printf("%s: accepted\n", what); }
  catch (const std::exception& e) { printf("%s: rejected with \"%s\"\n", what, e.what()); }
}
int main() {
  density_sketch<float> s(4, 2);
  for (int i = 0; i < 5; i++) s.update(std::vector<float>{float(i), float(i * i)});
  auto v = s.serialize();
  std::vector<uint8_t> img(v.begin(), v.end());
  img[12] += 1;                                             // num_retained (u32 @12) 5 -> 6: one more point expected than present
  attempt("deserialize(density image with num_retained + 1)", [&] { auto b = exact(img, img.size()); density_sketch<float>::deserialize(b.data(), b.size()); });
  return 0;
}
