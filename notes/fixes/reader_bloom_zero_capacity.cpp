// C11 repro: bloom_filter deserialize / wrap accept a bit array length of zero
// build: g++ -std=c++17 -g -fsanitize=address -I/repo/common/include -I/repo/filters/include reader_bloom_zero_capacity.cpp -o reader_bloom_zero_capacity
// pinned tree : accepted with get_capacity() = 0; query() computes 'hash % capacity': SIGFPE (integer division by zero)
// with reader_bloom_zero_capacity.diff : rejected with "Possible corruption: bit array length must be positive"
#include <cstdio>
#include <cstdint>
#include <cstring>
#include <vector>
#include <string>
#include <sstream>
#include <stdexcept>
#include <csignal>
#include <unistd.h>
#include <bloom_filter.hpp>
using namespace datasketches;
template<class F> static void attempt(const char* what, F f) {
  try { f(); printf("%s: accepted and used\n", what); }
  catch (const std::exception& e) { printf("%s: rejected with \"%s\"\n", what, e.what()); }
}
int main() {
  setvbuf(stdout, nullptr, _IONBF, 0);
  alarm(20);   // two of these defects are (practically) endless loops
  auto f = bloom_filter::builder::create_by_size(128, 3, 123);
  for (uint64_t i = 0; i < 10; i++) f.update(i);
  auto img = f.serialize();
  img[16] = 0;                                              // bit array length in longs: 2 -> 0
  attempt("deserialize(bloom image with 0 longs) + query", [&] {
    auto r = bloom_filter::deserialize(img.data(), img.size());
    printf("  capacity %llu\n", (unsigned long long)r.get_capacity());
    printf("  query %d\n", r.query((uint64_t)42));
  });
  return 0;
}
