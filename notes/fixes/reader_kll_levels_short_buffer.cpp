// C11 repro: kll_sketch::deserialize(bytes) copies the level offsets without checking the buffer
// build: g++ -std=c++17 -g -fsanitize=address -I/repo/common/include -I/repo/kll/include reader_kll_levels_short_buffer.cpp -o reader_kll_levels_short_buffer
// pinned tree : ASan heap-buffer-overflow READ (memcpy of num_levels * 4 bytes from a 20-byte buffer)
// with reader_kll_levels_short_buffer.diff : rejected with "Insufficient buffer size detected: bytes available 0, minimum needed 12"
#include <cstdio>
#include <cstdint>
#include <cstring>
#include <vector>
#include <string>
#include <sstream>
#include <stdexcept>
#include <kll_sketch.hpp>
using namespace datasketches;
// the reader gets a heap buffer of EXACTLY n bytes, so AddressSanitizer sees the first byte read past it
static std::vector<uint8_t> exact(const std::vector<uint8_t>& img, size_t n) { return std::vector<uint8_t>(img.begin(), img.begin() + n); }
template<class F> static void attempt(const char* what, F f) {
  try { f(); printf("%s: accepted\n", what); }
  catch (const std::exception& e) { printf("%s: rejected with \"%s\"\n", what, e.what()); }
}
int main() {
  kll_sketch<float> s(8);
  for (int i = 0; i < 60; i++) s.update(i);
  auto v = s.serialize();
  std::vector<uint8_t> img(v.begin(), v.end());
  auto b = exact(img, 20);                                  // exactly the 5 preamble ints
  attempt("deserialize(kll image, 20 bytes)", [&] { kll_sketch<float>::deserialize(b.data(), b.size()); });
  return 0;
}
