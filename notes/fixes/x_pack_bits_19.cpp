// X08 finding: pack_bits_19 (theta/include/bit_packing.hpp) ORs a WHOLE byte into the destination without assigning it first:
//     *ptr++ |= static_cast<uint8_t>(values[4] >> 7);          // byte 10 of the 19-byte block; every other byte of every width is assigned
// so pack_bits_block8(values, ptr, 19) is only correct on a zeroed destination.  compact_theta_sketch::serialize_compressed(std::ostream&)
// reuses ONE buffer for all blocks of 8 entries: from the second block on, byte 10 of each block is ORed with the previous block's byte,
// the stream image differs from the bytes image and deserializes to different entries (only when entry_bits == 19).
//   g++ -std=c++17 -I/repo/common/include -I/repo/theta/include x_pack_bits_19.cpp && ./a.out      (exit 1 unchanged, 0 with x_pack_bits_19.diff)
#include <sstream>
#include <iostream>
#include <stdexcept>
#include <string>
#include <cstring>
#include <theta_sketch.hpp>
using namespace datasketches;
int main() {
  int bad = 0;
  { // the function itself: all-zero values into a destination of 0xFF bytes
    uint64_t values[8] = {0, 0, 0, 0, 0, 0, 0, 0};
    uint8_t dst[19]; memset(dst, 0xFF, sizeof dst);
    pack_bits_block8(values, dst, 19);
    int wrong = 0; for (int i = 0; i < 19; i++) wrong += dst[i] != 0;
    std::cout << "pack_bits_block8(zeros, 19 bits) into 0xFF bytes: " << wrong << " byte(s) not written (byte 10 = " << (int)dst[10] << ")\n";
    bad += wrong != 0;
  }
  { // through the public API: an exact compact sketch whose 24 ordered entries differ by 2^18 + small (entry_bits = 19)
    auto u = update_theta_sketch::builder().build();
    for (int i = 0; i < 24; i++) u.update(i);
    auto img = u.compact(true).serialize();                       // uncompressed image: 3 preamble longs... exact mode: 2 longs + 24 entries
    const size_t first = img.size() - 24 * 8;
    uint64_t h = 0;
    for (int i = 0; i < 24; i++) { h += (1ULL << 18) + 12345ULL * (i + 1) % 200000ULL; memcpy(img.data() + first + 8 * i, &h, 8); }
    auto c = compact_theta_sketch::deserialize(img.data(), img.size());
    auto bytes = c.serialize_compressed();
    std::stringstream ss; c.serialize_compressed(ss); const std::string str = ss.str();
    const bool same = str.size() == bytes.size() && memcmp(str.data(), bytes.data(), bytes.size()) == 0;
    auto back = compact_theta_sketch::deserialize(ss);
    bool equal = back.get_num_retained() == c.get_num_retained();
    auto it1 = c.begin(); auto it2 = back.begin();
    for (; equal && it1 != c.end(); ++it1, ++it2) equal = *it1 == *it2;
    std::cout << "entry_bits byte of the compressed image: " << (int)bytes[3] << "; stream image == bytes image: " << same << "; stream round trip keeps the entries: " << equal << "\n";
    bad += !same || !equal;
  }
  return bad ? 1 : 0;
}
