// C19 repro: var_opt_union<T,A>::operator=(const var_opt_union&) is ill-formed: it calls
// std::swap(allocator_, other.allocator_) with `other` const (union_copy.allocator_ is meant).  Does not compile:
//   g++ -std=c++11 -fsyntax-only -I/repo/common/include -I/repo/sampling/include c19_varopt_union_copy_assign.cpp
#include "var_opt_union.hpp"
int main() {
  datasketches::var_opt_union<int> a(8), b(8);
  a = b;
  return 0;
}
