// C19 repro: var_opt_sketch::decrease_k_by_1() (used by var_opt_union::get_result() to migrate marked items) swaps the
// rightmost R item with the GAP slot without looking at filled_data_: when the gap holds no object it move-assigns from and
// into raw storage (undefined behaviour for any non-trivial T), and the slot that falls out of use when k_ is decremented is
// never destroyed (item leaked).
//   g++ -std=c++17 -I/repo/common/include -I/repo/sampling/include c19_varopt_decrease_k.cpp && ./a.out
// pinned tree prints "assignment from/into storage that holds no object" and "N items never destroyed".
#include <cstdio>
#include <set>
#include "var_opt_sketch.hpp"
#include "var_opt_union.hpp"
static std::set<const void*> live;
struct item {
  int v;
  explicit item(int x) : v(x) { live.insert(this); }
  item(const item& o) : v(o.v) { live.insert(this); }
  item(item&& o) noexcept : v(o.v) { live.insert(this); }
  item& operator=(const item& o) { check(this); check(&o); v = o.v; return *this; }
  item& operator=(item&& o) noexcept { check(this); check(&o); v = o.v; return *this; }
  ~item() { live.erase(this); }
  static void check(const void* p) { if (!live.count(p)) printf("assignment from/into storage that holds no object\n"); }
};
int main() {
  using namespace datasketches;
  random_utils::override_seed(0x5eedc19ULL);
  {
    var_opt_union<item> u(8);
    { var_opt_sketch<item> k(8); int n = 0; for (int v : {5, 3, 9}) { k.update(item(v), 1.0 + n % 7); n++; } u.update(std::move(k)); }
    { auto r = u.get_result(); }
    var_opt_sketch<item> k(6);
    uint32_t x = 12345;
    for (int n = 0; n < 40; n++) { x = x * 1664525u + 1013904223u; k.update(item(100 + (int)((x >> 8) % 100000)), 1.0 + n % 7); }
    u.update(k);
    auto r = u.get_result();
  }
  printf("%zu items never destroyed\n", live.size());
  return 0;
}
