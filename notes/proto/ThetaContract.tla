---- MODULE ThetaContract ----
EXTENDS Naturals, FiniteSets
CONSTANTS K, MaxHash, StartTheta
VARIABLES theta, ret, empty, seen
cvars == <<theta, ret, empty, seen>>
Init == theta = StartTheta /\ ret = {} /\ empty = TRUE /\ seen = {}
\* the property leaves open WHEN theta is lowered; it fixes what every post-state must look like
Post(th, r, s) == /\ r = {x \in s : x < th}
                  /\ (th = StartTheta \/ th \in s)
                  /\ (th < StartTheta => Cardinality(r) >= K)
Update(h) == /\ seen' = seen \cup {h}
             /\ empty' = FALSE
             /\ \E th \in ({theta} \cup seen') : /\ th <= theta
                                                 /\ theta' = th
                                                 /\ ret' = {x \in seen' : x < th}
                                                 /\ Post(th, ret', seen')
Next == \E h \in 1..MaxHash : Update(h)
Spec == Init /\ [][Next]_cvars
====
