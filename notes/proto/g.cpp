#include <ebpps_sketch.hpp>
#include <var_opt_sketch.hpp>
#include <var_opt_union.hpp>
#include <cstdio>
#include <random>
#include <cmath>
using namespace datasketches;
int main(){
  std::mt19937 rng(3); double worst=0; int badsize=0;
  for (int k: {1,2,3,5,8,16}) for (int rep=0; rep<50; rep++){
    ebpps_sketch<int> s(k); double W=0, wm=0; 
    for (int i=0;i<200;i++){ int w = 1 + rng()% (rep%2? 5: 1000); s.update(i, w); W+=w; wm=std::max(wm,(double)w);
      double c = std::min((double)k, W/wm); worst = std::max(worst, std::fabs(s.get_c()-c));
      auto r = s.get_result(); if (!(r.size()==(size_t)std::floor(s.get_c()) || r.size()==(size_t)std::ceil(s.get_c()))) badsize++; }
    // merge
    ebpps_sketch<int> a(k), b(k+1); double Wa=0,Wb=0,wma=0,wmb=0;
    for (int i=0;i<50+rep;i++){int w=1+rng()%10; a.update(i,w); Wa+=w; wma=std::max(wma,(double)w);} 
    for (int i=1000;i<1020+3*rep;i++){int w=1+rng()%10; b.update(i,w); Wb+=w; wmb=std::max(wmb,(double)w);} 
    a.merge(b); double c=std::min((double)std::min(k,k+1),(Wa+Wb)/std::max(wma,wmb));
    worst=std::max(worst,std::fabs(a.get_c()-c)); if (a.get_n()!= (uint64_t)(50+rep+20+3*rep)) printf("n mismatch\n"); if (std::fabs(a.get_cumulative_weight()-(Wa+Wb))>1e-9) printf("W mismatch\n");
  }
  printf("ebpps worst |c - min(k,W/wmax)| = %.3g badsize=%d\n", worst, badsize);
  // varopt: total weight conservation & heavy items
  double worstrel=0; int badheavy=0, badcount=0;
  for (int k: {1,2,5,16,64}) for (int rep=0;rep<30;rep++){ var_opt_sketch<int> v(k); double W=0; std::vector<int> wts;
    for (int i=0;i<500;i++){ int w = (rep%3==0)? 1+rng()%3 : (rep%3==1? (1<< (rng()%10)) : 1+rng()%1000); if (i==77&&rep%2) w=100000; v.update(i,w); W+=w; wts.push_back(w);
      double sum=0; unsigned cnt=0; double tau=-1; for (auto p: v){ sum+=p.second; cnt++; }
      if (cnt != std::min<unsigned>(i+1,k)) badcount++;
      worstrel=std::max(worstrel, std::fabs(sum-W)/W); }
  }
  printf("varopt worst rel weight error=%.3g badcount=%d\n", worstrel, badcount);
}
