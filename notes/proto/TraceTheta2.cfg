SPECIFICATION TSpec
CONSTANTS LgK = 5
 LgRf = 3
 MaxHash = 100000
 StartTheta = 100001
INVARIANT Sample ThetaOK EstMode
POSTCONDITION Accepted
CHECK_DEADLOCK FALSE
