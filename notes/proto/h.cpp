#include <tdigest.hpp>
#include <cstdio>
#include <random>
#include <cmath>
using namespace datasketches;
int main(){
  std::mt19937 rng(5); int badr=0,badq=0,badrange=0,badw=0,badmm=0; 
  for (int k: {10, 20, 50, 100, 200}) for (int shape=0; shape<6; shape++) for (int n: {1,2,3,5,17,100,1000,20000}){
    tdigest<double> t(k); double mn=1e300,mx=-1e300; std::vector<double> vals;
    for (int i=0;i<n;i++){ double v; switch(shape){case 0: v=i; break; case 1: v=n-i; break; case 2: v=(rng()%1000)/7.0; break; case 3: v=5; break; case 4: v=(rng()%5); break; default: v=std::exp((rng()%2000)/100.0);} t.update(v); mn=std::min(mn,v); mx=std::max(mx,v); vals.push_back(v);} 
    if (t.get_total_weight()!=(uint64_t)n) badw++;
    if (t.get_min_value()!=mn || t.get_max_value()!=mx) badmm++;
    double prev=-1; for (int j=0;j<=400;j++){ double x = mn + (mx-mn)*j/400.0; double r=t.get_rank(x); if (r<prev-1e-12) { badr++; if (badr<4) printf("rank nonmono k=%d shape=%d n=%d x=%g r=%.9g prev=%.9g\n",k,shape,n,x,r,prev);} if (r<0||r>1) badrange++; prev=r; }
    double pq=-1e300; for (int j=0;j<=400;j++){ double q=t.get_quantile(j/400.0); if (q<pq-1e-9*std::fabs(pq)) { badq++; if (badq<6) printf("quantile nonmono k=%d shape=%d n=%d rank=%g q=%.9g prev=%.9g\n",k,shape,n,j/400.0,q,pq);} if (q<mn||q>mx) { badrange++; if (badrange<6) printf("quantile out of range k=%d shape=%d n=%d rank=%g q=%.9g [%g,%g]\n",k,shape,n,j/400.0,q,mn,mx);} pq=q; }
    if (t.get_quantile(0)!=mn || t.get_quantile(1)!=mx) { badmm++; }
  }
  printf("tdigest: badrank=%d badquantile=%d badrange=%d badweight=%d badminmax=%d\n",badr,badq,badrange,badw,badmm);
}
