---- MODULE ThetaInd ----
EXTENDS Integers, FiniteSets
CONSTANTS
  \* @type: Int;
  K,
  \* @type: Int;
  MaxHash,
  \* @type: Int;
  StartTheta
VARIABLES
  \* @type: Int;
  theta,
  \* @type: Set(Int);
  ret,
  \* @type: Bool;
  empty,
  \* @type: Set(Int);
  seen
CInit == K = 3 /\ MaxHash = 12 /\ StartTheta = 13
Init == theta = StartTheta /\ ret = {} /\ empty = TRUE /\ seen = {}
Update(h) == LET s2 == seen \cup {h} IN
             /\ seen' = s2
             /\ empty' = FALSE
             /\ \E th \in ({theta} \cup s2) :
                   /\ th <= theta
                   /\ theta' = th
                   /\ ret' = {x \in s2 : x < th}
                   /\ (th < StartTheta => Cardinality({x \in s2 : x < th}) >= K)
Next == \E h \in 1..MaxHash : Update(h)
TypeOK == theta \in 1..StartTheta /\ seen \in SUBSET (1..MaxHash) /\ ret \in SUBSET (1..MaxHash) /\ empty \in BOOLEAN
IndInv == /\ TypeOK
          /\ ret = {x \in seen : x < theta}
          /\ (theta = StartTheta \/ theta \in seen)
          /\ (theta < StartTheta => Cardinality(ret) >= K)
====
