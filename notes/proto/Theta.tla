---- MODULE Theta ----
EXTENDS Naturals, FiniteSets, Sequences, FiniteSetsExt
CONSTANTS LgK, LgRf, MaxHash, StartTheta
VARIABLES theta, ret, empty, lgCur, seen
vars == <<theta, ret, empty, lgCur, seen>>
K == 2^LgK
MinLg == 1
StartLg == LET t == LgK + 1 IN IF t <= MinLg THEN MinLg ELSE IF LgRf = 0 THEN t ELSE ((t - MinLg) % LgRf) + MinLg
Cap(lg) == IF lg <= LgK THEN (2^lg) \div 2 ELSE (15 * 2^lg) \div 16
\* k+1 th smallest of S
KthSmallest(S, n) == CHOOSE x \in S : Cardinality({y \in S : y < x}) = n - 1
Init == theta = StartTheta /\ ret = {} /\ empty = TRUE /\ lgCur = StartLg /\ seen = {}
Update(h) ==
  /\ empty' = FALSE
  /\ seen' = seen \cup {h}
  /\ IF h >= theta \/ h \in ret THEN UNCHANGED <<theta, ret, lgCur>>
     ELSE LET r1 == ret \cup {h} IN
       IF Cardinality(r1) > Cap(lgCur) THEN
          IF lgCur <= LgK THEN /\ lgCur' = IF lgCur + LgRf < LgK + 1 THEN lgCur + LgRf ELSE LgK + 1
                               /\ ret' = r1 /\ UNCHANGED theta
          ELSE LET t == KthSmallest(r1, K + 1) IN
               /\ theta' = t /\ ret' = {x \in r1 : x < t} /\ UNCHANGED lgCur
       ELSE ret' = r1 /\ UNCHANGED <<theta, lgCur>>
Next == \E h \in 1..MaxHash : Update(h)
Spec == Init /\ [][Next]_vars
Sample == ret = {h \in seen : h < theta}
ThetaOK == theta = StartTheta \/ theta \in seen
EstMode == theta < StartTheta => Cardinality(ret) >= K
====
