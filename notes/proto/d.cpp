#include <hll.hpp>
#include <kll_sketch.hpp>
#include <req_sketch.hpp>
#include <bloom_filter.hpp>
#include <tdigest.hpp>
#include <density_sketch.hpp>
#include <cstdio>
#include <sstream>
using namespace datasketches;
int main(){
 { // HLL union
   hll_sketch a(12, HLL_8), b(10, HLL_8);
   for(int i=0;i<20000;i++) a.update(i);
   for(int i=100000;i<100100;i++) b.update(i);  // b small
   hll_sketch b2(10, HLL_8); for(int i=100000;i<120000;i++) b2.update(i);
   hll_union u(10); u.update(a); printf("after a: est=%.0f empty=%d\n", u.get_composite_estimate(), u.is_empty());
   hll_union u2(10); u2.update(a); u2.update(b2); printf("a then b2 (no estimate between): est=%.0f (expect ~40000)\n", u2.get_composite_estimate());
   hll_union u3(10); u3.update(b2); u3.update(a); printf("b2 then a: est=%.0f\n", u3.get_composite_estimate());
 }
 { // KLL iterator
   kll_sketch<float> a(8), b(8);
   for(int i=0;i<200;i++) a.update(i);
   // find state with empty level 0 after merge
   for (int n=1;n<400;n++){ kll_sketch<float> x(8), y(8); for(int i=0;i<n;i++) x.update(i); for(int i=0;i<n;i++) y.update(1000+i); x.merge(y);
     uint64_t w=0; unsigned cnt=0; for (auto p: x){ w+=p.second; cnt++; }
     if (w!=x.get_n()) { printf("KLL n=%d: iterator weight sum %llu != n %llu (retained %u, iter count %u)\n", n,(unsigned long long)w,(unsigned long long)x.get_n(), x.get_num_retained(), cnt); break; }
   }
 }
 { // bloom
   size_t sz = bloom_filter::get_serialized_size_bytes(256);
   std::vector<uint8_t> mem(sz);
   auto bf = bloom_filter::builder::initialize_by_size(mem.data(), sz, 256, 3, 123);
   bf.update((uint64_t)42);
   printf("bloom: writable q=%d\n", bf.query((uint64_t)42));
   auto w = bloom_filter::wrap(mem.data(), sz);
   printf("bloom: fresh wrap q=%d (expect 1)\n", w.query((uint64_t)42));
   auto d = bloom_filter::deserialize(mem.data(), sz);
   printf("bloom: deserialize q=%d (expect 1)\n", d.query((uint64_t)42));
 }
 { // REQ bytes vs stream
   for (int n=0;n<7;n++){ req_sketch<float> r(12); for(int i=0;i<n;i++) r.update(i); auto b=r.serialize(); std::stringstream ss; r.serialize(ss); printf("req n=%d bytes=%zu stream=%zu size=%zu\n", n,b.size(), ss.str().size(), r.get_serialized_size_bytes()); }
 }
 { // density header
   density_sketch<float> ds(10, 2); ds.update(std::vector<float>{1,2});
   try { auto b=ds.serialize(8); printf("density header ok %zu\n", b.size()); } catch(std::exception&e){ printf("density header throws: %s\n", e.what()); }
 }
 return 0;
}
