---- MODULE Kll ----
EXTENDS Naturals, Sequences, FiniteSets, SequencesExt, FiniteSetsExt, Functions, TLC
CONSTANTS K, M
VARIABLES levels, n, coin
vars == <<levels, n, coin>>
NumLevels == Len(levels)
Max2(a,b) == IF a > b THEN a ELSE b
IntCapAux(depth) == LET tmp == ((2*K) * 2^depth) \div 3^depth IN (tmp + 1) \div 2
Cap(nl, h) == Max2(M, IntCapAux(nl - h - 1))   \* h is 0-based
SumSeq(s) == FoldSeq(LAMBDA x, y: x + y, 0, s)
TotalCap(nl) == SumSeq([h \in 1..nl |-> Cap(nl, h-1)])
TotalItems == SumSeq([h \in 1..NumLevels |-> Len(levels[h])])
Weight == SumSeq([h \in 1..NumLevels |-> Len(levels[h]) * 2^(h-1)])
\* sorted merge of two ascending sequences
RECURSIVE MergeSorted(_,_)
MergeSorted(a, b) == IF a = <<>> THEN b ELSE IF b = <<>> THEN a
   ELSE IF Head(a) < Head(b) THEN <<Head(a)>> \o MergeSorted(Tail(a), b)
   ELSE <<Head(b)>> \o MergeSorted(a, Tail(b))
SortAsc(s) == SortSeq(s, LAMBDA x, y: x < y)
\* 0-based parity selection: keep elements whose 0-based index has parity p
Pick(s, p) == [i \in 1..(Len(s) \div 2) |-> s[2*i - 1 + p]]
FindLevel == CHOOSE h \in 0..(NumLevels-1) : /\ Len(levels[h+1]) >= Cap(NumLevels, h)
                                             /\ \A g \in 0..(h-1) : Len(levels[g+1]) < Cap(NumLevels, g)
Compress(lv, c) ==
  LET h == FindLevel
      lv1 == IF h = Len(lv) - 1 THEN Append(lv, <<>>) ELSE lv
      raw == lv1[h+1]
      odd == Len(raw) % 2 = 1
      left == IF odd THEN <<Head(raw)>> ELSE <<>>
      adj0 == IF odd THEN Tail(raw) ELSE raw
      adj == IF h = 0 THEN SortAsc(adj0) ELSE adj0
      above == lv1[h+2]
      halved == IF above = <<>> THEN Pick(adj, 1 - c)   \* halve_up: offset 0 keeps odd 0-based indices
                ELSE Pick(adj, c)                        \* halve_down: offset c keeps index parity c
      merged == IF above = <<>> THEN halved ELSE MergeSorted(halved, above)
  IN [lv1 EXCEPT ![h+1] = left, ![h+2] = merged]
Init == levels = << <<>> >> /\ n = 0 /\ coin = 0
Update(v) ==
  LET full == TotalItems = TotalCap(NumLevels)
      lv == IF full THEN Compress(levels, coin) ELSE levels
  IN /\ levels' = [lv EXCEPT ![1] = <<v>> \o lv[1]]
     /\ n' = n + 1
     /\ coin' = IF full THEN 1 - coin ELSE coin
Next == \E v \in 1..3 : Update(v)
WeightOK == Weight = n
====
