SPECIFICATION TSpec
CONSTANTS K = 8
 M = 8
INVARIANT WeightOK
POSTCONDITION Accepted
CHECK_DEADLOCK FALSE
