#define KLL_VALIDATION
#include <cstdint>
namespace datasketches { uint32_t kll_next_offset = 0; }
#include <kll_sketch.hpp>
#include <cstdio>
#include <random>
using namespace datasketches;
int main(int argc, char** argv){
  int N = atoi(argv[1]); int k = atoi(argv[2]);
  std::mt19937 rng(7);
  kll_sketch<int> s(k);
  for (int i=0;i<N;i++){ int v = rng()%1000+1; s.update(v);
    unsigned nl=0; { uint64_t maxw=0; for (auto p: s) if (p.second>maxw) maxw=p.second; while ((1ull<<nl) <= maxw) nl++; }
    printf("{\"v\":%d,\"n\":%llu,\"ret\":%u,\"nl\":%u", v,(unsigned long long)s.get_n(), s.get_num_retained(), nl);
    if (i%25==24 || i==N-1) { printf(",\"items\":["); bool f=true; for (auto p: s){ printf("%s[%d,%llu]", f?"":",", p.first,(unsigned long long)p.second); f=false;} printf("]"); }
    printf("}\n"); }
}
