// Classic quantiles, NON-compact (updatable) image with a sparse level pattern (n div 2k = 0b10), laid out the way the Java
// library lays out its updatable form (combined buffer copied positionally: 2k base-buffer slots, then k slots for EVERY level
// up to the highest one, used or not; DoublesSketch.getUpdatableStorageBytes = (preamble + (2 + totLevels) * k) * 8).
// The C++ reader skips the base-buffer slack but reads one k-array per SET BIT only, so it takes the (unused) level-0 slots
// for level 1.
#include <quantiles_sketch.hpp>
#include <cstdio>
#include <vector>
#include <cstring>
using namespace datasketches;
int main() {
  const uint16_t k = 2; const uint64_t n = 9;   // 2k = 4: base buffer holds 1 item, bit pattern 0b10 -> level 0 empty, level 1 full
  std::vector<uint8_t> b;
  auto put = [&](const void* p, size_t s) { const uint8_t* q = (const uint8_t*)p; b.insert(b.end(), q, q + s); };
  uint8_t pre[8] = {2, 3, 8, 0 /* flags: not compact, not empty */, 2, 0, 0, 0}; put(pre, 8);
  put(&n, 8);
  double mn = 1, mx = 9; put(&mn, 8); put(&mx, 8);
  double bb[4] = {9, 0, 0, 0}; put(bb, 32);            // base buffer: 2k slots, 1 used
  double l0[2] = {-777, -777}; put(l0, 16);           // level 0: allocated, unused (marked so it is recognisable)
  double l1[2] = {2, 6}; put(l1, 16);                 // level 1: the data
  try {
    auto s = quantiles_sketch<double>::deserialize(b.data(), b.size());
    printf("n=%llu retained=%u items:", (unsigned long long)s.get_n(), s.get_num_retained());
    for (auto it = s.begin(); it != s.end(); ++it) printf(" (%g,w%llu)", (*it).first, (unsigned long long)(*it).second);
    printf("\n");
  } catch (const std::exception& e) { printf("threw: %s\n", e.what()); }
  return 0;
}
