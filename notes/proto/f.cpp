#include <kll_sketch.hpp>
#include <req_sketch.hpp>
#include <cstdio>
#include <random>
using namespace datasketches;
int main(){
  std::mt19937 rng(1);
  int bad=0; double worst=0;
  for (int k: {8, 9, 16, 33, 100, 200}) {
    kll_sketch<float> s(k); kll_sketch<float> m(k);
    for (int i=1;i<=200000;i++){ s.update(rng()%100000);
      if (i%997==0 || i<300) { size_t mx = kll_sketch<float>::get_max_serialized_size_bytes(k, i); // bytes
        // header DATA_START=20? compute implied items: (mx - 20 - levels*4)/4 - 2  -> just compare serialized size
        size_t sz = s.get_serialized_size_bytes(); if (sz>mx){bad++;} double r=(double)sz/mx; if(r>worst)worst=r; }
      if (i%5000==0){ kll_sketch<float> t(k); for(int j=0;j<3000;j++) t.update(rng()%1000); m.merge(t); size_t mx=kll_sketch<float>::get_max_serialized_size_bytes(k, m.get_n()); if (m.get_serialized_size_bytes()>mx) bad++; }
    }
  }
  printf("kll bad=%d worst ratio=%.3f\n", bad, worst);
  // REQ: retained vs to_string capacity
  for (int k: {4,6,12,24}) for (int hra=0;hra<2;hra++){ req_sketch<float> r(k, hra); int viol=0; unsigned maxret=0;
    for (int i=1;i<=100000;i++){ r.update(rng()%100000); auto str=r.to_string(); unsigned cap=0,ret=0; sscanf(strstr(str.c_str(),"Retained items : ")+17,"%u",&ret); sscanf(strstr(str.c_str(),"Capacity items : ")+17,"%u",&cap); if (ret>=cap) viol++; if (i>2000) i+=13; if(i>=99990) printf("req k=%d hra=%d n=%llu ret=%u cap=%u viol=%d\n",k,hra,(unsigned long long)r.get_n(),ret,cap,viol); } }
}
