SPECIFICATION Spec
CONSTANTS LgK = 2
 LgRf = 1
 MaxHash = 9
 StartTheta = 10
INVARIANT Sample ThetaOK EstMode
PROPERTY Refines
CHECK_DEADLOCK FALSE
