SPECIFICATION GSpec
CONSTANTS LgK = 1
 LgRf = 1
 MaxHash = 5
 StartTheta = 6
CONSTRAINT Collect
POSTCONDITION Post
CHECK_DEADLOCK FALSE
