#!/usr/bin/env python3
"""mut.py <name>: apply one source mutant to a copy of the patched scratch tree, run the relevant harness + TLC validation."""
import sys, os, subprocess, shutil, json, re
sys.path.insert(0, "/verif/bin")
from vlib import munge
BASE = "/tmp/quant-builder/repo"
MUT = {
 # name: (file, old, new, kind)
 "c07_kll_merge_max": ("kll/include/kll_sketch_impl.hpp", "    if (comparator_(*max_item_, *other.max_item_)) *max_item_ = conditional_forward<FwdSk>(*other.max_item_);\n  }\n  const uint64_t final_n", "  }\n  const uint64_t final_n", "c07"),
 "c07_rank_incl_offbyone": ("common/include/quantiles_sorted_view_impl.hpp", "  auto it = inclusive ?\n      std::upper_bound(entries_.begin(), entries_.end(), Entry(ref_helper(item), 0), compare_pairs_by_first(comparator_))", "  auto it = inclusive ?\n      std::lower_bound(entries_.begin(), entries_.end(), Entry(ref_helper(item), 0), compare_pairs_by_first(comparator_))", "c07"),
 "c07_quantile_floor": ("common/include/quantiles_sorted_view_impl.hpp", "inclusive ? std::ceil(rank * total_weight_) : rank * total_weight_", "inclusive ? std::floor(rank * total_weight_) : rank * total_weight_", "c07"),
 "c07_classic_iter_weight": ("quantiles/include/quantiles_sketch_impl.hpp", "      level_ = 0;\n      weight_ = 2;", "      level_ = 0;\n      weight_ = 1;", "c07"),
 "c07_req_merge_n": ("req/include/req_sketch_impl.hpp", "  n_ += other.n_;\n  update_max_nom_size();", "  update_max_nom_size();", "c07"),
 "c07_kll_nan": ("kll/include/kll_sketch.hpp", "      return !std::isnan(item);", "      return true || !std::isnan(item);", "c07"),
 "c07_req_quantile_range": ("req/include/req_sketch_impl.hpp", "  if ((rank < 0.0) || (rank > 1.0)) {\n    throw std::invalid_argument(\"Normalized rank cannot be less than 0 or greater than 1\");\n  }\n  // possible side-effect of sorting level zero", "  if (rank < 0.0) rank = 0; if (rank > 1.0) rank = 1;\n  // possible side-effect of sorting level zero", "c07"),
 "c07_kll_item_lost": ("kll/include/kll_helper_impl.hpp", "    } else if (C()(buf[a], buf[b])) {\n      if (a != c) buf[c] = std::move(buf[a]);\n      a++;\n    } else {\n      if (b != c) buf[c] = std::move(buf[b]);\n      b++;\n    }\n  }\n  if (a != lim_a || b != lim_b) throw std::logic_error(\"inconsistent state\");\n}\n\n// this version is to merge from two different buffers", "    } else if (C()(buf[a], buf[b])) {\n      if (a != c) buf[c] = std::move(buf[a]);\n      a++;\n    } else {\n      if (b != c) buf[c] = std::move(buf[a]);\n      b++;\n    }\n  }\n  if (a != lim_a || b != lim_b) throw std::logic_error(\"inconsistent state\");\n}\n\n// this version is to merge from two different buffers", "c07"),
 "c08_kll_same_parity": ("kll/include/kll_helper_impl.hpp", "  const uint32_t offset = random_utils::random_bit();\n#endif\n  uint32_t j = start + offset;", "  const uint32_t offset = random_utils::random_bit() & 0;\n#endif\n  uint32_t j = start + offset;", "c08"),
 "c08_classic_lower_half": ("quantiles/include/quantiles_sketch_impl.hpp", "  for (uint32_t i = rand_offset, o = 0; o < k; i += 2, ++o) {", "  for (uint32_t i = rand_offset, o = 0; o < k; i += 1, ++o) {", "c08"),
 "c08_kll_flips_depend_on_outcome": ("kll/include/kll_helper_impl.hpp", "  const uint32_t offset = random_utils::random_bit();\n#endif\n  uint32_t j = (start + length) - 1 - offset;", "  uint32_t offset = random_utils::random_bit(); if (offset) offset = random_utils::random_bit();\n#endif\n  uint32_t j = (start + length) - 1 - offset;", "c08"),
 "c08_req_odd_coin_true": ("req/include/req_compactor_impl.hpp", "if ((state_ & 1) == 1) { coin_ = !coin_; }", "if ((state_ & 1) == 1) { coin_ = true; }", "c08"),
 "c08_kll_epsilon": ("kll/include/kll_sketch_impl.hpp", ": 2.296 / pow(k, 0.9723);", ": 2.296 / pow(k, 1.5);", "c08"),
 "c08_req_hra_as_lra": ("req/include/req_compactor_impl.hpp", "  const uint32_t low = hra_ ? 0 : non_compact;\n  const uint32_t high = hra_ ? num_items_ - non_compact : num_items_;", "  const uint32_t low = !hra_ ? 0 : non_compact;\n  const uint32_t high = !hra_ ? num_items_ - non_compact : num_items_;", "c08"),
 "keep_req_odd_coin_same": ("req/include/req_compactor_impl.hpp", "if ((state_ & 1) == 1) { coin_ = !coin_; }", "if ((state_ & 1) == 1) { coin_ = coin_; }", "c08"),
 "keep_kll_capacity_floor": ("kll/include/kll_helper_impl.hpp", "  const uint64_t result = (tmp + 1) >> 1; // then here we add 1 and divide by 2", "  const uint64_t result = std::max<uint64_t>(tmp >> 1, 1);", "c07"),
 "c08_req_merge_coin_unpatched": ("req/include/req_compactor_impl.hpp", "  if ((state_ & 1) == 0 && (other.state_ & 1) == 1) coin_ = other.coin_;\n", "", "c08"),
}
TLC = ["java", "-XX:+UseParallelGC", "-Xss64m", "-Xmx4g", "-cp", "/opt/veriftools/tla/tla2tools.jar:/opt/veriftools/tla/CommunityModules-deps.jar", "tlc2.TLC", "-workers", "1"]
def validate(path, spec):
    lines = open(path).read().splitlines()
    ev = munge.munge_lines(lines)
    m = path.replace(".ndjson", ".m.ndjson")
    with open(m, "w") as f:
        for e in ev: f.write(json.dumps(e, separators=(",", ":")) + "\n")
    md = "/verif/build/md/qmut_%d" % os.getpid(); os.makedirs(md, exist_ok=True)
    p = subprocess.run(TLC + ["-metadir", md, "-config", "/verif/spec/%s.cfg" % spec, "/verif/spec/%s.tla" % spec], env=dict(os.environ, TRACE=m), cwd=md, capture_output=True, text=True, timeout=900)
    shutil.rmtree(md, ignore_errors=True)
    rej = re.findall(r'<<"REJECT", "([^"]+)", (\d+)>>', p.stdout)
    acc = '<<"ACCEPTED"' in p.stdout
    return acc, rej, (lines[int(rej[0][1]) - 1][:160] if rej else "")
def main(name):
    f, old, new, kind = MUT[name]
    d = "/tmp/quant-builder/mut/" + name
    shutil.rmtree(d, ignore_errors=True)
    subprocess.run(["rsync", "-a", BASE + "/", d + "/"], check=True)
    s = open(os.path.join(d, f)).read(); assert s.count(old) >= 1, "pattern not found"; s = s.replace(old, new, 1); open(os.path.join(d, f), "w").write(s)
    inc = ["-I/verif/harness"] + ["-I%s/%s/include" % (d, x) for x in ("common", "kll", "req", "quantiles")]
    out = []
    def build(h, opt="-O1"):
        exe = "%s/%s" % (d, h)
        r = subprocess.run(["g++", "-std=c++17", opt, "-DDATASKETCHES_VERIF"] + inc + ["/verif/harness/%s.cpp" % h, "-o", exe], capture_output=True, text=True)
        if r.returncode: print(r.stderr[-2000:]); sys.exit(3)
        return exe
    if kind == "c07":
        exe = build("quant_rec")
        for k in range(4):
            tr = "%s/t%d.ndjson" % (d, k)
            r = subprocess.run([exe, "--seed", str(1000 + k), "--segments", "6", "--events", str(420 + 40 * k), "--maxn", "1200", "--kscale", "1", "--serde", "4", "--out", tr], capture_output=True, text=True, timeout=300)
            if r.returncode: out.append("file %d: harness exit %d (%s)" % (k, r.returncode, r.stderr.strip()[-100:])); continue
            acc, rej, ev = validate(tr, "TraceQuantiles")
            out.append("file %d: %s %s %s" % (k, "accepted" if acc else "REJECTED", rej[:1], ev))
    else:
        exe = build("coin_rec")
        tr = "%s/coin.ndjson" % d
        subprocess.run([exe, "--fmax", "10", "--out", tr], check=True, capture_output=True, timeout=600)
        segs = open(tr).read().split('{"e":"Begin"')
        for i, sg in enumerate(segs[1:]):
            p = "%s/coin%d.ndjson" % (d, i); open(p, "w").write('{"e":"Begin"' + sg)
            acc, rej, ev = validate(p, "TraceCoin")
            if not acc: out.append("coin scenario %d %s: REJECTED %s" % (i, json.loads(open(p).readline())["scen"], rej[:1]))
        out.append("coin scenarios rejected: %d of %d" % (len(out), len(segs) - 1))
        exe = build("quant_err_rec", "-O2")
        for fam in range(3):
            tr = "%s/err%d.ndjson" % (d, fam)
            subprocess.run([exe, "--fam", str(fam), "--trials", "24", "--n", "100000", "--seed", str(1 + 17 * fam), "--out", tr], check=True, capture_output=True, timeout=600)
            acc, rej, ev = validate(tr, "TraceQuantErr")
            if not acc: out.append("published-error fam %d: REJECTED %s" % (fam, rej[:3]))
    print("== %s\n   %s" % (name, "\n   ".join(out)))
    shutil.rmtree(d, ignore_errors=True)
if __name__ == "__main__":
    if sys.argv[1] == "list": print(" ".join(MUT))
    else: main(sys.argv[1])
