#include <var_opt_sketch.hpp>
#include <var_opt_union.hpp>
#include <density_sketch.hpp>
#include <bloom_filter.hpp>
#include <hll.hpp>
#include <cstdio>
#include <random>
#include <map>
#include <set>
#include <cmath>
#include <cstring>
using namespace datasketches;
std::vector<uint8_t> regs(const hll_sketch& s, int& lgk, int& mode, std::set<uint32_t>& cp){ hll_sketch c(s,HLL_8); auto b=c.serialize_updatable(); lgk=b[3]; mode=b[7]&3; std::vector<uint8_t> r; if(mode==2) r.assign(b.begin()+40,b.begin()+40+(1<<lgk)); else { int st=mode==0?8:12; for(size_t i=st;i+4<=b.size();i+=4){uint32_t v; memcpy(&v,&b[i],4); if(v) cp.insert(v);} } return r; }
int main(){ std::mt19937 rng(29);
  // VarOpt heavy clause + union
  int vbad=0; for(int rep=0;rep<200;rep++){ int k=1+rng()%20; var_opt_sketch<int> v(k); std::map<int,int> w; double W=0; int n=rng()%400;
    for(int i=0;i<n;i++){ int wt = (rng()%10==0)? 1000+rng()%100000 : 1+rng()%20; v.update(i,wt); w[i]=wt; W+=wt;
      // tau = weight of any item whose weight != its stream weight ... compute: items in sample
      std::map<int,double> samp; for(auto p: v) samp[p.first]=p.second; double tau=-1; for(auto&kv: samp) if (std::fabs(kv.second - w[kv.first])>1e-9) tau=kv.second; 
      if (tau>0) for(auto&kv: w) if (kv.second>tau*(1+1e-12)) { if(!samp.count(kv.first) || std::fabs(samp[kv.first]-kv.second)>1e-9){ vbad++; if(vbad<5) printf("varopt heavy item %d w=%d tau=%g missing/altered\n",kv.first,kv.second,tau);} }
      for(auto&kv: samp) if(!w.count(kv.first)) vbad++; }
  }
  // union
  int ubad=0; for(int rep=0;rep<200;rep++){ int nsk=2+rng()%3; var_opt_union<int> u(1+rng()%30); double W=0; uint64_t N=0; std::set<int> all; int id=0;
    for(int s=0;s<nsk;s++){ int k=1+rng()%30; var_opt_sketch<int> v(k); int n=rng()%200; for(int i=0;i<n;i++){ int wt=(rng()%15==0)?5000:1+rng()%9; v.update(id,wt); all.insert(id); id++; W+=wt; N++; } if(rng()%2) u.update(v); else u.update(std::move(v)); }
    auto r=u.get_result(); double sum=0; for(auto p: r){ sum+=p.second; if(!all.count(p.first)) ubad++; } if (r.get_n()!=N) {ubad++; if(ubad<5) printf("union n %llu vs %llu\n",(unsigned long long)r.get_n(),(unsigned long long)N);} if (N>0 && std::fabs(sum-W)/W>1e-9) { ubad++; if(ubad<8) printf("union weight %.10g vs %.10g (rel %.3g)\n",sum,W,std::fabs(sum-W)/W);} }
  printf("varopt heavy bad=%d union bad=%d\n",vbad,ubad);
  // density
  int dbad=0; for(int rep=0;rep<100;rep++){ int k=2+rng()%10; auto kern=[](const std::vector<double>&a,const std::vector<double>&b){ double d=0; for(size_t i=0;i<a.size();i++) d+=std::fabs(a[i]-b[i]); return std::max(0.0, 10.0-d); };
    density_sketch<double, decltype(kern)> s(k,2,kern), t(k,2,kern); uint64_t n=0; std::vector<std::vector<double>> pts; int m=rng()%200;
    for(int i=0;i<m;i++){ std::vector<double> p{(double)(rng()%8),(double)(rng()%8)}; if(i%3) s.update(p); else t.update(p); pts.push_back(p); n++; bool exact=!s.is_estimation_mode(); }
    s.merge(t); if(s.get_n()!=n) dbad++; unsigned cnt=0; for(auto p: s){ cnt++; uint64_t wgt=p.second; if (wgt==0 || (wgt&(wgt-1))) dbad++; } if(cnt!=s.get_num_retained()) {dbad++; if(dbad<5) printf("density count %u vs %u\n",cnt,s.get_num_retained());}
    if(!s.is_empty() && !s.is_estimation_mode()){ std::vector<double> q{3,3}; double e=s.get_estimate(q)*n, ex=0; for(auto&p: pts) ex+=kern(p,q); if(std::fabs(e-ex)>1e-6){dbad++; if(dbad<8) printf("density exact est*n=%g vs %g\n",e,ex);} }
    if(!s.is_empty()){ std::vector<double> q{1,2}; double e=s.get_estimate(q); if(!(e>=0)||std::isinf(e)) dbad++; }
    bool thr=false; try{ s.update(std::vector<double>{1,2,3}); }catch(std::invalid_argument&){thr=true;} if(!thr) dbad++;
  }
  printf("density bad=%d\n",dbad);
  // bloom set algebra
  int bbad=0; for(int rep=0;rep<200;rep++){ uint64_t bits=64*(1+rng()%4)-(rng()%2?0:13); int nh=1+rng()%6; uint64_t seed=rng(); auto a=bloom_filter::builder::create_by_size(bits,nh,seed), b=bloom_filter::builder::create_by_size(bits,nh,seed); std::set<uint64_t> ia, ib;
    for(int i=0;i<40;i++){ uint64_t x=rng()%100; if(rng()%2){ bool was=a.query(x); bool r=a.query_and_update(x); if(r!=was){bbad++; if(bbad<5) printf("bloom q&u %d vs %d\n",r,was);} ia.insert(x);} else { b.update(x); ib.insert(x);} }
    auto getbits=[](const bloom_filter&f){ auto v=f.serialize(); std::vector<uint8_t> r; if (v.size()>32) r.assign(v.begin()+32,v.end()); return r; };
    auto A=getbits(a), B=getbits(b); auto u=a; u.union_with(b); auto U=getbits(u); auto in=a; in.intersect(b); auto I=getbits(in); auto nv=a; nv.invert(); auto NV=getbits(nv);
    size_t L=std::max(A.size(),B.size()); A.resize(L); B.resize(L); U.resize(L); I.resize(L); NV.resize(L); uint64_t pu=0,pi=0,pn=0; for(size_t i=0;i<L;i++){ if((uint8_t)(A[i]|B[i])!=U[i]) {bbad++; break;} if((uint8_t)(A[i]&B[i])!=I[i]) {bbad++; break;} if ((uint8_t)(~A[i])!=NV[i]) {bbad++; if(bbad<8) printf("bloom invert byte %zu\n",i); break;} pu+=__builtin_popcount(U[i]); pi+=__builtin_popcount(I[i]); pn+=__builtin_popcount(NV[i]); }
    if (u.get_bits_used()!=pu||in.get_bits_used()!=pi||nv.get_bits_used()!=pn) {bbad++; if(bbad<10) printf("bloom bits used u %llu/%llu i %llu/%llu n %llu/%llu\n",(unsigned long long)u.get_bits_used(),(unsigned long long)pu,(unsigned long long)in.get_bits_used(),(unsigned long long)pi,(unsigned long long)nv.get_bits_used(),(unsigned long long)pn);} 
    for(auto x: ia) if(!a.query(x)||!u.query(x)) bbad++; for(auto x: ib) if(!b.query(x)||!u.query(x)) bbad++;
  }
  printf("bloom bad=%d\n",bbad);
  // HLL union order independence (inputs lg_k <= lg_max_k to avoid the known defect; and also >)
  int hbad=0,hbad2=0; for(int rep=0;rep<300;rep++){ int lgmax=6+rng()%6; int nsk=2+rng()%3; std::vector<hll_sketch> sk; for(int s=0;s<nsk;s++){ int lgk=4+rng()%9; target_hll_type ty=(target_hll_type)(rng()%3); hll_sketch h(lgk,ty); int n=(rng()%4==0)?rng()%10: rng()%(20<<lgk>100000?100000:(20<<lgk)); for(int i=0;i<n;i++) h.update((uint64_t)rng()); sk.push_back(h);} 
    bool over=false; for(auto&h: sk) if(h.get_lg_config_k()>lgmax && (h.serialize_compact()[7]&3)==2) over=true;
    hll_union u1(lgmax), u2(lgmax); for(int i=0;i<nsk;i++) u1.update(sk[i]); for(int i=nsk-1;i>=0;i--) u2.update(sk[i]); int l1,m1,l2,m2; std::set<uint32_t> c1,c2; auto r1=regs(u1.get_result(HLL_8),l1,m1,c1), r2=regs(u2.get_result(HLL_8),l2,m2,c2);
    bool same = l1==l2 && m1==m2 && r1==r2 && c1==c2; if(!same){ if(over) hbad2++; else { hbad++; if(hbad<6) printf("HLL union order dependence (no oversize input) lgmax=%d: lg %d/%d mode %d/%d\n",lgmax,l1,l2,m1,m2);} } }
  printf("hll union order-dependence: without oversize HLL input=%d, with=%d\n",hbad,hbad2);
}
