---- MODULE TraceTheta ----
EXTENDS Theta, Json, IOUtils, TLC
VARIABLE l
TraceLog == ndJsonDeserialize(IOEnv.TRACE)
TInit == Init /\ l = 1
TNext == /\ l <= Len(TraceLog)
         /\ LET e == TraceLog[l] IN
            /\ Update(e.h)
            /\ theta' = e.theta
            /\ Cardinality(ret') = e.n
            /\ (("ret" \in DOMAIN e) => ret' = {e.ret[i] : i \in DOMAIN e.ret})
         /\ l' = l + 1
TSpec == TInit /\ [][TNext]_<<vars, l>>
NotAccepted == l <= Len(TraceLog)
Accepted == TLCGet("stats").diameter = Len(TraceLog) + 1
====
