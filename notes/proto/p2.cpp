#include <frequent_items_sketch.hpp>
#include <cstdio>
using namespace datasketches;
int main(){ frequent_items_sketch<int> g(3); for (int i=1;i<=7;i++) g.update(i,1);
 printf("g: active=%u total=%llu maxerr=%llu is_empty=%d ub(1)=%llu\n", g.get_num_active_items(), (unsigned long long)g.get_total_weight(), (unsigned long long)g.get_maximum_error(), g.is_empty(), (unsigned long long)g.get_upper_bound(1));
 frequent_items_sketch<int> f(3); f.update(100, 5); f.merge(g);
 printf("f after merge: total=%llu (expect 12) maxerr=%llu ub(1)=%llu (true count of 1 is 1)\n", (unsigned long long)f.get_total_weight(), (unsigned long long)f.get_maximum_error(), (unsigned long long)f.get_upper_bound(1));
 auto bytes = g.serialize(); auto r = frequent_items_sketch<int>::deserialize(bytes.data(), bytes.size());
 printf("g round trip: size=%zu total=%llu maxerr=%llu\n", bytes.size(), (unsigned long long)r.get_total_weight(), (unsigned long long)r.get_maximum_error());
}
