#include <theta_sketch.hpp>
#include <theta_union.hpp>
#include <cstdio>
using namespace datasketches;
int main(){ auto u=theta_union::builder().set_p(0.5f).build(); auto r=u.get_result(); auto b=r.serialize(); auto d=compact_theta_sketch::deserialize(b.data(), b.size());
 printf("result: empty=%d theta=%llx est_mode=%d | restored: empty=%d theta=%llx\n", r.is_empty(), (unsigned long long)r.get_theta64(), r.is_estimation_mode(), d.is_empty(), (unsigned long long)d.get_theta64());
 auto s=update_theta_sketch::builder().set_p(0.5f).build(); auto c=s.compact(); printf("update sketch p=.5 empty: theta=%llx compact theta=%llx\n",(unsigned long long)s.get_theta64(),(unsigned long long)c.get_theta64()); }
