#include <tdigest.hpp>
#include <cstdio>
using namespace datasketches;
int main(){ tdigest<double> t(10); for(int i=0;i<17;i++) t.update(i); t.get_rank(3.0);
 printf("%s\n", t.to_string(true).c_str());
 for (double r: {0.10,0.11,0.12,0.125,0.13,0.14,0.15,0.16,0.17,0.18,0.2,0.25,0.3}) printf("q(%.3f)=%.5f\n", r, t.get_quantile(r));
 tdigest<double> u(100); for(int i=0;i<100000;i++) u.update(i); double prev=-1; int bad=0; for (int j=0;j<=10000;j++){ double q=u.get_quantile(j/10000.0); if (q<prev) bad++; prev=q;} printf("k=100 n=1e5: nonmonotone steps=%d of 10000\n", bad);
 printf("q(0.5)=%.3f q(0.5001)=%.3f q(0.5002)=%.3f\n", u.get_quantile(0.5), u.get_quantile(0.5001), u.get_quantile(0.5002));
}
