#include <hll.hpp>
#include <cpc_sketch.hpp>
#include <cpc_union.hpp>
#include <count_min.hpp>
#include <bloom_filter.hpp>
#include <MurmurHash3.h>
#include <cstdio>
#include <random>
#include <set>
#include <map>
#include <vector>
#include <cstring>
using namespace datasketches;
// HLL content via HLL_8 copy image
struct HC { int mode; std::vector<uint8_t> regs; std::set<uint32_t> coupons; int lgk; };
HC hproj(const hll_sketch& s){ hll_sketch c(s, HLL_8); auto b=c.serialize_updatable(); HC r; r.lgk=b[3]; r.mode=b[7]&3; if (r.mode==2){ r.regs.assign(b.begin()+40, b.begin()+40+(1<<r.lgk)); } else { int start = r.mode==0?8:12; for (size_t i=start;i+4<=b.size();i+=4){ uint32_t v; memcpy(&v,&b[i],4); if(v) r.coupons.insert(v);} } return r; }
int main(){ std::mt19937_64 rng(23); int bad=0, checks=0;
  // C03: types agree, content = per slot max of coupons
  for (int rep=0; rep<400; rep++){ int lgk=4+rng()%9; hll_sketch s4(lgk,HLL_4), s6(lgk,HLL_6), s8(lgk,HLL_8), sf(lgk,HLL_4,true);
    int n = (rng()%3==0)? rng()%40 : rng()% (40<<lgk>200000?200000:(40<<lgk)); std::map<uint32_t,uint8_t> mx; std::set<uint32_t> cps; std::vector<uint64_t> items;
    for(int i=0;i<n;i++){ uint64_t x=rng()%(n+1); items.push_back(x); s4.update(x); s6.update(x); s8.update(x); sf.update(x); HashState h; MurmurHash3_x64_128(&x,8,DEFAULT_SEED,h); uint32_t addr=h.h1&0x3ffffff; int lz=h.h2? __builtin_clzll(h.h2):64; uint8_t v=(lz>62?62:lz)+1; cps.insert((v<<26)|addr); uint32_t slot=addr&((1u<<lgk)-1); if (mx[slot]<v) mx[slot]=v; }
    HC p4=hproj(s4),p6=hproj(s6),p8=hproj(s8),pf=hproj(sf); checks++;
    auto chk=[&](const HC&p,const char*nm){ if(p.mode==2){ for(uint32_t sl=0; sl<(1u<<lgk); sl++){ uint8_t e=mx.count(sl)?mx[sl]:0; if(p.regs[sl]!=e){ bad++; if(bad<6) printf("HLL %s lgk=%d n=%d slot %u reg %u exp %u\n",nm,lgk,n,sl,p.regs[sl],e); break; } } } else { if (p.coupons!=cps){ bad++; if(bad<6) printf("HLL %s coupons differ lgk=%d n=%d got %zu exp %zu\n",nm,lgk,n,p.coupons.size(),cps.size()); } } };
    chk(p4,"h4"); chk(p6,"h6"); chk(p8,"h8"); chk(pf,"full");
    if (s4.get_composite_estimate()!=s8.get_composite_estimate() || s6.get_composite_estimate()!=s8.get_composite_estimate()) { bad++; if(bad<8) printf("composite differs lgk=%d n=%d: %.17g %.17g %.17g\n",lgk,n,s4.get_composite_estimate(),s6.get_composite_estimate(),s8.get_composite_estimate()); }
    if (s4.get_estimate()!=s8.get_estimate()) { bad++; if(bad<8) printf("hip differs\n"); }
    for(int k=1;k<=3;k++) if(!(s4.get_lower_bound(k)<=s4.get_estimate() && s4.get_estimate()<=s4.get_upper_bound(k))) { bad++; if(bad<10) printf("HLL bounds lgk=%d n=%d k=%d lb=%g est=%g ub=%g\n",lgk,n,k,s4.get_lower_bound(k),s4.get_estimate(),s4.get_upper_bound(k)); }
    if (s4.is_empty()!=(n==0)) {bad++; printf("empty\n");}
  }
  printf("HLL C03 probe: checks=%d bad=%d\n",checks,bad);
  // C05: num_coupons == distinct (row,col)
  int cbad=0;
  for (int rep=0;rep<300;rep++){ int lgk=4+rng()%8; cpc_sketch s(lgk); std::set<uint32_t> rc; int n=rng()%(60<<lgk>300000?300000:(60<<lgk)); cpc_sketch a(lgk), b(lgk>4?lgk-1:lgk); std::set<uint32_t> rca, rcb;
    for(int i=0;i<n;i++){ uint64_t x=rng(); s.update(x); HashState h; MurmurHash3_x64_128(&x,8,DEFAULT_SEED,h); int col=h.h2?__builtin_clzll(h.h2):64; if(col>63)col=63; uint32_t row=h.h1&((1u<<lgk)-1); rc.insert((row<<6)|col); if (i%2){ a.update(x);} else { b.update(x);} }
    if (s.get_num_coupons()!=rc.size() || !s.validate()) { cbad++; if(cbad<6) printf("CPC lgk=%d n=%d C=%u distinct=%zu valid=%d\n",lgk,n,s.get_num_coupons(),rc.size(),s.validate()); }
    auto bytes=s.serialize(); auto d=cpc_sketch::deserialize(bytes.data(),bytes.size()); if (d.get_num_coupons()!=s.get_num_coupons()||!d.validate()||d.get_estimate()!=s.get_estimate()) {cbad++; if(cbad<8) printf("CPC serde mismatch\n");}
    // union of a,b in both orders -> folded to min lgk
    int ulg=4+rng()%8; cpc_union u1(ulg), u2(ulg); u1.update(a); u1.update(b); u2.update(b); u2.update(a); auto r1=u1.get_result(), r2=u2.get_result(); int mlg=std::min(ulg,(int)std::min(a.is_empty()?99:a.get_lg_k(), b.is_empty()?99:b.get_lg_k()));
    std::set<uint32_t> fold; for(auto v: rc){ uint32_t row=v>>6, col=v&63; fold.insert(((row&((1u<<mlg)-1))<<6)|col);} 
    if (n>0 && (r1.get_lg_k()!=mlg || r1.get_num_coupons()!=fold.size() || r2.get_num_coupons()!=fold.size() || r1.get_lg_k()!=r2.get_lg_k())) { cbad++; if(cbad<12) printf("CPC union lgk=%d blg=%d ulg=%d n=%d: r1 lg=%d C=%u r2 lg=%d C=%u exp lg=%d C=%zu\n",lgk,b.get_lg_k(),ulg,n,r1.get_lg_k(),r1.get_num_coupons(),r2.get_lg_k(),r2.get_num_coupons(),mlg,fold.size()); }
  }
  printf("CPC C05 probe bad=%d\n",cbad);
  // C14 count-min
  int mbad=0; for(int rep=0;rep<200;rep++){ int nh=1+rng()%6, nb=3+rng()%50; uint64_t seed=rng(); count_min_sketch<uint64_t> a(nh,nb,seed), b(nh,nb,seed), w(nh,nb,seed); std::map<uint64_t,uint64_t> truth; uint64_t tot=0;
    for(int i=0;i<500;i++){ uint64_t x=rng()%80, wt=1+rng()%9; if(i%2){a.update(x,wt);} else {b.update(x,wt);} w.update(x,wt); truth[x]+=wt; tot+=wt; }
    a.merge(b); if (a.get_total_weight()!=tot) mbad++; auto ia=a.begin(); auto iw=w.begin(); for(; ia!=a.end(); ++ia,++iw) if(*ia!=*iw){ mbad++; break; }
    for(uint64_t x=0;x<90;x++){ uint64_t e=a.get_estimate(x), t=truth.count(x)?truth[x]:0; if(!(e>=t && e<=tot && a.get_lower_bound(x)<=e && e<=a.get_upper_bound(x))) { mbad++; if(mbad<5) printf("CM x=%llu e=%llu t=%llu\n",(unsigned long long)x,(unsigned long long)e,(unsigned long long)t);} }
    bool thrown=false; try{ a.merge(a);}catch(std::invalid_argument&){thrown=true;} if(!thrown) mbad++;
  }
  printf("CM C14 probe bad=%d\n",mbad);
}
