#include <hll.hpp>
#include <tdigest.hpp>
#include <cstdio>
#include <sstream>
using namespace datasketches;
int main(){
 { hll_sketch h(10, HLL_4); for(int i=0;i<5000;i++) h.update(i);
   std::stringstream ss; h.serialize_updatable(ss); std::string img = ss.str(); ss << "SENTINELSENTINEL";
   auto r = hll_sketch::deserialize(ss); printf("hll4 updatable image=%zu consumed=%lld bytesform=%zu\n", img.size(), (long long)ss.tellg(), h.serialize_updatable().size()); }
 { tdigest<double> t(100); for(int i=0;i<1000;i++) t.update(i);
   auto b0 = t.serialize(0); printf("td size0=%zu\n", b0.size());
    }
 return 0; }
