---- MODULE TraceKll ----
EXTENDS Kll, Json, IOUtils
VARIABLE l
TraceLog == ndJsonDeserialize(IOEnv.TRACE)
Chk(name, c) == c \/ (PrintT(<<"REJECT", name, l>>) /\ FALSE)
\* multiset of <<item, weight>> as a function from pairs to counts
Bag(s) == [p \in {s[i] : i \in DOMAIN s} |-> Cardinality({i \in DOMAIN s : s[i] = p})]
SpecPairs == LET R[h \in 0..NumLevels] == IF h = 0 THEN <<>> ELSE R[h-1] \o [i \in 1..Len(levels'[h]) |-> <<levels'[h][i], 2^(h-1)>>] IN R[NumLevels]
TInit == Init /\ l = 1
TNext == /\ l <= Len(TraceLog)
         /\ LET e == TraceLog[l] IN
            /\ Update(e.v)
            /\ Chk("n", n' = e.n)
            /\ Chk("ret", TotalItems' = e.ret)
            /\ Chk("nl", Len(levels') = e.nl)
            /\ (("items" \in DOMAIN e) => Chk("items", LET R[h \in 0..Len(levels')] == IF h = 0 THEN <<>> ELSE R[h-1] \o [i \in 1..Len(levels'[h]) |-> <<levels'[h][i], 2^(h-1)>>] IN Bag(R[Len(levels')]) = Bag([i \in 1..Len(e.items) |-> <<e.items[i][1], e.items[i][2]>>])))
         /\ l' = l + 1
TSpec == TInit /\ [][TNext]_<<vars, l>>
Accepted == TLCGet("stats").diameter = Len(TraceLog) + 1
====
