---- MODULE ThetaRef ----
EXTENDS Theta
C == INSTANCE ThetaContract WITH K <- 2^LgK
Refines == C!Spec
====
