---- MODULE GenTheta ----
EXTENDS Theta, Json, TLC, TLCExt
VARIABLE hist
Depth == 4
GInit == TLCSet(1, <<>>) /\ Init /\ hist = <<>>
GNext == /\ Len(hist) < Depth
         /\ \E h \in 1..MaxHash :
              /\ Update(h)
              /\ hist' = Append(hist, [op |-> "update", h |-> h, theta |-> theta', ret |-> ret', empty |-> empty'])
GSpec == GInit /\ [][GNext]_<<vars, hist>>
Collect == IF Len(hist) = Depth THEN TLCSet(1, Append(TLCGet(1), hist)) ELSE TRUE
Post == ndJsonSerialize("gen_out.ndjson", TLCGet(1))
====
