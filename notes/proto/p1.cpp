#include <frequent_items_sketch.hpp>
#include <kll_sketch.hpp>
#include <req_sketch.hpp>
#include <quantiles_sketch.hpp>
#include <cstdio>
#include <random>
#include <map>
#include <set>
using namespace datasketches;
template<typename S> void checkq(const char* name, S& s, std::multiset<float>& all, int& bad){
  uint64_t w=0; unsigned cnt=0; for (auto p: s){ w+=p.second; cnt++; }
  if (w!=s.get_n()) { if(bad<5||name[0]!='k') printf("%s weight sum %llu != n %llu\n",name,(unsigned long long)w,(unsigned long long)s.get_n()); bad++; }
  if (cnt!=s.get_num_retained()) { if(bad<5||name[0]!='k') printf("%s iter count %u != retained %u\n",name,cnt,s.get_num_retained()); bad++; }
  if (!s.is_empty()){ if (s.get_min_item()!=*all.begin() || s.get_max_item()!=*all.rbegin()) {bad++; if(bad<5||name[0]!='k') printf("%s minmax\n",name);} 
    double pr=-1; float pq=-1e30f; for (int j=0;j<=50;j++){ float x=*all.begin()+(*all.rbegin()-*all.begin())*j/50.f; double ri=s.get_rank(x,true), re=s.get_rank(x,false); if (ri<re||ri<pr){bad++; if(bad<5||name[0]!='k') printf("%s rank incoh\n",name);} pr=ri; float q=s.get_quantile(j/50.0,true); if (q<pq){bad++; if(bad<5||name[0]!='k') printf("%s quantile nonmono\n",name);} pq=q; }
    if (!s.is_estimation_mode()){ // exact
      size_t i=0; for (float x: all){ i++; } }
  }
}
int main(){ std::mt19937 rng(11); int bad=0;
  for (int rep=0;rep<300;rep++){
    int k1=8+rng()%20, k2=8+rng()%20; kll_sketch<float> a(k1), b(k2); std::multiset<float> all;
    int n1=rng()%400, n2=rng()%400; for(int i=0;i<n1;i++){float v=rng()%100; a.update(v); all.insert(v);} for(int i=0;i<n2;i++){float v=rng()%100; b.update(v); all.insert(v);} a.merge(b); checkq("kll",a,all,bad);
    req_sketch<float> ra(4+2*(rng()%6), rng()%2), rb(ra.get_k(), ra.is_HRA()); std::multiset<float> all2; n1=rng()%600; n2=rng()%600; for(int i=0;i<n1;i++){float v=rng()%1000; ra.update(v); all2.insert(v);} for(int i=0;i<n2;i++){float v=rng()%1000; rb.update(v); all2.insert(v);} ra.merge(rb); if(!all2.empty()) checkq("req",ra,all2,bad);
    int kk[]={2,4,8,16}; quantiles_sketch<float> qa(kk[rng()%4]), qb(kk[rng()%4]); std::multiset<float> all3; n1=rng()%300; n2=rng()%300; for(int i=0;i<n1;i++){float v=rng()%1000; qa.update(v); all3.insert(v);} for(int i=0;i<n2;i++){float v=rng()%1000; qb.update(v); all3.insert(v);} qa.merge(qb); checkq("classic",qa,all3,bad);
  }
  printf("quantiles bad=%d\n",bad);
  // FI
  int fbad=0;
  for (int rep=0;rep<300;rep++){ int lg=3+rng()%4; frequent_items_sketch<int> f(lg), g(lg); std::map<int,long long> truth; long long tot=0;
    int n=rng()%3000; for(int i=0;i<n;i++){ int x = (rng()%4==0)? rng()%5 : rng()%200; int w=1+rng()%5; f.update(x,w); truth[x]+=w; tot+=w; }
    int m=rng()%2000; for(int i=0;i<m;i++){ int x=rng()%300; int w=1+rng()%3; g.update(x,w); truth[x]+=w; tot+=w; }
    f.merge(g);
    if ((long long)f.get_total_weight()!=tot) {fbad++; printf("FI total %lld vs %lld\n",(long long)f.get_total_weight(),tot);}
    for (int x=0;x<310;x++){ long long t=truth.count(x)?truth[x]:0; long long lb=f.get_lower_bound(x), ub=f.get_upper_bound(x), e=f.get_estimate(x); if (!(lb<=t&&t<=ub&&lb<=e&&e<=ub)) { fbad++; if (fbad<5) printf("FI x=%d t=%lld lb=%lld e=%lld ub=%lld\n",x,t,lb,e,ub);} if (ub-lb!=(long long)f.get_maximum_error()) {fbad++; printf("FI ub-lb %lld != maxerr %llu x=%d\n",ub-lb,(unsigned long long)f.get_maximum_error(),x);} }
    double eps=f.get_epsilon(); if (f.get_maximum_error() > eps*tot) { fbad++; if(fbad<8) printf("FI eps violated lg=%d err=%llu eps*tot=%.1f\n",lg,(unsigned long long)f.get_maximum_error(),eps*tot);} 
    auto rows=f.get_frequent_items(NO_FALSE_NEGATIVES); for (auto&kv: truth) if (kv.second>(long long)f.get_maximum_error()){ bool found=false; for(auto&r: rows) if (r.get_item()==kv.first) found=true; if(!found){fbad++; if(fbad<8) printf("FI NFN missing\n");}}
    auto rows2=f.get_frequent_items(NO_FALSE_POSITIVES); for(auto&r: rows2) if (!(truth[r.get_item()]>(long long)f.get_maximum_error())) {fbad++; if(fbad<8) printf("FI NFP wrong\n");}
  }
  printf("FI bad=%d\n",fbad);
}
