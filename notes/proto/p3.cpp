#include <theta_sketch.hpp>
#include <theta_union.hpp>
#include <theta_intersection.hpp>
#include <theta_a_not_b.hpp>
#include <cstdio>
#include <random>
#include <set>
#include <vector>
#include <algorithm>
using namespace datasketches;
typedef std::set<uint64_t> HS;
struct SK { uint64_t theta; HS ent; bool empty; };
template<typename S> SK proj(const S& s){ SK r; r.theta=s.get_theta64(); r.empty=s.is_empty(); for (auto h: s) r.ent.insert(h); if (r.ent.size()!=s.get_num_retained()) printf("dup entries!\n"); return r; }
static const uint64_t MAXT = theta_constants::MAX_THETA;
SK union_def(const std::vector<SK>& in, unsigned K, uint64_t th0){ SK r; r.empty=true; uint64_t t=th0; for(auto&s: in) if(!s.empty){ r.empty=false; t=std::min(t,s.theta);} HS u; for(auto&s: in) if(!s.empty) for(auto h: s.ent) if (h<t) u.insert(h); if (u.size()>K){ auto it=u.begin(); std::advance(it,K); t=*it; u.erase(it,u.end()); } r.theta= r.empty? MAXT : t; r.ent=u; return r; }
bool eq(const SK&a,const SK&b){ return a.theta==b.theta && a.empty==b.empty && a.ent==b.ent; }
int main(){ std::mt19937 rng(17); int bad=0, n=0, bu=0, bi=0, ba=0, bue=0;
  for (int rep=0; rep<3000; rep++){
    int nin=1+rng()%4; std::vector<update_theta_sketch> us; std::vector<SK> ps; std::vector<compact_theta_sketch> cs;
    for (int i=0;i<nin;i++){ int lgk=5+rng()%3; float p = (rng()%3==0)? 0.5f : 1.0f; auto s=update_theta_sketch::builder().set_lg_k(lgk).set_p(p).build(); int cnt = (rng()%5==0)?0: rng()% (rng()%2? 60: 400); int base=rng()%300; for(int j=0;j<cnt;j++) s.update(base + (int)(rng()%500)); us.push_back(s); ps.push_back(proj(s)); }
    int ulgk=5+rng()%2; float up = (rng()%4==0)?0.5f:1.0f; auto u=theta_union::builder().set_lg_k(ulgk).set_p(up).build();
    uint64_t th0 = up<1? (uint64_t)((double)MAXT*up): MAXT;
    std::vector<SK> fed;
    for (int i=0;i<nin;i++){ int form=rng()%4; if(form==0) u.update(us[i]); else if (form==1) u.update(us[i].compact(true)); else if (form==2) u.update(us[i].compact(false)); else { auto b=us[i].compact(true).serialize(); u.update(wrapped_compact_theta_sketch::wrap(b.data(), b.size())); } fed.push_back(ps[i]);
      auto res=u.get_result(rng()%2); SK got=proj(res); SK exp=union_def(fed, 1u<<ulgk, th0); n++;
      if (!eq(got,exp) && got.empty && exp.empty && got.ent.empty()) bue++; else if (!eq(got,exp)) { bad++; bu++; if (bu<6) printf("UNION mismatch rep=%d i=%d: got theta=%llx n=%zu empty=%d ; exp theta=%llx n=%zu empty=%d\n",rep,i,(unsigned long long)got.theta,got.ent.size(),got.empty,(unsigned long long)exp.theta,exp.ent.size(),exp.empty);} }
    // intersection
    { theta_intersection x; SK acc; bool first=true; for(int i=0;i<nin;i++){ if (rng()%2) x.update(us[i]); else x.update(us[i].compact(rng()%2)); const SK&s=ps[i]; if(first){acc=s; first=false;} else { SK r; r.empty=acc.empty||s.empty; r.theta=r.empty?MAXT:std::min(acc.theta,s.theta); if(!r.empty) for(auto h: acc.ent) if(s.ent.count(h)&&h<r.theta) r.ent.insert(h); if (!r.empty && r.ent.empty() && r.theta==MAXT) r.empty=true; acc=r; }
        SK norm=acc; if(!norm.empty){ HS f; for(auto h: norm.ent) if(h<norm.theta) f.insert(h); norm.ent=f; } else {norm.ent.clear(); norm.theta=MAXT;}
        SK got=proj(x.get_result(rng()%2)); n++; if(!eq(got,norm)){ bad++; bi++; if(bi<8) printf("INTER mismatch rep=%d i=%d got theta=%llx n=%zu e=%d exp theta=%llx n=%zu e=%d\n",rep,i,(unsigned long long)got.theta,got.ent.size(),got.empty,(unsigned long long)norm.theta,norm.ent.size(),norm.empty);} } }
    // a not b
    if (nin>=2){ theta_a_not_b anb; for (int fa=0;fa<2;fa++) for(int fb=0;fb<2;fb++){ auto A=us[0].compact(fa); auto B=us[1].compact(fb); auto r=anb.compute(A,B,rng()%2); SK got=proj(r); const SK&a=ps[0]; const SK&b=ps[1]; SK exp; if (a.empty){exp=a; exp.ent.clear(); exp.theta=MAXT;} else if (b.empty){ exp=a; } else { exp.theta=std::min(a.theta,b.theta); exp.empty=false; for(auto h: a.ent) if(h<exp.theta && !b.ent.count(h)) exp.ent.insert(h); if (exp.ent.empty()&&exp.theta==MAXT) exp.empty=true; }
        n++; if(!eq(got,exp)){ bad++; ba++; if(ba<8) printf("ANOTB mismatch rep=%d got theta=%llx n=%zu e=%d exp theta=%llx n=%zu e=%d (a: e=%d n=%zu th=%llx; b: e=%d n=%zu th=%llx)\n",rep,(unsigned long long)got.theta,got.ent.size(),got.empty,(unsigned long long)exp.theta,exp.ent.size(),exp.empty,a.empty,a.ent.size(),(unsigned long long)a.theta,b.empty,b.ent.size(),(unsigned long long)b.theta);} } }
  }
  printf("theta set ops: checks=%d bad=%d union=%d (empty-theta corner %d) inter=%d anotb=%d\n",n,bad,bu,bue,bi,ba);
}
