// Typed update() inputs of the distinct-count families with their REFERENCE canonical form and hash
// (documented rules: integers sign-extended to 64 bits - narrow unsigned types through their signed twin -,
// float widened to double, -0.0 -> 0.0, every NaN -> 0x7ff8000000000000, strings hash their bytes, "" ignored).
#pragma once
#include <string>
#include <cstring>
#include <cmath>
#include "vtrace.hpp"
#include "refhash.hpp"

namespace ti {

struct Item { int type; long long iv; double dv; std::string sv; };
static const char* TYPES[] = {"u64","i64","u32","i32","u16","i16","u8","i8","f64","f32","str","raw"};

// reference canonical bytes; false if the documentation says the input is ignored
static inline bool canon(const Item& it, std::string& out) {
  int64_t c = 0;
  switch (it.type) {
    case 0: c = (int64_t)(uint64_t)it.iv; break;
    case 1: c = (int64_t)it.iv; break;
    case 2: c = (int64_t)(int32_t)(uint32_t)it.iv; break;
    case 3: c = (int64_t)(int32_t)it.iv; break;
    case 4: c = (int64_t)(int16_t)(uint16_t)it.iv; break;
    case 5: c = (int64_t)(int16_t)it.iv; break;
    case 6: c = (int64_t)(int8_t)(uint8_t)it.iv; break;
    case 7: c = (int64_t)(int8_t)it.iv; break;
    case 8: { uint64_t b = refhash::canon_double_bits(it.dv); memcpy(&c, &b, 8); break; }
    case 9: { uint64_t b = refhash::canon_double_bits((double)(float)it.dv); memcpy(&c, &b, 8); break; }
    case 10: case 11:
      if (it.type == 10 && it.sv.empty()) return false;
      out = it.sv; return true;
  }
  out.assign((const char*)&c, 8);
  return true;
}

static inline bool theta_hash(const Item& it, uint64_t seed, uint64_t& h) {
  std::string c; if (!canon(it, c)) return false;
  h = refhash::murmur3_x64_128(c.data(), c.size(), seed).h1 >> 1; return true;
}

static inline Item draw(vt::Rng& g, long wide) {
  Item it; it.type = (int)g.below(12); it.iv = 0; it.dv = 0;
  long long v = g.chance(35) ? g.range(-40, 300) : g.range(-wide, wide);
  if (it.type <= 7) it.iv = v;
  else if (it.type <= 9) {
    int c = (int)g.below(20);
    if (c == 0) it.dv = -0.0; else if (c == 1) it.dv = 0.0;
    else if (c == 2) it.dv = std::nan("1"); else if (c == 3) { uint64_t b = 0xfff8000000000123ULL; memcpy(&it.dv, &b, 8); }
    else if (c == 4) it.dv = INFINITY; else if (c == 5) it.dv = v + 0.5; else it.dv = (double)v;
  } else {
    if (g.chance(3)) it.sv = ""; else if (g.chance(30)) { int64_t x = v; it.sv.assign((const char*)&x, 8); }
    else if (g.chance(50)) it.sv = "k" + std::to_string(v);
    else {   // every byte length 1..48: the hash treats each length mod 16 (tail bytes) separately
      it.sv = "s" + std::to_string(v % 97); size_t len = 1 + (size_t)g.below(48);
      while (it.sv.size() < len) it.sv += (char)('a' + (it.sv.size() * 7 + (size_t)(v % 13 + 13)) % 26);
      it.sv.resize(len);
    }
    if (it.type == 11 && it.sv.empty()) it.sv = "z";
  }
  return it;
}

// call f(typed key) for the overload the item asks for; f must accept every key type
template<class F> static inline void dispatch(const Item& it, F f) {
  switch (it.type) {
    case 0: f((uint64_t)it.iv); break;
    case 1: f((int64_t)it.iv); break;
    case 2: f((uint32_t)it.iv); break;
    case 3: f((int32_t)it.iv); break;
    case 4: f((uint16_t)it.iv); break;
    case 5: f((int16_t)it.iv); break;
    case 6: f((uint8_t)it.iv); break;
    case 7: f((int8_t)it.iv); break;
    case 8: f((double)it.dv); break;
    case 9: f((float)it.dv); break;
    case 10: f(it.sv); break;
    case 11: f(it.sv); break;   // caller handles the raw (pointer, length) overload when type == 11
  }
}

} // namespace ti
