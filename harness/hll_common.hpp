// Shared by hll_rec.cpp (C03) and hllunion_rec.cpp (C04): typed items with their REFERENCE coupon (refhash.hpp, computed
// without calling the library), typed update dispatch, and the projection of a real hll_sketch that the specifications
// compare with the contract state.  The projection reads only public API results:
//   * mode / type / lg_k / flags from the sketch's own compact image (documented preamble; get_current_mode() is private)
//   * content (coupon list / coupon hash set / 8-bit registers) from hll_sketch(s, HLL_8).serialize_updatable()
//   * estimates and bounds as tagged doubles (order / equality only) plus floor() integers for the count clauses
#pragma once
#include <memory>
#include <sstream>
#include <algorithm>
#include <hll.hpp>
#include "vtrace.hpp"
#include "refhash.hpp"

namespace hc {
using namespace datasketches;
using vt::Ev;

struct Item { int type; long long iv; double dv; std::string sv; };
static const char* TYPES[] = {"u64","i64","u32","i32","u16","i16","u8","i8","f64","f32","str","raw"};
static const uint64_t HLL_SEED = 9001;   // documented DEFAULT_SEED

struct Coupon { uint32_t addr; uint32_t val; };

// reference canonical bytes -> MurmurHash3_x64_128(seed 9001) -> coupon; false if the documentation says "ignored"
static inline bool ref_coupon(const Item& it, Coupon& c) {
  uint8_t buf[8]; int64_t v = 0; refhash::H128 h;
  switch (it.type) {
    case 0: v = (int64_t)(uint64_t)it.iv; break;
    case 1: v = (int64_t)it.iv; break;
    case 2: v = (int64_t)(int32_t)(uint32_t)it.iv; break;
    case 3: v = (int64_t)(int32_t)it.iv; break;
    case 4: v = (int64_t)(int16_t)(uint16_t)it.iv; break;
    case 5: v = (int64_t)(int16_t)it.iv; break;
    case 6: v = (int64_t)(int8_t)(uint8_t)it.iv; break;
    case 7: v = (int64_t)(int8_t)it.iv; break;
    case 8: { uint64_t b = refhash::canon_double_bits(it.dv); memcpy(&v, &b, 8); break; }
    case 9: { uint64_t b = refhash::canon_double_bits((double)(float)it.dv); memcpy(&v, &b, 8); break; }
    default:
      if (it.type == 10 && it.sv.empty()) return false;
      h = refhash::murmur3_x64_128(it.sv.data(), it.sv.size(), HLL_SEED);
      goto done;
  }
  memcpy(buf, &v, 8);
  h = refhash::murmur3_x64_128(buf, 8, HLL_SEED);
done:
  c.addr = (uint32_t)(h.h1 & 0x3ffffffULL);
  int lz = h.h2 == 0 ? 64 : __builtin_clzll(h.h2);
  c.val = (uint32_t)((lz > 62 ? 62 : lz) + 1);
  return true;
}

template<class S> static inline void do_update(S& s, const Item& it) {
  switch (it.type) {
    case 0: s.update((uint64_t)it.iv); break;
    case 1: s.update((int64_t)it.iv); break;
    case 2: s.update((uint32_t)it.iv); break;
    case 3: s.update((int32_t)it.iv); break;
    case 4: s.update((uint16_t)it.iv); break;
    case 5: s.update((int16_t)it.iv); break;
    case 6: s.update((uint8_t)it.iv); break;
    case 7: s.update((int8_t)it.iv); break;
    case 8: s.update((double)it.dv); break;
    case 9: s.update((float)it.dv); break;
    case 10: s.update(it.sv); break;
    default: s.update(it.sv.data(), it.sv.size()); break;
  }
}

static inline Item draw(vt::Rng& g, long wide) {
  Item it; it.type = (int)g.below(12); it.iv = 0; it.dv = 0;
  long long v = g.chance(30) ? g.range(-40, 200) : g.range(-wide, wide);
  if (it.type <= 7) it.iv = v;
  else if (it.type <= 9) {
    int c = (int)g.below(24);
    if (c == 0) it.dv = -0.0; else if (c == 1) it.dv = 0.0;
    else if (c == 2) it.dv = std::nan("1"); else if (c == 3) { uint64_t b = 0xfff8000000000123ULL; memcpy(&it.dv, &b, 8); }
    else if (c == 4) it.dv = INFINITY; else if (c == 5) it.dv = v + 0.5; else it.dv = (double)v;
  } else {
    if (g.chance(2)) it.sv = ""; else if (g.chance(30)) { int64_t x = v; it.sv.assign((const char*)&x, 8); }
    else it.sv = "k" + std::to_string(v);
    if (it.type == 11 && it.sv.empty() && !g.chance(50)) it.sv = "z";     // a zero-length buffer with a non-null pointer IS an item
  }
  return it;
}

// edge values of every update overload (the union's overloads must be the same functions of their argument as the sketch's):
// zero-length buffer with a non-null pointer, empty string (ignored), NaN variants, -0.0 / 0.0, infinities, extremes of every
// integer width, the same number through different widths
static inline std::vector<Item> edge_items() {
  std::vector<Item> v;
  auto I = [&](int t, long long x) { Item it; it.type = t; it.iv = x; it.dv = 0; v.push_back(it); };
  auto D = [&](int t, double x) { Item it; it.type = t; it.iv = 0; it.dv = x; v.push_back(it); };
  auto S = [&](int t, const std::string& x) { Item it; it.type = t; it.iv = 0; it.dv = 0; it.sv = x; v.push_back(it); };
  S(11, ""); S(10, ""); S(11, std::string(1, '\0')); S(10, "a"); S(11, "a");
  uint64_t nb = 0xfff8000000000123ULL; double qn; memcpy(&qn, &nb, 8);
  D(8, std::nan("1")); D(9, std::nanf("2")); D(8, qn); D(8, -0.0); D(8, 0.0); D(9, -0.0); D(9, 0.0); D(8, INFINITY); D(9, -INFINITY); D(8, 1.5); D(9, 1.5);
  I(0, -1); I(1, -1); I(2, -1); I(3, -1); I(4, -1); I(5, -1); I(6, -1); I(7, -1);
  I(0, 0); I(1, 0); I(2, 200); I(3, 200); I(4, 200); I(5, 200); I(6, 200); I(7, 200);
  I(1, INT64_MIN); I(0, (long long)0x8000000000000000ULL); I(3, INT32_MIN); I(2, 0x80000000LL); I(5, -32768); I(4, 0x8000); I(7, -128); I(6, 0x80);
  return v;
}

// Steering pool: u64 items whose reference coupon value is high (>= 12), so that HLL_4 aux exceptions (value - curMin >= 15),
// the 14/15 boundary at cur-min shifts and multi-step shifts occur at small k in every run.
struct Pool {
  std::vector<std::pair<uint64_t, Coupon>> hi;   // sorted by scan order
  void build(uint64_t n) {
    Item it; it.type = 0; it.dv = 0;
    for (uint64_t i = 1; i <= n; i++) {
      it.iv = (long long)(i * 0x9E3779B97F4A7C15ULL >> 8);
      Coupon c; ref_coupon(it, c);
      if (c.val >= 12) hi.push_back({(uint64_t)it.iv, c});
    }
  }
  Item pick(vt::Rng& g, uint32_t minval) const {
    Item it; it.type = 0; it.dv = 0;
    for (int tries = 0; tries < 64; tries++) {
      const auto& p = hi[g.below(hi.size())];
      it.iv = (long long)p.first;
      if (p.second.val >= minval) break;
    }
    return it;
  }
};

// Mined collision pool (C03 follow-up): random streams practically never offer two DISTINCT coupons with the same 26-bit
// address (~4e-7 per list), identical coupons from distinct items, or chosen same-slot groups.  At start-up n integers are
// hashed with the REFERENCE hash and indexed so that the drivers can plant such groups deliberately in every mode.
struct Mined {
  std::vector<std::pair<uint64_t, Coupon>> all;
  std::vector<std::pair<int, int>> same_addr;     // equal addr26, different value (first = larger value)
  std::vector<std::pair<int, int>> same_coupon;   // distinct items, identical coupon
  void build(uint64_t n) {
    Item it; it.type = 0; it.dv = 0;
    all.reserve(n);
    for (uint64_t i = 1; i <= n; i++) { it.iv = (long long)(1000000 + i); Coupon c; ref_coupon(it, c); all.push_back({(uint64_t)it.iv, c}); }
    std::vector<int> ix(all.size());
    for (size_t i = 0; i < ix.size(); i++) ix[i] = (int)i;
    std::sort(ix.begin(), ix.end(), [&](int a, int b) { return all[a].second.addr < all[b].second.addr || (all[a].second.addr == all[b].second.addr && a < b); });
    for (size_t i = 0; i + 1 < ix.size(); i++) for (size_t j = i + 1; j < ix.size() && all[ix[j]].second.addr == all[ix[i]].second.addr; j++) {
      int a = ix[i], b = ix[j];
      if (all[a].second.val == all[b].second.val) same_coupon.push_back({a, b});
      else if (all[a].second.val > all[b].second.val) same_addr.push_back({a, b}); else same_addr.push_back({b, a});
    }
  }
  // per slot at 2^lgk slots: the pool entries with exactly the value v (uniform fills: one item per slot, all at v)
  std::vector<std::vector<int>> by_slot(int lgk, uint32_t v) const {
    std::vector<std::vector<int>> r((size_t)1 << lgk);
    uint32_t mask = ((uint32_t)1 << lgk) - 1;
    for (size_t i = 0; i < all.size(); i++) if (all[i].second.val == v) r[all[i].second.addr & mask].push_back((int)i);
    return r;
  }
  // entries whose 26-bit address has its six top bits set (slots near the top at every lg_k)
  std::vector<int> top_addr() const { std::vector<int> r; for (size_t i = 0; i < all.size(); i++) if ((all[i].second.addr >> 20) == 63) r.push_back((int)i); return r; }
  // the values fit both 64-bit overloads (same canonical bytes)
  Item item(int idx, vt::Rng& g) const { Item it; it.type = (int)g.below(2); it.dv = 0; it.iv = (long long)all[idx].first; return it; }
  // up to maxn pool entries falling into the slot of entry `seed_idx` at 2^lgk slots, with pairwise different addresses
  std::vector<int> same_slot(int lgk, int seed_idx, size_t maxn) const {
    uint32_t mask = ((uint32_t)1 << lgk) - 1, slot = all[seed_idx].second.addr & mask;
    std::vector<int> r;
    for (size_t i = 0; i < all.size() && r.size() < maxn; i++) if ((all[i].second.addr & mask) == slot) {
      bool dup = false; for (int j : r) if (all[j].second.addr == all[i].second.addr) dup = true;
      if (!dup) r.push_back((int)i);
    }
    return r;
  }
};

// A coupon-LIST image written by hand following the documented layout (preamble 2 ints: preInts 2, serVer 1, family 7, lg_k,
// lgArr 3, flags COMPACT, list count, mode byte = LIST | type << 2; then the coupons, value << 26 | 26-bit address).  The only
// way to present coupon values >= 32 (a hash with 31+ leading zeros) to a sketch.
static inline std::vector<uint8_t> craft_list_image(int lgk, int type, const std::vector<Coupon>& cs) {
  std::vector<uint8_t> b = {2, 1, 7, (uint8_t)lgk, 3, (uint8_t)(8 | (cs.empty() ? 4 : 0)), (uint8_t)cs.size(), (uint8_t)(((type - 4) / 2) << 2)};
  for (auto& c : cs) { uint32_t w = (c.val << 26) | (c.addr & 0x3ffffffu); for (int k = 0; k < 4; k++) b.push_back((uint8_t)(w >> (8 * k))); }
  return b;
}
// 3..6 coupons with values 32..63: two on the same slot (value small then large, or large then small), 63 and 32 among them
static inline std::vector<Coupon> craft_coupons(vt::Rng& g, int lgk) {
  std::vector<Coupon> cs;
  uint32_t a = (uint32_t)g.below(1u << 26), mask = (1u << lgk) - 1;
  uint32_t v1 = (uint32_t)g.range(32, 50), v2 = v1 + (uint32_t)g.range(1, 13);
  uint32_t b = g.chance(50) ? a : ((a & mask) | ((uint32_t)g.below(1u << (26 - lgk)) << lgk));     // same address or same slot only
  if (g.chance(50)) std::swap(v1, v2);
  cs.push_back({a, v1}); if (b != a || v1 != v2) cs.push_back({b, v2});
  cs.push_back({(uint32_t)g.below(1u << 26), 63});
  if (g.chance(70)) cs.push_back({(uint32_t)g.below(1u << 26), 32});
  while (cs.size() < 6 && g.chance(50)) cs.push_back({(uint32_t)g.below(1u << 26), (uint32_t)g.range(1, 63)});
  for (size_t x = cs.size(); x > 1; x--) if (g.chance(30)) std::swap(cs[x - 1], cs[g.below(x)]);
  // no exact duplicates
  std::vector<Coupon> out;
  for (auto& c : cs) { bool d = false; for (auto& o : out) if (o.addr == c.addr && o.val == c.val) d = true; if (!d) out.push_back(c); }
  return out;
}
// get_lower_bound / get_upper_bound must refuse a number of standard deviations outside 1..3
template<class S> static inline void emit_bad_arg(const S& s, const char* key, int id, vt::Rng& g) {
  int k = g.chance(50) ? 0 : (int)g.range(4, 7); bool upper = g.chance(50), threw = false;
  try { if (upper) (void)s.get_upper_bound((uint8_t)k); else (void)s.get_lower_bound((uint8_t)k); }
  catch (const std::invalid_argument&) { threw = true; }
  Ev("BadArg").i(key, id).i("k", k).b("upper", upper).b("threw", threw).emit();
}

// fold a real number into the integer range TLC can read: NaN and out-of-range values become the sentinels +-2 000 000 000, so
// that a wild value reaches the specification as a mismatch instead of breaking the trace machinery
static inline long long qint(double x) { if (!(x == x)) return 2000000000LL; if (x > 2e9) return 2000000000LL; if (x < -2e9) return -2000000000LL; return (long long)std::llround(x); }
static inline long long fl(double x) { if (!(x == x)) return -1; double f = std::floor(x); return f > 2e9 ? 2000000000LL : (f < -2e9 ? -2000000000LL : (long long)f); }

struct View {            // decoded public images of a sketch
  int lgk, mode, type, flags, cmode;
  int curMin = 0; long long auxN = 0;   // HLL mode: cur-min byte and aux count of the sketch's own image (informational)
  std::vector<Coupon> coup; long long cnt;
  std::vector<uint8_t> regs;                              // dense registers (lg_k <= 16)
  bool sparse = false; std::vector<std::pair<uint32_t, uint32_t>> nz;   // lg_k > 16: the non-zero registers as (slot, value)
};

static inline View view(const hll_sketch& s, bool content = true) {
  View v; v.cnt = -1;
  auto own = s.serialize_compact();
  v.lgk = own[3]; v.flags = own[5]; v.mode = own[7] & 3; v.type = 4 + 2 * ((own[7] >> 2) & 3);
  v.cmode = -1;
  if (v.mode == 2 && own.size() >= 40) { v.curMin = own[6]; uint32_t a; memcpy(&a, &own[36], 4); v.auxN = a; }
  if (!content) return v;
  hll_sketch c8(s, HLL_8);
  auto img = c8.serialize_updatable();
  v.cmode = img[7] & 3;
  if (v.cmode == 2) {
    size_t k = (size_t)1 << img[3];
    if (img[3] > 16) { v.sparse = true; for (size_t x = 0; x < k; x++) if (img[40 + x]) v.nz.push_back({(uint32_t)x, (uint32_t)img[40 + x]}); }
    else v.regs.assign(img.begin() + 40, img.begin() + 40 + k);
  } else {
    size_t start = v.cmode == 0 ? 8 : 12;
    if (v.cmode == 0) v.cnt = img[6]; else { uint32_t n; memcpy(&n, &img[8], 4); v.cnt = n; }
    for (size_t p = start; p + 4 <= img.size(); p += 4) {
      uint32_t c; memcpy(&c, &img[p], 4);
      if (c != 0) v.coup.push_back({c & 0x3ffffffu, c >> 26});
    }
  }
  return v;
}

// mode of a sketch without serializing it (large lg_k): the summary of to_string() names it
static inline int mode_light(const hll_sketch& s) {
  std::string t(s.to_string(true, false, false, false).c_str());
  size_t p = t.find("Current Mode");
  if (p == std::string::npos) return -1;
  std::string rest = t.substr(p, 40);
  if (rest.find("LIST") != std::string::npos) return 0;
  if (rest.find("SET") != std::string::npos) return 1;
  return rest.find("HLL") != std::string::npos ? 2 : -1;
}

static inline std::string coupons_json(const std::vector<Coupon>& cs) {
  std::string s = "[";
  for (size_t i = 0; i < cs.size(); i++) { if (i) s += ","; s += "[" + std::to_string(cs[i].addr) + "," + std::to_string(cs[i].val) + "]"; }
  return s + "]";
}

// PHYSICAL state of a sketch as its own updatable image shows it (tier B, design-model drift): mode, list in array order /
// set count and lg size, cur-min, numAtCurMin, aux count and pairs, the stored nibble / 6-bit value / byte of one slot, and the
// whole stored array when `full_array` (small lg_k).  Layout constants are the documented ones (HllUtil.hpp comments).
static const int PHYS_MAX_LGK = 12;
static inline std::string phys(const hll_sketch& s, uint32_t addr, bool full_array) {
  if (s.get_lg_config_k() > PHYS_MAX_LGK) return "{\"m\":-1}";
  auto u = s.serialize_updatable();
  int mode = u[7] & 3, tb = (u[7] >> 2) & 3, lgk = u[3];
  Ev r("x"); r.s = "{\"m\":" + std::to_string(mode);
  r.i("lg", u[4]);
  if (mode == 0) {
    std::vector<Coupon> l;
    for (size_t p = 8; p + 4 <= u.size(); p += 4) { uint32_t c; memcpy(&c, &u[p], 4); if (!c) break; l.push_back({c & 0x3ffffffu, c >> 26}); }
    r.i("cnt", u[6]).raw("list", coupons_json(l));
  } else if (mode == 1) {
    uint32_t n; memcpy(&n, &u[8], 4); r.i("cnt", n);
  } else {
    uint32_t nac, auxn; memcpy(&nac, &u[32], 4); memcpy(&auxn, &u[36], 4);
    size_t k = (size_t)1 << lgk;
    auto raw_at = [&](size_t slot) -> int {
      if (tb == 0) { uint8_t b = u[40 + (slot >> 1)]; return (slot & 1) ? (b >> 4) : (b & 15); }
      if (tb == 1) { size_t sb = slot * 6, ix = sb >> 3; unsigned two = (unsigned)u[40 + ix] | ((unsigned)u[40 + ix + 1] << 8); return (int)((two >> (sb & 7)) & 63); }
      return u[40 + slot];
    };
    r.i("cm", u[6]).i("nac", nac).i("auxn", auxn).i("raw", raw_at(addr & (k - 1))).b("ooo", (u[5] & 16) != 0);
    if (tb == 0) {
      std::vector<Coupon> a;
      for (size_t p = 40 + k / 2; p + 4 <= u.size(); p += 4) { uint32_t c; memcpy(&c, &u[p], 4); if (c) a.push_back({(uint32_t)((c & 0x3ffffffu) & (k - 1)), c >> 26}); }
      r.raw("aux", coupons_json(a));
    }
    if (full_array) { std::vector<int> arr; for (size_t x = 0; x < k; x++) arr.push_back(raw_at(x)); r.il("arr", arr); }
  }
  r.s += "}";
  return r.s;
}

// estimates / bounds of anything with the estimator API (hll_sketch, hll_union)
template<class S> static inline void est_fields(Ev& r, const S& s) {
  double est = s.get_estimate(), cest = s.get_composite_estimate();
  std::vector<double> lb, ub; std::vector<long long> lbF, ubF;
  for (int k = 1; k <= 3; k++) {
    lb.push_back(s.get_lower_bound((uint8_t)k)); ub.push_back(s.get_upper_bound((uint8_t)k));
    lbF.push_back(fl(lb.back())); ubF.push_back(fl(ub.back()));
  }
  // relative half-widths of the bounds in ppm of the estimate (unit conversion; compared with sd * RSE(lg_k) by the specification)
  std::vector<long long> lbW, ubW;
  for (int k = 0; k < 3; k++) {
    lbW.push_back(est > 0 ? qint((est - lb[k]) / est * 1e6) : -1);
    ubW.push_back(est > 0 ? qint((ub[k] - est) / est * 1e6) : -1);
  }
  r.d("est", est).d("cest", cest).dl("lb", lb).dl("ub", ub).i("estF", fl(est)).il("lbF", lbF).il("ubF", ubF).il("lbW", lbW).il("ubW", ubW);
}

// full projection of a sketch as a JSON object
static inline std::string proj(int id, const hll_sketch& s) {
  View v = view(s);
  Ev r("x"); r.s = "{\"id\":" + std::to_string(id);
  r.i("lgk", v.lgk).i("lgkApi", s.get_lg_config_k()).i("type", v.type)
   .i("typeApi", s.get_target_type() == HLL_4 ? 4 : (s.get_target_type() == HLL_6 ? 6 : 8))
   .b("full", (v.flags & 32) != 0).b("ooo", (v.flags & 16) != 0)
   .i("mode", v.mode).i("cmode", v.cmode).b("empty", s.is_empty()).i("cnt", v.cnt).i("curMin", v.curMin).i("auxN", v.auxN);
  if (v.cmode == 2 && v.sparse) {
    std::string z = "[";
    for (size_t x = 0; x < v.nz.size(); x++) { if (x) z += ","; z += "[" + std::to_string(v.nz[x].first) + "," + std::to_string(v.nz[x].second) + "]"; }
    r.raw("nz", z + "]");
  } else if (v.cmode == 2) r.il("regs", v.regs); else r.raw("coup", coupons_json(v.coup));
  est_fields(r, s);
  r.raw("ph", phys(s, 0, v.lgk <= 8));
  r.s += "}";
  return r.s;
}
// estimates only (reference object of a comparison)
static inline std::string light(int id, const hll_sketch& s) {
  Ev r("x"); r.s = "{\"id\":" + std::to_string(id);
  est_fields(r, s);
  r.s += "}";
  return r.s;
}

// canonical form of an image for the re-serialization clause: layouts that store an unordered hash table (SET coupons,
// HLL_4 aux pairs) are compared as preamble + sorted non-zero entry words (guide rule 9)
static inline std::vector<uint8_t> canon(const std::vector<uint8_t>& img) {
  std::vector<uint8_t> out(img);
  if (img.size() < 8) return out;
  int mode = img[7] & 3, type = (img[7] >> 2) & 3;
  size_t start;
  if (mode == 1) start = 12;
  else if (mode == 2 && type == 0) start = 40 + ((size_t)1 << (img[3] - 1));
  else return out;
  if (start >= img.size()) return out;
  std::vector<uint32_t> w;
  for (size_t p = start; p + 4 <= img.size(); p += 4) { uint32_t c; memcpy(&c, &img[p], 4); if (c) w.push_back(c); }
  std::sort(w.begin(), w.end());
  out.resize(start);
  // the table size is part of the canonical form (updatable images), the positions inside it are not
  uint32_t slots = (uint32_t)((img.size() - start) / 4);
  for (int b = 0; b < 4; b++) out.push_back((uint8_t)(slots >> (8 * b)));
  for (uint32_t c : w) for (int b = 0; b < 4; b++) out.push_back((uint8_t)(c >> (8 * b)));
  return out;
}

} // namespace hc
