// Recording driver for the Bloom filter (C15) with serialization events (C09).
// Runs randomized operation histories on the real bloom_filter class from /repo over 4 filter slots (owned
// filters, views of caller memory, restored filters) and 2 memory regions, and logs one ND-JSON event per public
// call.  Items are offered to the specification as their REFERENCE index list: XXH64 double hashing computed with
// harness/refhash.hpp from the documented canonical bytes of the typed value, never by calling the library.
// Bits are observed through the documented image layout only (serialize() / the caller's memory, bit array at
// byte 32, 64-bit little-endian words).
#include <memory>
#include <sstream>
#include <algorithm>
#include <map>
#include <bloom_filter.hpp>
#include "vtrace.hpp"
#include "refhash.hpp"

using namespace datasketches;
using vt::Ev;

static const int NF = 4, NM = 2;
// every event passes through out(): g_tail carries the expected values of a replayed model step (xo, xa, xn, xst)
// and the count word stored at byte 24 of the region the event concerns ("st": -1 = DIRTY marker; tier B observation)
static std::string g_tail;
static int g_region = 0;
static void out(Ev& e);
static const size_t REGION_BYTES = 1024;       // >= 32 + 2048 / 8

struct Cfg { uint64_t cap; uint16_t hashes; uint64_t seed; };
struct Slot { std::unique_ptr<bloom_filter> f; Cfg c; int at; bool fresh; bool restored; };
// caller memory at EVERY alignment: the region starts `off` (0..7) bytes into a larger, 16-byte aligned block; the contract
// knows nothing about alignment, so all answers must be the same as in the aligned case
struct Buf {
  std::vector<uint8_t> store; size_t off = 0;
  void assign(size_t n, uint8_t v) { store.assign(n + 16, v); }
  uint8_t* data() { return store.data() + off; }
  size_t size() const { return store.size() - 16; }
  uint8_t* begin() { return data(); }
  uint8_t* end() { return data() + size(); }
};
struct Region { Buf buf; bool live; size_t len; bool from_ser; };

// ---- items: typed values, reference canonical bytes, reference index list --------------------------------
struct Item { int type; long long iv; double dv; std::string sv; };
static const char* TYPES[] = {"u64","u32","u16","u8","i64","i32","i16","i8","f64","f32","str","raw"};

// canonical bytes of an item: an integer of any width is its VALUE as a 64-bit little-endian word (unsigned
// types zero-extended, signed types sign-extended); float is widened to double; -0.0 -> 0.0; every NaN ->
// 0x7ff8000000000000; strings / arrays are their bytes; the empty string / array is no item at all.
static bool canon(const Item& it, std::string& out) {
  uint64_t w = 0;
  switch (it.type) {
    case 0: w = (uint64_t)it.iv; break;
    case 1: w = (uint64_t)(uint32_t)it.iv; break;
    case 2: w = (uint64_t)(uint16_t)it.iv; break;
    case 3: w = (uint64_t)(uint8_t)it.iv; break;
    case 4: w = (uint64_t)(int64_t)it.iv; break;
    case 5: w = (uint64_t)(int64_t)(int32_t)it.iv; break;
    case 6: w = (uint64_t)(int64_t)(int16_t)it.iv; break;
    case 7: w = (uint64_t)(int64_t)(int8_t)it.iv; break;
    case 8: w = refhash::canon_double_bits(it.dv); break;
    case 9: w = refhash::canon_double_bits((double)(float)it.dv); break;
    default:
      if (it.sv.empty()) return false;
      out = it.sv; return true;
  }
  out.assign((const char*)&w, 8);
  return true;
}
static std::vector<long long> ref_idx(const std::string& bytes, const Cfg& c) {
  const uint64_t h0 = refhash::xxh64(bytes.data(), bytes.size(), c.seed);
  const uint64_t h1 = refhash::xxh64(bytes.data(), bytes.size(), h0);
  std::vector<long long> r;
  for (uint64_t i = 1; i <= c.hashes; i++) r.push_back((long long)(((h0 + i * h1) >> 1) % c.cap));
  return r;
}

enum Op { UPD, QAU, QRY };
template<typename T> static bool call1(bloom_filter& f, Op op, T v) {
  if (op == UPD) { f.update(v); return false; }
  if (op == QAU) return f.query_and_update(v);
  return f.query(v);
}
static bool call(bloom_filter& f, Op op, const Item& it) {
  switch (it.type) {
    case 0: return call1<uint64_t>(f, op, (uint64_t)it.iv);
    case 1: return call1<uint32_t>(f, op, (uint32_t)it.iv);
    case 2: return call1<uint16_t>(f, op, (uint16_t)it.iv);
    case 3: return call1<uint8_t>(f, op, (uint8_t)it.iv);
    case 4: return call1<int64_t>(f, op, (int64_t)it.iv);
    case 5: return call1<int32_t>(f, op, (int32_t)it.iv);
    case 6: return call1<int16_t>(f, op, (int16_t)it.iv);
    case 7: return call1<int8_t>(f, op, (int8_t)it.iv);
    case 8: return call1<double>(f, op, it.dv);
    case 9: return call1<float>(f, op, (float)it.dv);
    case 10: return call1<const std::string&>(f, op, it.sv);
    default:
      if (op == UPD) { f.update(it.sv.data(), it.sv.size()); return false; }
      if (op == QAU) return f.query_and_update(it.sv.data(), it.sv.size());
      return f.query(it.sv.data(), it.sv.size());
  }
}
static Item draw(vt::Rng& g, long universe) {
  Item it; it.type = (int)g.below(12); it.iv = 0; it.dv = 0;
  long long v = g.chance(85) ? g.range(-universe / 4, universe) : (long long)(g.next() >> (g.below(40) + 1)) - 70000;
  if (it.type <= 7) it.iv = v;
  else if (it.type <= 9) {
    int c = (int)g.below(24);
    if (c == 0) it.dv = -0.0; else if (c == 1) it.dv = 0.0;
    else if (c == 2) it.dv = std::nan("1"); else if (c == 3) { uint64_t b = 0xfff8000000000123ULL; memcpy(&it.dv, &b, 8); }
    else if (c == 4) it.dv = INFINITY; else if (c == 5) it.dv = v + 0.5; else it.dv = (double)v;
  } else {
    if (g.chance(4)) it.sv = "";
    else if (g.chance(25)) { int64_t x = v; it.sv.assign((const char*)&x, 8); }   // same bytes as the integer v
    else it.sv = "k" + std::to_string(v);
  }
  return it;
}

// ---- documented image layout ---------------------------------------------------------------------------
struct Img { bool ok, empty; unsigned pre, ser, fam, flags; unsigned hashes; uint64_t seed; uint32_t longs; uint64_t stored;
             std::vector<long long> bits; size_t len; };
static uint64_t rd64(const uint8_t* p) { uint64_t v; memcpy(&v, p, 8); return v; }
static Img decode(const uint8_t* p, size_t n) {
  Img r{}; r.ok = false;
  if (n < 24) return r;
  r.pre = p[0]; r.ser = p[1]; r.fam = p[2]; r.flags = p[3];
  uint16_t h; memcpy(&h, p + 4, 2); r.hashes = h;
  r.seed = rd64(p + 8);
  memcpy(&r.longs, p + 16, 4);
  r.empty = (r.flags & 4) != 0;
  r.len = r.empty ? 24 : 32 + 8 * (size_t)r.longs;
  if (n < r.len) return r;
  if (!r.empty) {
    r.stored = rd64(p + 24);
    for (uint64_t w = 0; w < r.longs; w++) {
      uint64_t x = rd64(p + 32 + 8 * w);
      for (int b = 0; b < 64; b++) if ((x >> b) & 1) r.bits.push_back((long long)(w * 64 + b));
    }
  }
  r.ok = true;
  return r;
}
// full projection of a filter through its own serialized image
static std::string proj(const bloom_filter& f) {
  auto bytes = f.serialize();
  Img im = decode(bytes.data(), bytes.size());
  Ev r("x"); r.s = "{\"z\":0";
  r.i("cap", (long long)f.get_capacity()).i("hashes", f.get_num_hashes()).h("seedH", f.get_seed())
   .b("ro", f.is_read_only()).b("wrapped", f.is_wrapped()).b("owned", f.is_memory_owned()).b("empty", f.is_empty())
   .b("imgOk", im.ok && im.ser == 1 && im.fam == 21 && im.pre == (im.empty ? 3u : 4u) && im.len == bytes.size())
   .b("imgEmpty", im.empty).i("imgCap", (long long)im.longs * 64).i("imgHashes", im.hashes).h("imgSeedH", im.seed)
   .il("bits", im.bits);
  r.s += "}";
  return r.s;
}

struct World {
  Slot s[NF + 1];
  Region m[NM + 1];
  Cfg base, alt;
  long universe;
  std::vector<Item> recent;
  bool force = false;      // replay mode: constructors use exactly the base configuration, by size
};

static World* g_w = nullptr;
static void out(Ev& e) {
  if (g_region != 0 && g_w != nullptr && g_w->m[g_region].live) {
    const uint8_t* p = g_w->m[g_region].buf.data();
    if ((p[3] & 4) == 0) {       // the image has a count word
      uint64_t v; memcpy(&v, p + 24, 8);
      e.i("st", v == ~0ULL ? -1 : v < (1ULL << 30) ? (long long)v : -2);
    }
  }
  g_region = 0;
  e.s += g_tail; g_tail.clear(); e.emit();
}
static void stale_siblings(World& w, int f) {
  if (w.s[f].at == 0) return;
  for (int h = 1; h <= NF; h++) if (h != f && w.s[h].f && w.s[h].at == w.s[f].at) w.s[h].fresh = false;
}
static void drop(World& w, int f) {
  if (!w.s[f].f) return;
  w.s[f].f.reset();
  { Ev e_("Drop"); e_.i("f", f); out(e_); }
}
static void drop_views(World& w, int m) {
  for (int h = 1; h <= NF; h++) if (w.s[h].f && w.s[h].at == m) drop(w, h);
}
static Ev& common(Ev& e, World& w, int f) {
  e.i("f", f).i("at", w.s[f].at);
  g_region = w.s[f].at;
  if (w.s[f].restored) e.b("restored", true);
  return e;
}
static std::vector<long long> membits(World& w, int m) {
  return decode(w.m[m].buf.data(), w.m[m].buf.size()).bits;
}

static void fpp_events(vt::Rng& g, long count) {
  static const int NS[] = {500, 1000, 2000, 4000};
  static const int PS[] = {5, 10, 20, 50, 100, 200};
  for (long k = 0; k < count; k++) {
    const int n = NS[g.below(4)], pPm = PS[g.below(6)], M = 10000;
    const uint64_t seed = g.next();
    const bool strs = g.chance(40), inmem = g.chance(30);
    std::vector<uint8_t> buf;
    std::unique_ptr<bloom_filter> f;
    if (inmem) {
      const uint64_t bits = bloom_filter::builder::suggest_num_filter_bits(n, pPm / 1000.0);
      buf.assign(bloom_filter::get_serialized_size_bytes(bits), 0xA5);
      f.reset(new bloom_filter(bloom_filter::builder::initialize_by_accuracy(buf.data(), buf.size(), n, pPm / 1000.0, seed)));
    } else {
      f.reset(new bloom_filter(bloom_filter::builder::create_by_accuracy(n, pPm / 1000.0, seed)));
    }
    const uint64_t base = g.next() >> 8;
    auto put = [&](uint64_t v, Op op) { return strs ? call1<const std::string&>(*f, op, "item-" + std::to_string(v)) : call1<uint64_t>(*f, op, v); };
    for (int i = 0; i < n; i++) put(base + (uint64_t)i, UPD);
    long fn = 0, fp = 0;
    for (int i = 0; i < n; i++) if (!put(base + (uint64_t)i, QRY)) fn++;
    for (int i = 0; i < M; i++) if (put(base + (uint64_t)n + 1000 + (uint64_t)i, QRY)) fp++;
    { Ev e_("Fpp"); e_.i("n", n).i("M", M).i("pPm", pPm).i("F", fp).i("FN", fn).i("cap", (long long)f->get_capacity())
      .i("hashes", f->get_num_hashes()).b("inmem", inmem).str("type", strs ? "str" : "u64"); out(e_); }
  }
}

// ---- replay of TLC-generated behaviours (spec -> impl, spec/GenBloom.tla) --------------------------------------------
struct GStep { std::string op, o; long f, g, x, n, st; bool a; };
// one line = one behaviour = JSON array of flat objects with string / integer / boolean values
static std::vector<GStep> parse_behaviour(const std::string& ln) {
  std::vector<GStep> r; size_t i = 0;
  while ((i = ln.find('{', i)) != std::string::npos) {
    const size_t e = ln.find('}', i); GStep st{}; st.f = st.g = st.x = st.n = 0; st.st = -3; st.a = false;
    size_t p = i + 1;
    while (p < e) {
      const size_t k0 = ln.find('"', p); if (k0 == std::string::npos || k0 > e) break;
      const size_t k1 = ln.find('"', k0 + 1); const std::string key = ln.substr(k0 + 1, k1 - k0 - 1);
      size_t v = k1 + 2; std::string sv; long iv = 0; bool bv = false;
      if (ln[v] == '"') { const size_t v1 = ln.find('"', v + 1); sv = ln.substr(v + 1, v1 - v - 1); p = v1 + 1; }
      else { size_t v1 = v; while (v1 < e && ln[v1] != ',') v1++; const std::string t = ln.substr(v, v1 - v); bv = t == "true"; iv = (t == "true" || t == "false") ? 0 : atol(t.c_str()); p = v1; }
      if (key == "op") st.op = sv; else if (key == "o") st.o = sv; else if (key == "f") st.f = iv; else if (key == "g") st.g = iv;
      else if (key == "x") st.x = iv; else if (key == "n") st.n = iv; else if (key == "st") st.st = iv; else if (key == "a") st.a = bv;
    }
    r.push_back(st); i = e + 1;
  }
  return r;
}
// three items whose REFERENCE index pairs overlap like the model's {0,1}, {1,2}, {2,3}: a = {p,q}, b = {q,r}, c = {r,s}
static std::vector<Item> mine_items(const Cfg& c, uint64_t variant) {
  vt::Rng g(c.cap * 7919 + variant);
  std::vector<Item> pool; std::vector<std::vector<long long>> idx;
  while (pool.size() < 4000) { Item it = draw(g, 100000); std::string b; if (!canon(it, b)) continue; auto ix = ref_idx(b, c); if (ix[0] == ix[1]) continue; pool.push_back(it); idx.push_back(ix); }
  auto has = [](const std::vector<long long>& v, long long x) { return v[0] == x || v[1] == x; };
  for (size_t a = 0; a < pool.size(); a++)
    for (size_t b = 0; b < pool.size(); b++) {
      if (b == a) continue;
      const int sh = (int)has(idx[a], idx[b][0]) + (int)has(idx[a], idx[b][1]); if (sh != 1) continue;
      const long long q = has(idx[a], idx[b][0]) ? idx[b][0] : idx[b][1], r = idx[b][0] == q ? idx[b][1] : idx[b][0];
      for (size_t cc = 0; cc < pool.size(); cc++) {
        if (cc == a || cc == b || !has(idx[cc], r)) continue;
        const long long s2 = idx[cc][0] == r ? idx[cc][1] : idx[cc][0];
        if (has(idx[a], s2) || has(idx[b], s2)) continue;
        return {pool[a], pool[b], pool[cc]};
      }
    }
  fprintf(stderr, "bloom_rec: no item triple for capacity %llu\n", (unsigned long long)c.cap); exit(3);
}

int main(int argc, char** argv) {
  refhash::self_check();
  vt::install_terminate();
  const uint64_t seed = (uint64_t)vt::argl(argc, argv, "--seed", 1);
  const long segments = vt::argl(argc, argv, "--segments", 10);
  const long events = vt::argl(argc, argv, "--events", 250);
  const long maxbits = vt::argl(argc, argv, "--maxbits", 2048);
  const int serde_pct = (int)vt::argl(argc, argv, "--serde", 12);
  const long fpp = vt::argl(argc, argv, "--fpp", 4);
  const int scenario_pct = (int)vt::argl(argc, argv, "--scenario", 2);   // % of steps that run the scripted multi-view interleaving
  // replay mode: --replay <prefix> --nfiles N [--part k --parts P] [--stride S --offset O]
  const char* replay = vt::arg(argc, argv, "--replay", nullptr);
  std::vector<std::vector<GStep>> behs; std::vector<long> behidx;
  if (replay) {
    const long nfiles = vt::argl(argc, argv, "--nfiles", 1), part = vt::argl(argc, argv, "--part", 0), parts = vt::argl(argc, argv, "--parts", 1);
    const long stride = vt::argl(argc, argv, "--stride", 1), offset = vt::argl(argc, argv, "--offset", 0);
    long idx = 0, taken = 0; char* line = nullptr; size_t cap = 0;
    for (long fi = 0; fi < nfiles; fi++) {
      const std::string path = std::string(replay) + "." + std::to_string(fi);
      FILE* in = fopen(path.c_str(), "r"); if (!in) { perror(path.c_str()); return 3; }
      ssize_t len;
      while ((len = getline(&line, &cap, in)) > 0) {
        if (idx % stride == offset % stride) { if (taken % parts == part) { behs.push_back(parse_behaviour(std::string(line, (size_t)len))); behidx.push_back(idx); } taken++; }
        idx++;
      }
      fclose(in);
    }
    free(line);
  }
  std::map<uint64_t, std::vector<Item>> mined;
  vt::open_out(vt::arg(argc, argv, "--out", "/dev/stdout"));
  vt::Rng g(seed);
  static const long SIZES[] = {1, 63, 64, 65, 100, 127, 128, 129, 200, 320, 500, 777, 1000, 1024, 1500, 2000, 2048};
  static const unsigned HS[] = {0, 0, 1, 7, 8, 13, 64};

  if (fpp > 0 && !replay) { { Ev e_("Begin"); e_.i("seg", -1); out(e_); } fpp_events(g, fpp); }

  const bool directed_on = vt::argl(argc, argv, "--directed", 1) != 0;   // restore-then-continue at empty / one item / after reset
  const long nseg = replay ? (long)behs.size() : segments + (directed_on ? 1 : 0);
  for (long seg = 0; seg < nseg; seg++) {
    { Ev e_("Begin"); e_.i("seg", seg); out(e_); }
    World w; g_w = &w;
    for (int i = 0; i <= NF; i++) { w.s[i].at = 0; w.s[i].fresh = true; w.s[i].restored = false; }
    for (int i = 0; i <= NM; i++) { w.m[i].buf.assign(REGION_BYTES, 0xA5); w.m[i].buf.off = replay ? (size_t)(behidx[(size_t)seg] % 8) : (size_t)g.below(8);
                                    w.m[i].live = false; w.m[i].len = 0; w.m[i].from_ser = false; }
    long req;
    do { req = g.chance(70) ? SIZES[g.below(17)] : g.range(1, maxbits); } while (req > maxbits);
    w.base.cap = (uint64_t)req; w.base.hashes = (uint16_t)g.range(1, 9); w.base.seed = g.chance(30) ? g.below(1000) : g.next();
    w.alt = w.base;
    switch (g.below(3)) { case 0: w.alt.seed ^= 1ULL << g.below(64); break; case 1: w.alt.hashes = (uint16_t)(w.base.hashes % 9 + 1); break;
                          default: w.alt.cap = w.base.cap + 64; }
    w.universe = std::min<long>(48, std::max<long>(6, (long)(((req + 63) / 64 * 64) / (2 * w.base.hashes))));

    // ---- constructors -----------------------------------------------------------------------------------
    auto make_new = [&](int f) {
      const Cfg& q = (w.force || g.chance(85)) ? w.base : w.alt;
      const bool acc = !w.force && g.chance(15);
      long n = 0, pPm = 0;
      if (acc) { n = g.range(3, 120); static const int P[] = {500, 250, 100, 50, 10}; pPm = P[g.below(5)];
                 w.s[f].f.reset(new bloom_filter(bloom_filter::builder::create_by_accuracy((uint64_t)n, pPm / 1000.0, q.seed))); }
      else w.s[f].f.reset(new bloom_filter(bloom_filter::builder::create_by_size(q.cap, q.hashes, q.seed)));
      bloom_filter& x = *w.s[f].f;
      w.s[f].c = Cfg{x.get_capacity(), x.get_num_hashes(), x.get_seed()};
      w.s[f].at = 0; w.s[f].fresh = true; w.s[f].restored = false;
      { Ev e_("New"); e_.i("f", f).str("how", acc ? "accuracy" : "size").i("req", acc ? 0 : (long long)q.cap).i("reqHashes", acc ? 0 : q.hashes)
        .h("reqSeedH", q.seed).i("n", n).i("pPm", pPm).raw("r", proj(x)); out(e_); }
    };
    auto make_initmem = [&](int f, int m) {
      drop(w, f);
      drop_views(w, m);
      const Cfg& q = (w.force || g.chance(85)) ? w.base : w.alt;
      const bool acc = !w.force && g.chance(15);
      long n = 0, pPm = 0;
      std::fill(w.m[m].buf.begin(), w.m[m].buf.end(), (uint8_t)0xA5);
      size_t give = REGION_BYTES;
      if (acc) { n = g.range(3, 120); static const int P[] = {500, 250, 100, 50, 10}; pPm = P[g.below(5)];
                 w.s[f].f.reset(new bloom_filter(bloom_filter::builder::initialize_by_accuracy(w.m[m].buf.data(), give, (uint64_t)n, pPm / 1000.0, q.seed))); }
      else { if (w.force || g.chance(50)) give = bloom_filter::get_serialized_size_bytes(q.cap);
             w.s[f].f.reset(new bloom_filter(bloom_filter::builder::initialize_by_size(w.m[m].buf.data(), give, q.cap, q.hashes, q.seed))); }
      bloom_filter& x = *w.s[f].f;
      w.s[f].c = Cfg{x.get_capacity(), x.get_num_hashes(), x.get_seed()};
      w.s[f].at = m; w.s[f].fresh = true; w.s[f].restored = false;
      w.m[m].live = true; w.m[m].len = 32 + (size_t)(x.get_capacity() / 8); w.m[m].from_ser = false;
      g_region = m;
      { Ev e_("InitMem"); e_.i("align", (long long)w.m[m].buf.off).i("f", f).i("m", m).str("how", acc ? "accuracy" : "size").i("req", acc ? 0 : (long long)q.cap).i("reqHashes", acc ? 0 : q.hashes)
        .h("reqSeedH", q.seed).i("n", n).i("pPm", pPm).i("need", (long long)bloom_filter::get_serialized_size_bytes(x.get_capacity()))
        .i("give", (long long)give).raw("r", proj(x)).il("membits", membits(w, m)); out(e_); }
    };
    int force_path = -1;       // directed segment: 0 = bytes, 1 = stream
    auto do_deser = [&](int m, int f) {
      Region& R = w.m[m];
      const Img im = decode(R.buf.data(), R.buf.size());
      const bool stream = force_path >= 0 ? force_path == 1 : g.chance(50);
      long long consumed;
      if (stream) {
        std::string in((const char*)R.buf.data(), im.len); in += std::string(16, '\x5a');
        std::istringstream is(in);
        w.s[f].f.reset(new bloom_filter(bloom_filter::deserialize(is)));
        consumed = (long long)is.tellg();
      } else {
        w.s[f].f.reset(new bloom_filter(bloom_filter::deserialize(R.buf.data(), im.len)));
        consumed = (long long)im.len;
      }
      bloom_filter& x = *w.s[f].f;
      w.s[f].c = Cfg{x.get_capacity(), x.get_num_hashes(), x.get_seed()};
      w.s[f].at = 0; w.s[f].fresh = true; w.s[f].restored = true;
      auto re = x.serialize();
      g_region = m;
      { Ev e_("Deser"); e_.i("m", m).i("f", f).str("path", stream ? "stream" : "bytes").i("consumed", consumed).i("size", (long long)im.len)
        .bytes("reimg", re.data(), re.size()).bytes("img", R.buf.data(), im.len).b("restored", true).raw("r", proj(x)); out(e_); }
    };
    auto do_wrap = [&](int m, int f, bool writable) {
      Region& R = w.m[m];
      const Img im = decode(R.buf.data(), R.buf.size());
      drop(w, f);
      bool thrown = false;
      try {
        if (writable) w.s[f].f.reset(new bloom_filter(bloom_filter::writable_wrap(R.buf.data(), im.len)));
        else w.s[f].f.reset(new bloom_filter(bloom_filter::wrap(R.buf.data(), im.len)));
      } catch (const std::exception&) { thrown = true; }
      g_region = m;
      Ev e(writable ? "WWrap" : "Wrap");
      e.i("m", m).i("f", f).i("align", (long long)R.buf.off).str("out", thrown ? "throw" : "ok").b("restored", R.from_ser);
      if (!thrown) {
        bloom_filter& x = *w.s[f].f;
        w.s[f].c = Cfg{x.get_capacity(), x.get_num_hashes(), x.get_seed()};
        w.s[f].at = im.empty ? 0 : m;      // an empty image has no bit array to view (documented layout)
        w.s[f].fresh = true; w.s[f].restored = R.from_ser;
        e.raw("r", proj(x)).il("membits", im.bits);
      }
      out(e);
    };
    auto pick_live_region = [&]() -> int { int m = (int)g.range(1, NM); if (w.m[m].live) return m; m = m % NM + 1; return w.m[m].live ? m : 0; };
    auto create = [&](int f) {
      int m = pick_live_region();
      int c = (int)g.below(100);
      if (m == 0 || c < 35) { if (g.chance(60) || m != 0) make_new(f); else make_initmem(f, (int)g.range(1, NM)); }
      else if (c < 50) make_initmem(f, (int)g.range(1, NM));
      else if (c < 65) do_deser(m, f);
      else if (c < 83) do_wrap(m, f, false);
      else do_wrap(m, f, true);
    };

    // ---- single operations (also used by the scripted multi-view interleaving below) --------------------------
    // update / query_and_update / query of one item through slot f.  A plain update() is also legal through a
    // STALE view (logged with "stale":true; the contract specifies its effect on the region only).
    auto ev_item = [&](int f, Op o, const Item& it) {
      Slot& S = w.s[f]; bloom_filter& x = *S.f;
      if (o != QRY) { if (w.recent.size() < 64) w.recent.push_back(it); else w.recent[g.below(64)] = it; }
      std::string bytes; const bool real = canon(it, bytes);
      bool ans = false, thrown = false;
      try { ans = call(x, o, it); } catch (const std::exception&) { thrown = true; }
      if (!real) {
        Ev e("NullItem"); common(e, w, f).str("op", o == UPD ? "update" : o == QAU ? "qau" : "query").str("type", TYPES[it.type])
          .str("out", thrown ? "throw" : "ok").b("ans", ans).b("empty", x.is_empty()); out(e);
        return;
      }
      Ev e(o == UPD ? "Update" : o == QAU ? "QueryUpdate" : "Query");
      common(e, w, f).str("type", TYPES[it.type]).il("idx", ref_idx(bytes, S.c)).str("out", thrown ? "throw" : "ok");
      if (o != UPD) e.b("ans", ans);
      if (!S.fresh) e.b("stale", true);
      e.b("empty", x.is_empty()); out(e);
      if (o != QRY && !thrown) stale_siblings(w, f);
    };
    auto draw_item = [&](Op o) -> Item {
      // queries aim at items offered before (through any filter of the segment) about half of the time
      const bool again = !w.recent.empty() && g.chance(o == QRY ? 50 : o == QAU ? 30 : 10);
      return again ? w.recent[g.below(w.recent.size())] : draw(g, w.universe);
    };
    auto real_item = [&]() -> Item { Item it; std::string b; do { it = draw(g, w.universe); } while (!canon(it, b)); return it; };
    // query() of several items through a fresh view, logged as ONE event (replay epilogue; query has no side effect)
    auto ev_sweep = [&](int f, const std::vector<Item>& items) {
      Slot& S = w.s[f]; bloom_filter& x = *S.f;
      std::string idx = "[", ans = "[";
      for (size_t k = 0; k < items.size(); k++) {
        std::string bytes; canon(items[k], bytes);
        Ev t("x"); t.s.clear(); t.il("i", ref_idx(bytes, S.c));
        idx += (k ? "," : "") + t.s.substr(t.s.find('['));
        ans += std::string(k ? "," : "") + (call(x, QRY, items[k]) ? "true" : "false");
      }
      Ev e("Sweep"); common(e, w, f).raw("idx", idx + "]").raw("ans", ans + "]").b("empty", x.is_empty()); out(e);
    };
    auto ev_bits_used = [&](int f) {
      bloom_filter& x = *w.s[f].f;
      const uint64_t nb = x.get_bits_used();
      Ev e("BitsUsed"); common(e, w, f).i("n", nb < (1ULL << 30) ? (long long)nb : -1).b("empty", x.is_empty()); out(e);
    };
    auto ev_obs = [&](int f) {
      Ev e("Obs"); common(e, w, f).raw("r", proj(*w.s[f].f));
      if (w.s[f].at != 0) e.il("membits", membits(w, w.s[f].at));
      out(e);
    };
    auto ev_setop = [&](int f, int gi, bool uni) {
      bloom_filter& x = *w.s[f].f;
      bool thrown = false;
      try { if (uni) x.union_with(*w.s[gi].f); else x.intersect(*w.s[gi].f); } catch (const std::exception&) { thrown = true; }
      const bool lineage = w.s[gi].restored && !w.s[f].restored;     // a restored operand: the result continues its lineage (C09)
      Ev e(uni ? "Union" : "Intersect"); common(e, w, f).i("g", gi).str("out", thrown ? "throw" : "ok");
      if (lineage) { e.b("restored", true); if (!thrown) w.s[f].restored = true; }
      e
        .b("compatible", x.is_compatible(*w.s[gi].f)).b("empty", x.is_empty()); out(e);
      if (!thrown) stale_siblings(w, f);
    };
    auto ev_copy = [&](int f, int t, bool mv, bool assign) {
      Slot& S = w.s[f]; bloom_filter& x = *S.f;
      if (mv) { if (assign) *w.s[t].f = std::move(x); else w.s[t].f.reset(new bloom_filter(std::move(x))); }
      else { if (assign) *w.s[t].f = x; else w.s[t].f.reset(new bloom_filter(x)); }
      w.s[t].c = S.c; w.s[t].at = S.at; w.s[t].fresh = true; w.s[t].restored = S.restored;
      Ev e(mv ? "Move" : "Copy"); e.i("f", f).i("g", t).i("at", S.at).b("assign", assign);
      if (S.restored) e.b("restored", true);
      e.raw("r", proj(*w.s[t].f)); g_region = S.at; out(e);
      if (mv) S.f.reset();
    };
    auto ev_invreset = [&](int f, bool inv) {
      bloom_filter& x = *w.s[f].f;
      bool thrown = false;
      try { if (inv) x.invert(); else x.reset(); } catch (const std::exception&) { thrown = true; }
      Ev e(inv ? "Invert" : "Reset"); common(e, w, f).str("out", thrown ? "throw" : "ok").b("empty", x.is_empty()); out(e);
      if (!thrown) stale_siblings(w, f);
    };
    // scripted interleaving over one region (all steps are ordinary logged events):
    //   A = a writable view of m, dirty from plain updates;  B = writable_wrap(m) stores a clean count (reset / invert /
    //   query_and_update / union / intersect, sometimes after a recount);  A - now stale - keeps inserting with plain
    //   update();  C = wrap / writable_wrap / deserialize of m afterwards must see everything: query, bits_used, is_empty.
    auto ev_ser = [&](int f, int m, unsigned hdr) {
      Slot& S = w.s[f]; bloom_filter& x = *S.f; (void)S;
      drop_views(w, m);
      auto bytes = x.serialize(hdr);
      std::ostringstream os; x.serialize(os); const std::string st = os.str();
      const size_t size = bytes.size() - hdr;
      const size_t adv = x.get_serialized_size_bytes();
      Region& R = w.m[m];
      std::fill(R.buf.begin(), R.buf.end(), (uint8_t)0xA5);
      std::copy(bytes.begin() + hdr, bytes.end(), R.buf.begin());
      R.live = true; R.len = size; R.from_ser = true;
      bool hdr_zero = true; for (unsigned j = 0; j < hdr; j++) hdr_zero = hdr_zero && bytes[j] == 0;
      const Img im = decode(R.buf.data(), size);
      Ev e("Ser"); common(e, w, f).i("m", m).i("hdr", hdr).i("total", (long long)bytes.size()).i("size", (long long)size)
        .i("advertised", (long long)adv).b("hdrZero", hdr_zero).bytes("img", R.buf.data(), size).bytes("simg", st.data(), st.size())
        .b("imgOk", im.ok && im.ser == 1 && im.fam == 21 && im.pre == (im.empty ? 3u : 4u) && im.len == size)
        .b("imgEmpty", im.empty).i("imgCap", (long long)im.longs * 64).i("imgHashes", im.hashes).h("imgSeedH", im.seed).il("bits", im.bits)
        .b("empty", x.is_empty()); g_region = m; out(e);
    };
    auto scenario = [&]() {
      const int m = (int)g.range(1, NM);
      int a = 0;
      for (int h = 1; h <= NF; h++) if (w.s[h].f && w.s[h].at == m && w.s[h].fresh && !w.s[h].f->is_read_only()) a = h;
      if (a == 0) { a = (int)g.range(1, NF); if (w.m[m].live && !decode(w.m[m].buf.data(), w.m[m].buf.size()).empty && g.chance(50)) do_wrap(m, a, true); else make_initmem(a, m); }
      if (!w.s[a].f || w.s[a].at != m) return;
      const int b = a % NF + 1, c = b % NF + 1;
      std::vector<Item> mine;
      for (int k = (int)g.range(1, 3); k > 0; k--) { mine.push_back(real_item()); ev_item(a, UPD, mine.back()); }   // A dirty
      if (g.chance(15)) ev_bits_used(a);                                                           // (sometimes clean again)
      do_wrap(m, b, true);
      if (!w.s[b].f || w.s[b].at != m) return;
      if (g.chance(30)) ev_bits_used(b);
      switch (g.below(6)) {
        case 0: case 1: ev_invreset(b, false); mine.clear(); break;
        case 2: ev_invreset(b, true); mine.clear(); break;
        case 3: mine.push_back(real_item()); ev_item(b, QAU, mine.back()); break;
        case 4: ev_setop(b, b, true); break;
        default: ev_setop(b, b, false); break;
      }
      for (int k = (int)g.range(1, 4); k > 0; k--) { mine.push_back(real_item()); ev_item(a, UPD, mine.back()); }   // stale A keeps inserting
      if (g.chance(25)) { mine.push_back(real_item()); ev_item(b, UPD, mine.back()); }                               // so may stale B
      const int how = (int)g.below(3);
      if (how == 0) do_deser(m, c); else do_wrap(m, c, how == 1);
      if (!w.s[c].f) return;
      for (int k = 0; k < 3; k++) switch (g.below(4)) {
        case 0: ev_bits_used(c); break;
        case 1: ev_obs(c); break;
        default: if (!mine.empty()) ev_item(c, QRY, mine[g.below(mine.size())]); else ev_item(c, QRY, draw_item(QRY)); break;
      }
    };

    // ---- DIRECTED segment (first segment of every file): restore-then-continue at the boundary states -----------------
    // For the EMPTY filter, a filter holding exactly ONE item and a filter right after reset(), the image is produced both by
    // serialize() (bytes + stream + header forms) and as caller memory written by an initialize_by_size view, restored through
    // every path (deserialize bytes, deserialize stream, wrap, writable_wrap), and then the restored object R continues IN
    // LOCK-STEP with the original O: the same updates / query_and_updates, bits_used, queries, full observations, both used as
    // union / intersect operands and targets, reset and updated again.  Every event is validated against the contract, which
    // determines all observables exactly, so R must behave exactly like O (events on R carry "restored":true -> C09).
    auto directed = [&]() {
      w.force = true;
      for (int state = 0; state < 3; state++) for (int kind = 0; kind < 2; kind++) for (int path = 0; path < 4; path++) {
        for (int f = 1; f <= NF; f++) drop(w, f);
        for (int i = 1; i <= NM; i++) { w.m[i].buf.off = (size_t)((state * 8 + kind * 4 + path + i) % 8); w.m[i].live = false; }   // no view is alive here
        std::vector<Item> pre; for (int k = 0; k < (state == 0 ? 0 : state == 1 ? 1 : 3); k++) pre.push_back(real_item());
        auto bring = [&](int f) { for (const Item& it : pre) ev_item(f, UPD, it); if (state == 2) ev_invreset(f, false); };
        make_new(1); bring(1);                                                   // the original O
        if (kind == 0) ev_ser(1, 2, HS[(state * 4 + path) % 7]);                 // image by serialize()
        else { make_initmem(3, 2); bring(3); drop(w, 3); }                       // image = caller memory left by a view
        w.m[2].from_ser = true;                                                  // objects restored from it are "restored"
        force_path = path == 1 ? 1 : 0;
        if (path <= 1) do_deser(2, 2); else do_wrap(2, 2, path == 3);
        force_path = -1;
        if (!w.s[2].f) continue;                                                 // writable_wrap of an empty image: refused
        std::vector<Item> all = pre;
        for (int k = 0; k < 3; k++) { all.push_back(real_item()); ev_item(1, UPD, all.back()); ev_item(2, UPD, all.back()); }
        all.push_back(real_item()); ev_item(1, QAU, all.back()); ev_item(2, QAU, all.back());
        ev_item(1, QAU, all[all.size() - 2]); ev_item(2, QAU, all[all.size() - 2]);
        ev_bits_used(1); ev_bits_used(2);
        ev_sweep(1, all); if (w.s[2].fresh) ev_sweep(2, all);
        ev_obs(1); ev_obs(2);
        make_new(3); ev_item(3, UPD, real_item());                               // a third filter: operands and targets
        make_new(4); ev_item(4, UPD, all[0]);
        ev_setop(3, 1, true); ev_setop(4, 2, true); ev_obs(3); ev_obs(4);        // O and R as union operands
        ev_setop(1, 3, true); ev_setop(2, 3, true); ev_obs(1); ev_obs(2);        // ... and as union targets
        ev_setop(3, 1, false); ev_setop(4, 2, false); ev_obs(3); ev_obs(4);      // intersect operands
        ev_setop(1, 4, false); ev_setop(2, 4, false);                            // intersect targets
        ev_bits_used(1); ev_bits_used(2); ev_obs(1); ev_obs(2);
        ev_invreset(1, false); ev_invreset(2, false);                            // reset, then continue once more
        all.push_back(real_item()); ev_item(1, UPD, all.back()); ev_item(2, UPD, all.back());
        ev_sweep(1, all); if (w.s[2].fresh) ev_sweep(2, all);
        ev_bits_used(1); ev_bits_used(2); ev_obs(1); ev_obs(2);
        // the restored object serializes like the original from here on (bytes + stream forms, re-restored)
        ev_ser(1, 1, 0); force_path = 0; do_deser(1, 3); ev_obs(3);
        if (w.s[2].at != 2) { ev_ser(2, 2, 0); force_path = 1; do_deser(2, 4); ev_obs(4); }
        force_path = -1;
      }
      for (int f = 1; f <= NF; f++) drop(w, f);
      w.force = false;
    };
    if (directed_on && !replay && seg == 0) { directed(); continue; }
    if (replay) {
      // one behaviour = one segment: slot 1 = initialize_by_size(region 1), the model's steps with their expected results
      // attached (xo, xa, xn, xst), then the epilogue: every fresh view is asked for all three items, and a view created
      // AFTER everything (wrap / writable_wrap / deserialize in turn, spare slot 4) is asked too and counts the bits
      static const uint64_t CAPS[] = {64, 128, 192};
      const long bi = behidx[(size_t)seg];
      w.force = true;
      w.base = Cfg{CAPS[bi % 3], 2, 0x5eedULL + (uint64_t)(bi % 5)}; w.alt = w.base;
      const uint64_t key = w.base.cap * 16 + (uint64_t)(bi % 5);
      if (!mined.count(key)) mined[key] = mine_items(w.base, (uint64_t)(bi % 5));
      const std::vector<Item>& it3 = mined[key];
      make_initmem(1, 1);
      for (const GStep& st : behs[(size_t)seg]) {
        g_tail = ",\"xo\":\"" + st.o + "\",\"xa\":" + (st.a ? "true" : "false") + ",\"xn\":" + std::to_string(st.n) + ",\"xst\":" + std::to_string(st.st);
        const int f = (int)st.f, h = (int)st.g;
        if (st.op == "Wrap") do_wrap(1, f, false);
        else if (st.op == "WWrap") do_wrap(1, f, true);
        else if (st.op == "Deser") do_deser(1, f);
        else if (st.op == "Copy") ev_copy(f, h, false, false);
        else if (st.op == "Update") ev_item(f, UPD, it3[(size_t)st.x - 1]);
        else if (st.op == "QueryUpdate") ev_item(f, QAU, it3[(size_t)st.x - 1]);
        else if (st.op == "BitsUsed") ev_bits_used(f);
        else if (st.op == "Reset") ev_invreset(f, false);
        else if (st.op == "Invert") ev_invreset(f, true);
        else if (st.op == "Union") ev_setop(f, h, true);
        else if (st.op == "Intersect") ev_setop(f, h, false);
        else if (st.op == "Drop") drop(w, f);
        else { fprintf(stderr, "bloom_rec: unknown step %s\n", st.op.c_str()); return 3; }
        g_tail.clear();
      }
      for (int f = 1; f <= 3; f++) if (w.s[f].f && w.s[f].fresh) ev_sweep(f, it3);
      if (bi % 3 == 0) do_deser(1, 4); else do_wrap(1, 4, bi % 3 == 1);      // these events carry the view's full projection
      ev_sweep(4, it3);
      ev_bits_used(4);
      for (int f = 1; f <= NF; f++) w.s[f].f.reset();
      continue;
    }
    make_new(1);
    if (g.chance(70)) make_initmem(2, 1);

    for (long n = 0; n < events; n++) {
      const int f = (int)g.range(1, NF);
      Slot& S = w.s[f];
      if (!S.f) { create(f); continue; }
      if (g.chance(scenario_pct)) { scenario(); continue; }
      if (!S.fresh) {                       // another view wrote to this view's region: plain update() through the
        const int m = S.at; const bool ro = S.f->is_read_only();   // stale view, or re-wrap it, or drop it
        if (g.chance(45)) { Item it; std::string b; do { it = draw_item(UPD); } while (!canon(it, b)); ev_item(f, UPD, it); }
        else if (g.chance(25)) drop(w, f); else do_wrap(m, f, g.chance(30) ? ro : !ro);
        continue;
      }
      int op = (int)g.below(100);
      const int sp = serde_pct;             // Ser + Deser + Wrap + WWrap share
      if (op < sp) {
        const int k = (int)g.below(100);
        if (k < 35) {                        // serialize f into a region
          const int m = (int)g.range(1, NM);
          if (S.at == m) continue;
          ev_ser(f, m, HS[g.below(7)]);
        } else {
          const int m = pick_live_region(); if (m == 0) continue;
          int t = (int)g.range(1, NF);       // target slot (may be occupied: replaced)
          if (t == f && S.at == m) t = t % NF + 1;
          if (k < 58) do_deser(m, t); else if (k < 80) do_wrap(m, t, false); else do_wrap(m, t, true);
        }
        continue;
      }
      op = (int)g.below(100);
      if (op < 66) {
        const Op o = op < 27 ? UPD : op < 39 ? QAU : QRY;
        ev_item(f, o, draw_item(o));
      } else if (op < 72) {
        ev_bits_used(f);
      } else if (op < 79) {
        ev_obs(f);
      } else if (op < 88) {
        int gi = (int)g.range(1, NF);
        if (!w.s[gi].f || !w.s[gi].fresh) continue;
        ev_setop(f, gi, op < 84);
      } else if (op < 91) {
        ev_invreset(f, op < 89 || (op == 89 && g.chance(50)));
      } else if (op < 96) {
        int t = (int)g.range(1, NF); if (t == f) continue;
        ev_copy(f, t, op >= 94, w.s[t].f && g.chance(50));
      } else if (op < 98) {
        drop(w, f);
      } else {
        create(f);
      }
    }
    for (int f = 1; f <= NF; f++) if (w.s[f].f && w.s[f].fresh) {
      Ev e("Obs"); common(e, w, f).raw("r", proj(*w.s[f].f));
      if (w.s[f].at != 0) e.il("membits", membits(w, w.s[f].at));
      out(e);
    }
    for (int f = 1; f <= NF; f++) w.s[f].f.reset();
  }
  vt::close_out();
  fprintf(stderr, "bloom_rec: %ld events\n", vt::g_events);
  return 0;
}
