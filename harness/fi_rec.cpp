// Recording driver for frequent_items_sketch<T> (C12) with serialization events (C09).
// Randomized histories on the real classes from /repo; one ND-JSON event per public call.  Items are logged as
// small integers (index in the driver's universe); the ground truth is accumulated by the TLA+ contract from the
// logged inputs.  The rows of a sketch are logged losslessly on every event as the difference between the rows
// returned by get_frequent_items(NO_FALSE_NEGATIVES, 0) now and after the previous event on the same object.
#include <memory>
#include <sstream>
#include <algorithm>
#include <map>
#include <unordered_map>
#include <dirent.h>
#include <fstream>
#include <frequent_items_sketch.hpp>
#include "vtrace.hpp"
#include "refhash.hpp"

using namespace datasketches;
using vt::Ev;

template<class T> struct Codec;
template<> struct Codec<int64_t> {
  static const char* name() { return "i64"; }
  static int64_t make(long idx) { return (int64_t)idx * 2654435761LL - 1000003LL * (idx % 7); }
  static std::string bytes(const int64_t& v) { return std::string((const char*)&v, 8); }
  // serde<int64_t>: raw 8 bytes
  static size_t parse(const uint8_t* p, size_t left, std::string& out) { if (left < 8) return 0; out.assign((const char*)p, 8); return 8; }
};
template<> struct Codec<std::string> {
  static const char* name() { return "str"; }
  // text keys, and binary keys with NUL bytes at the start, in the middle and at the end (the item is the WHOLE std::string)
  static std::string make(long idx) {
    std::string d = std::to_string(idx);
    switch (idx % 6) {
      case 0: return "item-" + d;
      case 1: case 2: return "a much longer frequent item key #" + d;
      case 3: return std::string("fi\0item-", 8) + d;
      case 4: return std::string("\0lead-", 6) + d;
      default: return "trail-" + d + std::string("\0", 1);
    }
  }
  static std::string bytes(const std::string& v) { return v; }
  // serde<std::string>: uint32 length + characters
  static size_t parse(const uint8_t* p, size_t left, std::string& out) {
    if (left < 4) return 0; uint32_t n; memcpy(&n, p, 4); if (left < 4 + (size_t)n) return 0; out.assign((const char*)p + 4, n); return 4 + n;
  }
};

struct Row { long x; long long est, lb, ub; };
// wide profile (64-bit weights): numbers are logged as 4 little-endian limbs of 20 bits (spec/WideNum.tla), else as plain integers
static bool g_wide = false;
static std::string num(long long v) {
  // outside the wide profile every logged integer stays inside TLC's range: larger magnitudes - which the drivers never produce on
  // purpose - are folded into [2e9, 2e9 + 1e6] (resp. its negative), so that they still disagree with the model
  if (!g_wide) return std::to_string(v > 2000000000LL ? 2000000000LL + v % 999983LL : v < -2000000000LL ? -2000000000LL - (-(v + 1)) % 999983LL : v);
  std::string s = "[";
  for (int k = 0; k < 4; k++) { if (k) s += ","; s += std::to_string((long long)(((unsigned long long)v >> (20 * k)) & 0xfffffULL)); }
  return s + "]";
}
template<class C> static std::string numlist(const C& c) { std::string s = "["; bool f = true; for (auto v : c) { if (!f) s += ","; f = false; s += num((long long)v); } return s + "]"; }

// opaque image token: the bytes themselves up to 4 KB, beyond that a 128-bit digest + length (tokens are only compared for equality)
static Ev& img_tok(Ev& e, const char* key, const void* p, size_t n) {
  if (n <= 4096) return e.bytes(key, p, n);
  auto h = refhash::murmur3_x64_128(p, n, 0x5eed);
  char buf[80]; snprintf(buf, sizeof buf, "B:digest-%016llx%016llx-%zu", (unsigned long long)h.h1, (unsigned long long)h.h2, n);
  return e.str(key, buf);
}

// W: the weight type.  Floating-point W is driven with FRACTIONAL weights (multiples of 1/4, exactly representable; totals stay
// far below the mantissa) and every weight / counter / bound / total is logged in units of 1/SCALE (a unit conversion: the
// contract's clauses are linear, so they are evaluated in exact integer arithmetic on quarters)
template<class T, class W = uint64_t> struct Driver {
  using Sk = frequent_items_sketch<T, W>;
  static constexpr bool FLT = std::is_floating_point<W>::value;
  static constexpr long SCALE = FLT ? 4 : 1;
  static const char* wname() { return FLT ? (sizeof(W) == 4 ? "f32" : "f64") : (std::is_signed<W>::value ? "i64" : "u64"); }
  static long long tol(W v) {        // observed value -> logged units; anything not an exact multiple of a unit is logged as such
    if (FLT) { double x = (double)v * SCALE; if (!std::isfinite(x) || std::fabs(x) > 4e18) return -7777777; return (long long)std::llround(x) == x ? (long long)x : -8888888; }
    return (long long)v;
  }
  static W tow(long long units) { return FLT ? (W)((double)units / SCALE) : (W)units; }
  static const int NS = 4, NB = 3;
  vt::Rng& g;
  int serde_pct;
  std::unordered_map<std::string, long> rev;   // canonical item bytes -> index
  std::unique_ptr<Sk> sk[NS];
  int lgmax[NS]; bool restored[NS];
  std::map<long, long long> prev[NS];
  std::vector<uint8_t> blob[NB]; bool blive[NB]; int bsrc[NB]; long bver[NB];
  long ver[NS];
  long U = 0;
  std::vector<double> cdf;
  int profile = 0; long seqnext = 1; long hot[4];
  int twin_a = -1, twin_b = -1; long twin_left = 0;

  Driver(vt::Rng& g_, int sp): g(g_), serde_pct(sp) {}

  T item(long idx) { T v = Codec<T>::make(idx); rev.emplace(Codec<T>::bytes(v), idx); return v; }
  long index_of(const T& v) {
    auto it = rev.find(Codec<T>::bytes(v));
    if (it == rev.end()) { fprintf(stderr, "fi_rec: sketch returned an item that was never offered\n"); return -1; }
    return it->second;
  }
  template<class V> std::vector<Row> conv(const V& v) {
    std::vector<Row> r;
    for (auto& row : v) r.push_back(Row{index_of(row.get_item()), tol(row.get_estimate()), tol(row.get_lower_bound()), tol(row.get_upper_bound())});
    return r;
  }
  std::vector<Row> rows(const Sk& s) { return conv(s.get_frequent_items(NO_FALSE_NEGATIVES, 0)); }
  static std::string rows_json(const std::vector<Row>& r) {
    std::string s = "[";
    for (size_t k = 0; k < r.size(); k++) {
      if (k) s += ",";
      s += "[" + std::to_string(r[k].x) + "," + num(r[k].est) + "," + num(r[k].lb) + "," + num(r[k].ub) + "]";
    }
    return s + "]";
  }
  // dense form of a set of rows: position x holds the lower bound of item x (0 = no row); used when there are many rows
  std::vector<long long> dense(const std::map<long, long long>& m) {
    std::vector<long long> v((size_t)U + 5, 0);
    for (auto& kv : m) if (kv.first >= 1 && kv.first <= U + 5) v[kv.first - 1] = kv.second;
    return v;
  }
  std::vector<long long> dense(const std::vector<Row>& r) { std::map<long, long long> m; for (auto& x : r) m[x.x] = x.lb; return dense(m); }
  // rows after this event against the previous event on this slot: a short difference "d" = [[item, new lower bound or 0], ...],
  // or (more than 64 changes) all counters in dense form "cd"; updates the shadow
  Ev& delta(Ev& e, int i) {
    std::map<long, long long> cur;
    for (auto& r : rows(*sk[i])) cur[r.x] = r.lb;
    std::string s = "["; bool first = true; size_t nch = 0;
    auto put = [&](long x, long long v) { nch++; if (!first) s += ","; first = false; s += "[" + std::to_string(x) + "," + num(v) + "]"; };
    for (auto& kv : cur) { auto it = prev[i].find(kv.first); if (it == prev[i].end() || it->second != kv.second) put(kv.first, kv.second); }
    for (auto& kv : prev[i]) if (!cur.count(kv.first)) put(kv.first, 0);
    prev[i] = cur;
    if (nch > 64 && !cur.count(-1)) return e.raw("cd", numlist(dense(cur)));
    return e.raw("d", s + "]");
  }
  // rows as returned, plus their dense form when there are many
  Ev& putrows(Ev& e, const std::vector<Row>& r) {
    e.raw("rows", rows_json(r));
    bool unknown = false; for (auto& x : r) unknown = unknown || x.x < 1;
    if (r.size() > 64 && !unknown) e.raw("cd", numlist(dense(r)));
    return e;
  }
  // lg_cur_map_size is not a getter: it is printed by to_string() (design-level observable, compared in tier B only)
  static int lgcur(const Sk& s) {
    std::string t(s.to_string().c_str());
    size_t p = t.find("lg cur map size"); if (p == std::string::npos) return -1;
    p = t.find(':', p); return atoi(t.c_str() + p + 1);
  }
  std::string xfields;     // expected design-model state of a replayed behaviour, appended to the next mutating event
  Ev& scal(Ev& e, int i) {
    e.raw("off", num(tol(sk[i]->get_maximum_error()))).raw("total", num(tol(sk[i]->get_total_weight()))).i("n", sk[i]->get_num_active_items())
     .i("lgCur", lgcur(*sk[i]));
    if (restored[i]) e.b("restored", true);
    if (!xfields.empty()) { e.s += xfields; xfields.clear(); }
    return e;
  }
  // table (iteration) order of a sketch = order of the items in its serialized image: the order in which merge() replays them
  std::vector<long> table_order(const Sk& s) {
    auto b = s.serialize(); std::vector<uint8_t> img(b.begin(), b.end()); std::vector<long> ord;
    const size_t PRE = 16 + 2 * sizeof(W);      // preamble long, counts long, total weight (W), offset (W)
    if (img.size() < PRE) return ord;
    uint32_t n; memcpy(&n, img.data() + 8, 4);
    size_t pos = PRE + sizeof(W) * (size_t)n;
    for (uint32_t k = 0; k < n && pos <= img.size(); k++) {
      std::string it; size_t used = Codec<T>::parse(img.data() + pos, img.size() - pos, it);
      if (!used) break;
      auto f = rev.find(it); ord.push_back(f == rev.end() ? -1 : f->second); pos += used;
    }
    return ord;
  }
  void mk(int i, int lg, int fixed_start = -1) {
    int st = g.chance(40) ? 3 : (int)g.range(0, lg);    // values below LG_MIN_MAP_SIZE are raised to it by the constructor
    if (fixed_start >= 0) st = fixed_start;
    if (fixed_start < 0 && g.chance(30)) { sk[i].reset(new Sk((uint8_t)lg)); st = Sk::LG_MIN_MAP_SIZE; }   // documented default start size
    else sk[i].reset(new Sk((uint8_t)lg, (uint8_t)st));
    lgmax[i] = lg; restored[i] = false; prev[i].clear(); ver[i]++;
    Ev e("New"); e.i("id", i).i("lgMax", lg).i("lgStart", st).str("type", Codec<T>::name()).str("wt", wname()); scal(e, i).emit();
  }
  long draw_item() {
    switch (profile) {
      case 0: { double u = g.unit(); return 1 + (long)(std::lower_bound(cdf.begin(), cdf.end(), u) - cdf.begin()); }
      case 1: return g.range(1, U);
      case 2: if (seqnext <= U && !g.chance(5)) return seqnext++; return hot[g.below(4)];   // all distinct, then repeats
      default: if (seqnext > U) seqnext = 1; return seqnext++;                               // distinct items, equal weights, cyclic
    }
  }
  bool bigseg = false;
  bool wide = false;
  long draw_weight() {
    if (wide) {   // totals cross 2^53 (where a double stops representing every integer) and stay below 2^61
      int c = (int)g.below(100);
      if (c < 10) return (long)((1ULL << 53) + g.below(2000));
      if (c < 28) return (long)((1ULL << g.range(48, 57)) | (g.next() & ((1ULL << 48) - 1)));
      if (c < 70) return 1;
      return g.range(1, 1000);
    }
    if (profile == 3) return 1;
    if (FLT && sizeof(W) == 4) { int c = (int)g.below(100); return c < 50 ? 1 : c < 85 ? g.range(1, 12) : g.range(1, 400); }
    if (bigseg) return g.chance(70) ? 1 : g.range(1, 10);
    int c = (int)g.below(100);
    if (c < 60) return 1; if (c < 85) return g.range(1, 10); if (c < 97) return g.range(1, 1000); return g.range(1000, 20000);
  }
  bool do_update(int i, long x, long w, bool rv) {
    long long off0 = tol(sk[i]->get_maximum_error());
    T v = item(x);
    if (rv) sk[i]->update(std::move(v), tow(w)); else sk[i]->update(v, tow(w));
    ver[i]++;
    T q = item(x);
    Ev e(w == 0 ? "UpdateZero" : "Update");
    e.i("id", i).i("x", x).raw("w", num(w)).b("rv", rv);
    delta(scal(e, i).raw("lbx", num(tol(sk[i]->get_lower_bound(q)))), i).emit();
    return tol(sk[i]->get_maximum_error()) != off0;
  }
  // an update the documentation says is refused ("a negative count will throw an exception"; NaN / infinite weights for floating
  // W): every overload, for signed and floating W.  The call must throw and leave every observable unchanged.
  static constexpr bool CAN_REFUSE = FLT || std::is_signed<W>::value;
  void do_refused(int i, long x, bool rv) {
    W bad; const char* kind;
    int c = (int)g.below(FLT ? 6 : 2);
    switch (c) {
      case 0: bad = tow(-1); kind = "minus-one-unit"; break;
      case 1: bad = tow(-(long long)g.range(2, 1000000)); kind = "negative"; break;
      case 2: bad = (W)std::nan(""); kind = "nan"; break;
      case 3: bad = (W)INFINITY; kind = "inf"; break;
      case 4: bad = (W)-INFINITY; kind = "minus-inf"; break;
      default: bad = (W)-1e-30; kind = "tiny-negative"; break;
    }
    std::string outcome = "ok";
    T v = item(x);
    try { if (rv) sk[i]->update(std::move(v), bad); else sk[i]->update(v, bad); } catch (const std::exception&) { outcome = "throw"; }
    ver[i]++;
    Ev e("UpdateRefused"); e.i("id", i).i("x", x).str("kind", kind).b("rv", rv).str("outcome", outcome);
    delta(scal(e, i), i).emit();
  }
  // logged integers must stay below 2^31 (and 7 * total inside the contract): a merge tree that would exceed the cap restarts the target
  // float: 24-bit mantissa, quarters exact below 2^22 -> 4e6 units
  long long total_cap() const { return wide ? (1LL << 61) : (FLT && sizeof(W) == 4) ? 4000000LL : 50000000LL; }
  bool fits(int dst, long long add) { return tol(sk[dst]->get_total_weight()) + add <= total_cap(); }
  void do_merge(int dst, int src, bool rv) {
    auto ord = table_order(*sk[src]);
    if (rv) sk[dst]->merge(std::move(*sk[src])); else sk[dst]->merge(*sk[src]);
    ver[dst]++;
    Ev e("Merge"); e.i("dst", dst).i("src", src).b("rv", rv).il("ord", ord);
    delta(scal(e, dst), dst).emit();
    if (rv) { sk[src].reset(); prev[src].clear(); ver[src]++; Ev("Drop").i("id", src).emit(); }
  }
  void obs(int i) {
    const Sk& s = *sk[i];
    auto r = rows(s);
    Ev e("Obs"); e.i("id", i); scal(e, i).b("empty", s.is_empty());
    e.i("epsQ", (long long)std::llround(s.get_epsilon() * 1048576.0)).i("epsQs", (long long)std::llround(Sk::get_epsilon((uint8_t)lgmax[i]) * 1048576.0));
    putrows(e, r);
    // probe set: tracked, offered-but-dropped, never offered
    std::vector<long> probe;
    if (U <= 50) for (long x = 1; x <= U; x++) probe.push_back(x);
    else {
      for (size_t k = 0; k < r.size() && k < 12; k++) probe.push_back(r[k].x);
      for (size_t k = 0; k < 6 && !r.empty(); k++) probe.push_back(r[g.below(r.size())].x);
      for (int k = 0; k < 30; k++) probe.push_back(g.range(1, U));
    }
    for (long x = U + 1; x <= U + 5; x++) probe.push_back(x);       // never offered to any sketch
    std::sort(probe.begin(), probe.end()); probe.erase(std::unique(probe.begin(), probe.end()), probe.end());
    std::vector<Row> q;
    for (long x : probe) { T v = item(x); q.push_back(Row{x, tol(s.get_estimate(v)), tol(s.get_lower_bound(v)), tol(s.get_upper_bound(v))}); }
    e.raw("q", rows_json(q));
    // thresholds: 0, around the maximum error, quantiles of the counters, the largest bound, the total
    long long off = tol(s.get_maximum_error()), tot = tol(s.get_total_weight());
    std::vector<long long> th = {0, off, off + 1, tot};
    if (off > 0) { th.push_back(off - 1); th.push_back(off / 2); }
    if (!r.empty()) { th.push_back(r[r.size() / 2].lb); th.push_back(r[r.size() / 2].ub); th.push_back(r[r.size() / 10].lb); th.push_back(r[0].ub); th.push_back(r[0].ub - 1); th.push_back(r[0].lb - 1); }
    std::string fr = "[";
    int nq = r.size() > 400 ? 2 : r.size() > 100 ? 3 : 6;
    for (int k = 0; k <= nq; k++) {
      bool nfn = g.chance(50); bool dflt = (k == nq);
      long long t = dflt ? off : std::max(0LL, th[g.below(th.size())]);
      auto res = dflt ? conv(s.get_frequent_items(nfn ? NO_FALSE_NEGATIVES : NO_FALSE_POSITIVES))
                      : conv(s.get_frequent_items(nfn ? NO_FALSE_NEGATIVES : NO_FALSE_POSITIVES, tow(t)));
      std::vector<long long> it, es, lb, ub;
      for (auto& x : res) { it.push_back(x.x); es.push_back(x.est); lb.push_back(x.lb); ub.push_back(x.ub); }
      Ev f("x"); f.s = "{\"t\":\""; f.s += nfn ? "NFN" : "NFP"; f.s += "\"";
      f.raw("thr", num(t)).b("dflt", dflt).il("it", it).raw("est", numlist(es)).raw("lb", numlist(lb)).raw("ub", numlist(ub));
      if (k) fr += ","; fr += f.s + "}";
    }
    e.raw("fr", fr + "]").emit();
  }
  // canonical form of an image: preamble + (weight, item) pairs sorted by item bytes (the image stores a hash table in table order)
  static std::vector<uint8_t> canon(const std::vector<uint8_t>& img) {
    const size_t PRE = 16 + 2 * sizeof(W);
    if (img.size() < PRE) return img;
    uint32_t n; memcpy(&n, img.data() + 8, 4);
    size_t pos = PRE + sizeof(W) * (size_t)n;
    if (pos > img.size()) return img;
    std::vector<std::pair<std::string, std::string>> pairs;
    for (uint32_t k = 0; k < n; k++) {
      std::string it; size_t used = Codec<T>::parse(img.data() + pos, img.size() - pos, it);
      if (!used) return img;
      pairs.emplace_back(std::string((const char*)img.data() + pos, used), std::string((const char*)img.data() + PRE + sizeof(W) * k, sizeof(W)));
      pos += used;
    }
    if (pos != img.size()) return img;
    std::sort(pairs.begin(), pairs.end());
    std::vector<uint8_t> out(img.begin(), img.begin() + PRE);
    for (auto& p : pairs) { out.insert(out.end(), p.second.begin(), p.second.end()); out.insert(out.end(), p.first.begin(), p.first.end()); }
    return out;
  }
  void ser(int i, int b) {
    static const unsigned HS[] = {0, 0, 1, 7, 8, 13, 64};
    unsigned hdr = HS[g.below(7)];
    auto bytes = sk[i]->serialize(hdr);
    auto bytes0 = sk[i]->serialize();
    std::ostringstream os; sk[i]->serialize(os); std::string st = os.str();
    blob[b].assign(bytes.begin() + hdr, bytes.end()); blive[b] = true; bsrc[b] = i; bver[b] = ver[i];
    auto c = canon(blob[b]);
    Ev e("Ser"); e.i("src", i).i("blob", b).i("hdr", hdr).i("tot", (long long)bytes.size()).i("size", (long long)blob[b].size())
      .i("adv", (long long)sk[i]->get_serialized_size_bytes());
    img_tok(e, "img", blob[b].data(), blob[b].size()); img_tok(e, "img0", bytes0.data(), bytes0.size());
    img_tok(e, "simg", st.data(), st.size()); img_tok(e, "cimg", c.data(), c.size());
    if (restored[i]) e.b("restored", true);
    e.emit();
  }
  void deser(int b, int j, int path = -1) {      // path: 0 bytes, 1 stream, -1 drawn
    bool stream = path < 0 ? g.chance(50) : path == 1; long long consumed;
    if (stream) {
      std::string in((const char*)blob[b].data(), blob[b].size()); in += std::string(16, '\x5a');
      std::istringstream is(in);
      sk[j].reset(new Sk(Sk::deserialize(is)));
      consumed = (long long)is.tellg();
    } else {
      sk[j].reset(new Sk(Sk::deserialize(blob[b].data(), blob[b].size())));
      consumed = (long long)blob[b].size();
    }
    auto re = sk[j]->serialize();
    std::vector<uint8_t> rev_(re.begin(), re.end());
    auto c = canon(rev_);
    restored[j] = true; ver[j]++;
    int lg = (int)std::lround(std::log2(3.5 / sk[j]->get_epsilon()));
    lgmax[j] = lg;
    auto r = rows(*sk[j]);
    prev[j].clear(); for (auto& x : r) prev[j][x.x] = x.lb;
    Ev e("Deser"); e.i("blob", b).i("dst", j).str("path", stream ? "stream" : "bytes").i("consumed", consumed).i("lgMax", lg);
    img_tok(e, "recimg", c.data(), c.size());
    putrows(scal(e, j), r).emit();
  }
  void copy(int i, int j) {
    bool assign = sk[j] && g.chance(50);
    if (assign) *sk[j] = *sk[i]; else sk[j].reset(new Sk(*sk[i]));
    lgmax[j] = lgmax[i]; restored[j] = restored[i]; prev[j] = prev[i]; ver[j]++;
    Ev e("Copy"); e.i("src", i).i("dst", j).str("how", assign ? "assign" : "ctor");
    putrows(scal(e, j), rows(*sk[j])).emit();
  }

  // big: one long segment on a map beyond the purge sample size (lg_max 11: 1537 active entries at a purge, sampled median)
  void segment(long seg, long events, int maxlg, bool big = false, bool wide_ = false) {
    wide = wide_; g_wide = wide_;
    Ev("Begin").i("seg", seg).str("type", Codec<T>::name()).str("wt", wname()).b("wide", wide).emit();
    rev.clear();
    for (int i = 0; i < NS; i++) { sk[i].reset(); prev[i].clear(); ver[i] = 0; restored[i] = false; }
    for (int b = 0; b < NB; b++) blive[b] = false;
    twin_a = twin_b = -1; twin_left = 0;
    int base = (int)std::min(g.range(3, maxlg), g.range(3, maxlg));
    if (big) base = maxlg;
    long cap = (3L << base) / 4;
    profile = big ? 1 + (int)g.below(2) : (int)g.below(4);
    static const double UF[] = {0.6, 1.5, 2.5, 4.0};
    U = std::max(8L, (long)(cap * UF[big ? 3 : g.below(4)]));
    if (profile == 3) U = std::max(U, 3 * (cap + 1));
    double sexp = 0.7 + 0.3 * g.below(4);
    cdf.assign(U, 0); double z = 0;
    for (long k = 1; k <= U; k++) { z += 1.0 / std::pow((double)k, sexp); cdf[k - 1] = z; }
    for (auto& c : cdf) c /= z;
    seqnext = 1; for (auto& h : hot) h = g.range(1, U);
    long n_events = big ? 7 * cap : std::max(events, std::min(6 * cap, 3000L));
    bigseg = big;
    auto lgdraw = [&]() { return g.chance(65) ? base : (int)g.range(3, maxlg); };
    mk(0, base);
    int pending_merge_src = -1, pending_ser = -1;
    for (long n = 0; n < n_events; n++) {
      int i = g.chance(big ? 85 : 55) ? 0 : (int)g.below(NS);
      if (twin_left > 0) i = twin_a;
      if (!sk[i]) { mk(i, lgdraw()); continue; }
      int op = (int)g.below(100);
      // operations scheduled right after a purge: merge the purged sketch into another one / serialize it
      if (pending_merge_src >= 0 && twin_left == 0) {
        int src = pending_merge_src; pending_merge_src = -1;
        int dst = (src + 1 + (int)g.below(NS - 1)) % NS;
        if (sk[src]) {
          if (!sk[dst] || !fits(dst, tol(sk[src]->get_total_weight()))) mk(dst, lgdraw());
          do_merge(dst, src, g.chance(30)); continue;
        }
      }
      if (pending_ser >= 0 && twin_left == 0) {
        int src = pending_ser; pending_ser = -1;
        if (sk[src]) { int b = (int)g.below(NB); ser(src, b); int j = (src + 1 + (int)g.below(NS - 1)) % NS; deser(b, j); start_twin(src, j); continue; }
      }
      int upd = 100 - 14 - 2 * serde_pct;
      // long segment on a large map: observations, copies and images are large, take one in seven
      if (big && op >= upd && !(op >= upd + 5 && op < upd + 11) && !g.chance(15)) continue;
      if (CAN_REFUSE && op < upd && g.chance(4)) {
        long x = draw_item(); bool rv = g.chance(50);
        do_refused(i, x, rv);
        if (twin_left > 0) { do_refused(twin_b, x, rv); twin_obs(); }
      } else if (op < upd) {
        long x = draw_item(); long w = g.chance(3) ? 0 : draw_weight(); bool rv = g.chance(30);
        if (!fits(i, w)) { if (twin_left > 0) continue; mk(i, lgdraw()); }
        bool purged = do_update(i, x, w, rv);
        if (twin_left > 0) { do_update(twin_b, x, w, rv); twin_obs(); }
        else if (purged) { if (g.chance(25)) pending_merge_src = i; else if (g.chance(15)) pending_ser = i; }
      } else if (op < upd + 5) {
        obs(i);
        if (twin_left > 0) obs(twin_b);
      } else if (op < upd + 11) {
        int j = (int)g.below(NS);
        if (j != i && sk[j] && j != twin_b && fits(i, tol(sk[j]->get_total_weight()))) {
          bool rv = twin_left == 0 && g.chance(35);
          if (twin_left > 0) { do_merge(i, j, false); do_merge(twin_b, j, false); twin_obs(); }
          else do_merge(i, j, rv);
        }
      } else if (op < upd + 13) {
        int j = (int)g.below(NS);
        if (j != i && twin_left == 0) copy(i, j);
      } else if (op < upd + 14) {
        if (twin_left == 0 && g.chance(40) && !(big && i == 0)) mk(i, lgdraw());
      } else if (op < upd + 14 + serde_pct) {
        ser(i, (int)g.below(NB));
      } else {
        int b = (int)g.below(NB);
        if (blive[b] && twin_left == 0) {
          int j = (int)g.below(NS);
          int src = bsrc[b];
          bool fresh = sk[src] && bver[b] == ver[src] && j != src;
          if (!fresh && g.chance(50) && sk[i]) { ser(i, b); src = i; fresh = (j != i); }   // serialize + deserialize + continue on both
          deser(b, j);
          if (fresh) start_twin(src, j);
        }
      }
      if (twin_left > 0 && --twin_left == 0) { twin_a = twin_b = -1; }
    }
    for (int i = 0; i < NS; i++) if (sk[i]) obs(i);
  }
  // Adversarial with respect to the table layout: keys are MINED by their home slot in the real table (slot =
  // fmix64(hash(key)) & (size - 1), computed with the library's own hasher: the home slot is a mechanism detail, used only
  // to choose inputs - the contract still sees items and weights only).  One key per slot, capacity + 1 of them, so the last
  // insert purges with every key sitting in its home slot: "light keys in the last quarter of the slots, light and heavy
  // keys half and half in the first three quarters" and the mirror image, heavy weight large enough that a purge taking a
  // heavy counter as its median would exceed epsilon * total weight.
  // DIRECTED (present in every run): restore-then-continue at the edge states.  For every edge state - never updated; only
  // zero-weight updates; exactly one item; map emptied by a purge (total weight and offset > 0, no rows) - and for both restore
  // paths (bytes, stream): serialize (bytes with a header and stream forms), restore, then continue original and restored in
  // lock-step with the same updates (through resizes and purges) and merges, and use the restored sketch as a merge operand.
  void edge_segment(long seg) {
    Ev("Begin").i("seg", seg).str("type", Codec<T>::name()).str("wt", wname()).b("edge", true).emit();
    rev.clear();
    for (int i = 0; i < NS; i++) { sk[i].reset(); prev[i].clear(); ver[i] = 0; restored[i] = false; }
    for (int b = 0; b < NB; b++) blive[b] = false;
    twin_a = twin_b = -1; twin_left = 0; profile = 1; bigseg = false; U = 40;
    for (int state = 0; state < 4; state++) for (int path = 0; path < 2; path++) {
      // lg_cur (3) below lg_max for the first three states: the restored sketch must keep BOTH and resize / purge like the original
      int lg = state == 3 ? 3 : 4 + (state + path) % 2;
      mk(0, lg, 3);
      if (state == 1) { do_update(0, g.range(1, U), 0, false); do_update(0, g.range(1, U), 0, true); }
      if (state == 2) do_update(0, g.range(1, U), g.chance(50) ? 1 : g.range(1, 1000), g.chance(50));
      if (state == 3) for (long x = 1; x <= 7; x++) do_update(0, x, 1, false);      // the 7th insert purges everything
      obs(0);
      int b = (int)g.below(NB);
      ser(0, b); deser(b, 1, path);
      twin_a = 0; twin_b = 1; twin_left = 1000; twin_obs();
      obs(1);
      mk(2, (int)g.range(3, 5));
      for (int k = 0; k < 6; k++) do_update(2, g.range(1, U), g.range(1, 20), false);
      for (int k = 0; k < 30; k++) {
        if (k == 4 || k == 18) { do_merge(0, 2, false); do_merge(1, 2, false); twin_obs(); continue; }
        if (k == 10) { ser(1, (b + 1) % NB); obs(0); obs(1); continue; }          // the restored object serializes like the original
        if (CAN_REFUSE && (k == 2 || k == 12 || k == 22)) { long x = g.range(1, U); bool rv = k != 12; do_refused(0, x, rv); do_refused(1, x, rv); twin_obs(); continue; }
        long x = g.range(1, U), w = g.chance(5) ? 0 : g.range(1, 9); bool rv = g.chance(30);
        do_update(0, x, w, rv); do_update(1, x, w, rv); twin_obs();
      }
      obs(0); obs(1);
      twin_left = 0; twin_a = twin_b = -1;
      // the restored sketch as a merge operand (lvalue and rvalue), into a sketch that saw other items
      mk(3, (int)g.range(3, 5));
      for (int k = 0; k < 5; k++) do_update(3, g.range(1, U), g.range(1, 20), false);
      do_merge(3, 1, path == 1); obs(3);
    }
    U = 200;
    midlife(0); midlife(1);
  }
  // DIRECTED mid-life checkpoints: a sketch that is still growing (lg_cur below lg_max, a few rows) is serialized and restored
  // through each path, then original and restored take the same long stream of mostly new items in lock-step - past several
  // resizes and the first purges at lg_max - with TwinObs after every step and full observations on both now and then.
  void midlife(int path) {
    int lg = (int)g.range(6, 7);
    mk(0, lg, 3);
    long nfirst = g.range(3, 11);                       // lg_cur 3 or 4 at the checkpoint
    for (long x = 1; x <= nfirst; x++) do_update(0, x, g.range(1, 5), g.chance(30));
    obs(0);
    int b = (int)g.below(NB);
    ser(0, b); deser(b, 1, path);
    twin_a = 0; twin_b = 1; twin_left = 1000; twin_obs(); obs(1);
    long cap = (3L << lg) / 4, next = nfirst + 1;
    for (long k = 0; k < cap + cap / 2; k++) {
      long x = g.chance(80) ? next++ : g.range(1, next); long w = g.chance(70) ? 1 : g.range(1, 9); bool rv = g.chance(30);
      do_update(0, x, w, rv); do_update(1, x, w, rv); twin_obs();
      if (k % 40 == 39) { obs(0); obs(1); }
    }
    obs(0); obs(1); ser(1, (b + 1) % NB);
    twin_left = 0; twin_a = twin_b = -1;
  }
  void slot_segment(long seg) {
    Ev("Begin").i("seg", seg).str("type", Codec<T>::name()).str("wt", wname()).b("slots", true).emit();
    rev.clear();
    for (int i = 0; i < NS; i++) { sk[i].reset(); prev[i].clear(); ver[i] = 0; restored[i] = false; }
    for (int b = 0; b < NB; b++) blive[b] = false;
    twin_a = twin_b = -1; twin_left = 0; profile = 1; bigseg = false;
    U = 8;
    for (int i = 0; i < NS; i++) {
      int lg = (int)g.range(5, 8);
      uint32_t size = 1u << lg, mask = size - 1, nkeys = size * 3 / 4 + 1;
      std::vector<long> key_for_slot(size, -1); uint32_t found = 0;
      for (long idx = 1 + (long)g.below(50); found < size; idx++) {
        T v = item(idx);
        uint32_t slot = (uint32_t)(fmix64(std::hash<T>()(v)) & mask);
        if (key_for_slot[slot] < 0) { key_for_slot[slot] = idx; found++; }
        U = std::max(U, idx);
      }
      bool mirror = g.chance(35);
      uint32_t hidden = size - nkeys, low = nkeys - hidden, nlow_light = low / 2, nheavy = low - nlow_light, nlight = hidden + nlow_light;
      // a heavy median would violate epsilon when H > (3.5/size * nlight) / (1 - 3.5/size * nheavy)
      double bound = (3.5 / size * nlight) / (1.0 - 3.5 / size * nheavy);
      long H = std::max((long)(2 * bound) + 2, (long)g.range(100, 20000));
      std::vector<std::pair<long, long>> st;
      for (uint32_t sl = nkeys; sl < size; sl++) st.emplace_back(key_for_slot[sl], mirror ? H : 1);
      for (uint32_t sl = 0; sl < low; sl++) st.emplace_back(key_for_slot[sl], ((sl < nlow_light) != mirror) ? 1 : H);
      for (size_t k = st.size(); k > 1; k--) std::swap(st[k - 1], st[g.below(k)]);
      mk(i, lg, g.chance(50) ? lg : 3);
      for (auto& u : st) do_update(i, u.first, u.second, g.chance(30));
      obs(i);
      // a second round right at the next purge point: refill the freed slots with fresh light keys of those slots
      if (g.chance(60)) {
        auto r = rows(*sk[i]); std::vector<bool> taken(size, false);
        for (auto& x : r) { T v = item(x.x); taken[(uint32_t)(fmix64(std::hash<T>()(v)) & mask)] = true; }
        long need = (long)nkeys - (long)r.size(); std::vector<long> fresh;
        for (long idx = U + 1; (long)fresh.size() < need && idx < U + 20000; idx++) {
          T v = item(idx); uint32_t slot = (uint32_t)(fmix64(std::hash<T>()(v)) & mask);
          if (!taken[slot]) { taken[slot] = true; fresh.push_back(idx); }
        }
        if (!fresh.empty()) U = std::max(U, fresh.back());
        for (long x : fresh) do_update(i, x, g.chance(50) ? 1 : g.range(1, 3), g.chance(30));
        obs(i);
      }
    }
    for (int k = 0; k < 6; k++) {
      int a = (int)g.below(NS), b = (int)g.below(NS);
      if (a != b && sk[a] && sk[b] && fits(a, tol(sk[b]->get_total_weight()))) { do_merge(a, b, false); obs(a); }
    }
  }
  void start_twin(int a, int b) { twin_a = a; twin_b = b; twin_left = g.range(8, 40); twin_obs(); }
  void twin_obs() { Ev("TwinObs").i("a", twin_a).i("b", twin_b).b("restored", true).emit(); }
};

// ---- spec -> impl: replay of behaviours generated by TLC from spec/GenFreqItems.tla ---------------------------------
static long jint(const std::string& ln, const char* key) {
  std::string k = std::string("\"") + key + "\":"; size_t p = ln.find(k);
  return p == std::string::npos ? -1 : atol(ln.c_str() + p + k.size());
}
static std::string jarr(const std::string& ln, const char* key) {
  std::string k = std::string("\"") + key + "\":["; size_t p = ln.find(k); if (p == std::string::npos) return "[]";
  size_t q = ln.find(']', p); return ln.substr(p + k.size() - 1, q - (p + k.size() - 1) + 1);
}
template<class T, class W> static void replay_file(vt::Rng& g, const std::string& path, long seg) {
  std::ifstream in(path); std::string ln; std::vector<std::string> steps;
  while (std::getline(in, ln)) if (ln.size() > 2) steps.push_back(ln);
  if (steps.empty()) return;
  Driver<T, W> d(g, 0);
  Ev("Begin").i("seg", seg).str("type", Codec<T>::name()).str("wt", Driver<T, W>::wname()).b("generated", true).emit();
  d.rev.clear(); d.U = 14;
  for (int i = 0; i < Driver<T, W>::NS; i++) { d.sk[i].reset(); d.prev[i].clear(); d.ver[i] = 0; d.restored[i] = false; }
  d.mk(0, (int)jint(steps[0], "lgMax"), 3);
  long n = 0;
  for (auto& st : steps) {
    Ev x("x"); x.s.clear();
    x.i("xOff", jint(st, "off")).i("xN", jint(st, "n")).i("xLgCur", jint(st, "lgCur")).i("xTotal", jint(st, "total")).raw("xCnt", jarr(st, "cnt"));
    d.xfields = x.s;
    d.do_update(0, jint(st, "x"), jint(st, "w"), g.chance(30));
    if (++n % 15 == 0) d.obs(0);
  }
  d.obs(0);
}

// item type x weight type; every combination occurs within 8 consecutive (segment + seed) values
template<class F> static void with_types(uint64_t k, vt::Rng& g, int sp, F f) {
  switch (k % 8) {
    case 0: { Driver<int64_t, uint64_t> d(g, sp); f(d); break; }
    case 1: { Driver<std::string, uint64_t> d(g, sp); f(d); break; }
    case 2: { Driver<int64_t, int64_t> d(g, sp); f(d); break; }
    case 3: { Driver<std::string, double> d(g, sp); f(d); break; }
    case 4: { Driver<int64_t, float> d(g, sp); f(d); break; }
    case 5: { Driver<std::string, int64_t> d(g, sp); f(d); break; }
    case 6: { Driver<int64_t, double> d(g, sp); f(d); break; }
    default: { Driver<std::string, float> d(g, sp); f(d); }
  }
}

int main(int argc, char** argv) {
  vt::install_terminate();
  uint64_t seed = (uint64_t)vt::argl(argc, argv, "--seed", 1);
  long segments = vt::argl(argc, argv, "--segments", 6);
  long events = vt::argl(argc, argv, "--events", 400);
  int maxlg = (int)vt::argl(argc, argv, "--maxlg", 8);
  int serde_pct = (int)vt::argl(argc, argv, "--serde", 3);
  long big = vt::argl(argc, argv, "--big", 0);
  long slotadv = vt::argl(argc, argv, "--slotadv", 0);
  long wide = vt::argl(argc, argv, "--wide", 0);     // 1: every segment uses 64-bit weights, numbers logged as limbs (TraceFreqItemsW.cfg)
  vt::open_out(vt::arg(argc, argv, "--out", "/dev/stdout"));
  vt::Rng g(seed);
  const char* rdir = vt::arg(argc, argv, "--replay-dir", nullptr);
  if (rdir) {
    long part = vt::argl(argc, argv, "--part", 0), parts = vt::argl(argc, argv, "--parts", 1);
    std::vector<std::string> files;
    if (DIR* dd = opendir(rdir)) { while (dirent* e = readdir(dd)) { std::string n = e->d_name; if (n.size() > 7 && n.substr(n.size() - 7) == ".ndjson") files.push_back(n); } closedir(dd); }
    std::sort(files.begin(), files.end());
    for (size_t k = 0; k < files.size(); k++) if ((long)(k % parts) == part) {
      std::string f = std::string(rdir) + "/" + files[k];
      switch (k % 4) {
        case 0: replay_file<int64_t, uint64_t>(g, f, (long)k); break;
        case 1: replay_file<std::string, double>(g, f, (long)k); break;     // model weights 1..3 become 0.25 .. 0.75
        case 2: replay_file<int64_t, float>(g, f, (long)k); break;
        default: replay_file<std::string, int64_t>(g, f, (long)k);
      }
    }
    segments = 0;
  }
  if (!rdir && wide == 0 && vt::argl(argc, argv, "--edge", 1)) {      // own generator: the random segments keep their streams
    vt::Rng ge(seed ^ 0xED6EULL);
    with_types(seed + 2, ge, serde_pct, [&](auto& d) { d.edge_segment(900); });     // + 2: quick seeds start with a signed W
  }
  for (long seg = 0; seg < segments; seg++) {
    bool b = seg < big;
    if (wide) {
      if ((seg + seed) % 2 == 0) { Driver<int64_t> d(g, serde_pct); d.segment(seg, events, maxlg, b, true); }
      else { Driver<std::string> d(g, serde_pct); d.segment(seg, events, maxlg, b, true); }
    } else with_types((uint64_t)seg + seed, g, serde_pct, [&](auto& d) { d.segment(seg, events, maxlg, b, false); });
    g_wide = false;
  }
  for (long k = 0; k < slotadv && !rdir; k++) {
    with_types((uint64_t)k + seed + 3, g, serde_pct, [&](auto& d) { d.slot_segment(500 + k); });
  }
  vt::close_out();
  fprintf(stderr, "fi_rec: %ld events\n", vt::g_events);
  return 0;
}
