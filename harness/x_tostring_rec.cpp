// X06 driver: to_string(...) of every family.  For an object s in a random state three exact copies are taken:
//   A: digest, to_string, digest        (same object before / after)
//   B: to_string twice, then digest     (to_string first: the digest's own side effects cannot mask a change)
//   C: digest only                      (never stringified), then the getters
// digest = the serialized image (of the compact form where only that is serializable).  The printed summary is parsed loosely
// ("label : value" lines, first occurrence wins) and logged next to the values the getters return, formatted the way a stream
// prints them; which label must show which getter is the table of spec/XToString.tla.
#include <functional>
#include <map>
#include <sstream>
#include <theta_sketch.hpp>
#include <tuple_sketch.hpp>
#include <hll.hpp>
#include <cpc_sketch.hpp>
#include <kll_sketch.hpp>
#include <req_sketch.hpp>
#include <quantiles_sketch.hpp>
#include <frequent_items_sketch.hpp>
#include <count_min.hpp>
#include <bloom_filter.hpp>
#include <var_opt_sketch.hpp>
#include <var_opt_union.hpp>
#include <ebpps_sketch.hpp>
#include <tdigest.hpp>
#include <density_sketch.hpp>
#include "vtrace.hpp"

using namespace datasketches;
using vt::Ev;
using Bytes = std::vector<uint8_t>;
using Map = std::map<std::string, std::string>;

template<class T> static std::string pr(const T& v) { std::ostringstream os; os << v; return os.str(); }
// a real-valued getter: compared with the printed text loosely (the number of printed digits is the library's choice);
// stored under "~label" with full precision and turned into a relative deviation in ppm by check()
static std::string prd(double v) { char b[40]; snprintf(b, sizeof b, "%.17g", v); return b; }
static std::string pr(bool v) { return v ? "true" : "false"; }
static std::string pr(uint8_t v) { return std::to_string((int)v); }

static std::string esc(const std::string& s) {
  std::string o; for (char c : s) { if (c == '"' || c == '\\') { o += '\\'; o += c; } else if ((unsigned char)c < 0x20) o += ' '; else o += c; } return o;
}
static std::string trim(const std::string& s) { size_t a = s.find_first_not_of(" \t"), b = s.find_last_not_of(" \t\r"); return a == std::string::npos ? "" : s.substr(a, b - a + 1); }
static Map parse(const std::string& text) {
  Map m; std::istringstream is(text); std::string line;
  while (std::getline(is, line)) {
    if (line.compare(0, 3, "###") == 0) continue;
    size_t c = line.find(':'); if (c == std::string::npos) continue;
    std::string label = trim(line.substr(0, c)), value = trim(line.substr(c + 1));
    if (!label.empty() && label.size() <= 40 && !m.count(label)) m[label] = value;
  }
  return m;
}
static std::string json(const Map& m) { std::string s = "{"; bool f = true; for (auto& kv : m) { if (!f) s += ","; f = false; s += "\"" + esc(kv.first) + "\":\"" + esc(kv.second) + "\""; } return s + "}"; }
// integer view of a map: entries whose value is a plain non-negative decimal below 2^31
static std::string json_ints(const Map& m) {
  std::string s = "{"; bool f = true;
  for (auto& kv : m) { const std::string& v = kv.second; if (v.empty() || v.size() > 9 || v.find_first_not_of("0123456789") != std::string::npos) continue;
    if (!f) s += ","; f = false; s += "\"" + esc(kv.first) + "\":" + std::to_string(atol(v.c_str())); }
  return s + "}";
}

template<class S> static void check(const char* fam, const char* variant, const S& s, std::function<Bytes(S&)> digest, std::function<std::string(const S&)> str,
                                    std::function<Map(S&)> getters) {
  S a(s), b(s), c(s);
  Bytes d0 = digest(a); std::string sa = str(a); Bytes d1 = digest(a);
  std::string sb = str(b), sb2 = str(b); Bytes db = digest(b);
  Bytes dc = digest(c);
  Map all = getters(c), fields = parse(sb), get;
  std::string dev = "{"; bool first = true;
  for (auto& kv : all) {
    if (kv.first[0] != '~') { get[kv.first] = kv.second; continue; }
    const std::string label = kv.first.substr(1); const double want = atof(kv.second.c_str());
    long long ppm = -1;
    if (fields.count(label)) {
      char* end = nullptr; const double got = strtod(fields[label].c_str(), &end);
      if (end != fields[label].c_str()) {
        double d = want == 0.0 ? (std::fabs(got) < 1e-12 ? 0.0 : 1e6) : std::fabs(got - want) / std::fabs(want) * 1e6;
        ppm = d > 2e9 ? 2000000000LL : (long long)std::llround(d);
      }
    }
    if (!first) dev += ","; first = false; dev += "\"" + esc(label) + "\":" + std::to_string(ppm);
  }
  dev += "}";
  Ev("ToString").str("fam", fam).str("variant", variant).i("len", (long long)sb.size())
    .bytes("d0", d0.data(), d0.size()).bytes("d1", d1.data(), d1.size()).bytes("dB", db.data(), db.size()).bytes("dC", dc.data(), dc.size())
    .b("sameText", sb == sb2).b("textAfterDigest", !sa.empty()).raw("fields", json(fields)).raw("fieldsI", json_ints(fields)).raw("get", json(get)).raw("getI", json_ints(get)).raw("dev", dev).emit();
}
template<class V> static Bytes vec(const V& v) { return Bytes(v.begin(), v.end()); }

static void theta_family(vt::Rng& g) {
  Ev("Begin").str("group", "theta").emit();
  for (int q = 0; q < 6; q++) {
    const int lgk = (int)g.range(5, 8); const long n = q == 0 ? 0 : g.range(1, 8L << lgk);
    auto s = update_theta_sketch::builder().set_lg_k((uint8_t)lgk).set_p(g.chance(70) ? 1.0f : 0.5f).build();
    for (long j = 0; j < n; j++) s.update((uint64_t)g.next());
    auto getters = [](auto& x, bool upd, int lg) { Map m;
      m["num retained entries"] = pr(x.get_num_retained()); m["empty?"] = pr(x.is_empty()); m["ordered?"] = pr(x.is_ordered()); m["estimation mode?"] = pr(x.is_estimation_mode());
      m["theta (raw 64-bit)"] = pr(x.get_theta64()); m["~theta (fraction)"] = prd(x.get_theta()); m["~estimate"] = prd(x.get_estimate());
      m["~lower bound 95% conf"] = prd(x.get_lower_bound(2)); m["~upper bound 95% conf"] = prd(x.get_upper_bound(2)); m["seed hash"] = pr(x.get_seed_hash());
      if (upd) m["lg nominal size"] = std::to_string(lg); return m; };
    for (int items = 0; items < 2; items++) {
      check<update_theta_sketch>("theta-update", items ? "items" : "summary", s, [](update_theta_sketch& x) { return vec(x.compact(true).serialize()); },
        [items](const update_theta_sketch& x) { return std::string(x.to_string(items != 0)); }, [&](update_theta_sketch& x) { return getters(x, true, x.get_lg_k()); });
      auto cs = s.compact(g.chance(50));
      check<compact_theta_sketch>("theta-compact", items ? "items" : "summary", cs, [](compact_theta_sketch& x) { return vec(x.serialize()); },
        [items](const compact_theta_sketch& x) { return std::string(x.to_string(items != 0)); }, [&](compact_theta_sketch& x) { return getters(x, false, 0); });
    }
    auto t = update_tuple_sketch<double>::builder().set_lg_k((uint8_t)lgk).build();
    for (long j = 0; j < n; j++) t.update((uint64_t)g.next(), 1.0);
    for (int items = 0; items < 2; items++)
      check<update_tuple_sketch<double>>("tuple-update", items ? "items" : "summary", t, [](update_tuple_sketch<double>& x) { return vec(x.compact(true).serialize()); },
        [items](const update_tuple_sketch<double>& x) { return std::string(x.to_string(items != 0)); }, [&](update_tuple_sketch<double>& x) { return getters(x, true, x.get_lg_k()); });
  }
}

static void hll_cpc_family(vt::Rng& g) {
  Ev("Begin").str("group", "hll-cpc").emit();
  for (int q = 0; q < 8; q++) {
    const int lgk = (int)g.range(4, 12); const target_hll_type tt = q % 3 == 0 ? HLL_4 : q % 3 == 1 ? HLL_6 : HLL_8;
    const long n = q == 0 ? 0 : q == 1 ? 5 : q == 2 ? 9 + (long)g.range(0, (3L << lgk) >> 3) : g.range(1, 40L << lgk);
    hll_sketch s((uint8_t)lgk, tt); for (long j = 0; j < n; j++) s.update((uint64_t)g.next());
    for (int v = 0; v < 3; v++)
      check<hll_sketch>("hll", v == 0 ? "summary" : v == 1 ? "detail" : "all", s, [](hll_sketch& x) { return vec(x.serialize_updatable()); },
        [v](const hll_sketch& x) { return std::string(x.to_string(true, v >= 1, v >= 2, v >= 2)); },
        [](hll_sketch& x) { Map m; m["Log Config K"] = pr(x.get_lg_config_k()); m["Hll Target"] = x.get_target_type() == HLL_4 ? "HLL_4" : x.get_target_type() == HLL_6 ? "HLL_6" : "HLL_8";
          m["~Estimate"] = prd(x.get_estimate()); m["~LB"] = prd(x.get_lower_bound(1)); m["~UB"] = prd(x.get_upper_bound(1)); return m; });
    cpc_sketch c((uint8_t)std::max(lgk, 4)); for (long j = 0; j < n; j++) c.update((uint64_t)g.next());
    check<cpc_sketch>("cpc", "summary", c, [](cpc_sketch& x) { return vec(x.serialize()); }, [](const cpc_sketch& x) { return std::string(x.to_string()); },
      [](cpc_sketch& x) { Map m; m["lg_k"] = pr(x.get_lg_k()); m["~HIP estimate"] = prd(x.get_estimate()); return m; });
  }
}

template<class S> static Map quant_getters(S& x) {
  Map m; m["K"] = pr(x.get_k()); m["N"] = pr(x.get_n()); m["Empty"] = pr(x.is_empty()); m["Estimation mode"] = pr(x.is_estimation_mode()); m["Retained items"] = pr(x.get_num_retained());
  if (!x.is_empty()) { m["~Min item"] = prd(x.get_min_item()); m["~Max item"] = prd(x.get_max_item()); (void)x.get_rank(x.get_min_item()); (void)x.get_quantile(0.5); }
  return m;
}
static void quantiles_family(vt::Rng& g) {
  Ev("Begin").str("group", "quantiles").emit();
  for (int q = 0; q < 6; q++) {
    const long n = q == 0 ? 0 : q == 1 ? 1 : g.range(2, 5000);
    kll_sketch<float> k((uint16_t)g.range(8, 60)); req_sketch<float> r((uint16_t)(2 * g.range(2, 10)), g.chance(50)); quantiles_sketch<float> c((uint16_t)(1 << g.range(1, 5)));
    tdigest_double t((uint16_t)g.range(10, 120)); density_sketch<float> d((uint16_t)g.range(2, 12), 2);
    for (long j = 0; j < n; j++) { float x = (float)(g.next() % 100000) / 8.0f; k.update(x); r.update(x); c.update(x); t.update(x); d.update(std::vector<float>{x, x / 2}); }
    const bool vs[3][2] = {{false, false}, {true, false}, {true, true}};
    for (int v = 0; v < 3; v++) {
      const bool lv = vs[v][0], it = vs[v][1]; const char* vn = v == 0 ? "summary" : v == 1 ? "levels" : "items";
      check<kll_sketch<float>>("kll", vn, k, [](kll_sketch<float>& x) { return vec(x.serialize()); }, [lv, it](const kll_sketch<float>& x) { return std::string(x.to_string(lv, it)); }, quant_getters<kll_sketch<float>>);
      check<req_sketch<float>>("req", vn, r, [](req_sketch<float>& x) { return vec(x.serialize()); }, [lv, it](const req_sketch<float>& x) { return std::string(x.to_string(lv, it)); },
        [](req_sketch<float>& x) { Map m = quant_getters(x); m["High Rank Acc"] = pr(x.is_HRA()); return m; });
      check<quantiles_sketch<float>>("quantiles", vn, c, [](quantiles_sketch<float>& x) { return vec(x.serialize()); }, [lv, it](const quantiles_sketch<float>& x) { return std::string(x.to_string(lv, it)); }, quant_getters<quantiles_sketch<float>>);
      check<density_sketch<float>>("density", vn, d, [](density_sketch<float>& x) { return vec(x.serialize()); }, [lv, it](const density_sketch<float>& x) { return std::string(x.to_string(lv, it)); },
        [](density_sketch<float>& x) { Map m; m["K"] = pr(x.get_k()); m["Dim"] = pr(x.get_dim()); m["Empty"] = pr(x.is_empty()); m["N"] = pr(x.get_n()); m["Retained items"] = pr(x.get_num_retained());
          m["Estimation mode"] = pr(x.is_estimation_mode()); return m; });
    }
    for (int v = 0; v < 2; v++)
      check<tdigest_double>("tdigest", v ? "centroids" : "summary", t, [](tdigest_double& x) { return vec(x.serialize()); }, [v](const tdigest_double& x) { return std::string(x.to_string(v != 0)); },
        [](tdigest_double& x) { Map m; m["Nominal k"] = pr(x.get_k()); m["Total Weight"] = pr(x.get_total_weight());
          if (!x.is_empty()) { m["~Min"] = prd(x.get_min_value()); m["~Max"] = prd(x.get_max_value()); (void)x.get_rank(1.0); } return m; });
  }
}

static void frequency_family(vt::Rng& g) {
  Ev("Begin").str("group", "frequency").emit();
  for (int q = 0; q < 6; q++) {
    const long n = q == 0 ? 0 : g.range(1, 3000);
    frequent_items_sketch<int> f((uint8_t)g.range(3, 6)); count_min_sketch<uint64_t> c((uint8_t)g.range(1, 5), (uint32_t)g.range(3, 64), 77);
    auto b = bloom_filter::builder::create_by_size((uint64_t)g.range(1, 4000), (uint16_t)g.range(1, 6), 99);
    for (long j = 0; j < n; j++) { int x = (int)(g.next() % 200); f.update(x, 1 + (int)(g.next() % 4)); c.update((uint64_t)x, 1 + g.next() % 4); b.update((uint64_t)x); }
    for (int v = 0; v < 2; v++) {
      check<frequent_items_sketch<int>>("fi", v ? "items" : "summary", f, [](frequent_items_sketch<int>& x) { return vec(x.serialize()); }, [v](const frequent_items_sketch<int>& x) { return std::string(x.to_string(v != 0)); },
        [](frequent_items_sketch<int>& x) { Map m; m["num active items"] = pr(x.get_num_active_items()); m["total weight"] = pr(x.get_total_weight()); m["max error"] = pr(x.get_maximum_error()); return m; });
      check<bloom_filter>("bloom", v ? "filter" : "summary", b, [](bloom_filter& x) { return vec(x.serialize()); }, [v](const bloom_filter& x) { return std::string(x.to_string(v != 0)); },
        [](bloom_filter& x) { Map m; m["num_bits"] = pr(x.get_capacity()); m["num_hashes"] = pr(x.get_num_hashes()); m["seed"] = pr(x.get_seed()); m["bits_used"] = pr(x.get_bits_used()); return m; });
    }
    check<count_min_sketch<uint64_t>>("countmin", "summary", c, [](count_min_sketch<uint64_t>& x) { return vec(x.serialize()); }, [](const count_min_sketch<uint64_t>& x) { return std::string(x.to_string()); },
      [](count_min_sketch<uint64_t>& x) { Map m; m["num hashes"] = pr(x.get_num_hashes()); m["num buckets"] = pr(x.get_num_buckets()); return m; });
  }
}

static void sampling_family(vt::Rng& g) {
  Ev("Begin").str("group", "sampling").emit();
  random_utils::override_seed(g.next());
  for (int q = 0; q < 6; q++) {
    const long n = q == 0 ? 0 : g.range(1, 400); const uint32_t k = (uint32_t)g.range(1, 40);
    var_opt_sketch<int> v(k); ebpps_sketch<int> e(k); var_opt_union<int> u(k);
    for (long j = 0; j < n; j++) { v.update((int)j, 1.0 + (double)(g.next() % 50)); e.update((int)j, 1.0 + (double)(g.next() % 3)); }
    u.update(v);
    for (int w = 0; w < 2; w++) {
      check<var_opt_sketch<int>>("varopt", w ? "items-only" : "summary", v, [](var_opt_sketch<int>& x) { return vec(x.serialize()); },
        [w](const var_opt_sketch<int>& x) { return std::string(w ? x.items_to_string() : x.to_string()); },
        [](var_opt_sketch<int>& x) { Map m; m["k"] = pr(x.get_k()); m["num_samples"] = pr(x.get_num_samples()); return m; });
      check<ebpps_sketch<int>>("ebpps", w ? "items-only" : "summary", e, [](ebpps_sketch<int>& x) { return vec(x.serialize()); },
        [w](const ebpps_sketch<int>& x) { return std::string(w ? x.items_to_string() : x.to_string()); },
        [](ebpps_sketch<int>& x) { Map m; m["k"] = pr(x.get_k()); m["n"] = pr(x.get_n()); m["~cum. weight"] = prd(x.get_cumulative_weight()); m["~C"] = prd(x.get_c()); return m; });
    }
    check<var_opt_union<int>>("varopt-union", "summary", u, [](var_opt_union<int>& x) { return vec(x.serialize()); }, [](const var_opt_union<int>& x) { return std::string(x.to_string()); },
      [](var_opt_union<int>&) { return Map(); });
  }
}

int main(int argc, char** argv) {
  vt::install_terminate();
  uint64_t seed = (uint64_t)vt::argl(argc, argv, "--seed", 1);
  int rounds = (int)vt::argl(argc, argv, "--rounds", 2);
  vt::open_out(vt::arg(argc, argv, "--out", "/dev/stdout"));
  vt::Rng g(seed);
  for (int r = 0; r < rounds; r++) { theta_family(g); hll_cpc_family(g); quantiles_family(g); frequency_family(g); sampling_family(g); }
  vt::close_out();
  fprintf(stderr, "x_tostring_rec: %ld events\n", vt::g_events);
  return 0;
}
