// Independent reference implementations of the published hash functions (MurmurHash3_x64_128 by
// Austin Appleby, public domain definition; XXH64 by Yann Collet, published specification) and
// of the documented canonicalisation of typed inputs.  Written from the published definitions,
// NOT by calling the library, so that the library's hashing is itself under test in every trace.
#pragma once
#include <cstdint>
#include <cstring>
#include <string>
#include <cstdio>
#include <cstdlib>
#include <cmath>

namespace refhash {

static inline uint64_t rotl64(uint64_t x, int r) { return (x << r) | (x >> (64 - r)); }
static inline uint64_t rd64(const uint8_t* p) { uint64_t v; memcpy(&v, p, 8); return v; }
static inline uint32_t rd32(const uint8_t* p) { uint32_t v; memcpy(&v, p, 4); return v; }
static inline uint64_t fmix64(uint64_t k) {
  k ^= k >> 33; k *= 0xff51afd7ed558ccdULL; k ^= k >> 33; k *= 0xc4ceb9fe1a85ec53ULL; k ^= k >> 33; return k;
}

struct H128 { uint64_t h1, h2; };

static inline H128 murmur3_x64_128(const void* key, size_t len, uint64_t seed) {
  const uint8_t* data = static_cast<const uint8_t*>(key);
  const size_t nblocks = len / 16;
  uint64_t h1 = seed, h2 = seed;
  const uint64_t c1 = 0x87c37b91114253d5ULL, c2 = 0x4cf5ad432745937fULL;
  for (size_t i = 0; i < nblocks; i++) {
    uint64_t k1 = rd64(data + 16 * i), k2 = rd64(data + 16 * i + 8);
    k1 *= c1; k1 = rotl64(k1, 31); k1 *= c2; h1 ^= k1;
    h1 = rotl64(h1, 27); h1 += h2; h1 = h1 * 5 + 0x52dce729;
    k2 *= c2; k2 = rotl64(k2, 33); k2 *= c1; h2 ^= k2;
    h2 = rotl64(h2, 31); h2 += h1; h2 = h2 * 5 + 0x38495ab5;
  }
  const uint8_t* tail = data + nblocks * 16;
  uint64_t k1 = 0, k2 = 0;
  switch (len & 15) {
    case 15: k2 ^= uint64_t(tail[14]) << 48; /* fallthrough */
    case 14: k2 ^= uint64_t(tail[13]) << 40; /* fallthrough */
    case 13: k2 ^= uint64_t(tail[12]) << 32; /* fallthrough */
    case 12: k2 ^= uint64_t(tail[11]) << 24; /* fallthrough */
    case 11: k2 ^= uint64_t(tail[10]) << 16; /* fallthrough */
    case 10: k2 ^= uint64_t(tail[9]) << 8;   /* fallthrough */
    case 9:  k2 ^= uint64_t(tail[8]);
             k2 *= c2; k2 = rotl64(k2, 33); k2 *= c1; h2 ^= k2; /* fallthrough */
    case 8:  k1 ^= uint64_t(tail[7]) << 56; /* fallthrough */
    case 7:  k1 ^= uint64_t(tail[6]) << 48; /* fallthrough */
    case 6:  k1 ^= uint64_t(tail[5]) << 40; /* fallthrough */
    case 5:  k1 ^= uint64_t(tail[4]) << 32; /* fallthrough */
    case 4:  k1 ^= uint64_t(tail[3]) << 24; /* fallthrough */
    case 3:  k1 ^= uint64_t(tail[2]) << 16; /* fallthrough */
    case 2:  k1 ^= uint64_t(tail[1]) << 8;  /* fallthrough */
    case 1:  k1 ^= uint64_t(tail[0]);
             k1 *= c1; k1 = rotl64(k1, 31); k1 *= c2; h1 ^= k1;
  }
  h1 ^= len; h2 ^= len;
  h1 += h2; h2 += h1;
  h1 = fmix64(h1); h2 = fmix64(h2);
  h1 += h2; h2 += h1;
  return H128{h1, h2};
}

static const uint64_t P1 = 11400714785074694791ULL, P2 = 14029467366897019727ULL, P3 = 1609587929392839161ULL,
                      P4 = 9650029242287828579ULL, P5 = 2870177450012600261ULL;
static inline uint64_t xround(uint64_t acc, uint64_t in) { acc += in * P2; acc = rotl64(acc, 31); acc *= P1; return acc; }
static inline uint64_t xmerge(uint64_t acc, uint64_t v) { v = xround(0, v); acc ^= v; acc = acc * P1 + P4; return acc; }

static inline uint64_t xxh64(const void* input, size_t len, uint64_t seed) {
  const uint8_t* p = static_cast<const uint8_t*>(input);
  const uint8_t* end = p + len;
  uint64_t h;
  if (len >= 32) {
    const uint8_t* limit = end - 32;
    uint64_t v1 = seed + P1 + P2, v2 = seed + P2, v3 = seed, v4 = seed - P1;
    do {
      v1 = xround(v1, rd64(p)); p += 8; v2 = xround(v2, rd64(p)); p += 8;
      v3 = xround(v3, rd64(p)); p += 8; v4 = xround(v4, rd64(p)); p += 8;
    } while (p <= limit);
    h = rotl64(v1, 1) + rotl64(v2, 7) + rotl64(v3, 12) + rotl64(v4, 18);
    h = xmerge(h, v1); h = xmerge(h, v2); h = xmerge(h, v3); h = xmerge(h, v4);
  } else {
    h = seed + P5;
  }
  h += uint64_t(len);
  while (p + 8 <= end) { uint64_t k = xround(0, rd64(p)); h ^= k; h = rotl64(h, 27) * P1 + P4; p += 8; }
  if (p + 4 <= end) { h ^= uint64_t(rd32(p)) * P1; h = rotl64(h, 23) * P2 + P3; p += 4; }
  while (p < end) { h ^= (*p) * P5; h = rotl64(h, 11) * P1; p++; }
  h ^= h >> 33; h *= P2; h ^= h >> 29; h *= P3; h ^= h >> 32;
  return h;
}

// published test vectors; abort (machinery failure, not a finding) if the reference itself is wrong
static inline void self_check() {
  const char* fox = "The quick brown fox jumps over the lazy dog";
  H128 a = murmur3_x64_128(fox, strlen(fox), 0);
  H128 e = murmur3_x64_128("", 0, 0);
  bool ok = a.h1 == 0xe34bbc7bbc071b6cULL && a.h2 == 0x7a433ca9c49a9347ULL && e.h1 == 0 && e.h2 == 0;
  ok = ok && xxh64("", 0, 0) == 0xEF46DB3751D8E999ULL;
  ok = ok && xxh64("a", 1, 0) == 0xD24EC4F1A98C6E5BULL;
  ok = ok && xxh64("abc", 3, 0) == 0x44BC2CF5AD770999ULL;
  if (!ok) { fprintf(stderr, "refhash self-check failed\n"); exit(3); }
}

// ---- documented canonicalisation of typed update() inputs (distinct-count families) ----
// integers of every width are sign-extended to 64 bits (unsigned narrow types via their signed
// twin); float is widened to double; -0.0 -> 0.0; every NaN -> 0x7ff8000000000000; strings hash
// their bytes and the empty string is ignored.
static inline uint64_t canon_double_bits(double v) {
  if (v == 0.0) v = 0.0;
  uint64_t b;
  if (std::isnan(v)) b = 0x7ff8000000000000ULL; else memcpy(&b, &v, 8);
  return b;
}

} // namespace refhash
