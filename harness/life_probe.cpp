// C19 compile probes: members that generic replay cannot even instantiate when they are ill-formed.
// bin/vlib/p_lifecycle.py compiles this file with -fsyntax-only once per -DLIFE_PROBE=<n>; a probe that does not
// compile is reported as a violation of C19 (the operation does not exist for the user), keyed by the probe name.
//   1  varopt_union_copy_assign   var_opt_union<T,A>::operator=(const var_opt_union&)
//   2  ebpps_merge_user_types     ebpps_sketch<T,A>::merge(const ebpps_sketch&) with T and A outside namespace std
#include <cstddef>
#include <new>
#if LIFE_PROBE == 1
#include "var_opt_union.hpp"
void probe() {
  datasketches::var_opt_union<int> a(8), b(8);
  a = b;
}
#elif LIFE_PROBE == 2
#include "ebpps_sketch.hpp"
namespace user {
  struct item { int v; };
  template<class T> struct alloc {
    using value_type = T;
    alloc() = default;
    template<class U> alloc(const alloc<U>&) {}
    T* allocate(std::size_t n) { return static_cast<T*>(::operator new(n * sizeof(T))); }
    void deallocate(T* p, std::size_t) { ::operator delete(p); }
    template<class U> bool operator==(const alloc<U>&) const { return true; }
    template<class U> bool operator!=(const alloc<U>&) const { return false; }
  };
}
void probe() {
  datasketches::ebpps_sketch<user::item, user::alloc<user::item>> a(4), b(4);
  a.merge(b);
}
#endif
int main() { return 0; }
