// Recording driver for Tuple sketches (C13): update_tuple_sketch with a summary that IS the list of offered values
// (update policy = append, union / intersection policy = concatenation) and array_of_doubles sketches with
// integer-valued columns; a theta sketch of the same configuration runs in lock-step on the same keys.
#include <memory>
#include <sstream>
#include <algorithm>
#include <theta_sketch.hpp>
#include <tuple_sketch.hpp>
#include <tuple_union.hpp>
#include <tuple_intersection.hpp>
#include <tuple_a_not_b.hpp>
#include <array_of_doubles_sketch.hpp>
#include "vtrace.hpp"
#include "typed_items.hpp"

using namespace datasketches;
using vt::Ev;
static const uint64_t MAXT = 0x7fffffffffffffffULL;

// ---- list summary ------------------------------------------------------------------------------------
struct Lst { std::vector<int> v; };
struct LstUpdatePolicy {
  Lst create() const { return Lst(); }
  void update(Lst& s, int val) const { s.v.push_back(val); }
};
struct LstCombinePolicy {   // union and intersection: internal summary, then the incoming one
  void operator()(Lst& internal, const Lst& incoming) const { internal.v.insert(internal.v.end(), incoming.v.begin(), incoming.v.end()); }
  void operator()(Lst& internal, Lst&& incoming) const { internal.v.insert(internal.v.end(), incoming.v.begin(), incoming.v.end()); incoming.v.clear(); }
};
struct LstSerDe {
  void serialize(std::ostream& os, const Lst* items, unsigned num) const {
    for (unsigned i = 0; i < num; i++) { uint32_t n = (uint32_t)items[i].v.size(); os.write((const char*)&n, 4); os.write((const char*)items[i].v.data(), 4 * n); }
  }
  void deserialize(std::istream& is, Lst* items, unsigned num) const {
    for (unsigned i = 0; i < num; i++) { uint32_t n; is.read((char*)&n, 4); new (&items[i]) Lst(); items[i].v.resize(n); is.read((char*)items[i].v.data(), 4 * n);
      if (!is.good()) throw std::runtime_error("stream"); }
  }
  size_t size_of_item(const Lst& it) const { return 4 + 4 * it.v.size(); }
  size_t serialize(void* ptr, size_t capacity, const Lst* items, unsigned num) const {
    char* p = (char*)ptr; size_t used = 0;
    for (unsigned i = 0; i < num; i++) { uint32_t n = (uint32_t)items[i].v.size(); size_t need = 4 + 4 * (size_t)n;
      if (used + need > capacity) throw std::out_of_range("capacity"); memcpy(p + used, &n, 4); memcpy(p + used + 4, items[i].v.data(), 4 * n); used += need; }
    return used;
  }
  size_t deserialize(const void* ptr, size_t capacity, Lst* items, unsigned num) const {
    const char* p = (const char*)ptr; size_t used = 0;
    for (unsigned i = 0; i < num; i++) { if (used + 4 > capacity) throw std::out_of_range("capacity"); uint32_t n; memcpy(&n, p + used, 4);
      if (used + 4 + 4 * (size_t)n > capacity) throw std::out_of_range("capacity"); new (&items[i]) Lst(); items[i].v.resize(n); memcpy(items[i].v.data(), p + used + 4, 4 * n); used += 4 + 4 * (size_t)n; }
    return used;
  }
};

struct LstTraits {
  static constexpr const char* kind = "lst";
  using Update = update_tuple_sketch<Lst, int, LstUpdatePolicy>;
  using Compact = compact_tuple_sketch<Lst>;
  using Union = tuple_union<Lst, LstCombinePolicy>;
  using Inter = tuple_intersection<Lst, LstCombinePolicy>;
  using AnotB = tuple_a_not_b<Lst>;
  static Update make(uint8_t lgk, resize_factor rf, float p, uint64_t seed, int) {
    return Update::builder().set_lg_k(lgk).set_resize_factor(rf).set_p(p).set_seed(seed).build(); }
  static Union make_union(uint8_t lgk, resize_factor rf, float p, uint64_t seed, int) {
    return Union::builder().set_lg_k(lgk).set_resize_factor(rf).set_p(p).set_seed(seed).build(); }
  static Inter make_inter(uint64_t seed, int) { return Inter(seed); }
  static AnotB make_anotb(uint64_t seed, int) { return AnotB(seed); }
  template<class K> static void update(Update& s, const K& key, int v, int) { s.update(key, v); }
  static void update_raw(Update& s, const void* p, size_t n, int v, int) { s.update(p, n, v); }
  static std::vector<long long> summ(const Lst& s) { return std::vector<long long>(s.v.begin(), s.v.end()); }
  static bool pred(const Lst& s, long thr) { long t = 0; for (int x : s.v) t += x; return t >= thr; }
  static Compact from_theta(const compact_theta_sketch& t, int v, int, bool ordered) { Lst s; s.v.push_back(v); return Compact(t, s, ordered); }
  static std::vector<uint8_t> ser(const Compact& c, unsigned hdr) { auto b = c.serialize(hdr, LstSerDe()); return std::vector<uint8_t>(b.begin(), b.end()); }
  static std::string ser_stream(const Compact& c) { std::ostringstream os; c.serialize(os, LstSerDe()); return os.str(); }
  static Compact deser(const void* p, size_t n, uint64_t seed) { return Compact::deserialize(p, n, seed, LstSerDe()); }
  static Compact deser(std::istream& is, uint64_t seed) { return Compact::deserialize(is, seed, LstSerDe()); }
};

struct AodTraits {
  static constexpr const char* kind = "aod";
  using Update = update_array_of_doubles_sketch;
  using Compact = compact_array_of_doubles_sketch;
  using Union = array_of_doubles_union;
  using Inter = array_of_doubles_intersection<default_array_of_doubles_union_policy>;
  using AnotB = array_of_doubles_a_not_b;
  static Update make(uint8_t lgk, resize_factor rf, float p, uint64_t seed, int nv) {
    return Update::builder(default_array_of_doubles_update_policy((uint8_t)nv)).set_lg_k(lgk).set_resize_factor(rf).set_p(p).set_seed(seed).build(); }
  static Union make_union(uint8_t lgk, resize_factor rf, float p, uint64_t seed, int nv) {
    return Union::builder(default_array_of_doubles_union_policy((uint8_t)nv)).set_lg_k(lgk).set_resize_factor(rf).set_p(p).set_seed(seed).build(); }
  static Inter make_inter(uint64_t seed, int nv) { return Inter(seed, default_array_of_doubles_union_policy((uint8_t)nv)); }
  static AnotB make_anotb(uint64_t seed, int) { return AnotB(seed); }
  static std::vector<double> vec(int v, int nv) { std::vector<double> a; for (int c = 1; c <= nv; c++) a.push_back((double)v * c); return a; }
  template<class K> static void update(Update& s, const K& key, int v, int nv) { s.update(key, vec(v, nv)); }
  static void update_raw(Update& s, const void* p, size_t n, int v, int nv) { s.update(p, n, vec(v, nv)); }
  template<class S> static std::vector<long long> summ(const S& s) { std::vector<long long> r; for (size_t j = 0; j < s.size(); j++) r.push_back((long long)std::llround(s[j])); return r; }
  template<class S> static bool pred(const S& s, long thr) { return s[0] >= (double)thr; }
  static std::vector<uint8_t> ser(const Compact& c, unsigned hdr) { auto b = c.serialize(hdr); return std::vector<uint8_t>(b.begin(), b.end()); }
  static std::string ser_stream(const Compact& c) { std::ostringstream os; c.serialize(os); return os.str(); }
  static Compact deser(const void* p, size_t n, uint64_t seed) { return Compact::deserialize(p, n, seed); }
  static Compact deser(std::istream& is, uint64_t seed) { return Compact::deserialize(is, seed); }
};

template<class T, class S> static std::string proj(const S& s) {
  std::vector<uint64_t> ent; std::string sm = "[";
  bool first = true;
  for (auto it = s.begin(); it != s.end(); ++it) {
    ent.push_back(it->first);
    if (!first) sm += ","; first = false;
    sm += "["; bool f2 = true; for (long long x : T::summ(it->second)) { if (!f2) sm += ","; f2 = false; sm += std::to_string(x); } sm += "]";
  }
  sm += "]";
  Ev r("x"); r.s = "{\"z\":0";
  r.h("thetaH", s.get_theta64()).hl("ent", ent).raw("sm", sm).b("empty", s.is_empty()).b("ordered", s.is_ordered())
   .i("n", s.get_num_retained()).b("estMode", s.is_estimation_mode()).d("est", s.get_estimate());
  double e = s.get_estimate();
  r.i("estI", (e == std::floor(e) && e < 2e9) ? (long long)e : -1);
  std::vector<double> lb, ub;
  for (int k = 1; k <= 3; k++) { lb.push_back(s.get_lower_bound(k)); ub.push_back(s.get_upper_bound(k)); }
  r.dl("lb", lb).dl("ub", ub);
  r.s += "}";
  return r.s;
}
static std::string tproj(const compact_theta_sketch& s) {
  std::vector<uint64_t> ent; for (auto h : s) ent.push_back(h);
  Ev r("x"); r.s = "{\"z\":0"; r.h("thetaH", s.get_theta64()).hl("ent", ent).b("empty", s.is_empty()); r.s += "}"; return r.s;
}

template<class T> static void run_segment(vt::Rng& g, long seg, long events, long maxlgk, int serde_pct) {
  const int NS = 2, NC = 6, NU = 2, NI = 2, NB = 3;
  int nv = std::string(T::kind) == "aod" ? (int)g.range(1, 3) : 1;
  Ev("Begin").i("seg", seg).str("kind", T::kind).i("nv", nv).h("maxH", MAXT).emit();
  static const float PS[] = {1.0f, 1.0f, 0.5f, 0.1f};
  uint8_t lgk = (uint8_t)std::min(g.range(5, maxlgk), g.range(5, maxlgk));
  uint64_t sd = g.chance(25) ? g.next() % 100000 + 1 : DEFAULT_SEED;
  long wide = (1L << lgk) * (long)g.range(1, 4);
  std::unique_ptr<typename T::Update> sk[NS];
  std::unique_ptr<update_theta_sketch> th[NS];
  std::unique_ptr<typename T::Compact> cv[NC];
  std::unique_ptr<typename T::Union> un[NU];
  std::unique_ptr<typename T::Inter> ix[NI];
  std::vector<uint8_t> blob[NB]; bool blive[NB] = {false, false, false};
  auto mk = [&](int i) {
    float p = PS[g.below(4)]; auto rf = (resize_factor)g.below(4);
    const uint8_t mylgk = (uint8_t)(g.chance(35) ? lgk + 1 : lgk);   // the two sketches of a segment may differ in lg_k
    sk[i].reset(new typename T::Update(T::make(mylgk, rf, p, sd, nv)));
    th[i].reset(new update_theta_sketch(update_theta_sketch::builder().set_lg_k(mylgk).set_resize_factor(rf).set_p(p).set_seed(sd).build()));
    uint64_t startH = p < 1 ? (uint64_t)((double)MAXT * p) : MAXT;
    Ev("New").i("id", i).i("k", 1L << mylgk).h("startH", startH).h("maxH", MAXT).emit();
  };
  mk(0); mk(1);
  auto pickc = [&]() { for (int t = 0; t < 20; t++) { int c = (int)g.below(NC); if (cv[c]) return c; } return -1; };
  auto upd = [&](int i, const ti::Item& it, int v) {
    typename T::Update& s = *sk[i];
    uint64_t h = 0; bool counted = ti::theta_hash(it, sd, h);
    if (it.type == 11) { T::update_raw(s, it.sv.data(), it.sv.size(), v, nv); th[i]->update(it.sv.data(), it.sv.size()); }
    else ti::dispatch(it, [&](const auto& key) { T::update(s, key, v, nv); th[i]->update(key); });
    Ev e(counted ? "Update" : "UpdateIgnored");
    e.i("id", i).str("type", ti::TYPES[it.type]);
    if (counted) e.h("hH", h).i("val", v);
    e.h("thetaH", s.get_theta64()).i("n", s.get_num_retained()).b("empty", s.is_empty())
     .h("thetaT", th[i]->get_theta64()).i("nT", th[i]->get_num_retained()).emit();
  };
  if (seg % 2 == 0) {
    // directed: a union whose OWN table rebuilt (more distinct keys than 15/8 of its nominal size), result, reset(),
    // then a second use with a few keys: the second result must not remember anything of the first
    const uint8_t ulgk = 5;
    un[0].reset(new typename T::Union(T::make_union(ulgk, (resize_factor)g.below(4), 1.0f, sd, nv)));
    Ev("UNew").i("u", 0).i("k", 1L << ulgk).h("startH", MAXT).emit();
    long key = 100000 + 1000 * (long)g.below(50);
    for (int round = 0; round < 3; round++) {
      for (int j = 0; j < 28 + 4 * round; j++) { ti::Item it; it.type = 1; it.iv = key++; it.dv = 0; upd(0, it, (int)g.range(1, 5)); }
      cv[0].reset(new typename T::Compact(sk[0]->compact(round % 2 == 0)));
      Ev("Compact").i("src", 0).i("dst", 0).b("ordered", round % 2 == 0).raw("r", proj<T>(*cv[0])).emit();
      un[0]->update(*cv[0]);
      Ev("UUpdate").i("u", 0).b("fromUpdate", false).i("src", 0).b("rvalue", false).emit();
      sk[0]->reset(); th[0]->reset();
      Ev("Reset").i("id", 0).h("thetaH", sk[0]->get_theta64()).i("n", sk[0]->get_num_retained()).b("empty", sk[0]->is_empty()).emit();
    }
    cv[1].reset(new typename T::Compact(un[0]->get_result(true)));
    Ev("UResult").i("u", 0).b("ordered", true).i("dst", 1).raw("r", proj<T>(*cv[1])).emit();
    un[0]->reset(); Ev("UReset").i("u", 0).emit();
    cv[2].reset(new typename T::Compact(un[0]->get_result(false)));
    Ev("UResult").i("u", 0).b("ordered", false).i("dst", 2).raw("r", proj<T>(*cv[2])).emit();
    for (int j = 0; j < 9; j++) { ti::Item it; it.type = 1; it.iv = key++; it.dv = 0; upd(0, it, (int)g.range(1, 5)); }
    cv[0].reset(new typename T::Compact(sk[0]->compact(false)));
    Ev("Compact").i("src", 0).i("dst", 0).b("ordered", false).raw("r", proj<T>(*cv[0])).emit();
    un[0]->update(*cv[0]);
    Ev("UUpdate").i("u", 0).b("fromUpdate", false).i("src", 0).b("rvalue", false).emit();
    cv[3].reset(new typename T::Compact(un[0]->get_result(true)));
    Ev("UResult").i("u", 0).b("ordered", true).i("dst", 3).raw("r", proj<T>(*cv[3])).emit();
  }
  for (long n = 0; n < events; n++) {
    int i = (int)g.below(NS);
    typename T::Update& s = *sk[i];
    int op = (int)g.below(100);
    int base = 30 + 2 * serde_pct;
    if (op >= base) {
      ti::Item it = ti::draw(g, wide);
      if (g.chance(60)) { it.type = 1; it.iv = g.range(0, wide); }   // mostly a compact int domain: repeated keys accumulate values
      upd(i, it, (int)g.range(1, 5));
      continue;
    }
    if (op < 2) {
      s.trim(); th[i]->trim();
      Ev("Trim").i("id", i).h("thetaH", s.get_theta64()).i("n", s.get_num_retained()).b("empty", s.is_empty())
        .h("thetaT", th[i]->get_theta64()).i("nT", th[i]->get_num_retained()).emit();
    } else if (op < 3) {
      if (g.chance(40)) { s.reset(); th[i]->reset(); Ev("Reset").i("id", i).h("thetaH", s.get_theta64()).i("n", s.get_num_retained()).b("empty", s.is_empty()).emit(); }
    } else if (op < 6) {
      std::vector<uint64_t> entT; for (auto hh : *th[i]) entT.push_back(hh);
      Ev("Obs").i("id", i).raw("r", proj<T>(s)).hl("entT", entT).emit();
    } else if (op < 7) {
      int j = 1 - i;
      const int how = (int)g.below(3);   // copy assignment, move assignment from a temporary, copy construction
      if (how == 0) { *sk[j] = s; *th[j] = *th[i]; }
      else if (how == 1) { *sk[j] = typename T::Update(s); *th[j] = update_theta_sketch(*th[i]); }
      else { sk[j].reset(new typename T::Update(s)); th[j].reset(new update_theta_sketch(*th[i])); }
      Ev("Copy").i("src", i).i("dst", j).raw("r", proj<T>(*sk[j])).emit();
    } else if (op < 10) {
      int c = (int)g.below(NC); bool ord = g.chance(50);
      cv[c].reset(new typename T::Compact(s.compact(ord)));
      Ev("Compact").i("src", i).i("dst", c).b("ordered", ord).raw("r", proj<T>(*cv[c])).emit();
    } else if (op < 13) {
      long thr = g.range(1, 8); int dst = (int)g.below(NC);
      bool fromU = g.chance(50); int c = pickc();
      if (!fromU && c < 0) continue;
      auto pr = [&](const auto& sm) { return T::pred(sm, thr); };
      if constexpr (std::is_same<T, LstTraits>::value) {
        std::unique_ptr<typename T::Compact> r;
        if (fromU) r.reset(new typename T::Compact(s.filter(pr))); else r.reset(new typename T::Compact(cv[c]->filter(pr)));
        Ev("Filter").b("fromUpdate", fromU).i("src", fromU ? i : c).i("thr", thr).i("dst", dst).raw("r", proj<T>(*r)).emit();
        cv[dst] = std::move(r);
      } else {
        // filter() of the array specialisation returns the generic compact_tuple_sketch: observed, not stored
        if (fromU) { auto r = s.filter(pr); Ev("Filter").b("fromUpdate", fromU).i("src", i).i("thr", thr).i("dst", -1).raw("r", proj<T>(r)).emit(); }
        else { auto r = cv[c]->filter(pr); Ev("Filter").b("fromUpdate", fromU).i("src", c).i("thr", thr).i("dst", -1).raw("r", proj<T>(r)).emit(); }
      }
    } else if (op < 14) {
      if constexpr (std::is_same<T, LstTraits>::value) {
        int dst = (int)g.below(NC); bool ord = g.chance(50); int v = (int)g.range(1, 5);
        auto t = th[i]->compact(g.chance(50));
        cv[dst].reset(new typename T::Compact(LstTraits::from_theta(t, v, nv, ord)));   // only instantiated for lst below
        Ev("FromTheta").i("dst", dst).i("val", v).raw("t", tproj(t)).raw("r", proj<T>(*cv[dst])).emit();
      }
    } else if (op < 16) {
      int u = (int)g.below(NU); uint8_t ulgk = (uint8_t)g.range(5, maxlgk); float p = PS[g.below(4)];
      {
        const resize_factor urf = (resize_factor)g.below(4);
        const int how = un[u] ? (int)g.below(3) : 0;   // re-initialise an existing variable by move / copy assignment, or a new object
        if (how == 1) *un[u] = T::make_union(ulgk, urf, p, sd, nv);
        else if (how == 2) { typename T::Union fresh(T::make_union(ulgk, urf, p, sd, nv)); *un[u] = fresh; }
        else un[u].reset(new typename T::Union(T::make_union(ulgk, urf, p, sd, nv)));
      }
      uint64_t startH = p < 1 ? (uint64_t)((double)MAXT * p) : MAXT;
      Ev("UNew").i("u", u).i("k", 1L << ulgk).h("startH", startH).emit();
    } else if (op < 21) {
      int u = (int)g.below(NU); if (!un[u]) continue;
      bool fromU = g.chance(40); int c = pickc(); if (!fromU && c < 0) continue;
      bool rv = g.chance(40);
      if (fromU) un[u]->update(s);
      else if (rv) { typename T::Compact tmp(*cv[c]); un[u]->update(std::move(tmp)); }
      else un[u]->update(*cv[c]);
      Ev("UUpdate").i("u", u).b("fromUpdate", fromU).i("src", fromU ? i : c).b("rvalue", rv && !fromU).emit();
    } else if (op < 24) {
      int u = (int)g.below(NU); if (!un[u]) continue;
      bool ord = g.chance(50); int dst = (int)g.below(NC);
      cv[dst].reset(new typename T::Compact(un[u]->get_result(ord)));
      Ev("UResult").i("u", u).b("ordered", ord).i("dst", dst).raw("r", proj<T>(*cv[dst])).emit();
      if (g.chance(15)) { un[u]->reset(); Ev("UReset").i("u", u).emit(); }
    } else if (op < 25) {
      int x = (int)g.below(NI); ix[x].reset(new typename T::Inter(T::make_inter(sd, nv))); Ev("INew").i("i", x).emit();
    } else if (op < 28) {
      int x = (int)g.below(NI); if (!ix[x]) continue;
      bool fromU = g.chance(40); int c = pickc(); if (!fromU && c < 0) continue;
      bool rv = g.chance(40);
      if (fromU) ix[x]->update(s);
      else if (rv) { typename T::Compact tmp(*cv[c]); ix[x]->update(std::move(tmp)); }
      else ix[x]->update(*cv[c]);
      Ev("IUpdate").i("i", x).b("fromUpdate", fromU).i("src", fromU ? i : c).b("rvalue", rv && !fromU).emit();
    } else if (op < 29) {
      int x = (int)g.below(NI); if (!ix[x]) continue;
      bool ord = g.chance(50); int dst = (int)g.below(NC);
      try {
        std::unique_ptr<typename T::Compact> r(new typename T::Compact(ix[x]->get_result(ord)));
        Ev("IResult").i("i", x).b("ordered", ord).i("dst", dst).str("outcome", "ok").raw("r", proj<T>(*r)).emit();
        cv[dst] = std::move(r);
      } catch (const std::invalid_argument&) {
        Ev("IResult").i("i", x).b("ordered", ord).i("dst", dst).str("outcome", "throw").emit();
      }
    } else if (op < 30) {
      int b = pickc(); if (b < 0) continue;
      bool aFromU = g.chance(50); int a = pickc(); if (!aFromU && a < 0) continue;
      bool ord = g.chance(50); int dst = (int)g.below(NC);
      auto anb = T::make_anotb(sd, nv);
      std::unique_ptr<typename T::Compact> r;
      if (aFromU) r.reset(new typename T::Compact(anb.compute(s, *cv[b], ord)));
      else if (g.chance(40)) { typename T::Compact tmp(*cv[a]); r.reset(new typename T::Compact(anb.compute(std::move(tmp), *cv[b], ord))); }
      else r.reset(new typename T::Compact(anb.compute(*cv[a], *cv[b], ord)));
      Ev("AnotB").b("aFromUpdate", aFromU).i("a", aFromU ? i : a).i("b", b).b("ordered", ord).i("dst", dst).raw("r", proj<T>(*r)).emit();
      cv[dst] = std::move(r);
    } else if (op < 30 + serde_pct) {
      int c = pickc(); if (c < 0) continue; int b = (int)g.below(NB);
      static const unsigned HS[] = {0, 0, 1, 7, 8, 13, 64};
      unsigned hdr = HS[g.below(7)];
      auto bytes = T::ser(*cv[c], hdr); std::string st = T::ser_stream(*cv[c]);
      blob[b].assign(bytes.begin() + hdr, bytes.end()); blive[b] = true;
      Ev("Ser").i("src", c).i("blob", b).i("hdr", hdr).i("total", (long long)bytes.size()).i("size", (long long)blob[b].size())
        .b("ordered", cv[c]->is_ordered()).bytes("img", blob[b].data(), blob[b].size()).bytes("simg", st.data(), st.size()).emit();
    } else {
      int b = (int)g.below(NB); if (!blive[b]) continue; int c = (int)g.below(NC);
      if (g.chance(50)) {
        cv[c].reset(new typename T::Compact(T::deser(blob[b].data(), blob[b].size(), sd)));
        auto re = T::ser(*cv[c], 0);
        Ev("Deser").i("blob", b).i("dst", c).str("path", "bytes").i("consumed", (long long)blob[b].size()).bytes("reimg", re.data(), re.size()).raw("r", proj<T>(*cv[c])).emit();
      } else {
        std::string in((const char*)blob[b].data(), blob[b].size()); in += std::string(16, '\x5a');
        std::istringstream is(in);
        cv[c].reset(new typename T::Compact(T::deser(is, sd)));
        long long consumed = (long long)is.tellg();
        auto re = T::ser(*cv[c], 0);
        Ev("Deser").i("blob", b).i("dst", c).str("path", "stream").i("consumed", consumed).bytes("reimg", re.data(), re.size()).raw("r", proj<T>(*cv[c])).emit();
      }
    }
  }
  for (int i = 0; i < NS; i++) { std::vector<uint64_t> entT; for (auto hh : *th[i]) entT.push_back(hh); Ev("Obs").i("id", i).raw("r", proj<T>(*sk[i])).hl("entT", entT).emit(); }
}

int main(int argc, char** argv) {
  refhash::self_check();
  vt::install_terminate();
  uint64_t seed = (uint64_t)vt::argl(argc, argv, "--seed", 1);
  long segments = vt::argl(argc, argv, "--segments", 10);
  long events = vt::argl(argc, argv, "--events", 500);
  long maxlgk = vt::argl(argc, argv, "--maxlgk", 7);
  int serde_pct = (int)vt::argl(argc, argv, "--serde", 2);
  vt::open_out(vt::arg(argc, argv, "--out", "/dev/stdout"));
  vt::Rng g(seed);
  for (long seg = 0; seg < segments; seg++) {
    if (seg % 3 == 2) run_segment<AodTraits>(g, seg, events, maxlgk, serde_pct);
    else run_segment<LstTraits>(g, seg, events, maxlgk, serde_pct);
  }
  vt::close_out();
  fprintf(stderr, "tuple_rec: %ld events\n", vt::g_events);
  return 0;
}
