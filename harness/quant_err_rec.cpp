// C08(c): published rank error on long streams - seeded trials on the real classes, judged by spec/TraceQuantErr.tla.
// Per trial: a random permutation of 0..n-1 is fed to one sketch, or to 8 sketches that are then merged; 100 query
// points at evenly spaced true ranks.  KLL / classic: |estimated - true| normalized rank in ppm against the sketch's own
// get_normalized_rank_error(false), and the largest PMF bin error against get_normalized_rank_error(true).
// REQ: true rank against get_rank_lower_bound / get_rank_upper_bound(estimate, 1..3 std devs).  All numbers are logged
// as integers (ppm of n); thresholds and counting are the specification's.
#include <memory>
#include <algorithm>
#include <sstream>
#include <kll_sketch.hpp>
#include <req_sketch.hpp>
#include <quantiles_sketch.hpp>
#include "vtrace.hpp"
using namespace datasketches;
using vt::Ev;

struct Coin { uint64_t x; uint64_t buf; int left; };
static Coin g_coin = {1, 0, 0};
static uint32_t coin_next(void* c) {
  Coin* k = static_cast<Coin*>(c);
  if (k->left == 0) { uint64_t z = (k->x += 0x9E3779B97F4A7C15ULL); z = (z ^ (z >> 30)) * 0xBF58476D1CE4E5B9ULL; z = (z ^ (z >> 27)) * 0x94D049BB133111EBULL; k->buf = z ^ (z >> 31); k->left = 64; }
  uint32_t b = (uint32_t)(k->buf & 1); k->buf >>= 1; k->left--; return b;
}
static long long ppm(double x) { return llround(x * 1e6); }

template<class Sk, class Mk> static Sk build(const std::vector<float>& v, bool merged, Mk mk) {
  if (!merged) { Sk s = mk(); for (float x : v) s.update(x); return s; }
  std::vector<Sk> parts; for (int p = 0; p < 8; p++) parts.push_back(mk());
  for (size_t i = 0; i < v.size(); i++) parts[i * 8 / v.size()].update(v[i]);
  // merge tree: ((0+1)+(2+3)) + ((4+5)+(6+7))
  for (int step = 1; step < 8; step *= 2) for (int p = 0; p + step < 8; p += 2 * step) parts[p].merge(parts[p + step]);
  return parts[0];
}
static std::vector<float> permutation(long n, vt::Rng& g) {
  std::vector<float> v(n); for (long i = 0; i < n; i++) v[i] = (float)i;
  for (long i = n - 1; i > 0; i--) std::swap(v[i], v[g.below((uint64_t)i + 1)]);
  return v;
}

// depth-2 merge tree with strongly mixed k: A gets 5 %, B 5 %, C 90 % of the stream; B.merge(C); A.merge(B)
template<class Sk, class MkK> static Sk build_tree(const std::vector<float>& v, const int* ks, MkK mk) {
  Sk a = mk(ks[0]), b = mk(ks[1]), c = mk(ks[2]);
  const size_t n = v.size();
  for (size_t i = 0; i < n; i++) { if (i < n / 20) a.update(v[i]); else if (i < n / 10) b.update(v[i]); else c.update(v[i]); }
  b.merge(c); a.merge(b);
  return a;
}
// the published error of the sketch restored through the bytes and the stream path: [eps bytes, eps pmf bytes, eps stream, eps pmf stream] in ppm
template<class Sk> static std::string restored_eps(const Sk& s) {
  auto img = s.serialize(); Sk rb = Sk::deserialize(img.data(), img.size());
  std::stringstream ss; s.serialize(ss); Sk rs = Sk::deserialize(ss);
  return "[" + std::to_string(ppm(rb.get_normalized_rank_error(false))) + "," + std::to_string(ppm(rb.get_normalized_rank_error(true))) + "," +
         std::to_string(ppm(rs.get_normalized_rank_error(false))) + "," + std::to_string(ppm(rs.get_normalized_rank_error(true))) + "]";
}
template<class Sk> static void eps_report(const char* fam, const char* group, int k, long n, const Sk& s);
template<class Sk, class Mk> static void eps_trial(const char* fam, int k, long n, bool merged, vt::Rng& g, Mk mk, const char* group = "flat") {
  std::vector<float> v = permutation(n, g);
  Sk s = build<Sk>(v, merged, mk);
  eps_report(fam, group, k, n, s);
}
template<class Sk, class MkK> static void eps_tree_trial(const char* fam, const int* ks, long n, vt::Rng& g, MkK mk) {
  std::vector<float> v = permutation(n, g);
  Sk s = build_tree<Sk>(v, ks, mk);
  eps_report(fam, "tree", ks[0] * 1000000 + ks[1] * 1000 + ks[2], n, s);
}
template<class Sk> static void eps_report(const char* fam, const char* group, int k, long n, const Sk& s) {
  std::vector<long long> errs;
  for (int j = 0; j < 100; j++) {
    long q = (long)(((double)j + 0.5) * (double)n / 100.0);
    double truth = (double)(q + 1) / (double)n, est = s.get_rank((float)q, true);
    errs.push_back(ppm(std::fabs(est - truth)));
  }
  std::vector<float> sp; for (int j = 1; j < 10; j++) sp.push_back((float)(n * j / 10));
  auto pmf = s.get_PMF(sp.data(), (uint32_t)sp.size(), false);   // exclusive: bin j = [sp[j-1], sp[j])
  double worst = 0; for (size_t b = 0; b < pmf.size(); b++) worst = std::max(worst, std::fabs(pmf[b] - 0.1));
  Ev("Trial").str("fam", fam).str("kind", "eps").str("group", group).i("k", k).i("n", n).i("sn", (long long)s.get_n())
    .i("eps", ppm(s.get_normalized_rank_error(false))).i("epspmf", ppm(s.get_normalized_rank_error(true)))
    .raw("epsrt", restored_eps(s)).il("errs", errs).i("pmferr", ppm(worst)).emit();
}
// the REQ observations of one query batch: true rank, estimate and bounds in ppm; for the exactness claim (a bound pair of zero width
// at 3 standard deviations says "this rank is exact") the estimate and the 3-sd bounds as D tokens (compared for equality only) and the
// estimated / true weights rank * n as integers
struct ReqObs {
  std::vector<long long> tr, es, lb[3], ub[3], estW, trueW; std::vector<double> estD, lb3D, ub3D;
  void add(const req_sketch<float>& s, long q, long n) {
    double truth = (double)(q + 1) / (double)n, est = s.get_rank((float)q, true);
    tr.push_back(ppm(truth)); es.push_back(ppm(est));
    estW.push_back(llround(est * (double)n)); trueW.push_back(q + 1);
    for (int sd = 1; sd <= 3; sd++) {
      double l = s.get_rank_lower_bound(est, (uint8_t)sd), u = s.get_rank_upper_bound(est, (uint8_t)sd);
      lb[sd - 1].push_back(ppm(l)); ub[sd - 1].push_back(ppm(u));
      if (sd == 3) { lb3D.push_back(l); ub3D.push_back(u); }
    }
    estD.push_back(est);
  }
  void emit(const char* group, int k, bool hra, long n, long sn, int band) {
    Ev e("Trial"); e.str("fam", "req").str("kind", "bounds").str("group", group).i("k", k).b("hra", hra).i("n", n).i("sn", sn).i("band", band)
      .il("truth", tr).il("est", es).il("lb1", lb[0]).il("ub1", ub[0]).il("lb2", lb[1]).il("ub2", ub[1]).il("lb3", lb[2]).il("ub3", ub[2])
      .il("estW", estW).il("trueW", trueW).dl("estD", estD).dl("lb3D", lb3D).dl("ub3D", ub3D);
    e.emit();
  }
};
static void req_trial(const int* ks, bool hra, long n, int shape, vt::Rng& g, const char* group = nullptr) {   // shape 0: one sketch, 1: 8-way merge, 2: depth-2 tree
  typedef req_sketch<float> R;
  std::vector<float> v = permutation(n, g);
  const int k = ks[0];
  R s = shape == 2 ? build_tree<R>(v, ks, [=](int kk) { return R((uint16_t)kk, hra); })
                   : build<R>(v, shape == 1, [=]() { return R((uint16_t)k, hra); });
  ReqObs o;
  for (int j = 0; j < 100; j++) {
    // query points crowd the accurate end: true ranks 1 - 2^-(j/6) (HRA) or 2^-(j/6) (LRA) and evenly spaced ones
    double r = j < 60 ? std::pow(2.0, -(double)j / 6.0) : ((double)(j - 60) + 0.5) / 40.0;
    if (hra && j < 60) r = 1.0 - r;
    o.add(s, std::min(n - 1, std::max(0L, (long)(r * (double)n))), n);
  }
  o.emit(group ? group : (shape == 2 ? "tree" : "flat"), k, hra, n, (long)s.get_n(), -1);
}
// ORDERED streams whose accurate-end items arrive first (ascending for LRA, descending for HRA) - a shuffled stream never exercises the
// compaction of items near the accurate end.  One sketch or two merged halves.  Dense queries near the accurate end: bands of width k
// (band b = items (b k .. (b + 1) k] from the accurate end, b = 0..11, 10 queries each), one event and one group per (k, band).
static void req_ordered_trial(int k, bool hra, bool halves, long n) {
  typedef req_sketch<float> R;
  R s((uint16_t)k, hra), s2((uint16_t)k, hra);
  for (long i = 0; i < n; i++) { float x = (float)(hra ? n - 1 - i : i); if (halves && i >= n / 2) s2.update(x); else s.update(x); }
  if (halves) s.merge(s2);
  for (int b = 0; b < 12; b++) {
    ReqObs o;
    for (int j = 0; j < 10; j++) { long d = (long)b * k + (long)j * k / 10; o.add(s, hra ? n - 1 - d : d, n); }
    char grp[40]; snprintf(grp, sizeof grp, "req-ordered-k%02d-b%02d", k, b);
    o.emit(grp, k, hra, n, (long)s.get_n(), b);
  }
}

// unbiasedness of the classic down-sampling merge (its offset comes from random_utils::rand, not from the coin): both sketches
// in estimation mode, k ratio 2 / 4 / 8, three populated source levels; signed rank error (units of 1e-3) at 9 ranks
static void bias_trial(int ratio, long t, vt::Rng& g) {
  typedef quantiles_sketch<float> Q;
  const int kt = 8, ks = kt * ratio; const long nt = 6 * kt, ns = 14 * ks, n = nt + ns;
  std::vector<float> v = permutation(n, g);
  random_utils::override_seed(g.next());
  Q small((uint16_t)kt), large((uint16_t)ks);
  for (long i = 0; i < nt; i++) small.update(v[i]);
  for (long i = nt; i < n; i++) large.update(v[i]);
  const bool dir = t % 2 == 0;
  if (dir) small.merge(large); else large.merge(small);
  const Q& s = dir ? small : large;
  std::vector<long long> errs;
  for (int j = 1; j <= 9; j++) {
    long q = n * j / 10;
    errs.push_back(llround((s.get_rank((float)q, true) - (double)(q + 1) / (double)n) * 1000.0));
  }
  char grp[16]; snprintf(grp, sizeof grp, "ds%d", ratio);
  Ev("Trial").str("fam", "classic").str("kind", "bias").str("group", grp).i("k", s.get_k()).i("n", n).i("sn", (long long)s.get_n())
    .b("bothest", true).il("errs", errs).emit();
}

int main(int argc, char** argv) {
  vt::install_terminate();
  uint64_t seed = (uint64_t)vt::argl(argc, argv, "--seed", 1);
  long trials = vt::argl(argc, argv, "--trials", 24);
  long n = vt::argl(argc, argv, "--n", 100000);
  int fam = (int)vt::argl(argc, argv, "--fam", 0);
  vt::open_out(vt::arg(argc, argv, "--out", "/dev/stdout"));
  random_utils::random_bit.source = &coin_next; random_utils::random_bit.context = &g_coin; g_coin.x = seed * 77 + 5;
  random_utils::override_seed(seed);
  vt::Rng g(seed);
  static const char* FAMS[] = {"kll", "classic", "req", "classic-downsampling"};
  Ev("Begin").str("fam", FAMS[fam]).i("trials", trials).i("n", n).emit();
  // depth-2 trees with strongly mixed k, all three positions of the small k (A.merge(B.merge(C)))
  static const int KLL_T[3][3] = {{200, 200, 16}, {200, 16, 200}, {16, 200, 200}};
  static const int CLQ_T[3][3] = {{128, 128, 16}, {128, 16, 128}, {16, 128, 128}};
  // REQ does not publish a k-dependent state after merging (its bounds use its own k): trees only with the small k on top
  static const int REQ_T[3][3] = {{12, 24, 24}, {12, 12, 24}, {12, 24, 12}};
  for (long t = 0; t < trials; t++) {
    if (fam == 3) { bias_trial(t % 3 == 0 ? 2 : t % 3 == 1 ? 4 : 8, t / 3, g); continue; }
    const bool tree = t % 3 == 2;            // every third trial is a tree
    const bool merged = t % 2 == 1;
    if (fam == 0) {
      if (tree) eps_tree_trial<kll_sketch<float>>("kll", KLL_T[(t / 3) % 3], n, g, [](int kk) { return kll_sketch<float>((uint16_t)kk); });
      else { int k = t % 4 < 2 ? 200 : 100; eps_trial<kll_sketch<float>>("kll", k, n, merged, g, [=]() { return kll_sketch<float>((uint16_t)k); }); }
    } else if (fam == 1) {
      if (tree) eps_tree_trial<quantiles_sketch<float>>("classic", CLQ_T[(t / 3) % 3], n, g, [](int kk) { return quantiles_sketch<float>((uint16_t)kk); });
      else { int k = t % 4 < 2 ? 128 : 64; eps_trial<quantiles_sketch<float>>("classic", k, n, merged, g, [=]() { return quantiles_sketch<float>((uint16_t)k); }); }
    } else {
      const int flat[3] = {t % 4 < 2 ? 12 : 24, 0, 0};
      if (tree) req_trial(REQ_T[(t / 3) % 3], (t / 6) % 2 == 0, n, 2, g);
      else req_trial(flat, (t / 4) % 2 == 0, n, merged ? 1 : 0, g);
    }
  }
  // the extreme configurations of "all k": the largest k, 2^15 (where 2k leaves 16 bits) and its neighbours, on streams long enough for
  // estimation mode; group "kmax" (6 trials)
  if (fam == 0) {
    static const int KK[3] = {65535, 32768, 32767};
    for (int t = 0; t < 6; t++) { const int k = KK[t % 3]; eps_trial<kll_sketch<float>>("kll", k, 250000, t >= 3, g, [=]() { return kll_sketch<float>((uint16_t)k); }, "kmax"); }
  } else if (fam == 1) {
    static const int KK[2] = {32768, 16384};
    for (int t = 0; t < 6; t++) { const int k = KK[t % 2]; eps_trial<quantiles_sketch<float>>("classic", k, 250000, t >= 4, g, [=]() { return quantiles_sketch<float>((uint16_t)k); }, "kmax"); }
  } else if (fam == 2) {
    static const int KK[3][3] = {{1024, 0, 0}, {512, 0, 0}, {256, 0, 0}};
    for (int t = 0; t < 6; t++) req_trial(KK[t % 3], t % 2 == 0, 100000, t >= 3 ? 1 : 0, g, "kmax");
  }
  if (fam == 2) {
    // DIRECTED group for the known finding C08:req-mixed-k-merge-bounds: the small k BELOW the top of a depth-2 tree - the final sketch
    // keeps its own (large) k and publishes bounds for it although most of its data was compacted with the small k
    static const int MIX[3][3] = {{24, 24, 4}, {24, 4, 24}, {50, 24, 4}};
    const long mt = trials >= 96 ? 24 : 12;
    for (long t = 0; t < mt; t++) req_trial(MIX[t % 3], (t / 3) % 2 == 0, n, 2, g, "req-mixed-k");
  }
  if (fam == 2) {
    const long ot = trials >= 96 ? 12 : 6;
    for (int k : {12, 16, 50}) for (long t = 0; t < ot; t++) for (int c = 0; c < 4; c++) req_ordered_trial(k, c % 2 == 0, c / 2 == 1, 40000);
  }
  Ev("Verdict").i("trials", trials).emit();
  vt::close_out();
  return 0;
}
