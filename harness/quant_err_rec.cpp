// C08(c): published rank error on long streams - seeded trials on the real classes, judged by spec/TraceQuantErr.tla.
// Per trial: a random permutation of 0..n-1 is fed to one sketch, or to 8 sketches that are then merged; 100 query
// points at evenly spaced true ranks.  KLL / classic: |estimated - true| normalized rank in ppm against the sketch's own
// get_normalized_rank_error(false), and the largest PMF bin error against get_normalized_rank_error(true).
// REQ: true rank against get_rank_lower_bound / get_rank_upper_bound(estimate, 1..3 std devs).  All numbers are logged
// as integers (ppm of n); thresholds and counting are the specification's.
#include <memory>
#include <algorithm>
#include <kll_sketch.hpp>
#include <req_sketch.hpp>
#include <quantiles_sketch.hpp>
#include "vtrace.hpp"
using namespace datasketches;
using vt::Ev;

struct Coin { uint64_t x; uint64_t buf; int left; };
static Coin g_coin = {1, 0, 0};
static uint32_t coin_next(void* c) {
  Coin* k = static_cast<Coin*>(c);
  if (k->left == 0) { uint64_t z = (k->x += 0x9E3779B97F4A7C15ULL); z = (z ^ (z >> 30)) * 0xBF58476D1CE4E5B9ULL; z = (z ^ (z >> 27)) * 0x94D049BB133111EBULL; k->buf = z ^ (z >> 31); k->left = 64; }
  uint32_t b = (uint32_t)(k->buf & 1); k->buf >>= 1; k->left--; return b;
}
static long long ppm(double x) { return llround(x * 1e6); }

template<class Sk, class Mk> static Sk build(const std::vector<float>& v, bool merged, Mk mk) {
  if (!merged) { Sk s = mk(); for (float x : v) s.update(x); return s; }
  std::vector<Sk> parts; for (int p = 0; p < 8; p++) parts.push_back(mk());
  for (size_t i = 0; i < v.size(); i++) parts[i * 8 / v.size()].update(v[i]);
  // merge tree: ((0+1)+(2+3)) + ((4+5)+(6+7))
  for (int step = 1; step < 8; step *= 2) for (int p = 0; p + step < 8; p += 2 * step) parts[p].merge(parts[p + step]);
  return parts[0];
}
static std::vector<float> permutation(long n, vt::Rng& g) {
  std::vector<float> v(n); for (long i = 0; i < n; i++) v[i] = (float)i;
  for (long i = n - 1; i > 0; i--) std::swap(v[i], v[g.below((uint64_t)i + 1)]);
  return v;
}

template<class Sk, class Mk> static void eps_trial(const char* fam, int k, long n, bool merged, vt::Rng& g, Mk mk) {
  std::vector<float> v = permutation(n, g);
  Sk s = build<Sk>(v, merged, mk);
  std::vector<long long> errs;
  for (int j = 0; j < 100; j++) {
    long q = (long)(((double)j + 0.5) * (double)n / 100.0);
    double truth = (double)(q + 1) / (double)n, est = s.get_rank((float)q, true);
    errs.push_back(ppm(std::fabs(est - truth)));
  }
  std::vector<float> sp; for (int j = 1; j < 10; j++) sp.push_back((float)(n * j / 10));
  auto pmf = s.get_PMF(sp.data(), (uint32_t)sp.size(), false);   // exclusive: bin j = [sp[j-1], sp[j])
  double worst = 0; for (size_t b = 0; b < pmf.size(); b++) worst = std::max(worst, std::fabs(pmf[b] - 0.1));
  Ev("Trial").str("fam", fam).str("kind", "eps").i("k", k).i("n", n).b("merged", merged).i("sn", (long long)s.get_n())
    .i("eps", ppm(s.get_normalized_rank_error(false))).i("epspmf", ppm(s.get_normalized_rank_error(true))).il("errs", errs).i("pmferr", ppm(worst)).emit();
}
static void req_trial(int k, bool hra, long n, bool merged, vt::Rng& g) {
  typedef req_sketch<float> R;
  std::vector<float> v = permutation(n, g);
  R s = build<R>(v, merged, [=]() { return R((uint16_t)k, hra); });
  std::vector<long long> tr, lb[3], ub[3];
  for (int j = 0; j < 100; j++) {
    // query points crowd the accurate end: true ranks 1 - 2^-(j/6) (HRA) or 2^-(j/6) (LRA) and evenly spaced ones
    double r = j < 60 ? std::pow(2.0, -(double)j / 6.0) : ((double)(j - 60) + 0.5) / 40.0;
    if (hra && j < 60) r = 1.0 - r;
    long q = std::min(n - 1, std::max(0L, (long)(r * (double)n)));
    double truth = (double)(q + 1) / (double)n, est = s.get_rank((float)q, true);
    tr.push_back(ppm(truth));
    for (int sd = 1; sd <= 3; sd++) { lb[sd - 1].push_back(ppm(s.get_rank_lower_bound(est, (uint8_t)sd))); ub[sd - 1].push_back(ppm(s.get_rank_upper_bound(est, (uint8_t)sd))); }
  }
  Ev("Trial").str("fam", "req").str("kind", "bounds").i("k", k).b("hra", hra).i("n", n).b("merged", merged).i("sn", (long long)s.get_n())
    .il("truth", tr).il("lb1", lb[0]).il("ub1", ub[0]).il("lb2", lb[1]).il("ub2", ub[1]).il("lb3", lb[2]).il("ub3", ub[2]).emit();
}

int main(int argc, char** argv) {
  vt::install_terminate();
  uint64_t seed = (uint64_t)vt::argl(argc, argv, "--seed", 1);
  long trials = vt::argl(argc, argv, "--trials", 24);
  long n = vt::argl(argc, argv, "--n", 100000);
  int fam = (int)vt::argl(argc, argv, "--fam", 0);
  vt::open_out(vt::arg(argc, argv, "--out", "/dev/stdout"));
  random_utils::random_bit.source = &coin_next; random_utils::random_bit.context = &g_coin; g_coin.x = seed * 77 + 5;
  random_utils::override_seed(seed);
  vt::Rng g(seed);
  static const char* FAMS[] = {"kll", "classic", "req"};
  Ev("Begin").str("fam", FAMS[fam]).i("trials", trials).i("n", n).emit();
  for (long t = 0; t < trials; t++) {
    const bool merged = t % 2 == 1;
    if (fam == 0) { int k = t % 4 < 2 ? 200 : 100; eps_trial<kll_sketch<float>>("kll", k, n, merged, g, [=]() { return kll_sketch<float>((uint16_t)k); }); }
    else if (fam == 1) { int k = t % 4 < 2 ? 128 : 64; eps_trial<quantiles_sketch<float>>("classic", k, n, merged, g, [=]() { return quantiles_sketch<float>((uint16_t)k); }); }
    else req_trial(t % 4 < 2 ? 12 : 24, (t / 4) % 2 == 0, n, merged, g);
  }
  Ev("Verdict").i("trials", trials).emit();
  vt::close_out();
  return 0;
}
