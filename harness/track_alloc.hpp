// C19: stateful tracking allocator + the per-call environment-event buffer of the lifecycle harness.
//
// track_alloc<T> instances carry an id (the "allocator supplied by the user").  Every allocate/deallocate
// is appended to the environment-event buffer as <<block id, size in bytes, allocator id>> (lists A and F).  Like
// the repository's test_allocator, default construction is forbidden (it throws): a library component that
// instantiates its own allocator instead of using the supplied one fails the call.  Unlike test_allocator,
// instances with different ids compare unequal, and the propagate_on_container_* traits are true (a
// well-behaved stateful allocator whose instances travel with the buffers they allocated), so both
// std-container-based and hand-written copy/move/swap code can be consistent.
//
// The harness only LOGS.  Whether a deallocate matches a live block of that size and allocator is decided
// by spec/Lifecycle.tla (EnvAfter).  Two things the runtime does on its own: it refuses to hand a pointer
// that is not currently allocated to ::operator delete (the event is still logged as it happened), so that
// a double free is reported by name by the specification instead of as a heap-corruption abort; and it
// keeps released blocks in quarantine (poisoned under AddressSanitizer) until the segment ends, so that an
// address is never recycled inside a segment and a block id identifies ONE allocation.
#pragma once
#include <array>
#include <cstddef>
#include <cstdint>
#include <memory>
#include <new>
#include <stdexcept>
#include <string>
#include <unordered_map>
#include <vector>

namespace life {

#if defined(__SANITIZE_ADDRESS__)
extern "C" void __asan_poison_memory_region(void const volatile*, size_t);
extern "C" void __asan_unpoison_memory_region(void const volatile*, size_t);
#define LIFE_POISON(p, n) __asan_poison_memory_region((p), (n))
#define LIFE_UNPOISON(p, n) __asan_unpoison_memory_region((p), (n))
#else
#define LIFE_POISON(p, n) ((void)0)
#define LIFE_UNPOISON(p, n) ((void)0)
#endif

struct Runtime {
  // events of the current call (see spec/Lifecycle.tla, EnvAfter)
  std::vector<std::array<long, 3>> A, F;      // <<block id, bytes, allocator id>>
  std::vector<long> ic, idt, iu, im;          // item serials: constructed, destroyed, value read, read while moved-from
  std::vector<std::array<long, 2>> ov;        // <<serial, old serial>>: constructed on storage holding a never-destroyed item
  std::unordered_map<const void*, int> blk_id;       // address -> id of the allocation that returned it (this segment)
  std::unordered_map<const void*, size_t> blk_real;  // blocks really obtained from ::operator new and not yet handed back
  std::vector<std::pair<void*, size_t>> quarantine;  // blocks handed back in this segment: really freed at the next Begin, so
                                                     // that no address is recycled inside a segment (block id == allocation)
  int next_blk = 0;
  long next_serial = 0;
  long step_no = 0;      // read-event stutter removal: one Use per item and call
  long foreign_tmp = 0;  // nothrow ::operator new calls during a library call (std::get_temporary_buffer)
  long foreign = 0;      // ::operator new calls made during a library call that did not come from track_alloc
  int quiet = 1;         // > 0: not inside a library call / inside the runtime itself
  void clear_env() { A.clear(); F.clear(); ic.clear(); idt.clear(); iu.clear(); im.clear(); ov.clear(); }
  void begin_segment() {
    clear_env(); blk_id.clear(); next_blk = 0; next_serial = 0; foreign = 0;
    for (auto& q : quarantine) { LIFE_UNPOISON(q.first, q.second); ::operator delete(q.first); }
    quarantine.clear();
    // blocks leaked by a previous segment stay in blk_real: they are really still allocated
  }
};
static Runtime rt;
struct Quiet { Quiet() { ++rt.quiet; } ~Quiet() { --rt.quiet; } };

static inline void* raw_alloc(size_t bytes, int alloc_id) {
  Quiet q;
  void* p = ::operator new(bytes ? bytes : 1);
  rt.blk_real[p] = bytes ? bytes : 1;
  int id = rt.blk_id[p] = ++rt.next_blk;
  rt.A.push_back({id, (long)bytes, alloc_id});
  return p;
}
static inline void raw_dealloc(void* p, size_t bytes, int alloc_id) {
  Quiet q;
  auto idp = rt.blk_id.find(p);
  rt.F.push_back({idp == rt.blk_id.end() ? 0 : idp->second, (long)bytes, alloc_id});
  auto it = rt.blk_real.find(p);
  if (it != rt.blk_real.end()) {     // a pointer that is not currently allocated is logged but never passed on
    LIFE_POISON(p, it->second);
    rt.quarantine.push_back({p, it->second});
    rt.blk_real.erase(it);
  }
}

template<class T> class track_alloc {
public:
  using value_type = T;
  using pointer = T*;
  using const_pointer = const T*;
  using reference = T&;
  using const_reference = const T&;
  using size_type = std::size_t;
  using difference_type = std::ptrdiff_t;
  using propagate_on_container_copy_assignment = std::true_type;
  using propagate_on_container_move_assignment = std::true_type;
  using propagate_on_container_swap = std::true_type;
  using is_always_equal = std::false_type;
  template<class U> struct rebind { using other = track_alloc<U>; };

  track_alloc() : id_(-1) { throw std::runtime_error("track_alloc: default construction (the supplied allocator instance was not used)"); }
  explicit track_alloc(int id) : id_(id) {}
  track_alloc(const track_alloc& o) noexcept : id_(o.id_) {}
  template<class U> track_alloc(const track_alloc<U>& o) noexcept : id_(o.id()) {}
  track_alloc& operator=(const track_alloc& o) noexcept { id_ = o.id_; return *this; }
  int id() const { return id_; }

  T* allocate(size_type n, const void* = nullptr) { return static_cast<T*>(raw_alloc(n * sizeof(T), id_)); }
  void deallocate(T* p, size_type n) { raw_dealloc(p, n * sizeof(T), id_); }
  size_type max_size() const { return static_cast<size_type>(-1) / sizeof(T); }
  template<class U, class... Args> void construct(U* p, Args&&... args) { ::new (static_cast<void*>(p)) U(std::forward<Args>(args)...); }
  template<class U> void destroy(U* p) { p->~U(); }
private:
  int id_;
};
template<> class track_alloc<void> {
public:
  using value_type = void;
  template<class U> struct rebind { using other = track_alloc<U>; };
  explicit track_alloc(int id) : id_(id) {}
  template<class U> track_alloc(const track_alloc<U>& o) noexcept : id_(o.id()) {}
  int id() const { return id_; }
private:
  int id_;
};
template<class T, class U> inline bool operator==(const track_alloc<T>& a, const track_alloc<U>& b) { return a.id() == b.id(); }
template<class T, class U> inline bool operator!=(const track_alloc<T>& a, const track_alloc<U>& b) { return a.id() != b.id(); }

} // namespace life
