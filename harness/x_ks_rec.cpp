// X01 driver: Kolmogorov-Smirnov helper (common/include/kolmogorov_smirnov.hpp) on pairs of real KLL / classic quantiles
// sketches.  Only observations are logged: the two sorted views (item keys + inclusive cumulative weights as the view
// iterator reports them), n, num_retained, delta (as the integer round(delta * n1 * n2): the statistic is a rational with
// that denominator), threshold / test for a grid of p.  The expected statistic is computed by TLC (spec/XKs.tla).
#include <functional>
#include <string>
#include <kll_sketch.hpp>
#include <quantiles_sketch.hpp>
#include <kolmogorov_smirnov.hpp>
#include "vtrace.hpp"

using namespace datasketches;
using vt::Ev;

static const double PS[] = {0.001, 0.01, 0.05, 0.1, 0.5};
static const int PS_E4[] = {10, 100, 500, 1000, 5000};   // p in units of 1e-4 (labels for the specification's table)

template<class T> struct Conv;
template<> struct Conv<double> { static double mk(long k) { return (double)k * 0.5; } };
template<> struct Conv<float> { static float mk(long k) { return (float)k; } };
template<> struct Conv<long long> { static long long mk(long k) { return (long long)k * 1000003LL - 7; } };
template<> struct Conv<int> { static int mk(long k) { return (int)k - 5000; } };
template<> struct Conv<std::string> { static std::string mk(long k) { char b[16]; snprintf(b, sizeof b, "%08ld", k); return b; } };

// keys are drawn by a profile; `sign` = -1 for a descending comparator (the logged key is negated so that the view is
// ascending in the logged order whatever the comparator)
struct Profile { int kind; long lo1, hi1, lo2, hi2; };

template<class S, class T> static void fill(S& s, vt::Rng& g, long n, long lo, long hi, std::vector<long>* same) {
  for (long j = 0; j < n; j++) {
    long key = same && j < (long)same->size() ? (*same)[j] : g.range(lo, hi);
    if (same && j >= (long)same->size()) same->push_back(key);
    s.update(Conv<T>::mk(key));
  }
}

template<class S> static void log_view(Ev& ev, const S& s, const char* itk, const char* cwk, std::function<long(const typename S::value_type&)> key) {
  std::vector<long> it; std::vector<unsigned long long> cw;
  if (!s.is_empty()) {
    auto view = s.get_sorted_view();
    for (auto i = view.begin(); i != view.end(); ++i) { it.push_back(key((*i).first)); cw.push_back(i.get_cumulative_weight(true)); }
  }
  ev.il(itk, it).il(cwk, cw);
}

static long long scaled(double x, double scale) {
  double v = x * scale;
  if (!(std::fabs(v) < 2.0e9)) return v > 0 ? 2000000000LL : -2000000000LL;
  return (long long)std::llround(v);
}

template<class S, class T> static void ks_event(const S& s1, const S& s2, int k1, int k2, int sign, std::function<long(const T&)> unkey) {
  const double n1 = (double)s1.get_n(), n2 = (double)s2.get_n();
  const double r1 = s1.get_num_retained(), r2 = s2.get_num_retained();
  Ev ev("KS");
  ev.i("k1", k1).i("k2", k2).i("n1", (long long)s1.get_n()).i("n2", (long long)s2.get_n()).i("r1", (long long)r1).i("r2", (long long)r2);
  auto key = [&](const T& x) { return sign * unkey(x); };
  log_view<S>(ev, s1, "it1", "cw1", key);
  log_view<S>(ev, s2, "it2", "cw2", key);
  const double d = kolmogorov_smirnov::delta(s1, s2), drev = kolmogorov_smirnov::delta(s2, s1);
  const double self1 = kolmogorov_smirnov::delta(s1, s1), self2 = kolmogorov_smirnov::delta(s2, s2);
  ev.b("finite", std::isfinite(d) && std::isfinite(drev) && std::isfinite(self1) && std::isfinite(self2));
  ev.i("dNum", scaled(d, n1 * n2)).i("dRevNum", scaled(drev, n1 * n2)).i("self1Num", scaled(self1, n1 * n1)).i("self2Num", scaled(self2, n2 * n2));
  ev.d("dD", d);
  const double eps1 = s1.get_normalized_rank_error(false), eps2 = s2.get_normalized_rank_error(false);
  std::vector<double> thr; std::vector<long long> tst, tstRev, c2r, c2n;
  for (double p : PS) {
    const double t = kolmogorov_smirnov::threshold(s1, s2, p);
    thr.push_back(t);
    tst.push_back(kolmogorov_smirnov::test(s1, s2, p) ? 1 : 0);
    tstRev.push_back(kolmogorov_smirnov::test(s2, s1, p) ? 1 : 0);
    // unit conversion of the observation: B = threshold - eps1 - eps2 is c(p) * sqrt((m1 + m2) / (m1 m2)); B^2 * h(m) = c(p)^2
    const double B = t - eps1 - eps2;
    c2r.push_back(scaled(B * B * (r1 * r2 / (r1 + r2)), 1e6));
    c2n.push_back(scaled(B * B * (n1 * n2 / (n1 + n2)), 1e6));
  }
  ev.il("p", std::vector<int>(PS_E4, PS_E4 + 5)).dl("thr", thr).il("test", tst).il("testRev", tstRev).il("c2r", c2r).il("c2n", c2n);
  ev.d("eps1", eps1).d("eps2", eps2).d("zero", 0.0);
  ev.emit();
}

template<class S> static void empty_event(const char* which, const S& s1, const S& s2) {
  std::vector<long long> tst; bool threw = false; std::string what;
  for (double p : PS) {
    try { tst.push_back(kolmogorov_smirnov::test(s1, s2, p) ? 1 : 0); }
    catch (const std::exception& ex) { threw = true; tst.push_back(-1); }
  }
  Ev("Empty").str("which", which).b("threw", threw).il("test", tst).i("n1", (long long)s1.get_n()).i("n2", (long long)s2.get_n()).emit();
}

template<class S, class T> static void segment(const char* fam, vt::Rng& g, int pairs, int kmin, int kmax, int sign, std::function<long(const T&)> unkey, long maxn, bool pow2 = false) {
  // classic quantiles sketches take k = power of 2: kmin / kmax are then exponents
  auto drawk = [&]() { int v = (int)g.range(kmin, kmax); return pow2 ? (1 << v) : v; };
  const int k0 = pow2 ? (1 << kmin) : kmin;
  Ev("Begin").str("fam", fam).emit();
  { // empty operands: "if the given sketches have insufficient data ... this will return false"
    S a((uint16_t)k0), b((uint16_t)k0), c((uint16_t)k0);
    c.update(Conv<T>::mk(3));
    empty_event("both", a, b); empty_event("first", a, c); empty_event("second", c, b);
  }
  for (int q = 0; q < pairs; q++) {
    // k: small values keep the views small and force compaction early
    int k1 = drawk(), k2 = g.chance(50) ? k1 : drawk();
    long n1, n2;
    switch (g.below(4)) {
      case 0: n1 = g.range(1, 12); n2 = g.range(1, 12); break;
      case 1: n1 = g.range(1, 400); n2 = g.range(1, 400); break;
      case 2: n1 = g.range(200, 4000); n2 = g.range(200, 4000); break;
      default: n1 = g.range(1000, maxn); n2 = g.range(1, std::max(1L, std::min(maxn, 2000000000L / n1))); if (g.chance(50)) std::swap(n1, n2); break;
    }
    S s1((uint16_t)k1), s2((uint16_t)k2);
    int prof = (int)g.below(7);
    std::vector<long> same;
    switch (prof) {
      case 0: // independent draws from one wide range (ties between the views are rare)
        fill<S, T>(s1, g, n1, 0, 16000000, nullptr); fill<S, T>(s2, g, n2, 0, 16000000, nullptr); break;
      case 1: // shifted ranges
        { long sh = g.range(0, 600000); fill<S, T>(s1, g, n1, 0, 1000000, nullptr); fill<S, T>(s2, g, n2, sh, 1000000 + sh, nullptr); } break;
      case 2: // separated supports
        if (g.chance(50)) { fill<S, T>(s1, g, n1, 0, 1000, nullptr); fill<S, T>(s2, g, n2, 2000, 3000, nullptr); }
        else { fill<S, T>(s1, g, n1, 5000, 9000, nullptr); fill<S, T>(s2, g, n2, 0, 4999, nullptr); }
        break;
      case 3: // the same stream offered to both (identical when k and n agree)
        n2 = g.chance(60) ? n1 : n2;
        fill<S, T>(s1, g, n1, 0, 16000000, &same); fill<S, T>(s2, g, n2, 0, 16000000, &same); break;
      case 4: // small alphabet: equal items in both views with different multiplicities / weights
        { long a = g.range(1, 12); fill<S, T>(s1, g, n1, 0, a, nullptr); fill<S, T>(s2, g, n2, 0, a + g.range(0, 2), nullptr); } break;
      case 5: // medium alphabet: some shared items
        { long a = g.range(50, 3000); fill<S, T>(s1, g, n1, 0, a, nullptr); fill<S, T>(s2, g, n2, a / 3, a + a / 3, nullptr); } break;
      default: // one sorted ramp against a constant
        for (long j = 0; j < n1; j++) s1.update(Conv<T>::mk(j)); { long c = g.range(0, n1); for (long j = 0; j < n2; j++) s2.update(Conv<T>::mk(c)); } break;
    }
    ks_event<S, T>(s1, s2, k1, k2, sign, unkey);
  }
}

int main(int argc, char** argv) {
  vt::install_terminate();
  uint64_t seed = (uint64_t)vt::argl(argc, argv, "--seed", 1);
  int pairs = (int)vt::argl(argc, argv, "--pairs", 40);
  long maxn = vt::argl(argc, argv, "--maxn", 40000);
  vt::open_out(vt::arg(argc, argv, "--out", "/dev/stdout"));
  vt::Rng g(seed);
  auto und = [](const double& x) { return (long)std::llround(x * 2.0); };
  auto unf = [](const float& x) { return (long)std::llround((double)x); };
  auto unll = [](const long long& x) { return (long)((x + 7) / 1000003LL); };
  auto uni = [](const int& x) { return (long)x + 5000; };
  auto uns = [](const std::string& x) { return atol(x.c_str()); };
  segment<kll_sketch<double>, double>("kll-double", g, pairs, 8, 40, 1, und, maxn);
  segment<kll_sketch<float>, float>("kll-float", g, pairs, 8, 200, 1, unf, maxn);
  segment<kll_sketch<long long>, long long>("kll-int64", g, pairs / 2, 8, 24, 1, unll, maxn);
  segment<kll_sketch<double, std::greater<double>>, double>("kll-double-desc", g, pairs / 2, 8, 32, -1, und, maxn);
  segment<kll_sketch<std::string>, std::string>("kll-string", g, pairs / 2, 8, 32, 1, uns, maxn / 4);
  segment<quantiles_sketch<double>, double>("quantiles-double", g, pairs, 1, 5, 1, und, maxn, true);
  segment<quantiles_sketch<int>, int>("quantiles-int", g, pairs / 2, 1, 4, 1, uni, maxn, true);
  segment<quantiles_sketch<std::string>, std::string>("quantiles-string", g, pairs / 2, 1, 4, 1, uns, maxn / 4, true);
  vt::close_out();
  fprintf(stderr, "x_ks_rec: %ld events\n", vt::g_events);
  return 0;
}
