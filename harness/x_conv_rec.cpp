// X03 driver: type-converting constructors of kll_sketch / req_sketch / quantiles_sketch (float -> double, int -> double,
// int -> long long, double -> float, arithmetic -> custom type).  A source sketch is built, converted, both are observed through
// the public API (n, k, mode, sorted view with weights, min / max, ranks of probe items, quantiles of probe ranks); then BOTH
// receive the same further input under the same dictated coin flips and are observed again.  Items are logged by their integer
// key (every conversion used here maps key -> key); only observations are logged, the comparison is made by spec/XConv.tla.
#include <algorithm>
#include <functional>
#include <string>
#include <kll_sketch.hpp>
#include <req_sketch.hpp>
#include <quantiles_sketch.hpp>
#include "vtrace.hpp"

using namespace datasketches;
using vt::Ev;

// a custom item type constructible from an arithmetic source type, ordered by its own comparator
struct Boxed {
  std::string text;   // zero-padded decimal of the key: lexicographic order = numeric order
  Boxed() {}
  explicit Boxed(int key) { char b[16]; snprintf(b, sizeof b, "%09d", key); text = b; }
  explicit Boxed(float key) { char b[16]; snprintf(b, sizeof b, "%09d", (int)key); text = b; }
};
struct BoxedLess { bool operator()(const Boxed& a, const Boxed& b) const { return a.text < b.text; } };

template<class T> struct Key;
template<> struct Key<float> { static float mk(long k) { return (float)k; } static long un(const float& x) { return (long)std::llround((double)x); } };
template<> struct Key<double> { static double mk(long k) { return (double)k; } static long un(const double& x) { return (long)std::llround(x); } };
template<> struct Key<int> { static int mk(long k) { return (int)k; } static long un(const int& x) { return x; } };
template<> struct Key<long long> { static long long mk(long k) { return k; } static long un(const long long& x) { return (long)x; } };
template<> struct Key<Boxed> { static Boxed mk(long k) { return Boxed((int)k); } static long un(const Boxed& x) { return atol(x.text.c_str()); } };

static uint32_t coin_from_rng(void* c) { return (uint32_t)(static_cast<vt::Rng*>(c)->next() >> 33) & 1u; }
static void dictate(vt::Rng* r) { random_utils::random_bit.source = &coin_from_rng; random_utils::random_bit.context = r; }

// normalized rank error where the family publishes one (depends on kll's min_k, which only a merge lowers)
template<class T, class C, class A> static double eps_of(const kll_sketch<T, C, A>& s) { return s.get_normalized_rank_error(false); }
template<class T, class C, class A> static double eps_of(const quantiles_sketch<T, C, A>& s) { return s.get_normalized_rank_error(false); }
template<class T, class C, class A> static double eps_of(const req_sketch<T, C, A>& s) { return s.is_empty() ? 0.0 : s.get_rank_upper_bound(0.5, 2); }

template<class S> static std::string observe(const S& s, const std::vector<long>& probes, const std::vector<double>& qranks) {
  using T = typename S::value_type;
  Ev ev("x");   // used only as a JSON builder for the nested record
  ev.s = "{\"n\":" + std::to_string(s.get_n());
  ev.i("k", s.get_k()).i("r", s.get_num_retained()).b("est", s.is_estimation_mode()).b("empty", s.is_empty());
  std::vector<std::pair<long, unsigned long long>> ent;
  if (!s.is_empty()) {
    auto view = s.get_sorted_view();
    for (auto it = view.begin(); it != view.end(); ++it) ent.push_back({Key<T>::un((*it).first), it.get_weight()});
  }
  // canonical order of equal items: by weight (the view orders by item only)
  std::sort(ent.begin(), ent.end());
  std::vector<long> it; std::vector<unsigned long long> cw; unsigned long long c = 0;
  for (auto& e : ent) { it.push_back(e.first); c += e.second; cw.push_back(c); }
  ev.il("it", it).il("cw", cw);
  if (s.is_empty()) ev.i("min", 0).i("max", 0);
  else ev.i("min", Key<T>::un(s.get_min_item())).i("max", Key<T>::un(s.get_max_item()));
  std::vector<long long> ri, rx, q, qx;
  if (!s.is_empty()) {
    const double n = (double)s.get_n();
    for (long p : probes) { ri.push_back(std::llround(s.get_rank(Key<T>::mk(p), true) * n)); rx.push_back(std::llround(s.get_rank(Key<T>::mk(p), false) * n)); }
    for (double r : qranks) { q.push_back(Key<T>::un(s.get_quantile(r, true))); qx.push_back(Key<T>::un(s.get_quantile(r, false))); }
  }
  ev.d("eps", eps_of(s));
  ev.il("rankIncl", ri).il("rankExcl", rx).il("quantIncl", q).il("quantExcl", qx);
  return ev.s + "}";
}

template<class S1, class S2> static void one(const char* fam, const char* conv, vt::Rng& g, std::function<S1(vt::Rng&)> make, long maxkey) {
  using T1 = typename S1::value_type;
  using T2 = typename S2::value_type;
  Ev("Begin").str("fam", fam).str("conv", conv).emit();
  const uint64_t coin_seed = g.next();
  vt::Rng coin(coin_seed); dictate(&coin);
  S1 src = make(g);
  // stream: sizes around the boundaries exact mode / first compaction / several levels
  long n;
  switch (g.below(6)) { case 0: n = 0; break; case 1: n = 1; break; case 2: n = g.range(2, 12); break; case 3: n = g.range(13, 300); break;
                        case 4: n = g.range(300, 3000); break; default: n = g.range(3000, 30000); break; }
  const int prof = (int)g.below(4);
  std::vector<long> keys;
  for (long j = 0; j < n; j++) {
    long key = prof == 0 ? g.range(0, maxkey) : prof == 1 ? j % (maxkey + 1) : prof == 2 ? (maxkey - (j % (maxkey + 1))) : g.range(0, std::min(maxkey, 40L));
    keys.push_back(key); src.update(Key<T1>::mk(key));
  }
  // sometimes the source is itself the result of a merge with a sketch of another k (kll: min_k, quantiles: down-sampling)
  if (g.chance(30)) {
    S1 other = make(g);
    const long n2 = g.range(1, 3000);
    for (long j = 0; j < n2; j++) { long key = g.range(0, maxkey); keys.push_back(key); other.update(Key<T1>::mk(key)); }
    src.merge(other); n = (long)keys.size();
  }
  // sometimes query before converting: the cached sorted view and the "level zero sorted" state are part of the source
  if (g.chance(50) && !src.is_empty()) (void)src.get_rank(Key<T1>::mk(keys[0]));
  std::vector<long> probes; std::vector<double> qranks = {0.0, 0.01, 0.1, 0.25, 0.5, 0.75, 0.9, 0.99, 1.0};
  for (int j = 0; j < 12; j++) probes.push_back(n > 0 && g.chance(70) ? keys[g.below((uint64_t)n)] : g.range(0, maxkey));
  std::sort(probes.begin(), probes.end());
  for (int j = 0; j < 4; j++) qranks.push_back(g.unit());

  bool threw = false; std::string what;
  try {
    S2 dst(src);
    Ev("Conv").str("phase", "converted").il("probes", probes).raw("src", observe(src, probes, qranks)).raw("dst", observe(dst, probes, qranks)).emit();
    // the same further input under the same coin flips on both
    const long m = g.chance(30) ? 0 : g.range(1, 4000);
    std::vector<long> more; for (long j = 0; j < m; j++) more.push_back(g.range(0, maxkey));
    const uint64_t cs = g.next();
    { vt::Rng c1(cs); dictate(&c1); for (long key : more) src.update(Key<T1>::mk(key)); }
    { vt::Rng c2(cs); dictate(&c2); for (long key : more) dst.update(Key<T2>::mk(key)); }
    dictate(&coin);
    Ev("Conv").str("phase", "continued").il("probes", probes).raw("src", observe(src, probes, qranks)).raw("dst", observe(dst, probes, qranks)).emit();
    // and a merge of the converted sketch into a fresh one of the target type (exercises the copied level structure)
    { S2 fresh(dst); vt::Rng c3(cs + 1); dictate(&c3); fresh.merge(dst); dictate(&coin);
      Ev("Merged").i("n", (long long)fresh.get_n()).i("n2", (long long)(2 * dst.get_n())).emit(); }
  } catch (const std::exception& ex) { threw = true; what = ex.what(); }
  Ev("End").b("threw", threw).str("what", what).emit();
}

int main(int argc, char** argv) {
  vt::install_terminate();
  uint64_t seed = (uint64_t)vt::argl(argc, argv, "--seed", 1);
  int rounds = (int)vt::argl(argc, argv, "--rounds", 6);
  vt::open_out(vt::arg(argc, argv, "--out", "/dev/stdout"));
  vt::Rng g(seed);
  auto kllk = [](vt::Rng& r) { return (uint16_t)(r.chance(50) ? r.range(8, 24) : r.range(25, 250)); };
  auto reqk = [](vt::Rng& r) { return (uint16_t)(2 * r.range(2, 12)); };
  auto qk = [](vt::Rng& r) { return (uint16_t)(1u << r.range(1, 6)); };
  const long MK = 9000000;   // keys below 2^24: exact in float
  for (int q = 0; q < rounds; q++) {
    one<kll_sketch<float>, kll_sketch<double>>("kll", "float->double", g, [&](vt::Rng& r) { return kll_sketch<float>(kllk(r)); }, MK);
    one<kll_sketch<int>, kll_sketch<double>>("kll", "int->double", g, [&](vt::Rng& r) { return kll_sketch<int>(kllk(r)); }, MK);
    one<kll_sketch<int>, kll_sketch<long long>>("kll", "int->int64", g, [&](vt::Rng& r) { return kll_sketch<int>(kllk(r)); }, MK);
    one<kll_sketch<double>, kll_sketch<float>>("kll", "double->float", g, [&](vt::Rng& r) { return kll_sketch<double>(kllk(r)); }, MK);
    one<kll_sketch<int>, kll_sketch<Boxed, BoxedLess>>("kll", "int->custom", g, [&](vt::Rng& r) { return kll_sketch<int>(kllk(r)); }, MK);
    for (int hra = 0; hra < 2; hra++) {
      one<req_sketch<float>, req_sketch<double>>("req", hra ? "float->double/hra" : "float->double/lra", g, [&](vt::Rng& r) { return req_sketch<float>(reqk(r), hra != 0); }, MK);
      one<req_sketch<int>, req_sketch<double>>("req", hra ? "int->double/hra" : "int->double/lra", g, [&](vt::Rng& r) { return req_sketch<int>(reqk(r), hra != 0); }, MK);
      one<req_sketch<float>, req_sketch<Boxed, BoxedLess>>("req", hra ? "float->custom/hra" : "float->custom/lra", g, [&](vt::Rng& r) { return req_sketch<float>(reqk(r), hra != 0); }, MK);
    }
    one<quantiles_sketch<float>, quantiles_sketch<double>>("quantiles", "float->double", g, [&](vt::Rng& r) { return quantiles_sketch<float>(qk(r)); }, MK);
    one<quantiles_sketch<int>, quantiles_sketch<double>>("quantiles", "int->double", g, [&](vt::Rng& r) { return quantiles_sketch<int>(qk(r)); }, MK);
    one<quantiles_sketch<double>, quantiles_sketch<float>>("quantiles", "double->float", g, [&](vt::Rng& r) { return quantiles_sketch<double>(qk(r)); }, MK);
    one<quantiles_sketch<int>, quantiles_sketch<Boxed, BoxedLess>>("quantiles", "int->custom", g, [&](vt::Rng& r) { return quantiles_sketch<int>(qk(r)); }, MK);
  }
  vt::close_out();
  fprintf(stderr, "x_conv_rec: %ld events\n", vt::g_events);
  return 0;
}
