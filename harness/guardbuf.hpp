// Instrumentation used purely as an EVENT SOURCE for C11 (DESIGN 6/C11): which outcomes are allowed is decided by
// spec/Reader.tla, not here.
//   * GuardBuf      - the supplied bytes are placed flush against a PROT_NONE region, so the first read (or write)
//                     past the supplied length faults; the fault address tells how far past the end it was
//   * tracking heap - replacement of the global operator new/delete: live block / byte counts (Leak), a cap on the
//                     size of a single request and of the live total (HugeAlloc), a canary after every block and a
//                     magic word before it (writes past an internal heap buffer, e.g. the 8-slot HLL coupon list), and
//                     the size of every block compared with the size handed to the sized operator delete (SizeMismatch)
//   * MemBuf        - an istream buffer over exactly the supplied bytes ("a stream that ends there")
// Under AddressSanitizer (-fsanitize=address) the canaries are switched off so that ASan's own red zones see the
// first byte past a block; over-READS of internal heap buffers are only visible in that build.
#pragma once
#include <cstdint>
#include <cstdio>
#include <cstdlib>
#include <cstring>
#include <new>
#include <streambuf>
#include <sys/mman.h>
#include <unistd.h>

#if defined(__SANITIZE_ADDRESS__)
#define GB_ASAN 1
#else
#define GB_ASAN 0
#endif

namespace gb {

// ------------------------------------------------------------------------------------------------------------
// guard-page buffer
// ------------------------------------------------------------------------------------------------------------
struct GuardBuf {
  uint8_t* base = nullptr;      // start of the mapping (one PROT_NONE page first)
  uint8_t* data = nullptr;      // start of the read/write area
  uint8_t* guard = nullptr;     // first byte of the trailing PROT_NONE region == one past the end of every placed buffer
  size_t data_bytes = 0, guard_bytes = 0, total = 0;

  void init(size_t max_len, size_t guard_len) {
    const size_t pg = (size_t)sysconf(_SC_PAGESIZE);
    data_bytes = ((max_len + pg - 1) / pg + 1) * pg;
    guard_bytes = ((guard_len + pg - 1) / pg) * pg;
    total = pg + data_bytes + guard_bytes;
    void* m = mmap(nullptr, total, PROT_NONE, MAP_PRIVATE | MAP_ANONYMOUS | MAP_NORESERVE, -1, 0);
    if (m == MAP_FAILED) { perror("mmap guard buffer"); _exit(3); }
    base = static_cast<uint8_t*>(m);
    data = base + pg;
    guard = data + data_bytes;
    if (mprotect(data, data_bytes, PROT_READ | PROT_WRITE) != 0) { perror("mprotect"); _exit(3); }
    memset(data, 0xCC, data_bytes);
  }
  // copy n bytes so that they END exactly at the guard region
  uint8_t* place(const uint8_t* src, size_t n) {
    uint8_t* p = guard - n;
    if (n) memcpy(p, src, n);
    return p;
  }
  bool in_guard(const void* a) const {
    const uint8_t* q = static_cast<const uint8_t*>(a);
    return (q >= guard && q < guard + guard_bytes) || (q >= base && q < data);
  }
  long offset_past_end(const void* a) const { return static_cast<const uint8_t*>(a) - guard; }
};

// ------------------------------------------------------------------------------------------------------------
// istream over exactly [p, p+n)
// ------------------------------------------------------------------------------------------------------------
struct MemBuf : std::streambuf {
  MemBuf(const uint8_t* p, size_t n) {
    char* b = reinterpret_cast<char*>(const_cast<uint8_t*>(p));
    setg(b, b, b + n);
  }
  pos_type seekoff(off_type off, std::ios_base::seekdir dir, std::ios_base::openmode) override {
    char* t = dir == std::ios_base::beg ? eback() + off : dir == std::ios_base::cur ? gptr() + off : egptr() + off;
    if (t < eback() || t > egptr()) return pos_type(off_type(-1));
    setg(eback(), t, egptr());
    return pos_type(t - eback());
  }
  pos_type seekpos(pos_type pos, std::ios_base::openmode m) override { return seekoff(off_type(pos), std::ios_base::beg, m); }
};

// ------------------------------------------------------------------------------------------------------------
// tracking heap
// ------------------------------------------------------------------------------------------------------------
struct Hdr { uint64_t size; uint64_t magic; Hdr* prev; Hdr* next; };   // 32 bytes: keeps 16-byte alignment
static const uint64_t MAGIC = 0x5ca1ab1e0ddba11ULL;
static const size_t TRAILER = GB_ASAN ? 0 : 16;
static const uint8_t CANARY = 0xA7;

static long g_blocks = 0;            // live blocks
static long long g_bytes = 0;        // live bytes
static long long g_base_bytes = 0;   // live bytes when the current attempt started (the cap applies to what the attempt adds)
static size_t g_cap = (size_t)1 << 62;   // cap on a single request and on the live total
static volatile int g_huge = 0;      // a request hit the cap
static volatile size_t g_huge_req = 0;
static volatile int g_smashed = 0;   // a canary / header was found overwritten
static Hdr g_head = {0, 0, &g_head, &g_head};

static inline bool canary_ok(const Hdr* h) {
  const uint8_t* t = reinterpret_cast<const uint8_t*>(h + 1) + h->size;
  for (size_t i = 0; i < TRAILER; i++) if (t[i] != CANARY) return false;
  return true;
}
// walk all live blocks (bounded) and check magic + canary
static inline bool heap_intact() {
  long n = 0;
  for (Hdr* h = g_head.next; h != &g_head; h = h->next) {
    if (h->magic != MAGIC || !canary_ok(h)) return false;
    if (++n > g_blocks + 8) return false;
  }
  return true;
}

static inline void* t_alloc(size_t n, bool nothrow) {
  if (n > g_cap || (long long)n + (g_bytes - g_base_bytes) > (long long)g_cap) {
    g_huge = 1; g_huge_req = n;
    if (nothrow) return nullptr;
    throw std::bad_alloc();
  }
  Hdr* h = static_cast<Hdr*>(malloc(sizeof(Hdr) + n + TRAILER));
  if (!h) { if (nothrow) return nullptr; throw std::bad_alloc(); }
  h->size = n; h->magic = MAGIC;
  h->next = g_head.next; h->prev = &g_head; g_head.next->prev = h; g_head.next = h;
  memset(reinterpret_cast<uint8_t*>(h + 1) + n, CANARY, TRAILER);
  // fresh memory has a fixed content, so a read of uninitialised heap gives the same value in every run
  if (n <= ((size_t)1 << 20)) memset(h + 1, 0xCD, n);
  g_blocks++; g_bytes += (long long)n;
  return h + 1;
}
// a SIZED deallocation (operator delete(void*, size_t): what std::allocator<T>::deallocate(p, n) calls with n * sizeof(T))
// whose size differs from the size the block was allocated with is undefined behaviour; glibc's free() does not notice
static volatile int g_mismatch = 0;
static volatile size_t g_mismatch_alloc = 0, g_mismatch_dealloc = 0;
static const size_t NO_SIZE = ~(size_t)0;
static inline void t_free(void* p, size_t sized = NO_SIZE) {
  if (!p) return;
  Hdr* h = static_cast<Hdr*>(p) - 1;
  if (sized != NO_SIZE && h->magic == MAGIC && h->size != sized && !g_mismatch) {
    g_mismatch = 1; g_mismatch_alloc = h->size; g_mismatch_dealloc = sized;
  }
  if (h->magic != MAGIC || !canary_ok(h)) { g_smashed = 1; return; }   // do not hand a corrupted block back to malloc
  h->magic = 0;
  if (h->size <= ((size_t)1 << 20)) memset(h + 1, 0xDD, h->size);
  h->prev->next = h->next; h->next->prev = h->prev;
  g_blocks--; g_bytes -= (long long)h->size;
  free(h);
}

} // namespace gb

void* operator new(size_t n) { return gb::t_alloc(n, false); }
void* operator new[](size_t n) { return gb::t_alloc(n, false); }
void* operator new(size_t n, const std::nothrow_t&) noexcept { return gb::t_alloc(n, true); }
void* operator new[](size_t n, const std::nothrow_t&) noexcept { return gb::t_alloc(n, true); }
void operator delete(void* p) noexcept { gb::t_free(p); }
void operator delete[](void* p) noexcept { gb::t_free(p); }
void operator delete(void* p, size_t n) noexcept { gb::t_free(p, n); }
void operator delete[](void* p, size_t n) noexcept { gb::t_free(p, n); }
void operator delete(void* p, const std::nothrow_t&) noexcept { gb::t_free(p); }
void operator delete[](void* p, const std::nothrow_t&) noexcept { gb::t_free(p); }
