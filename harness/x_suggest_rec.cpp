// X05 driver: sizing helpers of count_min_sketch (suggest_num_buckets / suggest_num_hashes) and of the Bloom filter builder
// (suggest_num_hashes, suggest_num_filter_bits, create_by_accuracy vs create_by_size).  Arguments are exact rationals
// (eps = q / p, 1 - confidence = num / den, fpp = 1 / den); only the arguments and the returned numbers are logged, the documented
// formulas are evaluated by TLC in integer arithmetic (spec/XSuggest.tla).
#include <algorithm>
#include <limits>
#include <sstream>
#include <count_min.hpp>
#include <bloom_filter.hpp>
#include "vtrace.hpp"

using namespace datasketches;
using vt::Ev;
using cm = count_min_sketch<uint64_t>;
using bb = bloom_filter::builder;
static const double NaN = std::numeric_limits<double>::quiet_NaN();

template<class F> static std::string guarded(F f) {
  try { f(); return "ok"; } catch (const std::invalid_argument&) { return "invalid_argument"; } catch (const std::exception&) { return "other"; }
}
static long long small(uint64_t v) { return v < (1ULL << 31) ? (long long)v : -1; }

static void countmin(vt::Rng& g, int extra, const std::string& part) {
  if (part == "all" || part == "cm-buckets") { // suggest_num_buckets
    Ev("Begin").str("mode", "cm-buckets").emit();   // over decreasing eps = q / p
    struct E { double eps; long p, q; };
    std::vector<E> es;
    std::vector<long> ps; for (long p = 1; p <= 40; p++) ps.push_back(p);
    for (long p : {64L, 100L, 127L, 128L, 500L, 790L, 791L, 1000L, 2000L, 4096L, 10000L, 65536L, 100000L, 790000L}) ps.push_back(p);
    for (int j = 0; j < extra; j++) ps.push_back(g.range(41, 700000));
    for (long p : ps) for (long q : {1L, 2L, 3L, 7L}) es.push_back({(double)q / (double)p, p, q});
    for (double t : {1e-7, 1e-8, 1e-9, 6.4e-10, 6.3e-10, 1e-10, 1e-12, 1e-300, 0.0}) es.push_back({t, -1, -1});
    std::stable_sort(es.begin(), es.end(), [](const E& a, const E& b) { return a.eps > b.eps; });
    bool first = true;
    for (const E& e : es) {
      uint32_t w = 0; std::string out = guarded([&] { w = cm::suggest_num_buckets(e.eps); });
      Ev ev("CmBuckets");
      ev.b("first", first).i("p", e.p).i("q", e.q).d("eps", e.eps).str("out", out).i("w", out == "ok" ? small(w) : -1).h("wH", w);
      // purpose: a sketch with that many buckets has relative error e / w <= eps
      double rel = 0; bool has = false;
      if (out == "ok" && w >= 3 && w <= 2000000) { cm s(1, w); rel = s.get_relative_error(); has = true; }
      ev.b("hasRel", has).d("rel", rel).emit();
      first = false;
    }
  }
  if (part == "all" || part == "cm-hashes") { // suggest_num_hashes over increasing confidence = 1 - num / den
    Ev("Begin").str("mode", "cm-hashes").emit();
    struct H { double conf; long num, den; };
    std::vector<H> hs;
    std::vector<long> dens; for (long d = 1; d <= 25; d++) dens.push_back(d);
    for (long d : {54L, 55L, 148L, 149L, 403L, 404L, 1096L, 1097L, 2980L, 2981L, 8103L, 8104L, 22026L, 22027L, 59874L, 59875L, 162754L, 162755L,
                   442413L, 442414L, 1000000L, 1202604L, 1202605L, 2000000L}) dens.push_back(d);
    for (int j = 0; j < extra; j++) dens.push_back(g.range(26, 2000000));
    for (long d : dens) hs.push_back({1.0 - 1.0 / (double)d, 1, d});
    for (long num : {1L, 5L, 10L, 50L, 100L, 367L, 368L, 500L, 900L, 999L, 1000L}) hs.push_back({1.0 - (double)num / 1000.0, num, 1000});
    for (double c : {1.0 - 1e-9, 1.0 - 1e-12, 1.0 - 1e-16, 1.0}) hs.push_back({c, -1, -1});
    std::stable_sort(hs.begin(), hs.end(), [](const H& a, const H& b) { return a.conf < b.conf; });
    bool first = true;
    for (const H& h : hs) {
      uint8_t d = 0; std::string out = guarded([&] { d = cm::suggest_num_hashes(h.conf); });
      Ev("CmHashes").b("first", first).i("num", h.num).i("den", h.den).d("conf", h.conf).b("confOne", h.conf == 1.0).str("out", out).i("d", d).emit();
      first = false;
    }
  }
  // invalid arguments
  if (!(part == "all" || part == "cm-refuse")) return;
  Ev("Begin").str("mode", "cm-refuse").emit();
  for (double e : {-1.0, -1e-300, -std::numeric_limits<double>::infinity(), NaN}) { uint32_t w = 0; Ev("Refuse").str("fn", "cm.suggest_num_buckets").d("x", e).str("out", guarded([&] { w = cm::suggest_num_buckets(e); })).emit(); }
  for (double c : {-0.1, -1e-300, 1.0000001, 2.0, std::numeric_limits<double>::infinity(), NaN}) { uint8_t d = 0; Ev("Refuse").str("fn", "cm.suggest_num_hashes").d("x", c).str("out", guarded([&] { d = cm::suggest_num_hashes(c); })).emit(); }
}

static const long FPP_DENS[] = {2, 3, 4, 5, 8, 10, 16, 20, 50, 100, 128, 1000, 1024, 10000, 65536, 100000, 1000000, 10000000, 100000000, 1000000000};

static void bloom(vt::Rng& g, int extra) {
  Ev("Begin").str("mode", "bloom").emit();
  { // suggest_num_hashes(n, m) = ceil(m / n ln 2)
    std::vector<long> ns = {1, 2, 3, 7, 10, 100, 1000, 12345, 1000000}, ms = {1, 2, 3, 8, 10, 64, 100, 1000, 1442, 1443, 9586, 100000, 1000000, 40000000};
    for (int j = 0; j < extra; j++) { ns.push_back(g.range(1, 100000)); ms.push_back(g.range(1, 10000000)); }
    for (long n : ns) for (long m : ms) {
      if ((double)m / (double)n * 0.6931471805599453 > 60000.0) continue;      // beyond the 16-bit result type ("will provide a result": unspecified which)
      uint16_t k = 0; std::string out = guarded([&] { k = bb::suggest_num_hashes((uint64_t)n, (uint64_t)m); });
      Ev("BloomNM").i("n", n).i("m", m).str("out", out).i("k", k).emit();
    }
  }
  { // suggest_num_hashes(fpp = 1 / den) = ceil(log2 den): every power of two and its neighbours, and the decimal probabilities
    std::vector<long> dens;
    for (int j = 0; j <= 30; j++) { long p = 1L << j; dens.push_back(p); if (j < 30) dens.push_back(p + 1); if (p > 2) dens.push_back(p - 1); }   // den <= 2^30: the specification works in 32-bit integers
    for (long d : FPP_DENS) dens.push_back(d);
    for (int j = 0; j < extra; j++) dens.push_back(g.range(2, 1L << 30));
    std::sort(dens.begin(), dens.end()); dens.erase(std::unique(dens.begin(), dens.end()), dens.end());
    for (long den : dens) {
      uint16_t k = 0; std::string out = guarded([&] { k = bb::suggest_num_hashes(1.0 / (double)den); });
      Ev("BloomP").i("den", den).str("out", out).i("k", k).emit();
    }
  }
  { // suggest_num_filter_bits(n, 1 / den) = ceil(n ln(den) / (ln 2)^2)
    std::vector<long> ns = {1, 2, 3, 10, 40, 41, 100, 1000, 4000, 12345, 100000, 1000000, 40000000};
    for (int j = 0; j < extra; j++) ns.push_back(g.range(1, 1000000));
    for (long n : ns) for (long den : FPP_DENS) {
      uint64_t bits = 0; std::string out = guarded([&] { bits = bb::suggest_num_filter_bits((uint64_t)n, 1.0 / (double)den); });
      Ev("BloomBits").i("n", n).i("den", den).str("out", out).i("bits", out == "ok" ? small(bits) : -1).emit();
    }
  }
  { // create_by_accuracy(n, fpp) is create_by_size(suggested bits, suggested hashes): same shape, and the same image after the same updates
    std::vector<long> ns = {1, 5, 64, 100, 1000, 5000, 20000};
    for (long n : ns) for (long den : {2L, 10L, 100L, 1000L, 65536L, 1000000L}) {
      const double fpp = 1.0 / (double)den; const uint64_t seed = g.next();
      const uint64_t sb = bb::suggest_num_filter_bits((uint64_t)n, fpp); const uint16_t sh = bb::suggest_num_hashes(fpp);
      auto fa = bb::create_by_accuracy((uint64_t)n, fpp, seed);
      auto fs = bb::create_by_size(sb, sh, seed);
      const long items = std::min(n, 300L);
      for (long j = 0; j < items; j++) { fa.update((uint64_t)(j * 7919 + 13)); fs.update((uint64_t)(j * 7919 + 13)); }
      auto ia = fa.serialize(), is = fs.serialize();
      bool all_in = true; for (long j = 0; j < items; j++) all_in = all_in && fa.query((uint64_t)(j * 7919 + 13));
      Ev("BloomCreate").i("n", n).i("den", den).i("sugBits", small(sb)).i("sugHashes", sh)
        .i("capAcc", small(fa.get_capacity())).i("hashesAcc", fa.get_num_hashes()).i("capSize", small(fs.get_capacity())).i("hashesSize", fs.get_num_hashes())
        .bytes("imgAcc", ia.data(), ia.size()).bytes("imgSize", is.data(), is.size()).b("allIn", all_in).i("usedAcc", small(fa.get_bits_used())).i("usedSize", small(fs.get_bits_used())).emit();
    }
  }
  { // create_by_size(bits, hashes): the shape asked for
    for (long bits : {1L, 2L, 63L, 64L, 65L, 100L, 127L, 128L, 129L, 1000L, 4096L, 100000L}) for (long h : {1L, 2L, 7L, 30L}) {
      auto f = bb::create_by_size((uint64_t)bits, (uint16_t)h, 1);
      Ev("BloomSize").i("bits", bits).i("hashes", h).i("cap", small(f.get_capacity())).i("h", f.get_num_hashes()).b("empty", f.is_empty()).emit();
    }
  }
  // invalid arguments
  auto refuse = [](const char* fn, double x, std::string out) { Ev("Refuse").str("fn", fn).d("x", x).str("out", out).emit(); };
  { uint16_t k = 0; uint64_t b = 0;
    refuse("bloom.suggest_num_hashes(0,m)", 0, guarded([&] { k = bb::suggest_num_hashes((uint64_t)0, (uint64_t)100); }));
    refuse("bloom.suggest_num_hashes(n,0)", 0, guarded([&] { k = bb::suggest_num_hashes((uint64_t)10, (uint64_t)0); }));
    for (double p : {0.0, -0.5, 1.0000001, 2.0, NaN, -std::numeric_limits<double>::infinity()}) {
      refuse("bloom.suggest_num_hashes(fpp)", p, guarded([&] { k = bb::suggest_num_hashes(p); }));
      refuse("bloom.suggest_num_filter_bits(n,fpp)", p, guarded([&] { b = bb::suggest_num_filter_bits(100, p); }));
      refuse("bloom.create_by_accuracy(n,fpp)", p, guarded([&] { auto f = bb::create_by_accuracy(100, p, 1); }));
    }
    refuse("bloom.suggest_num_filter_bits(0,fpp)", 0.01, guarded([&] { b = bb::suggest_num_filter_bits(0, 0.01); }));
    refuse("bloom.create_by_accuracy(0,fpp)", 0.01, guarded([&] { auto f = bb::create_by_accuracy(0, 0.01, 1); }));
    refuse("bloom.create_by_size(0,h)", 0, guarded([&] { auto f = bb::create_by_size(0, 3, 1); }));
    refuse("bloom.create_by_size(b,0)", 0, guarded([&] { auto f = bb::create_by_size(100, 0, 1); }));
  }
}

int main(int argc, char** argv) {
  vt::install_terminate();
  uint64_t seed = (uint64_t)vt::argl(argc, argv, "--seed", 1);
  int extra = (int)vt::argl(argc, argv, "--extra", 10);
  vt::open_out(vt::arg(argc, argv, "--out", "/dev/stdout"));
  vt::Rng g(seed);
  const std::string part = vt::arg(argc, argv, "--part", "all");
  countmin(g, extra, part);
  if (part == "all" || part == "bloom") bloom(g, extra);
  vt::close_out();
  fprintf(stderr, "x_suggest_rec: %ld events\n", vt::g_events);
  return 0;
}
