// C11 event source: truncated / corrupted images fed to every deserialize / wrap entry point of every family.
//
// For every image of the catalogue (family x kind, built here with the real classes, small k so that images stay
// below ~600 bytes) the driver enumerates
//   mode "full"    : the whole image on every path (reference; its projection digest is what "Same" means)
//   mode "prefix"  : every prefix length n = 0 .. size-1 on every path (bytes / stream / wrap / wwrap)
//   mode "corrupt" : every preamble byte position p < preLen x replacement values
//                    {0,1,2,3,4,8,16,32,64,0x7f,0x80,200,254,0xff,v-1..v-4,v+1..v+3,v/2,2v} \ {v} (thorough: all 255 others)
// and logs ONE outcome event per attempt.  The bytes are placed flush against a PROT_NONE region (guardbuf.hpp);
// attempts run in a forked child (one child per image; a child that faults reports and exits, the parent forks a
// new one for the remaining attempts) with RLIMIT_AS, an allocation cap inside the tracking heap and a 10 s CPU
// timer.  Which outcomes are allowed is decided by spec/Reader.tla through spec/TraceReader.tla.
//
// outcome  Ok        full image accepted (reference digest recorded)
//          Throw     an exception derived from std::exception left deserialize/wrap (stage "deser") or the use of the
//                    returned object (stage "use"); heap balanced afterwards
//          Same      prefix accepted and projection digest == digest of the full image on the same path
//          Different prefix accepted with another digest
//          Usable    corrupted image accepted; scalar getters + serialize + destructor ran without fault
//          OOB       access outside the supplied bytes (guard fault; `off` = offset past the supplied length), or a
//                    write past an internal heap block (canary), or an AddressSanitizer report
//          Crash     any other fatal signal, std::terminate, or an exception not derived from std::exception
//          Hang      10 s of CPU time (or 120 s wall) in one attempt
//          HugeAlloc a single request, or the live total, above the cap (256 MiB)
//          SizeMismatch a heap block was handed to the sized operator delete (std::allocator::deallocate(p, n)) with a size
//                    other than the one it was allocated with - in ANY mode, accepted or rejected (undefined behaviour)
//          Leak      exception thrown and live heap blocks not back to the level before the attempt (repeated 3x to
//                    exclude one-time lazy initialisation)
#include "guardbuf.hpp"

#include <functional>
#include <sstream>
#include <string>
#include <vector>
#include <algorithm>
#include <csignal>
#include <sys/resource.h>
#include <sys/wait.h>
#include <sys/time.h>
#include <sys/personality.h>

#include <theta_sketch.hpp>
#include <theta_union.hpp>
#include <theta_intersection.hpp>
#include <theta_a_not_b.hpp>
#include <cpc_union.hpp>
#include <tuple_sketch.hpp>
#include <array_of_doubles_sketch.hpp>
#include <hll.hpp>
#include <cpc_sketch.hpp>
#include <kll_sketch.hpp>
#include <req_sketch.hpp>
#include <quantiles_sketch.hpp>
#include <frequent_items_sketch.hpp>
#include <count_min.hpp>
#include <bloom_filter.hpp>
#include <var_opt_sketch.hpp>
#include <var_opt_union.hpp>
#include <ebpps_sketch.hpp>
#include <tdigest.hpp>
#include <density_sketch.hpp>

#include "vtrace.hpp"

#if GB_ASAN
#include <sanitizer/asan_interface.h>
extern "C" const char* __asan_default_options() {
  return "abort_on_error=0:exitcode=41:handle_segv=0:handle_sigbus=0:handle_abort=0:handle_sigfpe=0:handle_sigill=0:"
         "detect_leaks=0:allocator_may_return_null=1:detect_stack_use_after_return=0:print_summary=0:"
         "symbolize=0:log_path=/dev/null:max_allocation_size_mb=4096";
}
#endif

using namespace datasketches;
using vt::Ev;
typedef std::vector<uint8_t> Bytes;

// ------------------------------------------------------------------------------------------------------------
// catalogue types
// ------------------------------------------------------------------------------------------------------------
enum Stage { ST_PREP = 0, ST_DESER = 1, ST_USE = 2, ST_DTOR = 3, ST_DONE = 4 };
static volatile int g_stage = ST_PREP;
static const char* STAGE[] = {"prep", "deser", "use", "dtor", "done"};

struct PathFn {
  std::string name;                                           // bytes | stream | wrap | wwrap
  std::function<std::string(uint8_t*, size_t)> fn;            // deserialize + use + destroy; returns projection digest
};
struct Image {
  std::string family, kind;
  Bytes bytes;
  size_t infoLen, preLen;
  std::vector<PathFn> paths;
  std::vector<uint32_t> flagPos;   // preamble bytes that hold flag / mode bits: every value 0..255 is tried in every tier
  bool capCorrupt = true;   // false: a preamble field of this family IS the capacity of a constructible object (see HugeAlloc rule)
};
static std::vector<Image> g_images;

// projection digest builder
struct Dig {
  std::string s;
  Dig& u(const char* k, unsigned long long v) { s += k; s += '='; s += std::to_string(v); s += ';'; return *this; }
  Dig& d(const char* k, double v) { char b[48]; snprintf(b, sizeof b, "%s=%a;", k, v); s += b; return *this; }
  Dig& str(const char* k, const std::string& v) { s += k; s += '='; s += std::to_string(v.size()); s += ':'; s += v; s += ';'; return *this; }
  template<class V> Dig& bytes(const char* k, const V& v) { s += k; s += '='; s += std::to_string(v.size()); s += ':'; s.append(reinterpret_cast<const char*>(v.data()), v.size()); s += ';'; return *this; }
};
static inline void dig_item(Dig& g, const char* k, const std::string& v) { g.str(k, v); }
template<class T> static inline void dig_item(Dig& g, const char* k, const T& v) { g.d(k, (double)v); }

static uint64_t fnv(const std::string& s) {
  uint64_t h = 1469598103934665603ULL;
  for (unsigned char c : s) { h ^= c; h *= 1099511628211ULL; }
  return h ? h : 1;
}

// generic path constructors -----------------------------------------------------------------------------------
template<class DB, class U> static PathFn path_bytes(const char* name, DB db, U use) {
  return PathFn{name, [db, use](uint8_t* p, size_t n) -> std::string {
    g_stage = ST_DESER;
    auto o = db(p, n);
    g_stage = ST_USE;
    std::string r = use(o);
    g_stage = ST_DTOR;
    return r;
  }};
}
template<class DS, class U> static PathFn path_stream(DS ds, U use) {
  return PathFn{"stream", [ds, use](uint8_t* p, size_t n) -> std::string {
    gb::MemBuf mb(p, n);
    std::istream is(&mb);
    g_stage = ST_DESER;
    auto o = ds(is);
    g_stage = ST_USE;
    std::string r = use(o);
    g_stage = ST_DTOR;
    return r;
  }};
}

static void add_image(const std::string& family, const std::string& kind, const Bytes& b, size_t preLen, size_t infoLen,
                      std::vector<PathFn> paths) {
  Image im;
  im.family = family; im.kind = kind; im.bytes = b;
  im.preLen = std::min(preLen, b.size());
  im.infoLen = infoLen;
  im.paths = std::move(paths);
  // HugeAlloc rule.  Requests above the cap are always REFUSED (std::bad_alloc, as on a machine with less memory).
  // They are REPORTED as HugeAlloc in prefix mode for every family (a prefix has the header of the valid image, whose
  // object needs a few KB), and in corrupt mode for every family except those where a preamble field is itself the
  // capacity of an object the public constructor would also allocate up front, so that every value is a valid
  // configuration: Bloom (bit-array length), count-min (buckets x hashes), EBPPS (k slots reserved by the constructor).
  im.capCorrupt = !(family == "bloom" || family == "countmin" || family == "ebpps");
  // position of the flags byte in each family's preamble (layout comments / serialize() of each family); hll: flags + mode byte
  if (family == "theta" || family == "tuple" || family == "cpc" || family == "fi" || family == "tdigest") im.flagPos = {5};
  else if (family == "aod") im.flagPos = {4};
  else if (family == "hll") im.flagPos = {5, 7};
  else im.flagPos = {3};   // kll, req, quantiles, countmin, bloom, varopt, varoptunion, ebpps, density
  g_images.push_back(std::move(im));
}
template<class V> static Bytes B(const V& v) { return Bytes(v.begin(), v.end()); }

// ------------------------------------------------------------------------------------------------------------
// families: builders of images and "use" functions (scalar getters + serialize; DESIGN 6/C11 "Usable")
// ------------------------------------------------------------------------------------------------------------
static vt::Rng* g_rng;
template<class T> static T qitem(int i);   // deterministic item generator (defined with the quantile families)
template<class S> struct item_of;            // first template argument of a sketch class = its item type
template<template<class...> class Sk, class T, class... R> struct item_of<Sk<T, R...>> { typedef T type; };

// ---- theta ----
// "a usable sketch" is really used (results discarded, nothing of it enters the projection digest, so random choices made
// here cannot turn a Same into a Different): iterate, update / merge / union with a copy, query, re-serialize.  A documented
// exception is fine (Throw, stage use); a fault is not.
template<class S> static void exercise_theta(const S& s) {
  auto u = theta_union::builder().set_lg_k(5).build();
  u.update(s); u.update(s);
  auto r = u.get_result();
  (void)r.get_estimate(); (void)r.serialize();
  theta_intersection x; x.update(s); x.update(r); (void)x.get_result().get_num_retained();
  theta_a_not_b anb; (void)anb.compute(s, r).get_num_retained();
  (void)s.to_string(true);
}
template<class S> static std::string use_theta(const S& s) {
  Dig g;
  g.u("empty", s.is_empty()).u("ordered", s.is_ordered()).u("theta", s.get_theta64()).u("n", s.get_num_retained())
   .u("sh", s.get_seed_hash()).d("est", s.get_estimate()).u("em", s.is_estimation_mode());
  unsigned long long acc = 0, cnt = 0;
  for (auto it = s.begin(); it != s.end(); ++it) { acc = acc * 1099511628211ULL + (unsigned long long)(*it); cnt++; }
  g.u("ent", acc).u("cnt", cnt);
  exercise_theta(s);
  return g.s;
}
static std::string use_theta_compact(const compact_theta_sketch& s) {
  Dig g; g.s = use_theta(s);
  g.bytes("ser", s.serialize());
  g.bytes("serc", s.serialize_compressed());
  return g.s;
}
static void add_theta(const std::string& kind, const Bytes& b, size_t preLen) {
  add_image("theta", kind, b, preLen, b.size(), {
    path_bytes("bytes", [](uint8_t* p, size_t n) { return compact_theta_sketch::deserialize(p, n); }, use_theta_compact),
    path_stream([](std::istream& is) { return compact_theta_sketch::deserialize(is); }, use_theta_compact),
    path_bytes("wrap", [](uint8_t* p, size_t n) { return wrapped_compact_theta_sketch::wrap(p, n); }, use_theta<wrapped_compact_theta_sketch>),
  });
}
static void put64(Bytes& b, uint64_t v) { for (int i = 0; i < 8; i++) b.push_back((uint8_t)(v >> (8 * i))); }
static void put32(Bytes& b, uint32_t v) { for (int i = 0; i < 4; i++) b.push_back((uint8_t)(v >> (8 * i))); }
static void put16(Bytes& b, uint16_t v) { for (int i = 0; i < 2; i++) b.push_back((uint8_t)(v >> (8 * i))); }

static void build_theta(bool thorough) {
  auto mk = [](int lgk, int n, float p = 1.0f) {
    auto u = update_theta_sketch::builder().set_lg_k(lgk).set_p(p).build();
    for (int i = 0; i < n; i++) u.update((uint64_t)(i * 7919 + 13));
    return u;
  };
  { auto u = mk(5, 0); add_theta("empty", B(u.compact().serialize()), 8); }
  { auto u = mk(5, 1); add_theta("single", B(u.compact().serialize()), 8); }
  { auto u = mk(5, 6); add_theta("exact-ordered", B(u.compact(true).serialize()), 16); }
  { auto u = mk(5, 6); add_theta("exact-unordered", B(u.compact(false).serialize()), 16); }
  { auto u = mk(5, 32); add_theta("exact-nominal-full", B(u.compact(true).serialize()), 16); }
  { auto u = mk(5, 200); add_theta("est-ordered", B(u.compact(true).serialize()), 24); }
  { auto u = mk(5, 200); add_theta("est-unordered", B(u.compact(false).serialize()), 24); }
  { auto u = mk(5, 40, 0.5f); auto c = u.compact(true); add_theta("est-p", B(c.serialize()), 24); }
  { auto u = mk(5, 6); auto b = B(u.compact(true).serialize_compressed()); add_theta("v4-exact", b, 8 + b[4]); }
  { auto u = mk(5, 20); auto b = B(u.compact(true).serialize_compressed()); add_theta("v4-exact-blocks", b, 8 + b[4]); }
  { auto u = mk(5, 200); auto b = B(u.compact(true).serialize_compressed()); add_theta("v4-est", b, 16 + b[4]); }
  if (thorough) {
    { auto u = mk(6, 400); add_theta("est-ordered-lgk6", B(u.compact(true).serialize()), 24); }
    { auto u = mk(6, 400); auto b = B(u.compact(true).serialize_compressed()); add_theta("v4-est-lgk6", b, 16 + b[4]); }
  }
  { // results of set operations (compact sketches built by the set-operation code, not by compact())
    auto a = mk(5, 200), c = mk(6, 120);
    auto un = theta_union::builder().set_lg_k(5).build(); un.update(a); un.update(c);
    add_theta("union-result-est", B(un.get_result().serialize()), 24);
    add_theta("union-result-unordered", B(un.get_result(false).serialize()), 24);
    theta_intersection ix; ix.update(a); ix.update(c);
    { auto r = ix.get_result(); auto b = B(r.serialize()); add_theta("intersection-result", b, (size_t)b[0] * 8); }
    { auto r = theta_a_not_b().compute(mk(5, 9), mk(5, 4)); auto b = B(r.serialize()); add_theta("a-not-b-result-exact", b, (size_t)b[0] * 8); }
    auto e = theta_union::builder().set_lg_k(5).build();
    { auto b = B(e.get_result().serialize()); add_theta("union-result-empty", b, 8); }
  }
  // legacy images written from the documented layouts (theta_sketch.hpp / Java SetOperation docs): v1, v2
  auto src = mk(5, 200).compact(true);
  std::vector<uint64_t> ent(src.begin(), src.end());
  const uint16_t sh = src.get_seed_hash();
  { // v1: 24 bytes preamble: preLongs=3, serVer=1, type=3, 5 unused; u32 numEntries @8, u32 unused, u64 theta @16
    Bytes b{3, 1, 3, 0, 0, 0, 0, 0}; put32(b, (uint32_t)ent.size()); put32(b, 0); put64(b, src.get_theta64());
    for (auto e : ent) put64(b, e);
    add_theta("v1-est", b, 24);
    Bytes e{3, 1, 3, 0, 0, 0, 0, 0}; put32(e, 0); put32(e, 0); put64(e, theta_constants::MAX_THETA);
    add_theta("v1-empty", e, 24);
  }
  { // v2: preLongs 1 (empty), 2 (exact), 3 (estimation); seed hash @6
    Bytes e{1, 2, 3, 0, 0, 0}; put16(e, sh);
    add_theta("v2-empty", e, 8);
    Bytes x{2, 2, 3, 0, 0, 0}; put16(x, sh); put32(x, 5); put32(x, 0); for (int i = 0; i < 5; i++) put64(x, ent[i]);
    add_theta("v2-exact", x, 16);
    Bytes t{3, 2, 3, 0, 0, 0}; put16(t, sh); put32(t, (uint32_t)ent.size()); put32(t, 0); put64(t, src.get_theta64());
    for (auto v : ent) put64(t, v);
    add_theta("v2-est", t, 24);
  }
}

// ---- tuple ----
static std::string litem(int i);   // distinct strings longer than the SSO buffer (defined with the quantile item generators)
typedef compact_tuple_sketch<double> ctuple;
static std::string use_tuple(const ctuple& s) {
  Dig g;
  g.u("empty", s.is_empty()).u("ordered", s.is_ordered()).u("theta", s.get_theta64()).u("n", s.get_num_retained())
   .u("sh", s.get_seed_hash()).d("est", s.get_estimate());
  for (const auto& e : s) { g.u("k", e.first).d("v", e.second); }
  g.bytes("ser", s.serialize());
  return g.s;
}
static void add_tuple(const std::string& kind, const Bytes& b, size_t preLen) {
  add_image("tuple", kind, b, preLen, b.size(), {
    path_bytes("bytes", [](uint8_t* p, size_t n) { return ctuple::deserialize(p, n); }, use_tuple),
    path_stream([](std::istream& is) { return ctuple::deserialize(is); }, use_tuple),
  });
}
typedef compact_tuple_sketch<std::string> ctuple_s;
static std::string use_tuple_s(const ctuple_s& s) {
  Dig g;
  g.u("empty", s.is_empty()).u("ordered", s.is_ordered()).u("theta", s.get_theta64()).u("n", s.get_num_retained())
   .u("sh", s.get_seed_hash()).d("est", s.get_estimate());
  for (const auto& e : s) { g.u("k", e.first).str("v", e.second); }
  g.bytes("ser", s.serialize());
  return g.s;
}
static void add_tuple_s(const std::string& kind, const Bytes& b, size_t preLen) {
  add_image("tuple", kind, b, preLen, b.size(), {
    path_bytes("bytes", [](uint8_t* p, size_t n) { return ctuple_s::deserialize(p, n); }, use_tuple_s),
    path_stream([](std::istream& is) { return ctuple_s::deserialize(is); }, use_tuple_s),
  });
}
typedef compact_array_of_doubles_sketch caod;
static std::string use_aod(const caod& s) {
  Dig g;
  g.u("empty", s.is_empty()).u("ordered", s.is_ordered()).u("theta", s.get_theta64()).u("n", s.get_num_retained())
   .u("sh", s.get_seed_hash()).d("est", s.get_estimate()).u("nv", s.get_num_values());
  for (const auto& e : s) { g.u("k", e.first); for (size_t i = 0; i < e.second.size(); i++) g.d("v", e.second[i]); }
  g.bytes("ser", s.serialize());
  return g.s;
}
static void add_aod(const std::string& kind, const Bytes& b, size_t preLen) {
  add_image("aod", kind, b, preLen, b.size(), {
    path_bytes("bytes", [](uint8_t* p, size_t n) { return caod::deserialize(p, n); }, use_aod),
    path_stream([](std::istream& is) { return caod::deserialize(is); }, use_aod),
  });
}
static void build_tuple(bool) {
  auto mk = [](int lgk, int n) {
    auto u = update_tuple_sketch<double>::builder().set_lg_k(lgk).build();
    for (int i = 0; i < n; i++) u.update((uint64_t)(i * 104729 + 7), (double)(i + 1));
    return u;
  };
  add_tuple("empty", B(mk(5, 0).compact().serialize()), 8);
  add_tuple("single", B(mk(5, 1).compact().serialize()), 8);
  add_tuple("exact-ordered", B(mk(5, 6).compact(true).serialize()), 16);
  add_tuple("exact-unordered", B(mk(5, 6).compact(false).serialize()), 16);
  add_tuple("est-ordered", B(mk(5, 150).compact(true).serialize()), 24);
  // summaries that own heap memory: std::string (default policy appends), every value longer than the SSO buffer
  auto mks = [](int lgk, int n) {
    auto u = update_tuple_sketch<std::string>::builder().set_lg_k(lgk).build();
    for (int i = 0; i < n; i++) u.update((uint64_t)(i * 104729 + 7), litem(i));
    return u;
  };
  add_tuple_s("lstring-single", B(mks(5, 1).compact().serialize()), 8);
  add_tuple_s("lstring-exact", B(mks(5, 6).compact(true).serialize()), 16);
  add_tuple_s("lstring-est", B(mks(5, 150).compact(true).serialize()), 24);
  auto mka = [](int lgk, int n) {
    auto u = update_array_of_doubles_sketch::builder(2).set_lg_k(lgk).build();
    std::vector<double> v(2);
    for (int i = 0; i < n; i++) { v[0] = i; v[1] = 2 * i + 1; u.update((uint64_t)(i * 15485863 + 3), v); }
    return u;
  };
  add_aod("empty", B(mka(5, 0).compact().serialize()), 16);
  add_aod("single", B(mka(5, 1).compact().serialize()), 24);
  add_aod("exact", B(mka(5, 6).compact().serialize()), 24);
  add_aod("est", B(mka(5, 100).compact().serialize()), 24);
}

// ---- hll ----
static void exercise_hll(const hll_sketch& s) {
  const target_hll_type types[] = {HLL_4, HLL_6, HLL_8};
  for (auto t : types) { hll_sketch c(s, t); (void)c.get_estimate(); (void)c.serialize_compact(); (void)c.serialize_updatable(); }
  (void)s.to_string(true, true, true, true);                 // iterates every register / coupon, aux map included
  hll_sketch c(s);
  for (uint64_t i = 0; i < 40; i++) c.update((uint64_t)(i * 0x9E3779B97F4A7C15ULL + 3));
  (void)c.get_estimate(); (void)c.serialize_compact(); (void)c.serialize_updatable();
  const uint8_t lg = s.get_lg_config_k();
  hll_union u(lg < 4 ? 4 : lg > 21 ? 21 : lg);
  u.update(s); u.update(c);
  for (auto t : types) { auto r = u.get_result(t); (void)r.get_estimate(); (void)r.serialize_compact(); }
}
static std::string use_hll(const hll_sketch& s) {
  Dig g;
  g.u("lgk", s.get_lg_config_k()).u("type", s.get_target_type()).u("empty", s.is_empty()).u("compact", s.is_compact())
   .d("est", s.get_estimate()).d("cest", s.get_composite_estimate()).d("lb", s.get_lower_bound(1)).d("ub", s.get_upper_bound(1));
  g.bytes("serc", s.serialize_compact());
  g.bytes("seru", s.serialize_updatable());
  exercise_hll(s);
  return g.s;
}
// information length of an UPDATABLE HLL image (layout constants of HllUtil.hpp): the int array of a LIST (from byte 8)
// or SET (from byte 12) image and the aux area of an HLL_4 image (after 40 + k/2 bytes) are written at their full
// allocated size; slots after the last used one are zero = unused capacity, i.e. reserved padding without information.
static size_t hll_info_len(const Bytes& b) {
  if (b.size() < 8) return b.size();
  const bool compact = b[5] & 8;            // COMPACT_FLAG_MASK
  if (compact) return b.size();
  size_t start;
  if (b[0] == 2) start = 8;                 // LIST_PREINTS
  else if (b[0] == 3) start = 12;           // HASH_SET_PREINTS
  else if (b[0] == 10 && ((b[7] >> 2) & 3) == 0) start = 40 + (((size_t)1 << b[3]) / 2);   // HLL_4: aux area
  else return b.size();
  if (start > b.size()) return b.size();
  size_t last = start;
  for (size_t o = start; o + 4 <= b.size(); o += 4) if (b[o] | b[o + 1] | b[o + 2] | b[o + 3]) last = o + 4;
  return last;
}
static void add_hll(const std::string& kind, const Bytes& b) {
  add_image("hll", kind, b, (size_t)b[0] * 4, hll_info_len(b), {
    path_bytes("bytes", [](uint8_t* p, size_t n) { return hll_sketch::deserialize(p, n); }, use_hll),
    path_stream([](std::istream& is) { return hll_sketch::deserialize(is); }, use_hll),
  });
}
static void build_hll(bool thorough) {
  const target_hll_type types[] = {HLL_4, HLL_6, HLL_8};
  const char* tn[] = {"hll4", "hll6", "hll8"};
  for (int t = 0; t < 3; t++) {
    auto mk = [&](int lgk, int n) { hll_sketch s(lgk, types[t]); for (int i = 0; i < n; i++) s.update((uint64_t)(i * 2654435761ULL + 17)); return s; };
    struct K { const char* name; int lgk, n; };
    // near capacity of each mode: rejection paths that first build state (a promotion inside the reader) only exist there.
    // list-full: 7 of 8 slots; set-lgk10-half / -near: 48 / 90 coupons of the 96 a set of lgK 10 holds before it is promoted
    // (a lowered lgK byte, still >= 8 and >= lgArr, makes the same coupons too many for a set)
    std::vector<K> kinds = {{"empty", 8, 0}, {"list", 8, 3}, {"list-full", 8, 7}, {"set", 8, 12}, {"set-near", 8, 23},
                            {"set-lgk10-half", 10, 48}, {"set-lgk10-near", 10, 90},
                            {"hll", 8, 400}, {"hll-lgk4", 4, 30}, {"hll-lgk4-aux", 4, 6000}};
    if (thorough) { kinds.push_back({"set-lgk12-near", 12, 300}); kinds.push_back({"hll-lgk7", 7, 2000}); }
    for (auto& k : kinds) {
      auto s = mk(k.lgk, k.n);
      add_hll(std::string(tn[t]) + "-" + k.name + "-compact", B(s.serialize_compact()));
      add_hll(std::string(tn[t]) + "-" + k.name + "-updatable", B(s.serialize_updatable()));
    }
    {   // hll_union::get_result(type): list / set / HLL-mode results; HLL-mode results carry the out-of-order flag and no HIP
      struct U { const char* name; int lgk, n1, n2; };
      for (auto& k : std::vector<U>{{"union-list", 8, 2, 3}, {"union-set", 8, 8, 9}, {"union-hll", 8, 300, 350}, {"union-hll-downsampled", 7, 300, 350}}) {
        hll_sketch a(8, types[t]), c(k.lgk, types[t]);
        for (int i = 0; i < k.n1; i++) a.update((uint64_t)(i * 2654435761ULL + 17));
        for (int i = 0; i < k.n2; i++) c.update((uint64_t)(i * 40503ULL + 99991));
        hll_union u(8);
        u.update(a); u.update(c);
        auto r = u.get_result(types[t]);
        add_hll(std::string(tn[t]) + "-" + k.name + "-compact", B(r.serialize_compact()));
        add_hll(std::string(tn[t]) + "-" + k.name + "-updatable", B(r.serialize_updatable()));
      }
    }
    if (t == 0) {
      // HLL_4 with exceptions in the aux map (AUX_COUNT_INT @36 > 0): find items whose coupon value is >= 16 (read from
      // the single-coupon LIST image, bytes 8..11, value = coupon >> 26) and add them to a sketch whose curMin is 0
      std::vector<uint64_t> big;
      for (uint64_t i = 1; i < 3000000 && big.size() < 2; i++) {
        hll_sketch one(4, HLL_8); one.update((uint64_t)i);
        auto c = one.serialize_compact();
        if (c.size() >= 12 && (c[11] >> 2) >= 16) big.push_back(i);
      }
      hll_sketch s(5, HLL_4);
      for (int i = 0; i < 12; i++) s.update((uint64_t)(i * 2654435761ULL + 17));
      for (auto x : big) s.update((uint64_t)x);
      add_hll("hll4-hll-lgk5-auxfull-compact", B(s.serialize_compact()));
      add_hll("hll4-hll-lgk5-auxfull-updatable", B(s.serialize_updatable()));
    }
  }
}

// ---- cpc ----
static void exercise_cpc(const cpc_sketch& s) {
  cpc_sketch c(s);
  for (uint64_t i = 0; i < 40; i++) c.update((uint64_t)(i * 0x9E3779B97F4A7C15ULL + 3));
  (void)c.get_estimate(); (void)c.serialize();
  const uint8_t lg = s.get_lg_k();
  cpc_union u(lg < 4 ? 4 : lg > 26 ? 26 : lg);
  u.update(s); u.update(c);
  auto r = u.get_result(); (void)r.get_estimate(); (void)r.serialize();
  (void)s.to_string();
}
static std::string use_cpc(const cpc_sketch& s) {
  Dig g;
  g.u("lgk", s.get_lg_k()).u("empty", s.is_empty()).d("est", s.get_estimate()).d("lb", s.get_lower_bound(1)).d("ub", s.get_upper_bound(1));
  g.bytes("ser", s.serialize());
  exercise_cpc(s);
  return g.s;
}
static void build_cpc(bool thorough) {
  struct K { const char* name; int lgk, n; };
  std::vector<K> kinds = {{"empty", 4, 0}, {"sparse", 4, 1}, {"hybrid", 4, 5}, {"pinned", 4, 30}, {"sliding", 4, 200},
                          {"sparse-lgk6", 6, 5}, {"hybrid-lgk6", 6, 20}, {"hybrid-near-pinned-lgk6", 6, 31}, {"pinned-lgk6", 6, 100}, {"sliding-lgk6", 6, 2000}};
  if (thorough) { kinds.push_back({"sliding-lgk5", 5, 3000}); kinds.push_back({"pinned-lgk7", 7, 250}); }
  for (auto& k : kinds) {
    cpc_sketch s(k.lgk);
    for (int i = 0; i < k.n; i++) s.update((uint64_t)(i * 2654435761ULL + 5));
    Bytes b = B(s.serialize());
    add_image("cpc", k.name, b, (size_t)b[0] * 4, b.size(), {
      path_bytes("bytes", [](uint8_t* p, size_t n) { return cpc_sketch::deserialize(p, n); }, use_cpc),
      path_stream([](std::istream& is) { return cpc_sketch::deserialize(is); }, use_cpc),
    });
  }
  // cpc_union::get_result(): merged sketches carry no HIP fields - other flag combinations and preamble sizes than update-built ones
  struct U { const char* name; int lgk, n1, n2; };
  std::vector<U> us = {{"union-tiny-lgk10", 10, 3, 4}, {"union-sparse-lgk6", 6, 3, 2}, {"union-hybrid-lgk6", 6, 12, 14}, {"union-pinned-lgk6", 6, 60, 70},
                       {"union-sliding-lgk6", 6, 900, 1100}};
  if (thorough) us.push_back({"union-sliding-lgk8", 8, 3000, 4000});
  for (auto& k : us) {
    cpc_sketch a(k.lgk), c(k.lgk);
    for (int i = 0; i < k.n1; i++) a.update((uint64_t)(i * 2654435761ULL + 5));
    for (int i = 0; i < k.n2; i++) c.update((uint64_t)(i * 40503ULL + 77777));
    cpc_union u(k.lgk);
    u.update(a); u.update(c);
    Bytes b = B(u.get_result().serialize());
    add_image("cpc", k.name, b, (size_t)b[0] * 4, b.size(), {
      path_bytes("bytes", [](uint8_t* p, size_t n) { return cpc_sketch::deserialize(p, n); }, use_cpc),
      path_stream([](std::istream& is) { return cpc_sketch::deserialize(is); }, use_cpc),
    });
  }
}

// ---- quantile families ----
template<class S> static void exercise_quant(const S& s) {
  typedef typename item_of<S>::type T;
  S c(s);
  for (int i = 0; i < 12; i++) c.update(qitem<T>(1000 + i));
  S d(s);
  c.merge(d);
  unsigned long cnt = 0;
  for (auto it = c.begin(); it != c.end(); ++it) cnt += (*it).second > 0;
  if (!c.is_empty()) { (void)c.get_quantile(0.5); (void)c.get_rank(c.get_min_item()); }
  if (!s.is_empty()) { (void)s.get_quantile(0.5); (void)s.get_rank(s.get_max_item()); }
  (void)c.serialize();
}
template<class S> static std::string use_quant(const S& s) {
  Dig g;
  g.u("k", s.get_k()).u("n", s.get_n()).u("ret", s.get_num_retained()).u("empty", s.is_empty()).u("em", s.is_estimation_mode());
  if (!s.is_empty()) { dig_item(g, "min", s.get_min_item()); dig_item(g, "max", s.get_max_item()); }
  g.bytes("ser", s.serialize());
  exercise_quant(s);
  return g.s;
}
template<class S> static void add_quant(const std::string& family, const std::string& kind, const Bytes& b, size_t preLen, size_t infoLen = 0) {
  add_image(family, kind, b, preLen, infoLen ? infoLen : b.size(), {
    path_bytes("bytes", [](uint8_t* p, size_t n) { return S::deserialize(p, n); }, use_quant<S>),
    path_stream([](std::istream& is) { return S::deserialize(is); }, use_quant<S>),
  });
}
// one word is longer than the small-string buffer, so that a string item owns heap memory (a leaked item is then visible)
static std::string sitem(int i) { static const char* w[] = {"a", "bb", "", "dddd", "a-string-beyond-sso-", "f"}; return std::string(w[i % 6]) + std::to_string(i * 37 % 101); }
template<class T> static T qitem(int i) { return (T)((i * 7919) % 1000 - 300); }
// "lstring" images: every item is a distinct std::string longer than the small-string buffer, so EVERY constructed item owns
// a heap block and an item that a failing reader forgets to destroy shows up as Leak (a forgotten SSO string is invisible)
static bool g_long_strings = false;
static std::string litem(int i) { char b[48]; snprintf(b, sizeof b, "item-%04d-beyond-the-sso-buffer", i); return b; }
template<> std::string qitem<std::string>(int i) { return g_long_strings ? litem(i) : sitem(i); }

template<class T> static void build_kll_t(const char* tname, bool thorough) {
  typedef kll_sketch<T> S;
  struct K { const char* name; int k, n; };
  std::vector<K> kinds = {{"empty", 8, 0}, {"single", 8, 1}, {"exact", 8, 5}, {"level0-full", 8, 8}, {"est", 8, 60}};
  // k above the minimum and n >> k: several levels, and lowering k / num_levels in the preamble still parses - to FEWER items than
  // the image holds (only the final "whole image consumed" check rejects it, after the items were constructed)
  if (g_long_strings) kinds.push_back({"deep-k16", 16, 500});
  if (thorough) { kinds.push_back({"est-deep", 8, 1000}); kinds.push_back({"exact-k20", 20, 19}); }
  for (auto& k : kinds) {
    if (g_long_strings && k.n == 0) continue;
    S s(k.k);
    for (int i = 0; i < k.n; i++) s.update(qitem<T>(i));
    Bytes b = B(s.serialize());
    add_quant<S>("kll", std::string(tname) + "-" + k.name, b, (size_t)b[0] * 4);
    if (k.n >= 5 && !g_long_strings) {   // lazy state: a query sorts level zero and the writer records it in the flags byte
      (void)s.get_quantile(0.5);
      Bytes b2 = B(s.serialize());
      if (b2 != b) add_quant<S>("kll", std::string(tname) + "-" + k.name + "-l0sorted", b2, (size_t)b2[0] * 4);
    }
  }
}
template<class T> static void build_req_t(const char* tname, bool thorough) {
  typedef req_sketch<T> S;
  struct K { const char* name; int k, n; bool hra; };
  std::vector<K> kinds = {{"empty", 4, 0, true}, {"single", 4, 1, true}, {"raw3", 4, 3, true}, {"exact-hra", 4, 10, true},
                          {"exact-lra", 4, 10, false}, {"exact-near-compaction", 4, 23, true}, {"est-hra", 4, 120, true}, {"est-lra", 4, 120, false}};
  if (g_long_strings) kinds.push_back({"deep-k6", 6, 300, true});
  if (thorough) { kinds.push_back({"est-k6", 6, 400, true}); }
  for (auto& k : kinds) {
    if (g_long_strings && k.n == 0) continue;
    S s(k.k, k.hra);
    for (int i = 0; i < k.n; i++) s.update(qitem<T>(i));
    Bytes b = B(s.serialize());
    // documented layout for 2..4 items ("raw items"): 8-byte preamble + the items, which is what the stream form writes;
    // the byte form of the pinned tree is longer (C09 finding, DESIGN 8): the bytes after the items are never-written padding
    std::ostringstream os; s.serialize(os);
    add_quant<S>("req", std::string(tname) + "-" + k.name, b, (size_t)b[0] * 4, std::min(b.size(), os.str().size()));   // preamble ints: 2, or 4 (with n)
  }
}
template<class T> static void build_quantiles_t(const char* tname, bool thorough) {
  typedef quantiles_sketch<T> S;
  struct K { const char* name; int k, n; };
  std::vector<K> kinds = {{"empty", 4, 0}, {"single", 4, 1}, {"exact", 4, 6}, {"base-buffer-full", 4, 8}, {"est", 4, 50}};
  if (g_long_strings) kinds.push_back({"deep-k8", 8, 200});
  if (thorough) { kinds.push_back({"est-k8", 8, 300}); }
  for (auto& k : kinds) {
    if (g_long_strings && k.n == 0) continue;
    S s(k.k);
    for (int i = 0; i < k.n; i++) s.update(qitem<T>(i));
    Bytes b = B(s.serialize());
    add_quant<S>("quantiles", std::string(tname) + "-" + k.name, b, (size_t)b[0] * 8);
  }
}
static void build_quant(bool thorough) {
  build_kll_t<float>("float", thorough);
  build_kll_t<double>("double", thorough);
  build_kll_t<std::string>("string", thorough);
  build_req_t<float>("float", thorough);
  build_req_t<std::string>("string", thorough);
  build_quantiles_t<double>("double", thorough);
  build_quantiles_t<std::string>("string", thorough);
}

// ---- frequent items ----
template<class S> static void exercise_fi(const S& s) {
  typedef typename item_of<S>::type T;
  S c(s);
  for (int i = 0; i < 12; i++) c.update(qitem<T>(1000 + i), 2);
  S d(s);
  c.merge(d);
  auto rows = c.get_frequent_items(frequent_items_error_type::NO_FALSE_NEGATIVES);
  for (auto& r : rows) (void)r.get_estimate();
  (void)s.get_frequent_items(frequent_items_error_type::NO_FALSE_POSITIVES).size();
  (void)c.get_estimate(qitem<T>(1)); (void)c.serialize();
}
template<class S> static std::string use_fi(const S& s) {
  Dig g;
  g.u("empty", s.is_empty()).u("act", s.get_num_active_items()).u("tw", (unsigned long long)s.get_total_weight()).u("err", (unsigned long long)s.get_maximum_error());
  g.bytes("ser", s.serialize());
  exercise_fi(s);
  return g.s;
}
template<class T> static void build_fi_t(const char* tname, bool) {
  typedef frequent_items_sketch<T> S;
  struct K { const char* name; int n; };
  for (auto& k : std::vector<K>{{"empty", 0}, {"few", 4}, {"near-purge", 11}, {"purged", 40}}) {
    if (g_long_strings && k.n == 0) continue;
    S s(4);
    for (int i = 0; i < k.n; i++) s.update(qitem<T>(i % 17 + (i % 3 == 0 ? 0 : i)), 1 + i % 4);
    Bytes b = B(s.serialize());
    add_image("fi", std::string(tname) + "-" + k.name, b, (size_t)b[0] * 8, b.size(), {
      path_bytes("bytes", [](uint8_t* p, size_t n) { return S::deserialize(p, n); }, use_fi<S>),
      path_stream([](std::istream& is) { return S::deserialize(is); }, use_fi<S>),
    });
  }
}

// ---- count-min ----
typedef count_min_sketch<uint64_t> cms;
static void exercise_cm(const cms& s) {
  cms c(s);
  for (uint64_t i = 0; i < 12; i++) c.update(i * 31, 2);
  cms d(s);
  c.merge(d);
  (void)c.get_estimate((uint64_t)31); (void)c.get_upper_bound((uint64_t)31); (void)s.get_estimate((uint64_t)62);
  (void)c.serialize();
}
static std::string use_cm(const cms& s) {
  Dig g;
  g.u("nh", s.get_num_hashes()).u("nb", s.get_num_buckets()).u("seed", s.get_seed()).u("tw", s.get_total_weight()).u("empty", s.is_empty());
  g.bytes("ser", s.serialize());
  exercise_cm(s);
  return g.s;
}
static void build_cm(bool thorough) {
  struct K { const char* name; int h, b, n; };
  std::vector<K> kinds = {{"empty", 3, 8, 0}, {"small", 3, 8, 20}, {"one-row", 1, 5, 7}};
  if (thorough) kinds.push_back({"wide", 4, 16, 100});
  for (auto& k : kinds) {
    cms s(k.h, k.b);
    for (int i = 0; i < k.n; i++) s.update((uint64_t)i * 31, 1 + i % 3);
    Bytes b = B(s.serialize());
    add_image("countmin", k.name, b, (size_t)b[0] * 8, b.size(), {
      path_bytes("bytes", [](uint8_t* p, size_t n) { return cms::deserialize(p, n); }, use_cm),
      path_stream([](std::istream& is) { return cms::deserialize(is); }, use_cm),
    });
  }
}

// ---- bloom ----
static void exercise_bloom(bloom_filter& s) {
  for (uint64_t i = 0; i < 8; i++) (void)s.query((uint64_t)(i * 13 + 42));
  if (!s.is_read_only()) {                                  // owned copy or writable wrap: the bits are written through
    for (uint64_t i = 0; i < 8; i++) s.update((uint64_t)(i * 17 + 5));
    (void)s.query_and_update((uint64_t)999);
    if (!s.is_wrapped()) { bloom_filter c(s); s.union_with(c); s.intersect(c); }
  }
  (void)s.get_bits_used(); (void)s.serialize();
}
static std::string use_bloom(bloom_filter& s) {
  Dig g;
  g.u("empty", s.is_empty()).u("used", s.get_bits_used()).u("cap", s.get_capacity()).u("nh", s.get_num_hashes()).u("seed", s.get_seed())
   .u("ro", s.is_read_only()).u("q", s.query((uint64_t)42));
  g.bytes("ser", s.serialize());
  exercise_bloom(s);
  return g.s;
}
static void build_bloom(bool thorough) {
  // variant: what the writer stores in the bit-count field - 0 update() only (dirty marker), 1 get_bits_used() called after the
  // last update (valid count), 2 filled through query_and_update() only (valid count), 3 union_with result, 4 invert result
  struct K { const char* name; int bits, h, n, variant; };
  std::vector<K> kinds = {{"empty", 128, 3, 0, 0}, {"small", 128, 3, 10, 0}, {"two-words", 65, 2, 3, 0}, {"small-counted", 128, 3, 10, 1},
                          {"small-qau", 128, 3, 10, 2}, {"union-result", 128, 3, 10, 3}, {"inverted", 128, 3, 10, 4}};
  if (thorough) { kinds.push_back({"kilobit", 1024, 5, 60, 0}); kinds.push_back({"kilobit-counted", 1024, 5, 60, 1}); }
  for (auto& k : kinds) {
    auto s = bloom_filter::builder::create_by_size(k.bits, k.h, 123);
    for (int i = 0; i < k.n; i++) { if (k.variant == 2) (void)s.query_and_update((uint64_t)(i * 13 + 42)); else s.update((uint64_t)(i * 13 + 42)); }
    if (k.variant == 1) (void)s.get_bits_used();
    if (k.variant == 3) { auto o = bloom_filter::builder::create_by_size(k.bits, k.h, 123); for (int i = 0; i < 7; i++) o.update((uint64_t)(i * 29 + 1)); s.union_with(o); }
    if (k.variant == 4) s.invert();
    Bytes b = B(s.serialize());
    std::vector<PathFn> paths = {
      path_bytes("bytes", [](uint8_t* p, size_t n) { return bloom_filter::deserialize(p, n); }, use_bloom),
      path_stream([](std::istream& is) { return bloom_filter::deserialize(is); }, use_bloom),
      path_bytes("wrap", [](uint8_t* p, size_t n) { return bloom_filter::wrap(p, n); }, use_bloom),
    };
    // writable_wrap of an empty image is refused by contract ("Cannot wrap an empty filter for writing")
    if (k.n > 0) paths.push_back(path_bytes("wwrap", [](uint8_t* p, size_t n) { return bloom_filter::writable_wrap(p, n); }, use_bloom));
    // empty image: 3 preamble longs, bytes 20..23 documented "Unused" (layout comment in bloom_filter_impl.hpp)
    add_image("bloom", k.name, b, (size_t)b[0] * 8, k.n > 0 ? b.size() : 20, paths);
  }
}

// ---- sampling ----
template<class S> static void exercise_varopt(const S& s) {
  typedef typename item_of<S>::type T;
  S c(s);
  for (int i = 0; i < 12; i++) c.update(qitem<T>(1000 + i), 1.0 + i);
  double w = 0; for (auto it = c.begin(); it != c.end(); ++it) w += (*it).second;
  for (auto it = s.begin(); it != s.end(); ++it) w += (*it).second;
  (void)c.serialize();
  var_opt_union<T> u(s.get_k() ? s.get_k() : 1);
  u.update(s); u.update(c);
  auto r = u.get_result(); (void)r.get_num_samples(); (void)r.serialize();
}
template<class S> static std::string use_varopt(const S& s) {
  Dig g;
  g.u("k", s.get_k()).u("n", s.get_n()).u("ns", s.get_num_samples()).u("empty", s.is_empty());
  g.bytes("ser", s.serialize());
  exercise_varopt(s);
  return g.s;
}
template<class U> static void exercise_vou(const U& u) {
  U c(u);
  auto r = c.get_result();
  double w = 0; for (auto it = r.begin(); it != r.end(); ++it) w += (*it).second;
  c.update(r);
  (void)c.get_result().get_num_samples(); (void)c.serialize();
}
template<class U> static std::string use_vou(const U& u) {
  Dig g;
  g.bytes("ser", u.serialize());   // the union has no scalar getters; get_result() draws random numbers and is not part of "Usable"
  exercise_vou(u);
  return g.s;
}
template<class T> static void build_varopt_t(const char* tname, bool thorough) {
  typedef var_opt_sketch<T> S;
  typedef var_opt_union<T> U;
  random_utils::override_seed(777);
  struct K { const char* name; int k, n, heavy; };
  // warmup: exact mode (h = n, r = 0); full: r only (equal-ish weights, h = 0); full-heavy / full-heavy4: h > 0 AND r > 0
  std::vector<K> kinds = {{"empty", 8, 0, 0}, {"warmup", 8, 5, 0}, {"warmup-full", 8, 8, 0}, {"full", 8, 40, 0}, {"full-heavy", 8, 40, 2}, {"full-heavy4", 8, 60, 4}};
  if (thorough) kinds.push_back({"full-k16", 16, 300, 3});
  for (auto& k : kinds) {
    if (g_long_strings && k.n == 0) continue;
    S s(k.k);
    for (int i = 0; i < k.n; i++) s.update(qitem<T>(i), (i < k.heavy) ? 1000.0 * (i + 1) : 1.0 + (i % 5));
    Bytes b = B(s.serialize());
    add_image("varopt", std::string(tname) + "-" + k.name, b, (size_t)(b[0] & 0x3f) * 8, b.size(), {
      path_bytes("bytes", [](uint8_t* p, size_t n) { return S::deserialize(p, n); }, use_varopt<S>),
      path_stream([](std::istream& is) { return S::deserialize(is); }, use_varopt<S>),
    });
    U u(k.k);
    u.update(s);
    if (k.heavy) { S s2(k.k / 2); for (int i = 0; i < 50; i++) s2.update(qitem<T>(i + 100), 2.0 + (i % 7)); u.update(s2); }
    if (k.n > 0) {   // the sketch a union hands out (built by the union's resolution code, marks dropped)
      Bytes rb = B(u.get_result().serialize());
      add_image("varopt", std::string(tname) + "-" + k.name + "-union-result", rb, (size_t)(rb[0] & 0x3f) * 8, rb.size(), {
        path_bytes("bytes", [](uint8_t* p, size_t n) { return S::deserialize(p, n); }, use_varopt<S>),
        path_stream([](std::istream& is) { return S::deserialize(is); }, use_varopt<S>),
      });
    }
    Bytes ub = B(u.serialize());
    add_image("varoptunion", std::string(tname) + "-" + k.name, ub, (size_t)(ub[0] & 0x3f) * 8, ub.size(), {
      path_bytes("bytes", [](uint8_t* p, size_t n) { return U::deserialize(p, n); }, use_vou<U>),
      path_stream([](std::istream& is) { return U::deserialize(is); }, use_vou<U>),
    });
  }
}
template<class S> static void exercise_ebpps(const S& s) {
  typedef typename item_of<S>::type T;
  S c(s);
  for (int i = 0; i < 12; i++) c.update(qitem<T>(1000 + i), 1.0 + i * 0.25);
  S d(s);
  c.merge(d);
  (void)c.get_result().size(); (void)s.get_result().size();
  (void)c.serialize();
}
template<class S> static std::string use_ebpps(const S& s) {
  Dig g;
  g.u("k", s.get_k()).u("n", s.get_n()).d("c", s.get_c()).d("cw", s.get_cumulative_weight()).u("empty", s.is_empty());
  g.bytes("ser", s.serialize());
  exercise_ebpps(s);
  return g.s;
}
template<class T> static void build_ebpps_t(const char* tname, bool thorough) {
  typedef ebpps_sketch<T> S;
  random_utils::override_seed(4242);
  struct K { const char* name; int k, n; };
  std::vector<K> kinds = {{"empty", 6, 0}, {"single", 6, 1}, {"under-k", 6, 4}, {"at-k", 6, 6}, {"partial", 6, 60}};
  if (thorough) kinds.push_back({"partial-k12", 12, 500});
  for (auto& k : kinds) {
    if (g_long_strings && k.n == 0) continue;
    S s(k.k);
    for (int i = 0; i < k.n; i++) s.update(qitem<T>(i), 1.0 + (i % 4) * 0.5);
    Bytes b = B(s.serialize());
    add_image("ebpps", std::string(tname) + "-" + k.name, b, (size_t)b[0] * 8, b.size(), {
      path_bytes("bytes", [](uint8_t* p, size_t n) { return S::deserialize(p, n); }, use_ebpps<S>),
      path_stream([](std::istream& is) { return S::deserialize(is); }, use_ebpps<S>),
    });
  }
}

// ---- tdigest ----
template<class S> static void exercise_td(const S& s) {
  S c(s);
  for (int i = 0; i < 12; i++) c.update((typename item_of<S>::type)(i * 3 + 1));
  S d(s);
  c.merge(d);
  if (!c.is_empty()) { (void)c.get_quantile(0.5); (void)c.get_rank(c.get_min_value()); }
  (void)c.serialize(0, true);
}
template<class S> static std::string use_td(const S& s) {
  Dig g;
  g.u("k", s.get_k()).u("tw", s.get_total_weight()).u("empty", s.is_empty());
  if (!s.is_empty()) { g.d("min", s.get_min_value()).d("max", s.get_max_value()); }
  g.bytes("serb", s.serialize(0, true));
  g.bytes("ser", s.serialize());
  exercise_td(s);
  return g.s;
}
static void putbe(Bytes& b, const void* p, size_t n) { const uint8_t* q = (const uint8_t*)p; for (size_t i = 0; i < n; i++) b.push_back(q[n - 1 - i]); }
template<class T> static void build_td_t(const char* tname, bool thorough) {
  typedef tdigest<T> S;
  auto add = [&](const std::string& kind, const Bytes& b, size_t preLen) {
    add_image("tdigest", std::string(tname) + "-" + kind, b, preLen, b.size(), {
      path_bytes("bytes", [](uint8_t* p, size_t n) { return S::deserialize(p, n); }, use_td<S>),
      path_stream([](std::istream& is) { return S::deserialize(is); }, use_td<S>),
    });
  };
  struct K { const char* name; int k, n; bool buf; };
  std::vector<K> kinds = {{"empty", 10, 0, false}, {"single", 10, 1, false}, {"buffered", 10, 7, true}, {"compressed", 10, 60, false},
                          {"mixed", 10, 47, true}};
  if (thorough) kinds.push_back({"k20", 20, 400, true});
  for (auto& k : kinds) {
    S s(k.k);
    for (int i = 0; i < k.n; i++) s.update((T)((i * 7919) % 1000) / 8);
    Bytes b = B(s.serialize(0, k.buf));
    add(k.name, b, (size_t)b[0] * 8);
  }
  // reference-implementation formats (big endian), written from the layout documented in tdigest_impl.hpp
  { // COMPAT_DOUBLE: 0 0 0 1 | min f64 | max f64 | k f64 | num_centroids u32 | (weight f64, mean f64)*
    Bytes b{0, 0, 0, 1}; double mn = 1, mx = 5, k = 100; uint32_t nc = 5;
    putbe(b, &mn, 8); putbe(b, &mx, 8); putbe(b, &k, 8); putbe(b, &nc, 4);
    for (int i = 1; i <= 5; i++) { double w = 1, m = i; putbe(b, &w, 8); putbe(b, &m, 8); }
    add("compat-double", b, 32);
  }
  { // COMPAT_FLOAT: 0 0 0 2 | min f64 | max f64 | k f32 | unused u32 | num_centroids u16 | (weight f32, mean f32)*
    Bytes b{0, 0, 0, 2}; double mn = 1, mx = 5; float k = 100; uint32_t un = 0; uint16_t nc = 5;
    putbe(b, &mn, 8); putbe(b, &mx, 8); putbe(b, &k, 4); putbe(b, &un, 4); putbe(b, &nc, 2);
    for (int i = 1; i <= 5; i++) { float w = 1, m = (float)i; putbe(b, &w, 4); putbe(b, &m, 4); }
    add("compat-float", b, 30);
  }
}

// ---- density ----
template<class S> static void exercise_density(const S& s) {
  typedef typename item_of<S>::type T;
  S c(s);
  if (s.get_dim() >= 1 && s.get_dim() <= 64) {
    std::vector<T> pt(s.get_dim(), (T)1);
    for (int i = 0; i < 12; i++) { pt[0] = (T)i; c.update(pt); }
    if (!c.is_empty()) (void)c.get_estimate(pt);
  }
  S d(s);
  c.merge(d);
  T w = 0; for (auto it = c.begin(); it != c.end(); ++it) w += (*it).second;
  (void)c.serialize();
}
template<class S> static std::string use_density(const S& s) {
  Dig g;
  g.u("k", s.get_k()).u("dim", s.get_dim()).u("n", s.get_n()).u("ret", s.get_num_retained()).u("empty", s.is_empty()).u("em", s.is_estimation_mode());
  g.bytes("ser", s.serialize());
  exercise_density(s);
  return g.s;
}
template<class T> static void build_density_t(const char* tname, bool thorough) {
  typedef density_sketch<T> S;
  random_utils::override_seed(99);
  struct K { const char* name; int k, dim, n; };
  std::vector<K> kinds = {{"empty", 4, 2, 0}, {"exact", 4, 2, 5}, {"est", 4, 2, 60}};
  if (thorough) kinds.push_back({"est-dim3", 6, 3, 200});
  for (auto& k : kinds) {
    S s(k.k, k.dim);
    for (int i = 0; i < k.n; i++) { std::vector<T> v(k.dim); for (int j = 0; j < k.dim; j++) v[j] = (T)((i * 31 + j * 17) % 23) / 4; s.update(v); }
    Bytes b = B(s.serialize());
    add_image("density", std::string(tname) + "-" + k.name, b, (size_t)b[0] * 4, b.size(), {
      path_bytes("bytes", [](uint8_t* p, size_t n) { return S::deserialize(p, n); }, use_density<S>),
      path_stream([](std::istream& is) { return S::deserialize(is); }, use_density<S>),
    });
  }
}

// empty images whose LAST preamble bytes are documented as unused: truncating them loses no information
static void apply_documented_padding() {
  for (auto& im : g_images) {
    const size_t sz = im.bytes.size();
    if (im.family == "kll" && sz == 8) im.infoLen = 7;            // kll_sketch.hpp layout: byte 7 unused
    if (im.family == "quantiles" && sz == 8) im.infoLen = 6;      // bytes 6,7: "2 unused bytes"
    if (im.family == "fi" && sz == 8) im.infoLen = 6;             // bytes 6,7: unused16
    if (im.family == "countmin" && sz == 16) im.infoLen = 15;     // count_min.hpp layout: byte 15 unused
    if (im.family == "tdigest" && sz == 8 && im.bytes[2] == 20) im.infoLen = 6;   // bytes 6,7 "unused"
  }
}

static void build_catalogue(bool thorough) {
  build_theta(thorough);
  build_tuple(thorough);
  build_hll(thorough);
  build_cpc(thorough);
  build_quant(thorough);
  build_fi_t<long long>("int64", thorough);
  build_fi_t<std::string>("string", thorough);
  build_cm(thorough);
  build_bloom(thorough);
  build_varopt_t<int>("int", thorough);
  build_varopt_t<std::string>("string", thorough);
  build_ebpps_t<int>("int", thorough);
  build_ebpps_t<std::string>("string", thorough);
  build_td_t<double>("double", thorough);
  build_td_t<float>("float", thorough);
  build_density_t<float>("float", thorough);
  build_density_t<double>("double", thorough);
  g_long_strings = true;
  build_kll_t<std::string>("lstring", thorough);
  build_req_t<std::string>("lstring", thorough);
  build_quantiles_t<std::string>("lstring", thorough);
  build_fi_t<std::string>("lstring", thorough);
  build_varopt_t<std::string>("lstring", thorough);
  build_ebpps_t<std::string>("lstring", thorough);
  g_long_strings = false;
  apply_documented_padding();
}

// ------------------------------------------------------------------------------------------------------------
// attempts, outcomes, child / parent protocol
// ------------------------------------------------------------------------------------------------------------
enum Mode { M_FULL = 0, M_PREFIX = 1, M_CORRUPT = 2 };
static const char* MODE[] = {"full", "prefix", "corrupt"};
enum Outcome { O_NONE = 0, O_OK, O_THROW, O_SAME, O_DIFFERENT, O_USABLE, O_OOB, O_CRASH, O_HANG, O_HUGE, O_LEAK, O_SIZE };
static const char* OUTCOME[] = {"None", "Ok", "Throw", "Same", "Different", "Usable", "OOB", "Crash", "Hang", "HugeAlloc", "Leak", "SizeMismatch"};

struct Attempt { uint8_t path, mode; uint32_t n, pos; uint8_t val; };
struct Result { uint8_t outcome, stage; int32_t off; int32_t leak; uint64_t digest; char what[96]; };
struct Shared { volatile int cur; volatile int finished; Result res[1]; };

static Shared* g_sh = nullptr;
static gb::GuardBuf g_gb;
static size_t g_cap_bytes = (size_t)256 << 20;
static volatile int g_report_huge = 1;

static void set_what(Result& r, const char* w) {
  size_t j = 0;
  for (size_t i = 0; w[i] && j + 1 < sizeof r.what; i++) {
    unsigned char c = (unsigned char)w[i];
    r.what[j++] = (c < 32 || c == '"' || c == '\\' || c > 126) ? '.' : (char)c;
  }
  r.what[j] = 0;
}
static void fatal_result(int outcome, const char* what, long off) {
  if (g_sh && g_sh->cur >= 0) {
    Result& r = g_sh->res[g_sh->cur];
    if (gb::g_huge && g_report_huge) { r.outcome = O_HUGE; snprintf(r.what, sizeof r.what, "request %zu then %s", (size_t)gb::g_huge_req, what); }
    else { r.outcome = (uint8_t)outcome; set_what(r, what); }
    r.stage = (uint8_t)g_stage; r.off = (int32_t)off;
  }
}
static void on_signal(int sig, siginfo_t* si, void*) {
  if ((sig == SIGSEGV || sig == SIGBUS) && g_gb.in_guard(si->si_addr)) {
    fatal_result(O_OOB, "guard", g_gb.offset_past_end(si->si_addr));
  } else if (sig == SIGPROF || sig == SIGALRM) {
    fatal_result(O_HANG, sig == SIGPROF ? "10s cpu" : "120s wall", 0);
  } else {
    const char* nm = sig == SIGSEGV ? "SIGSEGV" : sig == SIGBUS ? "SIGBUS" : sig == SIGFPE ? "SIGFPE" : sig == SIGABRT ? "SIGABRT" : sig == SIGILL ? "SIGILL" : "signal";
    fatal_result(O_CRASH, nm, 0);
  }
  _exit(40);
}
static void on_terminate() { fatal_result(O_CRASH, "std::terminate", 0); _exit(40); }
#if GB_ASAN
static void on_asan_death() {
  const char* d = __asan_get_report_description();
  char b[90]; snprintf(b, sizeof b, "asan:%s", d ? d : "?");
  fatal_result(O_OOB, b, 0);
  _exit(40);
}
#endif

static void child_setup() {
  static char altstack[1 << 16];
  stack_t ss; ss.ss_sp = altstack; ss.ss_size = sizeof altstack; ss.ss_flags = 0;
  sigaltstack(&ss, nullptr);
  struct sigaction sa; memset(&sa, 0, sizeof sa);
  sa.sa_sigaction = on_signal; sa.sa_flags = SA_SIGINFO | SA_ONSTACK; sigemptyset(&sa.sa_mask);
  for (int s : {SIGSEGV, SIGBUS, SIGFPE, SIGABRT, SIGILL, SIGPROF, SIGALRM}) sigaction(s, &sa, nullptr);
  std::set_terminate(on_terminate);
#if GB_ASAN
  __sanitizer_set_death_callback(on_asan_death);
#else
  struct rlimit rl; rl.rlim_cur = rl.rlim_max = (rlim_t)3 << 30;
  setrlimit(RLIMIT_AS, &rl);
#endif
  gb::g_cap = g_cap_bytes;
}
static void arm_timer() {
  struct itimerval it; memset(&it, 0, sizeof it); it.it_value.tv_sec = 10;   // CPU seconds: generous - a slow but finite use of a large accepted object is not a hang
  setitimer(ITIMER_PROF, &it, nullptr);
  alarm(120);   // wall-clock backstop only (a blocked process); generous, so that load on the machine cannot trigger it
}

// one attempt inside the child; writes g_sh->res[idx]
static void run_attempt(const Image& im, const std::vector<Attempt>& at, int idx, const uint64_t* ref) {
  const Attempt& a = at[idx];
  Result& r = g_sh->res[idx];
  const PathFn& pf = im.paths[a.path];
  for (int rep = 0; rep < 3; rep++) {
    g_stage = ST_PREP;
    const size_t n = a.mode == M_PREFIX ? a.n : im.bytes.size();
    uint8_t* p = g_gb.place(im.bytes.data(), n);
    if (a.mode == M_CORRUPT) p[a.pos] = a.val;
    gb::g_huge = 0; gb::g_smashed = 0; gb::g_mismatch = 0; gb::g_base_bytes = gb::g_bytes; g_report_huge = (a.mode != M_CORRUPT || im.capCorrupt);
    const long blocks0 = gb::g_blocks;
    int outcome = O_NONE; uint64_t dg = 0; int stage = ST_DONE;
    r.what[0] = 0;
    arm_timer();
    try {
      std::string d = pf.fn(p, n);
      dg = fnv(d);
      if (a.mode == M_FULL) outcome = O_OK;
      else if (a.mode == M_PREFIX) outcome = (ref[a.path] != 0 && dg == ref[a.path]) ? O_SAME : O_DIFFERENT;
      else outcome = O_USABLE;
    } catch (const std::exception& e) {
      stage = g_stage; outcome = O_THROW; set_what(r, e.what());
    } catch (...) {
      stage = g_stage; outcome = O_CRASH; set_what(r, "exception not derived from std::exception");
    }
    g_stage = ST_DONE;
    const long leak = gb::g_blocks - blocks0;
    r.stage = (uint8_t)stage; r.digest = dg; r.leak = (int32_t)leak; r.off = 0;
    if (gb::g_smashed || !gb::heap_intact()) { r.outcome = O_OOB; set_what(r, "heap block overrun (canary)"); r.off = -1; g_sh->cur = idx; _exit(42); }
    if (gb::g_mismatch) {   // whatever else happened: a block was released with a size it was not allocated with
      r.outcome = O_SIZE; r.stage = (uint8_t)stage;
      snprintf(r.what, sizeof r.what, "block of %zu bytes deallocated as %zu bytes", (size_t)gb::g_mismatch_alloc, (size_t)gb::g_mismatch_dealloc);
      return;
    }
    if (gb::g_huge && (a.mode != M_CORRUPT || im.capCorrupt)) { r.outcome = O_HUGE; snprintf(r.what, sizeof r.what, "request %zu", (size_t)gb::g_huge_req); return; }
    r.outcome = (uint8_t)outcome;
    if (leak <= 0) return;          // balanced
    if (rep == 2) { if (outcome == O_THROW && stage == ST_DESER) r.outcome = O_LEAK; return; }   // "a rejected image leaks no memory"
  }
}

static void child_main(const Image& im, const std::vector<Attempt>& at, int start, uint64_t* ref) {
  child_setup();
  // warm-up: one-time lazy initialisation inside the library (tables, locale facets) must not count as a leak
  g_sh->cur = -1;
  for (size_t pi = 0; pi < im.paths.size(); pi++) {
    if (start <= (int)pi) continue;                       // the reference attempt itself has not run yet
    if (g_sh->res[pi].outcome != O_OK && g_sh->res[pi].outcome != O_SIZE) continue;
    try { uint8_t* p = g_gb.place(im.bytes.data(), im.bytes.size()); arm_timer(); (void)im.paths[pi].fn(p, im.bytes.size()); } catch (...) {}
  }
  for (int i = start; i < (int)at.size(); i++) {
    g_sh->cur = i;
    run_attempt(im, at, i, ref);
    if (at[i].mode == M_FULL && (g_sh->res[i].outcome == O_OK || (g_sh->res[i].outcome == O_SIZE && g_sh->res[i].digest))) ref[at[i].path] = g_sh->res[i].digest;
  }
  g_sh->finished = 1;
  vt::child_exit(0);
}

static std::vector<Attempt> make_attempts(const Image& im, int vals_mode) {
  std::vector<Attempt> at;
  const uint32_t size = (uint32_t)im.bytes.size();
  for (uint8_t pi = 0; pi < im.paths.size(); pi++) at.push_back(Attempt{pi, M_FULL, size, 0, 0});
  for (uint8_t pi = 0; pi < im.paths.size(); pi++)
    for (uint32_t n = 0; n < size; n++) at.push_back(Attempt{pi, M_PREFIX, n, 0, 0});
  for (uint8_t pi = 0; pi < im.paths.size(); pi++)
    for (uint32_t pos = 0; pos < im.preLen; pos++) {
      const uint8_t v = im.bytes[pos];
      std::vector<int> vals;
      // quick: boundary values, small counts / lg sizes, powers of two, and neighbours / half / double of the stored value
      // (count- and size-like fields need values that still parse: a slightly smaller k, one level less, half the count)
      if (vals_mode == 0) vals = {0, 1, 2, 3, 4, 8, 16, 32, 64, 0x7f, 0x80, 200, 254, 0xff, (uint8_t)(v - 1), (uint8_t)(v + 1),
                                  (uint8_t)(v - 2), (uint8_t)(v + 2), (uint8_t)(v - 3), (uint8_t)(v + 3), (uint8_t)(v - 4), (uint8_t)(v / 2), (uint8_t)(v * 2)};
      else for (int x = 0; x < 256; x++) vals.push_back(x);
      if (std::find(im.flagPos.begin(), im.flagPos.end(), pos) != im.flagPos.end()) for (int x = 0; x < 256; x++) vals.push_back(x);
      std::sort(vals.begin(), vals.end());
      vals.erase(std::unique(vals.begin(), vals.end()), vals.end());
      for (int x : vals) if (x != v) at.push_back(Attempt{pi, M_CORRUPT, size, pos, (uint8_t)x});
    }
  return at;
}

static long g_attempts = 0, g_forks = 0;

static void run_image(const Image& im, int vals_mode) {
  std::vector<Attempt> at = make_attempts(im, vals_mode);
  const size_t shbytes = sizeof(Shared) + sizeof(Result) * at.size() + 64 * sizeof(uint64_t);
  void* m = mmap(nullptr, shbytes, PROT_READ | PROT_WRITE, MAP_SHARED | MAP_ANONYMOUS, -1, 0);
  if (m == MAP_FAILED) { perror("mmap shared"); exit(3); }
  memset(m, 0, shbytes);
  g_sh = static_cast<Shared*>(m);
  uint64_t* ref = reinterpret_cast<uint64_t*>(reinterpret_cast<uint8_t*>(m) + sizeof(Shared) + sizeof(Result) * at.size());
  int next = 0;
  while (next < (int)at.size()) {
    g_sh->cur = -1; g_sh->finished = 0;
    fflush(vt::g_out);
    pid_t pid = fork();
    if (pid < 0) { perror("fork"); exit(3); }
    if (pid == 0) child_main(im, at, next, ref);
    g_forks++;
    int status = 0;
    waitpid(pid, &status, 0);
    if (g_sh->finished) break;
    int c = g_sh->cur;
    if (c < next) {
      // died outside an attempt (warm-up or set-up): machinery problem, not an outcome
      fprintf(stderr, "reader_rec: child died outside an attempt (image %s/%s, status %d)\n", im.family.c_str(), im.kind.c_str(), status);
      exit(3);
    }
    Result& r = g_sh->res[c];
    if (r.outcome == O_NONE || (WIFSIGNALED(status) && r.outcome != O_OOB && r.outcome != O_CRASH && r.outcome != O_HANG && r.outcome != O_HUGE)) {
      r.outcome = O_CRASH; r.stage = ST_DESER;
      if (WIFSIGNALED(status)) snprintf(r.what, sizeof r.what, "killed by signal %d", WTERMSIG(status));
      else snprintf(r.what, sizeof r.what, "exit status %d", WEXITSTATUS(status));
    }
    next = c + 1;
  }
  // log
  std::string pn = "[";
  for (size_t i = 0; i < im.paths.size(); i++) { if (i) pn += ","; pn += "\"" + im.paths[i].name + "\""; }
  pn += "]";
  Ev("Begin").str("family", im.family).str("kind", im.kind).i("size", (long long)im.bytes.size()).i("infoLen", (long long)im.infoLen)
      .i("preLen", (long long)im.preLen).raw("paths", pn).bytes("img", im.bytes.data(), im.bytes.size()).i("attempts", (long long)at.size()).emit();
  for (size_t i = 0; i < at.size(); i++) {
    const Attempt& a = at[i]; const Result& r = g_sh->res[i];
    Ev e("Attempt");
    e.str("family", im.family).str("kind", im.kind).str("path", im.paths[a.path].name).str("mode", MODE[a.mode]);
    e.i("n", a.n).i("pos", a.mode == M_CORRUPT ? (long long)a.pos : -1).i("val", a.mode == M_CORRUPT ? (long long)a.val : -1);
    e.i("size", (long long)im.bytes.size()).i("infoLen", (long long)im.infoLen).i("preLen", (long long)im.preLen);
    e.str("outcome", OUTCOME[r.outcome]).str("stage", STAGE[r.stage <= ST_DONE ? r.stage : ST_DONE]).i("off", r.off).i("leak", r.leak).str("what", r.what);
    e.str("build", GB_ASAN ? "asan" : "plain");
    e.emit();
    g_attempts++;
  }
  munmap(m, shbytes);
  g_sh = nullptr;
}

int main(int argc, char** argv) {
  // deterministic address space: uninitialised reads in the library then give the same garbage on every run
  if (!getenv("READER_REC_NOASLR")) {
    setenv("READER_REC_NOASLR", "1", 1);
    if (personality(ADDR_NO_RANDOMIZE) != -1) execv("/proc/self/exe", argv);
  }
  const long seed = vt::argl(argc, argv, "--seed", 1);
  const std::string tier = vt::arg(argc, argv, "--tier", "quick");
  const long group = vt::argl(argc, argv, "--group", 0), groups = vt::argl(argc, argv, "--groups", 1);
  const char* only = vt::arg(argc, argv, "--only", nullptr);
  const char* out = vt::arg(argc, argv, "--out", nullptr);
  const bool list = vt::arg(argc, argv, "--list", nullptr) != nullptr;
  const long vals_mode = vt::argl(argc, argv, "--allvals", tier == "thorough" ? 1 : 0);
  vt::Rng rng((uint64_t)seed); g_rng = &rng;
  random_utils::override_seed((uint64_t)seed);
  // the library's fair coin (KLL / REQ / classic / density compaction) comes from the driver's seeded generator, so every
  // process builds the same catalogue
  random_utils::random_bit.source = +[](void* c) -> uint32_t { return (uint32_t)(static_cast<vt::Rng*>(c)->next() >> 33); };
  random_utils::random_bit.context = &rng;

  build_catalogue(tier == "thorough");
  size_t maxlen = 0;
  for (auto& im : g_images) maxlen = std::max(maxlen, im.bytes.size());
  if (list) {
    for (size_t i = 0; i < g_images.size(); i++) {
      auto& im = g_images[i];
      printf("%3zu %-12s %-28s size=%zu pre=%zu info=%zu paths=%zu\n", i, im.family.c_str(), im.kind.c_str(), im.bytes.size(), im.preLen, im.infoLen, im.paths.size());
    }
    return 0;
  }
  if (!out) { fprintf(stderr, "usage: reader_rec --out FILE [--seed N] [--tier quick|thorough] [--group g --groups G] [--only family[/kind]]\n"); return 3; }
  vt::open_out(out);
  g_gb.init(maxlen + 64, (size_t)64 << 20);
  // distribute images over groups by cost (round robin over the size-sorted order keeps groups balanced)
  std::vector<size_t> order(g_images.size());
  for (size_t i = 0; i < order.size(); i++) order[i] = i;
  std::stable_sort(order.begin(), order.end(), [](size_t a, size_t b) { return g_images[a].bytes.size() * g_images[a].paths.size() > g_images[b].bytes.size() * g_images[b].paths.size(); });
  std::vector<size_t> mine;
  for (size_t r = 0; r < order.size(); r++) if ((long)(r % groups) == group) mine.push_back(order[r]);
  std::sort(mine.begin(), mine.end());
  for (size_t i : mine) {
    const Image& im = g_images[i];
    if (only) {
      std::string o(only), fk = im.family + "/" + im.kind;
      if (o != im.family && o != fk) continue;
    }
    run_image(im, (int)vals_mode);
  }
  vt::close_out();
  fprintf(stderr, "reader_rec: %zu images in catalogue, %ld attempts, %ld forks\n", g_images.size(), g_attempts, g_forks);
  return 0;
}
