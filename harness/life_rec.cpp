// C19 lifecycle harness: replays TLC-generated behaviours (spec/GenLifecycle.tla) of the lifecycle alphabet on
// the REAL sketch / operator classes, instantiated on the tracking allocator (track_alloc.hpp) and, where the
// family is generic, on the instrumented item type (probe_item.hpp).  It only LOGS: per call one "Step" event
// with the call, the digests of all live slots after it, and the environment events (blocks allocated /
// deallocated, items constructed / destroyed / read) the call produced.  spec/TraceLifecycle.tla validates the trace against the contract spec/Lifecycle.tla.
//
//   life_rec --in <prefix> --nfiles <n> --fams kll,req,... --chunk <k> --of <N> [--stride S --offset O] --out trace.ndjson
//
// Behaviours b with (b mod N == k) [and (b / N) mod S == O mod S] are replayed for every family of --fams; each
// (family, behaviour) is one trace segment (Begin, the behaviour's calls, then Destroy of whatever is left).  Every family batch runs in a forked child; if the
// child dies (signal, abort, sanitizer report, alarm) the parent appends a Crash event to the open segment
// and restarts the batch after that behaviour.
//
// Determinism (Deterministic clause: equal histories => equal digests): before EVERY library call the
// library's generator is re-seeded (random_utils::override_seed) and its fair coin is served from a constant
// source re-started at the same state (random_utils::random_bit hook).
#include <sys/mman.h>
#include <sys/wait.h>
#include <unistd.h>
#include <csignal>
#include <sstream>
#include <fstream>
#include <algorithm>

#include "vtrace.hpp"
#include "track_alloc.hpp"
#include "probe_item.hpp"

#include "common_defs.hpp"
#include "life_families.hpp"

#if !defined(__SANITIZE_ADDRESS__)
// Observer of memory obtained OUTSIDE the user's allocator: every form of the global operator new is replaced and counted
// while a library call is in progress (life::rt.quiet == 0: set by Runner::call around each replayed call and around the
// digest observation; the harness's own bookkeeping and the adapters' own containers run under life::Quiet).  The count is
// logged per event (fields gnew / gobs) and judged by spec/TraceLifecycle.tla (clause no-global-allocation-inside-library-call).
static inline void* life_gnew(std::size_t n) { if (life::rt.quiet == 0) ++life::rt.foreign; void* p = malloc(n ? n : 1); return p; }
void* operator new(std::size_t n) { void* p = life_gnew(n); if (!p) throw std::bad_alloc(); return p; }
void* operator new[](std::size_t n) { void* p = life_gnew(n); if (!p) throw std::bad_alloc(); return p; }
// the nothrow forms are what libstdc++'s std::get_temporary_buffer (scratch of std::inplace_merge / std::stable_sort) uses:
// counted separately (field gtmp), see the exclusions documented in spec/TraceLifecycle.tla
static inline void* life_gtmp(std::size_t n) { if (life::rt.quiet == 0) ++life::rt.foreign_tmp; return malloc(n ? n : 1); }
void* operator new(std::size_t n, const std::nothrow_t&) noexcept { return life_gtmp(n); }
void* operator new[](std::size_t n, const std::nothrow_t&) noexcept { return life_gtmp(n); }
static inline void* life_gnew_al(std::size_t n, std::size_t al) { if (life::rt.quiet == 0) ++life::rt.foreign; void* p = nullptr; if (posix_memalign(&p, al < sizeof(void*) ? sizeof(void*) : al, n ? n : 1)) p = nullptr; return p; }
void* operator new(std::size_t n, std::align_val_t al) { void* p = life_gnew_al(n, (std::size_t)al); if (!p) throw std::bad_alloc(); return p; }
void* operator new[](std::size_t n, std::align_val_t al) { void* p = life_gnew_al(n, (std::size_t)al); if (!p) throw std::bad_alloc(); return p; }
void* operator new(std::size_t n, std::align_val_t al, const std::nothrow_t&) noexcept { return life_gnew_al(n, (std::size_t)al); }
void* operator new[](std::size_t n, std::align_val_t al, const std::nothrow_t&) noexcept { return life_gnew_al(n, (std::size_t)al); }
void operator delete(void* p) noexcept { free(p); }
void operator delete[](void* p) noexcept { free(p); }
void operator delete(void* p, std::size_t) noexcept { free(p); }
void operator delete[](void* p, std::size_t) noexcept { free(p); }
void operator delete(void* p, const std::nothrow_t&) noexcept { free(p); }
void operator delete[](void* p, const std::nothrow_t&) noexcept { free(p); }
void operator delete(void* p, std::align_val_t) noexcept { free(p); }
void operator delete[](void* p, std::align_val_t) noexcept { free(p); }
void operator delete(void* p, std::size_t, std::align_val_t) noexcept { free(p); }
void operator delete[](void* p, std::size_t, std::align_val_t) noexcept { free(p); }
static const int LIFE_GNEW_OBSERVED = 1;
#else
static const int LIFE_GNEW_OBSERVED = 0;   // AddressSanitizer owns operator new in this build: gnew is logged as 0
extern "C" const char* __asan_default_options() { return "detect_leaks=0:abort_on_error=0:exitcode=97:allocator_may_return_null=1"; }
#endif

namespace life {

struct StepIn { std::string k, op; int i, j, c; };
typedef std::vector<StepIn> Beh;

// tolerant reader of TLC's ndJsonSerialize output: one JSON array of flat objects per line
static bool parse_line(const std::string& ln, Beh& out) {
  out.clear();
  size_t p = 0;
  while ((p = ln.find('{', p)) != std::string::npos) {
    size_t q = ln.find('}', p);
    if (q == std::string::npos) return false;
    std::string o = ln.substr(p + 1, q - p - 1);
    StepIn s; s.i = s.j = s.c = 0;
    size_t a = 0;
    while (a < o.size()) {
      size_t k1 = o.find('"', a); if (k1 == std::string::npos) break;
      size_t k2 = o.find('"', k1 + 1);
      std::string key = o.substr(k1 + 1, k2 - k1 - 1);
      size_t col = o.find(':', k2);
      size_t v = col + 1;
      std::string val;
      if (o[v] == '"') { size_t v2 = o.find('"', v + 1); val = o.substr(v + 1, v2 - v - 1); a = v2 + 1; }
      else { size_t v2 = o.find(',', v); if (v2 == std::string::npos) v2 = o.size(); val = o.substr(v, v2 - v); a = v2; }
      if (key == "k") s.k = val; else if (key == "op") s.op = val;
      else if (key == "i") s.i = atoi(val.c_str()); else if (key == "j") s.j = atoi(val.c_str()); else if (key == "c") s.c = atoi(val.c_str());
    }
    out.push_back(s);
    p = q + 1;
  }
  return !out.empty();
}

static uint64_t fnv(const std::vector<uint8_t>& b) {
  uint64_t h = 1469598103934665603ULL ^ (b.size() * 0x9E3779B97F4A7C15ULL);
  for (uint8_t x : b) { h ^= x; h *= 1099511628211ULL; }
  return h;
}

static uint64_t g_coin_state;
static inline void fix_randomness() {
  datasketches::random_utils::override_seed(0x5eedc19ULL);
  datasketches::random_utils::next_double.reset();
  datasketches::random_utils::next_uint64.reset();
  g_coin_state = 0x243F6A8885A308D3ULL;
  datasketches::random_utils::random_bit.context = &g_coin_state;
  datasketches::random_utils::random_bit.source = +[](void* c) -> uint32_t {
    uint64_t* s = static_cast<uint64_t*>(c);
    *s = *s * 6364136223846793005ULL + 1442695040888963407ULL;
    return static_cast<uint32_t>(*s >> 63);
  };
}

template<class V> static void json_list(std::string& s, const char* key, const V& v, bool first = false) {
  if (!first) s += ",";
  s += "\""; s += key; s += "\":[";
  bool f = true;
  for (auto& x : v) { if (!f) s += ","; f = false; s += std::to_string(x); }
  s += "]";
}
template<class V> static void json_tuples(std::string& s, const char* key, const V& v, bool first = false) {
  if (!first) s += ",";
  s += "\""; s += key; s += "\":[";
  bool f = true;
  for (auto& t : v) {
    if (!f) s += ",";
    f = false; s += "[";
    for (size_t n = 0; n < t.size(); n++) { if (n) s += ","; s += std::to_string(t[n]); }
    s += "]";
  }
  s += "]";
}
// serial lists are written as runs [lo,hi] of consecutive serials, in logging order (a repeated serial stays visible as
// overlapping runs)
static void json_runs(std::string& s, const char* key, const std::vector<long>& v) {
  s += ",\""; s += key; s += "\":[";
  size_t n = 0; bool f = true;
  while (n < v.size()) {
    size_t m = n;
    while (m + 1 < v.size() && v[m + 1] == v[m] + 1) m++;
    if (!f) s += ",";
    f = false;
    s += "[" + std::to_string(v[n]) + "," + std::to_string(v[m]) + "]";
    n = m + 1;
  }
  s += "]";
}
static std::string env_json() {
  std::sort(rt.iu.begin(), rt.iu.end()); rt.iu.erase(std::unique(rt.iu.begin(), rt.iu.end()), rt.iu.end());
  std::sort(rt.im.begin(), rt.im.end()); rt.im.erase(std::unique(rt.im.begin(), rt.im.end()), rt.im.end());
  std::sort(rt.idt.begin(), rt.idt.end());      // duplicates are kept: they are what "destroyed twice" looks like
  std::string s = "{";
  json_tuples(s, "A", rt.A, true); json_tuples(s, "F", rt.F);
  json_runs(s, "ic", rt.ic); json_tuples(s, "ov", rt.ov); json_runs(s, "id", rt.idt); json_runs(s, "iu", rt.iu); json_list(s, "im", rt.im);
  s += "}";
  rt.clear_env();
  return s;
}

static volatile long* g_progress = nullptr;   // shared with the parent: behaviour index being replayed

template<class Ad> struct Runner {
  typedef typename Ad::S S;
  enum { NS = 3 };
  alignas(S) unsigned char buf[NS + 1][sizeof(S)];
  int st[NS + 1];          // 0 dead, 1 live, 2 moved-from (the harness follows the behaviour to know what to observe)
  int next_alloc;
  S& at(int i) { return *reinterpret_cast<S*>(buf[i]); }

  template<class F> bool call(F f, std::string& what) {
    fix_randomness();
    rt.foreign = 0; rt.foreign_tmp = 0;
    ++rt.step_no;
    rt.quiet = 0;
    bool ok = true;
    try { f(); }
    catch (const std::exception& e) { rt.quiet = 1; ok = false; what = e.what(); }
    catch (...) { rt.quiet = 1; ok = false; what = "unknown exception"; }
    rt.quiet = 1;
    return ok;
  }

  // one call of the alphabet; returns false if the library threw
  bool step(const StepIn& s, bool teardown) {
    const int i = s.i, j = s.j, c = s.c;
    std::string what;
    long foreign = 0, gtmp = 0;
    bool ok = true;
    const std::string& k = s.k;
    if (k == "Construct") { int a = next_alloc++; ok = call([&] { Ad::construct(buf[i], a); }, what); st[i] = 1; }
    else if (k == "Mutate") { int o = s.op == "few" ? 0 : s.op == "many" ? 1 : 2; ok = call([&] { Ad::mutate(at(i), o); }, what); }
    else if (k == "CopyConstruct") { ok = call([&] { new (buf[j]) S(at(i)); }, what); st[j] = 1; }
    else if (k == "MoveConstruct") { ok = call([&] { new (buf[j]) S(std::move(at(i))); }, what); st[j] = 1; st[i] = 2; }
    else if (k == "CopyAssign") { ok = call([&] { copy_assign_impl<Ad, S>(at(j), at(i), 0); }, what); st[j] = 1; }
    else if (k == "MoveAssign") { ok = call([&] { at(j) = std::move(at(i)); }, what); st[j] = 1; st[i] = 2; }
    else if (k == "SelfAssign") { ok = call([&] { S& r = at(i); copy_assign_impl<Ad, S>(at(i), r, 0); }, what); }
    else if (k == "ChainAssign") { ok = call([&] { copy_assign_impl<Ad, S>(at(i), copy_assign_impl<Ad, S>(at(j), at(c), 0), 0); }, what); st[i] = st[j] = 1; }
    else if (k == "MergeRef") { ok = call([&] { Ad::merge(at(i), at(j)); }, what); }                              // operand: non-const lvalue
    else if (k == "MergeCRef") { ok = call([&] { Ad::merge(at(i), const_cast<const S&>(at(j))); }, what); }        // operand: const lvalue
    else if (k == "MergeMove") { ok = call([&] { Ad::merge_move(at(i), std::move(at(j))); }, what); st[j] = 2; }
    else if (k == "Serialize") { ok = call([&] { Ad::serialize(const_cast<const S&>(at(i))); }, what); }
    else if (k == "Reset") { int a = next_alloc++; ok = call([&] { Ad::reset(at(i), a); }, what); }
    else if (k == "Destroy") { ok = call([&] { at(i).~S(); }, what); st[i] = 0; }
    else { fprintf(stderr, "life_rec: unknown step kind %s\n", k.c_str()); exit(3); }
    foreign = rt.foreign; gtmp = rt.foreign_tmp;
    if (!ok) {
      vt::Ev("Exception").str("fam", Ad::name()).str("k", k).i("i", i).i("j", j).str("what", what).raw("env", env_json()).emit();
      return false;
    }
    // observation: digest of every live slot (its events belong to the same step)
    long gobs = 0;
    std::string D = "[";
    for (int sl = 1; sl <= NS; sl++) {
      if (sl > 1) D += ",";
      if (st[sl] == 1) {
        std::vector<uint8_t> img;
        bool ok2 = call([&] { Ad::image(const_cast<const S&>(at(sl)), img); }, what);
        if (!ok2) {
          vt::Ev("Exception").str("fam", Ad::name()).str("k", "Digest").i("i", sl).i("j", 0).str("what", what).raw("env", env_json()).emit();
          return false;
        }
        gobs += rt.foreign; gtmp += rt.foreign_tmp;
        char b[40]; snprintf(b, sizeof b, "\"B:%016llx\"", (unsigned long long)fnv(img));
        D += b;
      } else D += "0";
    }
    D += "]";
    vt::Ev e("Step");
    e.str("fam", Ad::name()).str("k", k).i("i", i).i("j", j).i("c", c).str("op", s.op).raw("D", D).raw("env", env_json()).i("gnew", foreign).i("gobs", gobs).i("gtmp", gtmp);
    if (teardown) e.b("td", true);
    e.emit();
    return true;
  }

  void run(const Beh& b, long idx) {
    for (int s = 0; s <= NS; s++) st[s] = 0;
    next_alloc = 11;
    rt.begin_segment();
    vt::Ev("Begin").str("fam", Ad::name()).i("beh", idx).i("steps", (long)b.size()).emit();
    bool ok = true;
    for (size_t n = 0; n < b.size() && ok; n++) ok = step(b[n], false);
    if (ok) {
      // teardown: destroy whatever still exists, lowest slot first; then nothing may remain allocated
      for (int s = 1; s <= NS && ok; s++) if (st[s] != 0) { StepIn d; d.k = "Destroy"; d.i = s; d.j = d.c = 0; ok = step(d, true); }
    }
    // (no End event: "nothing remains when the last object dies" is judged at the step that destroys the last object)
    // after an exception the segment is abandoned (it is rejected at the Exception event); objects are leaked on purpose
  }
};

template<class Ad> static auto warm_up(int) -> decltype(Ad::warm_up()) { Ad::warm_up(); }
template<class Ad> static void warm_up(long) {}
template<class Ad> static void run_family(const std::vector<Beh>& behs, const std::vector<long>& idx, long from) {
  static Runner<Ad> r;
  warm_up<Ad>(0);     // process-wide, allocator-independent initialisation of a family (documented per adapter), outside any call
  for (size_t n = from; n < behs.size(); n++) {
    *g_progress = (long)n;
    r.run(behs[n], idx[n]);
  }
}

typedef void (*FamFn)(const std::vector<Beh>&, const std::vector<long>&, long);
struct FamEntry { const char* name; FamFn fn; };

#define FAM(Ad) { Ad::name(), &run_family<Ad> }
static const FamEntry FAMILIES[] = { LIFE_FAMILY_TABLE };

} // namespace life

int main(int argc, char** argv) {
  using namespace life;
  const char* in = vt::arg(argc, argv, "--in", nullptr);
  const char* out = vt::arg(argc, argv, "--out", nullptr);
  std::string fams = vt::arg(argc, argv, "--fams", "kll");
  long nfiles = vt::argl(argc, argv, "--nfiles", 1), chunk = vt::argl(argc, argv, "--chunk", 0), of = vt::argl(argc, argv, "--of", 1);
  long stride = vt::argl(argc, argv, "--stride", 1), offset = vt::argl(argc, argv, "--offset", 0), limit = vt::argl(argc, argv, "--limit", 0);
  long child_alarm = vt::argl(argc, argv, "--alarm", 600), echo_above = vt::argl(argc, argv, "--echo-above", 0);
  if (!in || !out) { fprintf(stderr, "usage: life_rec --in prefix --nfiles n --fams a,b --chunk k --of N --out file\n"); return 3; }
  std::vector<Beh> behs; std::vector<long> idx;
  long b = 0;
  for (long f = 0; f < nfiles; f++) {
    std::ifstream is(std::string(in) + "." + std::to_string(f));
    if (!is) { fprintf(stderr, "life_rec: cannot read %s.%ld\n", in, f); return 3; }
    std::string ln;
    while (std::getline(is, ln)) {
      if (ln.empty()) continue;
      if (b % of == chunk) {
        Beh x; if (!parse_line(ln, x)) { fprintf(stderr, "life_rec: bad behaviour line %ld\n", b); return 3; }
        long muts = 0; for (auto& st : x) if (st.k == "Mutate") muts++;
        // behaviours with more Mutate calls than the generator's quota contain an "echo" Mutate (GenLifecycle.tla): they are
        // the ones that make two objects' histories equal again after a copy, and are replayed regardless of the stride
        if ((b / of) % stride == offset % stride || (echo_above > 0 && muts > echo_above)) { behs.push_back(x); idx.push_back(b); }
      }
      b++;
    }
  }
  if (limit > 0 && (long)behs.size() > limit) { behs.resize(limit); idx.resize(limit); }
  { FILE* f = fopen(out, "w"); if (!f) { perror(out); return 3; } fclose(f); }
  g_progress = static_cast<volatile long*>(mmap(nullptr, 4096, PROT_READ | PROT_WRITE, MAP_SHARED | MAP_ANONYMOUS, -1, 0));
  std::stringstream ss(fams); std::string fam;
  while (std::getline(ss, fam, ',')) {
    const FamEntry* fe = nullptr;
    for (auto& e : FAMILIES) if (fam == e.name) fe = &e;
    if (!fe) { fprintf(stderr, "life_rec: unknown family %s\n", fam.c_str()); return 3; }
    long from = 0;
    while (from < (long)behs.size()) {
      *g_progress = from;
      fflush(nullptr);
      pid_t pid = fork();
      if (pid < 0) { perror("fork"); return 3; }
      if (pid == 0) {
        alarm((unsigned)child_alarm);
        vt::g_out = fopen(out, "a");
        if (!vt::g_out) _exit(3);
        setvbuf(vt::g_out, nullptr, _IOLBF, 1 << 20);   // one write() per event line: a crash never leaves a torn line
        fe->fn(behs, idx, from);
        fclose(vt::g_out);
        vt::child_exit(0);
      }
      int status = 0;
      waitpid(pid, &status, 0);
      if (WIFEXITED(status) && WEXITSTATUS(status) == 0) break;
      if (WIFEXITED(status) && WEXITSTATUS(status) == 3) { fprintf(stderr, "life_rec: child cannot write %s\n", out); return 3; }
      // the implementation crashed inside behaviour *g_progress: close its segment with a Crash event
      long at = *g_progress;
      FILE* f = fopen(out, "a");
      fprintf(f, "{\"e\":\"Crash\",\"fam\":\"%s\",\"beh\":%ld,\"signal\":%d,\"exit\":%d}\n", fe->name, idx[at],
              WIFSIGNALED(status) ? WTERMSIG(status) : 0, WIFEXITED(status) ? WEXITSTATUS(status) : 0);
      fclose(f);
      from = at + 1;
    }
  }
  return 0;
}
