// Recording driver for density_sketch<T, Kernel> (C20) with serialization events (C09).
// Randomized histories on the real classes, one ND-JSON event per public call.  The harness only LOGS: point ids
// (index into the segment's pool of integer points, 0 = not a pool point), counters, the points seen through the
// iterator with their weights, to_string() level sizes, and estimates scaled to integers (round(est * n * S)); every
// expected value - in particular the exact kernel sum - is computed by spec/TraceDensity.tla.
//
// Kernels: the integer-valued L1 "tent" kernel K(p,q) = max(0, R - |p-q|_1) on integer points (a user-supplied
// kernel, so that exact-mode estimates are exact integers / n), and the library's default Gaussian kernel.
// The library's coin (random_utils::random_bit) is supplied through the verification hook from a seeded generator,
// random_utils::rand (the shuffle) is seeded with random_utils::override_seed: runs are deterministic.
#include <memory>
#include <sstream>
#include <algorithm>
#include <map>
#include <density_sketch.hpp>
#include "vtrace.hpp"

using namespace datasketches;
using vt::Ev;

template<class T> struct tent_kernel {
  double R = 1;
  T operator()(const std::vector<T>& a, const std::vector<T>& b) const {
    double d = 0; for (size_t i = 0; i < a.size() && i < b.size(); i++) d += std::fabs((double)a[i] - (double)b[i]);
    return (T)std::max(0.0, R - d);
  }
};

static long field(const std::string& s, const char* label) {
  size_t p = s.find(label);
  if (p == std::string::npos) { fprintf(stderr, "to_string: no field %s\n", label); exit(3); }
  p = s.find(':', p);
  return atol(s.c_str() + p + 1);
}

static vt::Rng* g_coin = nullptr;
static uint32_t coin_source(void*) { return (uint32_t)(g_coin->next() >> 63); }

template<class T, class K> struct Driver {
  using DS = density_sketch<T, K>;
  static const int NS = 3, NB = 4;
  vt::Rng& g; int serde_pct; int hdr_pct = 70; int bigk_pct = 0; bool far = false; bool gauss; K kernel; double R; long S;
  std::vector<std::vector<long>> pts;              // pool, id = index + 1
  std::map<std::vector<long>, int> idof;
  double scale = 1;                                // Gaussian: coordinates are pool integers * scale
  std::unique_ptr<DS> sk[NS + 1]; bool rst[NS + 1] = {false, false, false, false};   // slot NS: directed segments only
  std::vector<uint8_t> blob[NB]; bool blive[NB] = {false, false, false, false}; bool btop[NB] = {false, false, false, false};

  Driver(vt::Rng& g_, int serde, bool gs) : g(g_), serde_pct(serde), gauss(gs) {}

  std::vector<T> vec(const std::vector<long>& c) const { std::vector<T> v; for (long x : c) v.push_back((T)((double)x * scale)); return v; }
  int lookup(const std::vector<T>& v) const {
    std::vector<long> c; for (T x : v) { double r = (double)x / scale; long n = llround(r); if ((double)n != r) return 0; c.push_back(n); }
    auto it = idof.find(c); return it == idof.end() ? 0 : it->second;
  }

  // the observable state: counters, iterator, to_string level sizes
  void post(Ev& e, const DS& s, bool restored, bool wide = false) {
    std::string ts(s.to_string(true, false).c_str());
    long nlev = field(ts, "Levels         ");
    std::vector<long> lsz;
    size_t p = ts.find("height: size");
    for (long h = 0; h < nlev && p != std::string::npos; h++) {
      std::string key = "   " + std::to_string(h) + ": ";
      p = ts.find(key, p); if (p == std::string::npos) break;
      lsz.push_back(atol(ts.c_str() + p + key.size())); p += key.size();
    }
    std::vector<std::vector<long>> lev((size_t)std::max(nlev, 1L));
    long itn = 0, badw = 0;
    for (auto it = s.begin(); it != s.end(); ++it) {
      auto pr = *it; itn++;
      uint64_t w = pr.second; int h = 0; while ((1ULL << h) < w && h < 62) h++;
      if ((1ULL << h) != w) { badw++; continue; }
      if ((size_t)h >= lev.size()) lev.resize((size_t)h + 1);
      std::vector<T> v(pr.first.begin(), pr.first.end());
      lev[(size_t)h].push_back(v.size() == s.get_dim() ? lookup(v) : 0);
    }
    e.i("k", s.get_k()).i("dim", s.get_dim());
    if (wide) e.raw("n", "[" + std::to_string(s.get_n() & 0xffffffULL) + "," + std::to_string(s.get_n() >> 24) + "]");   // two limbs: n may exceed 2^32
    else e.i("n", (long long)s.get_n());
    e.i("retained", s.get_num_retained()).b("est", s.is_estimation_mode())
     .b("empty", s.is_empty()).i("nlev", nlev).il("lsz", lsz).i("itn", itn).i("badw", badw);
    e.key("lev"); e.s += "[";
    for (size_t h = 0; h < lev.size(); h++) { if (h) e.s += ","; e.s += "["; for (size_t j = 0; j < lev[h].size(); j++) { if (j) e.s += ","; e.s += std::to_string(lev[h][j]); } e.s += "]"; }
    e.s += "]";
    if (restored) e.b("restored", true);
  }

  void mk(int i, uint32_t dim, int fixed_k = 0) {
    static const int KS[] = {2, 2, 3, 4, 5, 8, 12, 16};
    int k = far ? KS[g.below(3)] : KS[g.below(8)];
    if (!far && (int)g.below(100) < bigk_pct) k = (int[]){24, 32, 48, 64}[g.below(4)];   // thorough tier   // far segments: small k, so that whole levels of mutually far points get compacted
    if (fixed_k) k = fixed_k;
    sk[i].reset(new DS((uint16_t)k, dim, kernel)); rst[i] = false;
    Ev e("New"); e.i("id", i); post(e, *sk[i], false); e.emit();
  }

  // ---- C09 "restore, then continue" (directed, in every run): an image taken at the EMPTY state and at exactly ONE point,
  // restored through bytes and stream; the restored sketch and the original then receive the same updates and merges with
  // the SAME coin and shuffle seeds (so the two runs are deterministic and must stay identical), are queried, and are
  // used as merge operands of two equal fresh sketches.
  void reseed(uint64_t s) { *g_coin = vt::Rng(s); random_utils::override_seed(s); }
  void ev_update(int i, int pid) { sk[i]->update(vec(pts[pid - 1])); Ev e("Update"); e.i("id", i).i("p", pid); post(e, *sk[i], rst[i]); e.emit(); }
  void ev_merge(int dst, int src) {
    bool threw = false; try { sk[dst]->merge(*sk[src]); } catch (const std::invalid_argument&) { threw = true; }
    Ev e("Merge"); e.i("dst", dst).i("src", src).b("threw", threw); post(e, *sk[dst], rst[dst]); e.emit();
  }
  void ev_est(int i, const std::vector<long>& q) {
    bool threw = false; double est = 0;
    try { est = (double)sk[i]->get_estimate(vec(q)); } catch (const std::exception&) { threw = true; }
    double scaled = est * (double)sk[i]->get_n() * (double)S;
    Ev e("Est"); e.i("id", i).il("q", q).b("threw", threw).b("fin", std::isfinite(est)).b("nonneg", est >= 0)
      .i("estS", std::isfinite(scaled) && std::fabs(scaled) < 2e9 ? llround(scaled) : -1).d("estD", std::isfinite(est) ? est : 0.0);
    if (rst[i]) e.b("restored", true);
    e.emit();
  }
  void ev_twin(int a, int b) { Ev("Twin").i("a", a).i("b", b).emit(); }
  void restore_body(uint32_t dim) {
    std::vector<int> ids; for (size_t j = 0; j < pts.size(); j++) if (pts[j].size() == dim) ids.push_back((int)j + 1);
    static const int KS[] = {2, 3, 5, 8};
    int combo = 0;
    for (int state = 0; state < 2; state++) for (int path = 0; path < 2; path++) for (int kk = 0; kk < 2; kk++, combo++) {
      const int k = KS[(combo + kk) % 4];
      mk(0, dim, k);
      if (state == 1) ev_update(0, ids[g.below(ids.size())]);
      auto bytes0 = sk[0]->serialize();
      std::ostringstream os; sk[0]->serialize(os); std::string st = os.str();
      { Ev e("Ser"); e.i("src", 0).i("blob", 0).b("top_empty", false).i("hdr", 0).b("threw", false).i("bytes", (long long)bytes0.size())
          .i("size", (long long)bytes0.size()).bytes("img", bytes0.data(), bytes0.size()).bytes("simg", st.data(), st.size())
          .bytes("himg", bytes0.data(), bytes0.size()); e.emit(); }
      long long consumed;
      if (path == 0) { sk[1].reset(new DS(DS::deserialize(bytes0.data(), bytes0.size(), kernel))); consumed = (long long)bytes0.size(); }
      else { std::istringstream is(st + std::string(16, '\x5a')); sk[1].reset(new DS(DS::deserialize(is, kernel))); consumed = (long long)is.tellg(); }
      rst[1] = true;
      { auto re = sk[1]->serialize();
        Ev e("Deser"); e.i("blob", 0).b("blob_top_empty", false).i("dst", 1).str("path", path ? "stream" : "bytes").i("consumed", consumed).bytes("reimg", re.data(), re.size());
        post(e, *sk[1], true); e.emit(); }
      ev_twin(0, 1);
      ev_est(0, pts[ids[0] - 1]); ev_est(1, pts[ids[0] - 1]);
      // the same updates with the same coins on both, in two rounds (exact mode, then well into estimation mode)
      for (int round = 0; round < 3; round++) {
        const uint64_t s1 = g.next();
        std::vector<int> ups; for (long u = round == 0 ? g.range(1, k > 2 ? k - 1 : 1) : g.range(k, 6 * k); u > 0; u--) ups.push_back(ids[g.below(ids.size())]);
        reseed(s1); for (int pid : ups) ev_update(0, pid);
        reseed(s1); for (int pid : ups) ev_update(1, pid);
        ev_twin(0, 1);
        for (int q = 0; q < 3; q++) { auto& pt = pts[ids[g.below(ids.size())] - 1]; ev_est(0, pt); ev_est(1, pt); }
        if (round == 1) {   // both as merge TARGETS of the same sketch
          mk(2, dim, k); for (long u = g.range(1, 3 * k); u > 0; u--) ev_update(2, ids[g.below(ids.size())]);
          const uint64_t s2 = g.next();
          reseed(s2); ev_merge(0, 2); reseed(s2); ev_merge(1, 2); ev_twin(0, 1);
        }
      }
      // both as merge OPERANDS of two equal fresh sketches
      { const uint64_t s3 = g.next(); std::vector<int> ups; for (long u = g.range(0, 3 * k); u > 0; u--) ups.push_back(ids[g.below(ids.size())]);
        mk(2, dim, k); mk(3, dim, k);
        reseed(s3); for (int pid : ups) ev_update(2, pid); ev_merge(2, 0);
        reseed(s3); for (int pid : ups) ev_update(3, pid); ev_merge(3, 1);
        ev_twin(2, 3); }
      for (int i : {0, 1, 2, 3}) { Ev e("Obs"); e.i("id", i); post(e, *sk[i], rst[i]); e.emit(); }
    }
    // ---- refused arguments at the wrap-around neighbours of the dimension check: dim + 2^16, dim + 2^17 (2^32 more elements
    // than the configured dimension are not representable here); a refused call must leave the sketch unchanged
    {
      const int big = (int)pts.size();   // the point of dimension dim + 65536
      mk(0, dim, 3); for (int u = 0; u < 5; u++) ev_update(0, ids[g.below(ids.size())]);
      mk(3, dim + 65536, 2); ev_update(3, big);
      auto bad_update = [&](int i, std::vector<T> v) {
        bool threw = false; try { sk[i]->update(v); } catch (const std::invalid_argument&) { threw = true; }
        Ev e("UpdateBad"); e.i("id", i).i("given", (long long)v.size()).b("threw", threw); post(e, *sk[i], rst[i]); e.emit();
      };
      auto bad_merge = [&](int dst, int src) {
        bool threw = false; try { sk[dst]->merge(*sk[src]); } catch (const std::invalid_argument&) { threw = true; }
        Ev e("MergeBad"); e.i("dst", dst).i("src", src).b("threw", threw); post(e, *sk[dst], rst[dst]); e.emit();
      };
      bad_update(0, vec(pts[big - 1]));
      bad_update(0, std::vector<T>(dim + 131072, (T)0));
      bad_update(3, vec(pts[ids[0] - 1]));
      bad_update(3, std::vector<T>(dim + 131072, (T)0));
      bad_merge(0, 3); bad_merge(3, 0);
      { Ev e("Obs"); e.i("id", 0); post(e, *sk[0], false); e.emit(); }
      { Ev e("Obs"); e.i("id", 3); post(e, *sk[3], false); e.emit(); }
    }
    // ---- wide counters: n driven past 2^32 by merging a copy of the sketch into itself 30 times (merge adds n), images
    // through both paths, the restored sketches keep counting
    {
      std::unique_ptr<DS> w[3];
      auto wupd = [&](int i, int pid) { w[i]->update(vec(pts[pid - 1])); Ev e("WStep"); e.i("id", i).str("op", "update").i("p", pid); post(e, *w[i], i >= 1, true); e.emit(); };
      auto wmrg = [&](int i, int src) { DS tmp(*w[src]); w[i]->merge(std::move(tmp)); Ev e("WStep"); e.i("id", i).str("op", "merge").i("src", src); post(e, *w[i], i >= 1, true); e.emit(); };
      w[0].reset(new DS(8, dim, kernel));
      { Ev e("WNew"); e.i("id", 0); post(e, *w[0], false, true); e.emit(); }
      for (int u = 0; u < 8; u++) wupd(0, ids[g.below(ids.size())]);
      for (int d = 0; d < 30; d++) { wmrg(0, 0); if (d % 7 == 3) wupd(0, ids[g.below(ids.size())]); }   // 8 * 2^30 > 2^32
      for (int path = 0; path < 2; path++) {
        auto bytes0 = w[0]->serialize();
        std::ostringstream os; w[0]->serialize(os); std::string st = os.str();
        { Ev e("WSer"); e.i("src", 0).i("blob", path).i("size", (long long)bytes0.size()).bytes("img", bytes0.data(), bytes0.size()).bytes("simg", st.data(), st.size());
          post(e, *w[0], false, true); e.emit(); }
        long long consumed; const int dst = 1 + path;
        if (path == 0) { w[dst].reset(new DS(DS::deserialize(bytes0.data(), bytes0.size(), kernel))); consumed = (long long)bytes0.size(); }
        else { std::istringstream is(st + std::string(16, '\x5a')); w[dst].reset(new DS(DS::deserialize(is, kernel))); consumed = (long long)is.tellg(); }
        auto re = w[dst]->serialize();
        { Ev e("WDeser"); e.i("blob", path).i("dst", dst).str("path", path ? "stream" : "bytes").i("consumed", consumed).bytes("reimg", re.data(), re.size());
          post(e, *w[dst], true, true); e.emit(); }
        wupd(dst, ids[g.below(ids.size())]); wmrg(dst, 0); wmrg(dst, dst);
      }
    }
  }

  // ---- sources in the known-finding state as merge OPERANDS.  A compaction of mutually far points (all kernel values 0, coin 0)
  // promotes nothing; the image of such a sketch ends with an empty level which deserialize() drops (recorded known finding C09,
  // judged at the ordinary Deser events).  Here the restored sketch is ADOPTED without judging its levels, and then "merging adds
  // n" (C20's own clause) is judged on targets it is merged into, and on itself as a target; the same merge of the in-memory
  // source is the control.
  void kf_body(uint32_t dim) {
    std::vector<int> ids; for (size_t j = 0; j < pts.size(); j++) if (pts[j].size() == dim) ids.push_back((int)j + 1);
    if (ids.size() < 8) return;
    std::unique_ptr<DS> w[4];
    auto wnew = [&](int i, int k) { w[i].reset(new DS((uint16_t)k, dim, kernel)); Ev e("WNew"); e.i("id", i); post(e, *w[i], false, true); e.emit(); };
    auto wupd = [&](int i, int pid) { w[i]->update(vec(pts[pid - 1])); Ev e("WStep"); e.i("id", i).str("op", "update").i("p", pid); post(e, *w[i], false, true); e.emit(); };
    auto wmrg = [&](int i, int src, bool rvalue) {
      if (rvalue) { DS tmp(*w[src]); w[i]->merge(std::move(tmp)); } else w[i]->merge(*w[src]);
      Ev e("WStep"); e.i("id", i).str("op", "merge").i("src", src); post(e, *w[i], false, true); e.emit(); };
    for (int path = 0; path < 2; path++) for (int rv = 0; rv < 2; rv++) {
      const int k = 2 + (int)g.below(2);
      std::vector<int> ups; for (int u = 0; u < k + 2; u++) ups.push_back(ids[(size_t)(u * 2 + path) % ids.size()]);   // distinct, mutually far
      uint64_t s = 0; bool found = false;
      for (int tries = 0; tries < 400 && !found; tries++) {   // a coin / shuffle seed for which the source ends with an empty top level
        s = g.next(); reseed(s);
        DS t((uint16_t)k, dim, kernel); for (int pid : ups) t.update(vec(pts[pid - 1]));
        std::string ts(t.to_string(true, false).c_str()); long nl = field(ts, "Levels         ");
        std::string key = "   " + std::to_string(nl - 1) + ": "; size_t p = ts.find(key, ts.find("height: size"));
        found = nl > 1 && p != std::string::npos && atol(ts.c_str() + p + key.size()) == 0 && t.get_num_retained() >= 1 && t.get_num_retained() <= (unsigned)k;
      }
      if (!found) continue;
      wnew(0, k); reseed(s); for (int pid : ups) wupd(0, pid);
      // control: the in-memory source merged into a target
      wnew(3, 4); for (int u = 0; u < 4; u++) wupd(3, ids[g.below(ids.size())]);
      wmrg(3, 0, rv != 0);
      // image of the source, restored through one path, adopted as it is
      auto bytes0 = w[0]->serialize();
      std::ostringstream os; w[0]->serialize(os); std::string st = os.str();
      { Ev e("WSer"); e.i("src", 0).i("blob", path).i("size", (long long)bytes0.size()).bytes("img", bytes0.data(), bytes0.size()).bytes("simg", st.data(), st.size());
        post(e, *w[0], false, true); e.emit(); }
      if (path == 0) w[1].reset(new DS(DS::deserialize(bytes0.data(), bytes0.size(), kernel)));
      else { std::istringstream is(st); w[1].reset(new DS(DS::deserialize(is, kernel))); }
      { Ev e("WAdopt"); e.i("blob", path).i("dst", 1).str("path", path ? "stream" : "bytes"); post(e, *w[1], false, true); e.emit(); }
      // the restored source as a merge operand of a target, and as a target itself
      wnew(2, 4); for (int u = 0; u < 4; u++) wupd(2, ids[g.below(ids.size())]);
      wmrg(2, 1, rv != 0);
      wmrg(1, 3, rv == 0);
    }
  }

  // restore: 0 = random segment, 1 = directed restore / refusal / wide-counter segment, 2 = directed segment with sources in
  // the known-finding state (image with an empty top level) used as merge operands
  void segment(long seg, long events, int far_pct, int restore = 0) {
    uint32_t dim = (uint32_t)g.range(1, 3);
    long W = g.range(2, 9);
    long P = g.range(3, 40);
    far = !restore && !gauss && (int)g.below(100) < far_pct;
    if (restore == 2) { far = true; dim = 2; W = 9; P = 30; }
    pts.clear(); idof.clear();
    const uint32_t alt = dim % 3 + 1;               // a few pool points (and sometimes a sketch) of another dimension
    for (long j = 0; j < P + 4; j++) {
      std::vector<long> c; for (uint32_t d = 0; d < (j < P ? dim : alt); d++) c.push_back(far ? g.range(0, W) * 50 : g.range(0, W));
      if (idof.count(c)) continue;
      pts.push_back(c); idof[c] = (int)pts.size();
    }
    if (restore == 1) {   // one point whose dimension differs from the configured one by exactly 2^16 (wrap-around neighbour of the check)
      std::vector<long> c(dim + 65536, 0); c[0] = 1; c[dim + 65535] = 2;
      pts.push_back(c); idof[c] = (int)pts.size();
    }
    scale = gauss ? 0.25 : 1.0;
    // tent kernel: strictly positive on the whole pool (R > diameter) unless the segment is a "far" one (compact support,
    // most kernel values 0)
    R = far ? (double)g.range(1, restore == 2 ? 40 : 60) : (double)(3 * W + g.range(1, 5));
    S = 16;
    if constexpr (std::is_same<K, tent_kernel<T>>::value) kernel.R = R;
    random_utils::override_seed(1000003ULL * (uint64_t)(seg + 1) + g.next() % 1000);
    Ev b("Begin"); b.i("seg", seg).str("T", sizeof(T) == 8 ? "double" : "float").str("kernel", gauss ? "gauss" : "l1").b("far", far)
      .i("R", (long long)R).i("S", S).d("zero", 0.0);
    b.key("pts"); b.s += "[";
    for (size_t j = 0; j < pts.size(); j++) { if (j) b.s += ","; b.s += "["; for (size_t d = 0; d < pts[j].size(); d++) { if (d) b.s += ","; b.s += std::to_string(pts[j][d]); } b.s += "]"; }
    b.s += "]"; b.emit();
    for (int i = 0; i <= NS; i++) { sk[i].reset(); rst[i] = false; }
    for (int x = 0; x < NB; x++) blive[x] = false;
    if (restore == 1) { restore_body(dim); return; }
    if (restore == 2) { kf_body(dim); return; }
    mk(0, dim);
    for (long n = 0; n < events; n++) {
      int i = (int)g.below(NS);
      if (!sk[i]) { if (g.chance(30)) { mk(i, g.chance(15) ? alt : dim); continue; } i = 0; }
      DS& s = *sk[i];
      int op = (int)g.below(100);
      const int sp = serde_pct;
      if (far && g.chance(5)) {
        // far segments: two fresh sketches of k = 2 with one or two mutually far points each are merged (the merged
        // level is compacted at once, and with a kernel that is 0 between far points it may keep nothing), then the
        // result is merged into the third sketch
        int a = i, c = (i + 1) % NS, t = (i + 2) % NS;
        for (int j : {a, c}) {
          sk[j].reset(new DS(2, dim, kernel)); rst[j] = false;
          { Ev e("New"); e.i("id", j); post(e, *sk[j], false); e.emit(); }
          for (long u = g.range(1, 2); u > 0; u--) {
            int pid = (int)g.below(pts.size()) + 1;
            if (pts[pid - 1].size() != dim) continue;
            sk[j]->update(vec(pts[pid - 1]));
            Ev e("Update"); e.i("id", j).i("p", pid); post(e, *sk[j], false); e.emit();
          }
        }
        { sk[a]->merge(*sk[c]); Ev e("Merge"); e.i("dst", a).i("src", c).b("threw", false); post(e, *sk[a], false); e.emit(); }
        if (sk[t] && sk[t]->get_dim() == dim) { sk[t]->merge(*sk[a]); Ev e("Merge"); e.i("dst", t).i("src", a).b("threw", false); post(e, *sk[t], rst[t]); e.emit(); }
        continue;
      }
      if (op < 55 - sp) {
        int pid = (int)g.below(pts.size()) + 1;
        for (int t = 0; t < 6 && pts[pid - 1].size() != s.get_dim(); t++) pid = (int)g.below(pts.size()) + 1;
        std::vector<T> v = vec(pts[pid - 1]);
        if (v.size() != s.get_dim()) {   // a pool point of the other dimension: refused
          bool threw = false; try { s.update(v); } catch (const std::invalid_argument&) { threw = true; }
          Ev e("UpdateBad"); e.i("id", i).i("given", (long long)v.size()).b("threw", threw); post(e, s, rst[i]); e.emit();
          continue;
        }
        if (g.chance(50)) s.update(v); else s.update(std::vector<T>(v));   // lvalue and rvalue overloads
        Ev e("Update"); e.i("id", i).i("p", pid); post(e, s, rst[i]); e.emit();
      } else if (op < 59 - sp) {
        // wrong dimension
        std::vector<T> v = vec(pts[g.below(pts.size())]);
        if (g.chance(50)) v.push_back((T)1); else if (v.size() > 1) v.pop_back(); else v.clear();
        if (v.size() == s.get_dim()) continue;
        bool threw = false; try { s.update(v); } catch (const std::invalid_argument&) { threw = true; }
        Ev e("UpdateBad"); e.i("id", i).i("given", (long long)v.size()).b("threw", threw); post(e, s, rst[i]); e.emit();
      } else if (op < 69 - sp) {
        int j = (int)g.below(NS);
        if (j == i || !sk[j]) continue;
        const bool bad = sk[j]->get_dim() != s.get_dim() && sk[j]->get_n() > 0;
        bool threw = false;
        try { if (g.chance(50)) s.merge(*sk[j]); else { DS tmp(*sk[j]); s.merge(std::move(tmp)); } } catch (const std::invalid_argument&) { threw = true; }
        Ev e(bad ? "MergeBad" : "Merge"); e.i("dst", i).i("src", j).b("threw", threw); post(e, s, rst[i]); e.emit();
      } else if (op < 87 - sp) {
        // estimate at a pool point or at another integer point
        std::vector<long> q;
        if (g.chance(60)) { q = pts[g.below(pts.size())]; for (int t = 0; t < 6 && q.size() != s.get_dim(); t++) q = pts[g.below(pts.size())]; } else for (uint32_t d = 0; d < s.get_dim(); d++) q.push_back(g.range(-2, W + 2) * (far ? 50 : 1));
        if (q.size() != s.get_dim()) continue;
        std::vector<T> v = vec(q);
        bool threw = false; double est = 0;
        try { est = (double)s.get_estimate(v); } catch (const std::exception&) { threw = true; }
        double scaled = est * (double)s.get_n() * (double)S;
        Ev e("Est"); e.i("id", i).il("q", q).b("threw", threw).b("fin", std::isfinite(est)).b("nonneg", est >= 0)
          .i("estS", std::isfinite(scaled) && std::fabs(scaled) < 2e9 ? llround(scaled) : -1).d("estD", std::isfinite(est) ? est : 0.0);
        if (rst[i]) e.b("restored", true);
        e.emit();
      } else if (op < 91 - sp) {
        Ev e("Obs"); e.i("id", i); post(e, s, rst[i]); e.emit();
      } else if (op < 94 - sp) {
        int j = (int)g.below(NS);
        if (j == i) continue;
        if (sk[j] && g.chance(50)) *sk[j] = s; else sk[j].reset(new DS(s));
        rst[j] = rst[i];
        Ev e("Copy"); e.i("src", i).i("dst", j); post(e, *sk[j], rst[j]); e.emit();
      } else if (op < 97 - sp) {
        if (g.chance(far ? 70 : 25)) mk(i, g.chance(15) ? alt : dim);
      } else {
        static const unsigned HS[] = {0, 0, 1, 7, 8, 13, 64};
        int b = (int)g.below(NB);
        if (g.chance(55)) {
          unsigned hdr = (int)g.below(100) < hdr_pct ? HS[2 + g.below(5)] : 0;
          auto bytes0 = s.serialize();
          std::ostringstream os; s.serialize(os); std::string st = os.str();
          bool threw = false; std::vector<uint8_t> hb;
          try { auto v = s.serialize(hdr); hb.assign(v.begin(), v.end()); } catch (const std::exception&) { threw = true; }
          blob[b].assign(bytes0.begin(), bytes0.end()); blive[b] = true;
          { // does the image end with an empty level (only possible when a compaction promoted nothing)?
            std::string ts(s.to_string(true, false).c_str()); long nl = field(ts, "Levels         ");
            std::string key = "   " + std::to_string(nl - 1) + ": "; size_t p = ts.find(key, ts.find("height: size"));
            btop[b] = nl > 1 && p != std::string::npos && atol(ts.c_str() + p + key.size()) == 0; }
          Ev e("Ser"); e.i("src", i).i("blob", b).b("top_empty", btop[b]).i("hdr", hdr).b("threw", threw).i("bytes", threw ? -1 : (long long)hb.size())
            .i("size", (long long)bytes0.size()).bytes("img", bytes0.data(), bytes0.size()).bytes("simg", st.data(), st.size());
          if (!threw && hb.size() >= hdr) e.bytes("himg", hb.data() + hdr, hb.size() - hdr); else e.bytes("himg", "", 0);
          if (rst[i]) e.b("restored", true);
          e.emit();
        } else if (blive[b]) {
          int j = (int)g.below(NS); int path = (int)g.below(2); long long consumed;
          if (path == 0) { sk[j].reset(new DS(DS::deserialize(blob[b].data(), blob[b].size(), kernel))); consumed = (long long)blob[b].size(); }
          else {
            std::string in((const char*)blob[b].data(), blob[b].size()); in += std::string(16, '\x5a');
            std::istringstream is(in);
            sk[j].reset(new DS(DS::deserialize(is, kernel))); consumed = (long long)is.tellg();
          }
          rst[j] = true;
          auto re = sk[j]->serialize();
          Ev e("Deser"); e.i("blob", b).b("blob_top_empty", btop[b]).i("dst", j).str("path", path ? "stream" : "bytes").i("consumed", consumed).bytes("reimg", re.data(), re.size());
          post(e, *sk[j], true); e.emit();
        }
      }
    }
    for (int i = 0; i < NS; i++) if (sk[i]) { Ev e("Obs"); e.i("id", i); post(e, *sk[i], rst[i]); e.emit(); }
  }
};
int main(int argc, char** argv) {
  vt::install_terminate();
  uint64_t seed = (uint64_t)vt::argl(argc, argv, "--seed", 1);
  long segments = vt::argl(argc, argv, "--segments", 8);
  long events = vt::argl(argc, argv, "--events", 300);
  int serde_pct = (int)vt::argl(argc, argv, "--serde", 3);
  int far_pct = (int)vt::argl(argc, argv, "--far", 10);
  int hdr_pct = (int)vt::argl(argc, argv, "--hdr", 70);   // share of Ser events that request a header > 0
  int bigk_pct = (int)vt::argl(argc, argv, "--bigk", 0);
  vt::open_out(vt::arg(argc, argv, "--out", "/dev/stdout"));
  vt::Rng g(seed), coin(seed ^ 0x5bd1e995ULL);
  g_coin = &coin;
  random_utils::random_bit.source = coin_source;
  if (vt::argl(argc, argv, "--restore", 0) > 0) {   // directed C09 segments, present in every run of the job
    alarm(60);
    { Driver<double, tent_kernel<double>> d(g, serde_pct, false); d.segment(-1, 0, 0, 1); }
    { Driver<float, tent_kernel<float>> d(g, serde_pct, false); d.segment(-2, 0, 0, 1); }
    { Driver<float, gaussian_kernel<float>> d(g, serde_pct, true); d.segment(-3, 0, 0, 1); }
    { Driver<double, tent_kernel<double>> d(g, serde_pct, false); d.segment(-4, 0, 0, 2); }
    { Driver<float, tent_kernel<float>> d(g, serde_pct, false); d.segment(-5, 0, 0, 2); }
  }
  for (long seg = 0; seg < segments; seg++) {
    alarm(30);    // watchdog: a sketch that loops forever is a finding (the recorder dies by SIGALRM), not a hung check
    int kind = (int)g.below(10);
    if (kind < 4) { Driver<double, tent_kernel<double>> d(g, serde_pct, false); d.hdr_pct = hdr_pct; d.bigk_pct = bigk_pct; d.segment(seg, events, far_pct); }
    else if (kind < 8) { Driver<float, tent_kernel<float>> d(g, serde_pct, false); d.hdr_pct = hdr_pct; d.bigk_pct = bigk_pct; d.segment(seg, events, far_pct); }
    else if (kind < 9) { Driver<double, gaussian_kernel<double>> d(g, serde_pct, true); d.hdr_pct = hdr_pct; d.bigk_pct = bigk_pct; d.segment(seg, events, far_pct); }
    else { Driver<float, gaussian_kernel<float>> d(g, serde_pct, true); d.hdr_pct = hdr_pct; d.bigk_pct = bigk_pct; d.segment(seg, events, far_pct); }
  }
  vt::close_out();
  fprintf(stderr, "density_rec: %ld events (%llu coin flips)\n", vt::g_events, (unsigned long long)random_utils::random_bit.calls);
  return 0;
}
