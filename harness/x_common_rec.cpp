// X09 driver: the small shared helpers of common/include - count_zeros.hpp, ceiling_power_of_2.hpp, inv_pow2_table.hpp,
// common_defs.hpp (log2, lg_size_from_count, byteswap, stream read / write), memory_operations.hpp, serde.hpp (arithmetic and
// std::string) and bounds_binomial_proportions.hpp.  Inputs and results are logged as limbs / byte lists / order tokens;
// every expected value is computed by spec/XCommon.tla.
#include <cstring>
#include <limits>
#include <sstream>
#include <stdexcept>
#include <string>
#include <vector>
#include <common_defs.hpp>
#include <count_zeros.hpp>
#include <ceiling_power_of_2.hpp>
#include <inv_pow2_table.hpp>
#include <memory_operations.hpp>
#include <serde.hpp>
#include <bounds_binomial_proportions.hpp>
#include "vtrace.hpp"

using namespace datasketches;
using vt::Ev;

static std::string limbs(uint64_t v) {
  char b[64]; snprintf(b, sizeof b, "[%u,%u,%u,%u]", (unsigned)(v >> 48) & 0xffff, (unsigned)(v >> 32) & 0xffff, (unsigned)(v >> 16) & 0xffff, (unsigned)v & 0xffff);
  return b;
}
static std::string limb_list(const std::vector<uint64_t>& v) { std::string s = "["; for (size_t i = 0; i < v.size(); i++) { if (i) s += ","; s += limbs(v[i]); } return s + "]"; }
static std::string byte_list(const void* p, size_t n) { std::string s = "["; const uint8_t* q = (const uint8_t*)p; for (size_t i = 0; i < n; i++) { if (i) s += ","; s += std::to_string((int)q[i]); } return s + "]"; }
// what a call did: "ok" or the kind of exception
template<class F> static std::string outcome(F f) {
  try { f(); return "ok"; }
  catch (const std::out_of_range&) { return "out_of_range"; } catch (const std::invalid_argument&) { return "invalid_argument"; }
  catch (const std::runtime_error&) { return "runtime_error"; } catch (const std::exception&) { return "other"; }
}

static std::vector<uint64_t> bit_inputs(vt::Rng& g, int width, int randoms) {
  const uint64_t all = width == 64 ? ~0ULL : ((1ULL << width) - 1);
  std::vector<uint64_t> v = {0, all};
  for (int k = 0; k < width; k++) { const uint64_t b = 1ULL << k; v.push_back(b); v.push_back((b - 1) & all); v.push_back((b + 1) & all); v.push_back((b | (1ULL << (width - 1))) & all); v.push_back((all << k) & all); }
  for (int i = 0; i < randoms; i++) { v.push_back(g.next() & all); v.push_back((g.next() & all) >> g.below((uint64_t)width)); v.push_back(((g.next() & all) << g.below((uint64_t)width)) & all); }
  return v;
}

static void integers(vt::Rng& g, int randoms) {
  Ev("Begin").str("part", "integers").emit();
  for (uint64_t x : bit_inputs(g, 64, randoms)) {
    Ev("Zeros").str("fn", "clz64").i("w", 64).raw("x", limbs(x)).i("r", count_leading_zeros_in_u64(x)).emit();
    Ev("Zeros").str("fn", "ctz64").i("w", 64).raw("x", limbs(x)).i("r", count_trailing_zeros_in_u64(x)).emit();
  }
  for (uint64_t x : bit_inputs(g, 32, randoms)) {
    Ev("Zeros").str("fn", "clz32").i("w", 32).raw("x", limbs(x)).i("r", count_leading_zeros_in_u32((uint32_t)x)).emit();
    Ev("Zeros").str("fn", "ctz32").i("w", 32).raw("x", limbs(x)).i("r", count_trailing_zeros_in_u32((uint32_t)x)).emit();
    Ev("CeilPow2").raw("n", limbs(x)).raw("r", limbs(ceiling_power_of_2((uint32_t)x))).emit();
    Ev("Log2").raw("n", limbs(x)).i("r", datasketches::log2((uint32_t)x)).emit();
  }
  // lg_size_from_count: the load factors the library uses are 1/2 .. 15/16
  const long lfs[][2] = {{1, 2}, {3, 4}, {15, 16}, {7, 8}};
  for (auto& lf : lfs) {
    std::vector<long> ns; for (long n = 1; n <= 70; n++) ns.push_back(n);
    for (int j = 7; j <= 23; j++) { long p = 1L << j; for (long d : {-1L, 0L, 1L}) ns.push_back(p + d); ns.push_back(p * lf[0] / lf[1]); ns.push_back(p * lf[0] / lf[1] + 1); }
    for (int i = 0; i < randoms; i++) ns.push_back(g.range(1, (1L << 24) - 1));
    for (long n : ns) Ev("LgSize").i("n", n).i("num", lf[0]).i("den", lf[1]).i("g", lg_size_from_count((uint32_t)n, (double)lf[0] / (double)lf[1])).emit();
  }
  for (int i = 0; i < 256; i++) { uint64_t bits; memcpy(&bits, &INVERSE_POWERS_OF_2[i], 8); Ev("InvPow2").i("i", i).raw("bits", limbs(bits)).emit(); }
  // byteswap / big-endian read
  for (int i = 0; i < 6 + randoms; i++) {
    const uint64_t x = i == 0 ? 0 : i == 1 ? 0x0102030405060708ULL : i == 2 ? ~0ULL : g.next();
    Ev("Swap").i("size", 8).raw("x", limbs(x)).raw("r", limbs(byteswap<uint64_t>(x))).emit();
    Ev("Swap").i("size", 4).raw("x", limbs((uint32_t)x)).raw("r", limbs(byteswap<uint32_t>((uint32_t)x))).emit();
    Ev("Swap").i("size", 2).raw("x", limbs((uint16_t)x)).raw("r", limbs(byteswap<uint16_t>((uint16_t)x))).emit();
    std::stringstream ss; write<uint64_t>(ss, x); const std::string img = ss.str();
    const uint64_t back = read<uint64_t>(ss);
    std::stringstream s2(img); const uint64_t be = read_big_endian<uint64_t>(s2);
    std::stringstream s3(img.substr(0, 5)); uint64_t dummy = 0;
    const std::string eof = outcome([&] { dummy = read<uint64_t>(s3); });
    Ev("StreamRW").raw("x", limbs(x)).raw("img", byte_list(img.data(), img.size())).raw("back", limbs(back)).raw("bigEndian", limbs(be)).str("shortRead", eof).emit();
  }
  // check_memory_size(requested_index, capacity) / ensure_minimum_memory(bytes_available, min_needed)
  for (long a : {0L, 1L, 7L, 8L, 9L, 1000L}) for (long b : {0L, 1L, 7L, 8L, 9L, 1000L}) {
    Ev("Mem").str("fn", "check_memory_size").i("a", a).i("b", b).str("out", outcome([&] { check_memory_size((size_t)a, (size_t)b); })).emit();
    Ev("Mem").str("fn", "ensure_minimum_memory").i("a", a).i("b", b).str("out", outcome([&] { ensure_minimum_memory((size_t)a, (size_t)b); })).emit();
  }
}

// ---- serde
template<class T> static void serde_num(const char* type, vt::Rng& g, int count) {
  std::vector<T> items; std::vector<uint64_t> raw;
  for (int i = 0; i < count; i++) { uint64_t r = i == 0 ? 0 : i == 1 ? ~0ULL : g.next(); T t; memcpy(&t, &r, sizeof(T)); items.push_back(t); uint64_t z = 0; memcpy(&z, &t, sizeof(T)); raw.push_back(z); }
  serde<T> sd;
  const size_t total = sizeof(T) * items.size();
  std::vector<uint8_t> buf(total + 4, 0xEE);
  size_t ret = 0; const std::string out = outcome([&] { ret = sd.serialize(buf.data(), total, items.data(), (unsigned)items.size()); });
  std::stringstream ss; const std::string outs = outcome([&] { sd.serialize(ss, items.data(), (unsigned)items.size()); }); const std::string simg = ss.str();
  std::vector<T> back(items.size()), backs(items.size()); size_t rret = 0;
  const std::string din = outcome([&] { rret = sd.deserialize(buf.data(), total, back.data(), (unsigned)items.size()); });
  const std::string dins = outcome([&] { sd.deserialize(ss, backs.data(), (unsigned)items.size()); });
  std::vector<uint64_t> rb, rbs; for (size_t i = 0; i < items.size(); i++) { uint64_t z = 0; memcpy(&z, &back[i], sizeof(T)); rb.push_back(z); z = 0; memcpy(&z, &backs[i], sizeof(T)); rbs.push_back(z); }
  // too small a capacity / truncated input at every length
  std::vector<std::string> cut_w, cut_r, cut_s;
  for (size_t cut = 0; cut < total; cut++) {
    std::vector<uint8_t> small(total); std::vector<T> tmp(items.size());
    cut_w.push_back(outcome([&] { sd.serialize(small.data(), cut, items.data(), (unsigned)items.size()); }));
    cut_r.push_back(outcome([&] { sd.deserialize(buf.data(), cut, tmp.data(), (unsigned)items.size()); }));
    std::stringstream cs(simg.substr(0, cut)); cut_s.push_back(outcome([&] { sd.deserialize(cs, tmp.data(), (unsigned)items.size()); }));
  }
  auto strs = [](const std::vector<std::string>& v) { std::string s = "["; for (size_t i = 0; i < v.size(); i++) { if (i) s += ","; s += "\"" + v[i] + "\""; } return s + "]"; };
  Ev("SerdeNum").str("type", type).i("size", (long long)sizeof(T)).raw("items", limb_list(raw)).str("out", out).str("outS", outs).i("ret", (long long)ret).i("rret", (long long)rret)
    .raw("bytes", byte_list(buf.data(), total)).raw("guard", byte_list(buf.data() + total, 4)).raw("sbytes", byte_list(simg.data(), simg.size()))
    .i("sizeOf", (long long)sd.size_of_item(items.empty() ? T() : items[0])).str("din", din).str("dinS", dins).raw("back", limb_list(rb)).raw("backS", limb_list(rbs))
    .raw("cutW", strs(cut_w)).raw("cutR", strs(cut_r)).raw("cutS", strs(cut_s)).emit();
}

static std::string str_list(const std::vector<std::string>& v) { std::string s = "["; for (size_t i = 0; i < v.size(); i++) { if (i) s += ","; s += byte_list(v[i].data(), v[i].size()); } return s + "]"; }
// count < 0: one string of every length 0..-count (every length is exercised in every run)
static void serde_str(vt::Rng& g, int count, int maxlen) {
  std::vector<std::string> items;
  const bool ladder = count < 0; if (ladder) count = -count + 1;
  for (int i = 0; i < count; i++) {
    const int len = ladder ? i : i == 0 ? 0 : (int)g.range(0, maxlen);
    std::string s; for (int j = 0; j < len; j++) s.push_back((char)(g.chance(25) ? 0 : g.next() & 0xff));      // embedded NULs
    items.push_back(s);
  }
  serde<std::string> sd;
  size_t total = 0; std::vector<long long> sizes; for (auto& s : items) { sizes.push_back((long long)sd.size_of_item(s)); total += sd.size_of_item(s); }
  std::vector<uint8_t> buf(total + 4, 0xEE);
  size_t ret = 0; const std::string out = outcome([&] { ret = sd.serialize(buf.data(), total, items.data(), (unsigned)items.size()); });
  std::stringstream ss; const std::string outs = outcome([&] { sd.serialize(ss, items.data(), (unsigned)items.size()); }); const std::string simg = ss.str();
  // deserialize constructs the strings in place in raw storage
  auto decode_bytes = [&](const uint8_t* p, size_t cap, std::vector<std::string>& res, size_t& used) {
    std::string* raw = (std::string*)::operator new(sizeof(std::string) * (items.size() + 1));
    std::string o = outcome([&] { used = sd.deserialize(p, cap, raw, (unsigned)items.size()); });
    if (o == "ok") for (size_t i = 0; i < items.size(); i++) { res.push_back(raw[i]); raw[i].~basic_string(); }
    ::operator delete(raw); return o; };
  auto decode_stream = [&](const std::string& img, std::vector<std::string>& res) {
    std::string* raw = (std::string*)::operator new(sizeof(std::string) * (items.size() + 1));
    std::stringstream is(img);
    std::string o = outcome([&] { sd.deserialize(is, raw, (unsigned)items.size()); });
    if (o == "ok") for (size_t i = 0; i < items.size(); i++) { res.push_back(raw[i]); raw[i].~basic_string(); }
    ::operator delete(raw); return o; };
  std::vector<std::string> back, backs; size_t used = 0;
  const std::string din = decode_bytes(buf.data(), total, back, used), dins = decode_stream(simg, backs);
  std::vector<std::string> cut_w, cut_r, cut_s;
  for (size_t cut = 0; cut < total; cut++) {
    std::vector<uint8_t> small(total + 1); std::vector<std::string> tmp; size_t u = 0;
    cut_w.push_back(outcome([&] { sd.serialize(small.data(), cut, items.data(), (unsigned)items.size()); }));
    cut_r.push_back(decode_bytes(buf.data(), cut, tmp, u));
    cut_s.push_back(decode_stream(simg.substr(0, cut), tmp));
  }
  auto strs = [](const std::vector<std::string>& v) { std::string s = "["; for (size_t i = 0; i < v.size(); i++) { if (i) s += ","; s += "\"" + v[i] + "\""; } return s + "]"; };
  Ev("SerdeStr").raw("items", str_list(items)).il("sizes", sizes).str("out", out).str("outS", outs).i("ret", (long long)ret).i("used", (long long)used)
    .raw("bytes", byte_list(buf.data(), total)).raw("guard", byte_list(buf.data() + total, 4)).raw("sbytes", byte_list(simg.data(), simg.size()))
    .str("din", din).str("dinS", dins).raw("back", str_list(back)).raw("backS", str_list(backs)).raw("cutW", strs(cut_w)).raw("cutR", strs(cut_r)).raw("cutS", strs(cut_s)).emit();
}

static void serdes(vt::Rng& g, int rounds) {
  Ev("Begin").str("part", "serde").emit();
  for (int r = 0; r < rounds; r++) {
    const int c = r == 0 ? 0 : (int)g.range(1, 5);
    serde_num<uint8_t>("u8", g, c); serde_num<int16_t>("i16", g, c); serde_num<int32_t>("i32", g, c); serde_num<uint64_t>("u64", g, c); serde_num<int64_t>("i64", g, c);
    serde_num<float>("float", g, c); serde_num<double>("double", g, c);
    serde_str(g, c, r < 2 ? 3 : 12);
  }
  serde_str(g, -17, 0);
}

static void binomial(vt::Rng& g, int randoms) {
  using B = bounds_binomial_proportions;
  const double stds[] = {0.5, 1.0, 2.0, 3.0};
  Ev("Begin").str("part", "erf").emit();
  for (long x : {0L, 100L, 250L, 500L, 750L, 1000L, 1500L, 2000L, 2500L, 3000L, 4000L}) {
    const double xd = (double)x / 1000.0;
    Ev("Erf").i("x", x).i("erf6", std::llround(B::erf(xd) * 1e6)).i("erfNeg6", std::llround(B::erf(-xd) * 1e6)).i("cdf6", std::llround(B::normal_cdf(xd) * 1e6)).i("cdfNeg6", std::llround(B::normal_cdf(-xd) * 1e6)).emit();
  }
  std::vector<long> ns = {0, 1, 2, 3, 4, 5, 7, 10, 20, 37, 100, 1000};
  for (int i = 0; i < randoms; i++) ns.push_back(g.range(2, 2000));
  for (long n : ns) {
    Ev("Begin").str("part", "binomial").i("n", n).emit();
    for (long k = 0; k <= n; k++) {
      if (n > 150 && !(k < 20 || k > n - 20 || k % 17 == 0)) continue;
      std::vector<double> lb, ub;
      for (double s : stds) { lb.push_back(B::approximate_lower_bound_on_p((uint64_t)n, (uint64_t)k, s)); ub.push_back(B::approximate_upper_bound_on_p((uint64_t)n, (uint64_t)k, s)); }
      const double est = B::estimate_unknown_p((uint64_t)n, (uint64_t)k);
      Ev("Binom").i("n", n).i("k", k).dl("lb", lb).dl("ub", ub).d("est", est).i("est6", std::llround(est * 1e6)).d("zero", 0.0).d("one", 1.0).d("half", 0.5).emit();
    }
    // k > n is refused
    double d = 0;
    Ev("BinomBad").i("n", n).i("k", n + 1).str("lb", outcome([&] { d = B::approximate_lower_bound_on_p((uint64_t)n, (uint64_t)n + 1, 2.0); }))
      .str("ub", outcome([&] { d = B::approximate_upper_bound_on_p((uint64_t)n, (uint64_t)n + 1, 2.0); })).str("est", outcome([&] { d = B::estimate_unknown_p((uint64_t)n, (uint64_t)n + 1); })).emit();
  }
}

int main(int argc, char** argv) {
  vt::install_terminate();
  uint64_t seed = (uint64_t)vt::argl(argc, argv, "--seed", 1);
  int randoms = (int)vt::argl(argc, argv, "--randoms", 20), rounds = (int)vt::argl(argc, argv, "--rounds", 6);
  const std::string part = vt::arg(argc, argv, "--part", "all");
  vt::open_out(vt::arg(argc, argv, "--out", "/dev/stdout"));
  vt::Rng g(seed);
  if (part == "all" || part == "integers") integers(g, randoms);
  if (part == "all" || part == "serde") serdes(g, rounds);
  if (part == "all" || part == "binomial") binomial(g, randoms / 5);
  vt::close_out();
  fprintf(stderr, "x_common_rec: %ld events\n", vt::g_events);
  return 0;
}
