// C19: one adapter per sketch / operator type replayed by life_rec.cpp.  An adapter names the real class
// instantiated on life::track_alloc (and life::probe_item where the family is generic) and maps the abstract
// lifecycle alphabet of spec/Lifecycle.tla to public calls:
//   construct(p, aid)      placement-construct an empty object with allocator instance aid
//   mutate(s, op)          op 0 "few" (stays in the smallest mode), 1 "many" (crosses every growth / compaction /
//                          mode threshold of the small configuration), 2 "alt" (a different stream: duplicates,
//                          descending, weights, intermediate mode)
//   merge / merge_move     the family's merge by lvalue reference (template: the operand arrives as a NON-CONST lvalue for
//                          MergeRef and as a const lvalue for MergeCRef, and is passed on with that constness) / by rvalue;
//                          through the family's set operators where the sketch itself has no merge: union, and for the
//                          theta / tuple types also intersection (the by-reference operand is its FIRST update) and a-not-b
//   reset(s, aid)          reset() where the class has one, otherwise assignment of a freshly constructed object
//   serialize(s)           both serialized forms (bytes and stream) - the Serialize call of the alphabet
//   image(s, out)          the digest input: the serialized image(s) of the object, i.e. its full projection
// The inputs of an op depend on the op only, so the object's content is a function of its history term.
#pragma once
#include <sstream>
#include <vector>
#include <string>

#include "theta_sketch.hpp"
#include "theta_union.hpp"
#include "theta_intersection.hpp"
#include "theta_a_not_b.hpp"
#include "kll_sketch.hpp"
#include "req_sketch.hpp"
#include "frequent_items_sketch.hpp"
#include "hll.hpp"
#include "cpc_sketch.hpp"
#include "cpc_union.hpp"
#include "tuple_sketch.hpp"
#include "tuple_union.hpp"
#include "tuple_intersection.hpp"
#include "tuple_a_not_b.hpp"
#include "quantiles_sketch.hpp"
#include "var_opt_sketch.hpp"
#include "var_opt_union.hpp"
#include "ebpps_sketch.hpp"
#include "bloom_filter.hpp"
#include "count_min.hpp"
#include "tdigest.hpp"
#include "density_sketch.hpp"
#include "MurmurHash3.h"

namespace life {
using namespace datasketches;

typedef std::vector<uint8_t> Bytes;

// copy assignment as written by a user; an adapter may override it (see VarOptUnionAd)
// (returns what operator= returned, so that a chain a = b = c uses the returned reference)
template<class Ad, class S> static auto copy_assign_impl(S& dst, const S& src, int) -> decltype(Ad::copy_assign(dst, src), dst) { Ad::copy_assign(dst, src); return dst; }
template<class Ad, class S> static S& copy_assign_impl(S& dst, const S& src, long) { return dst = src; }
// the adapters' own containers are the harness's, not the library's: they are filled under Quiet so that the observer of
// global operator new (life_rec.cpp) sees library calls only
template<class V> static inline void put(Bytes& out, const V& v) { Quiet q; out.insert(out.end(), v.begin(), v.end()); }
template<class X> static inline void put_pod(Bytes& out, X x) { Quiet q; const uint8_t* p = reinterpret_cast<const uint8_t*>(&x); out.insert(out.end(), p, p + sizeof(X)); }

// the caller's stream for serialize(std::ostream&): a fixed buffer, so that the stream itself never allocates
struct fixed_ostream {
  struct buf : std::streambuf { char mem[1 << 16]; buf() { setp(mem, mem + sizeof mem); } int_type overflow(int_type c) override { setp(mem, mem + sizeof mem); return c; } };
  buf b; std::ostream os;
  fixed_ostream() : b(), os((++rt.quiet, nullptr)) { os.rdbuf(&b); --rt.quiet; }
  operator std::ostream&() { return os; }
};

// deterministic item streams per op
static inline std::vector<int> stream(int op, int many) {
  Quiet q;
  std::vector<int> v;
  if (op == 0) { v = {5, 3, 9}; }
  else if (op == 1) { uint32_t x = 12345; for (int n = 0; n < many; n++) { x = x * 1664525u + 1013904223u; v.push_back(100 + (int)((x >> 8) % 100000)); } }
  else { for (int n = 0; n < 14; n++) v.push_back(2000 - 7 * (n / 2)); }
  return v;
}

// ---------------------------------------------------------------- theta update sketch
struct ThetaAd {
  typedef track_alloc<uint64_t> A;
  typedef update_theta_sketch_alloc<A> S;
  typedef theta_union_alloc<A> U;
  static const char* name() { return "theta"; }
  static void construct(void* p, int aid) { new (p) S(typename S::builder(A(aid)).set_lg_k(5).build()); }
  static void mutate(S& s, int op) {
    for (int v : stream(op, 150)) s.update((uint64_t)v);
    if (op == 2) s.trim();
  }
  // an update sketch has no merge: the pair goes through union, intersection (operand = first update) and a-not-b; the
  // target keeps its content, the operand must keep its own
  typedef theta_intersection_alloc<A> I;
  typedef theta_a_not_b_alloc<A> N;
  template<class B> static void merge(S& a, B& b) {
    A al = a.get_allocator();
    I x(DEFAULT_SEED, al); x.update(b); x.update(a); auto in = x.get_result();
    N n(DEFAULT_SEED, al); auto df = n.compute(a, b);
    U u = typename U::builder(al).set_lg_k(5).build(); u.update(a); u.update(b); u.update(df); u.update(in);
    auto r = u.get_result(); (void)r.get_estimate();
  }
  static void merge_move(S& a, S&& b) {
    A al = a.get_allocator();
    S bc(b);
    I x(DEFAULT_SEED, al); x.update(std::move(bc)); x.update(a); auto in = x.get_result(false);
    N n(DEFAULT_SEED, al); auto df = n.compute(S(a), b, false);
    U u = typename U::builder(al).set_lg_k(5).build(); u.update(a); u.update(std::move(df)); u.update(std::move(in)); u.update(std::move(b));
    auto r = u.get_result(false); (void)r.get_estimate();
  }
  static void reset(S& s, int) { s.reset(); }
  static void serialize(const S& s) { auto c = s.compact(); auto b = c.serialize(); fixed_ostream ss; c.serialize(ss); auto z = c.serialize_compressed();
    auto d = compact_theta_sketch_alloc<A>::deserialize(z.data(), z.size(), DEFAULT_SEED, A(7)); (void)d.get_estimate(); }
  static void image(const S& s, Bytes& out) {
    put(out, s.compact(true).serialize());
    put_pod(out, s.get_theta64()); put_pod(out, s.get_num_retained()); put_pod(out, (int)s.is_empty()); put_pod(out, (int)s.get_lg_k());
  }
};

// ---------------------------------------------------------------- compact theta sketch through union / intersection / a-not-b
struct ThetaSetAd {
  typedef track_alloc<uint64_t> A;
  typedef compact_theta_sketch_alloc<A> S;
  typedef update_theta_sketch_alloc<A> UP;
  typedef theta_union_alloc<A> U;
  typedef theta_intersection_alloc<A> I;
  typedef theta_a_not_b_alloc<A> N;
  static const char* name() { return "thetaset"; }
  static UP input(const A& a, int op) { UP u = typename UP::builder(a).set_lg_k(5).build(); for (int v : stream(op, 150)) u.update((uint64_t)v); return u; }
  static void construct(void* p, int aid) { A a(aid); UP u = typename UP::builder(a).set_lg_k(5).build(); new (p) S(u.compact()); }
  static void mutate(S& s, int op) {
    A a = s.get_allocator();
    if (op == 2) {            // s := (s \ few) intersected with (s union alt)
      N n(DEFAULT_SEED, a); S d = n.compute(s, input(a, 0));
      U u = typename U::builder(a).set_lg_k(5).build(); u.update(s); u.update(input(a, 2));
      I x(DEFAULT_SEED, a); x.update(d); x.update(u.get_result());
      s = x.get_result();
    } else {                  // s := s union input(op)
      U u = typename U::builder(a).set_lg_k(5).build(); u.update(s); u.update(input(a, op));
      s = u.get_result(op == 0);
    }
  }
  // t := (t \ b) u (b n t) u b  (= t u b), every operator used once; the by-reference operand b is the FIRST update of the
  // intersection and the second argument of a-not-b, and must come out unchanged
  template<class B> static void merge(S& t, B& b) {
    A al = t.get_allocator();
    I x(DEFAULT_SEED, al); x.update(b); x.update(t); S in = x.get_result();
    N n(DEFAULT_SEED, al); S df = n.compute(t, b);
    U u = typename U::builder(al).set_lg_k(5).build(); u.update(df); u.update(in); u.update(b);
    { // the operand once more as a wrapped (not owning) compact sketch over its serialized image
      auto img = b.serialize(); auto w = wrapped_compact_theta_sketch_alloc<A>::wrap(img.data(), img.size());
      u.update(w); I y(DEFAULT_SEED, al); y.update(w); y.update(b); (void)y.get_result().get_estimate(); }
    t = u.get_result();
  }
  static void merge_move(S& t, S&& b) {
    A al = t.get_allocator();
    S bc(b);
    I x(DEFAULT_SEED, al); x.update(std::move(bc)); x.update(t); S in = x.get_result();
    N n(DEFAULT_SEED, al); S df = n.compute(std::move(t), b);
    U u = typename U::builder(al).set_lg_k(5).build(); u.update(std::move(df)); u.update(std::move(in)); u.update(std::move(b));
    t = u.get_result();
  }
  static void reset(S& s, int aid) { A a(aid); I x(DEFAULT_SEED, a); x.update(s); x.update(input(a, 0).compact()); N n(DEFAULT_SEED, a); s = n.compute(x.get_result(), s); }
  static void serialize(const S& s) { auto b = s.serialize(); fixed_ostream ss; s.serialize(ss); auto z = s.serialize_compressed();
    auto d = S::deserialize(b.data(), b.size(), DEFAULT_SEED, A(7)); auto e = S::deserialize(z.data(), z.size(), DEFAULT_SEED, A(7)); (void)d.get_estimate(); (void)e.get_estimate(); }
  static void image(const S& s, Bytes& out) { put(out, s.serialize()); put_pod(out, (int)s.is_ordered()); }
};

// ---------------------------------------------------------------- KLL
struct KllAd {
  typedef track_alloc<probe_item> A;
  typedef kll_sketch<probe_item, probe_less, A> S;
  static const char* name() { return "kll"; }
  static void construct(void* p, int aid) { new (p) S(8, probe_less(), A(aid)); }
  static void mutate(S& s, int op) {
    std::vector<int> v = stream(op, 40);
    for (size_t n = 0; n < v.size(); n++) { if (n % 2) { probe_item x(v[n]); s.update(x); } else s.update(probe_item(v[n])); }
    if (op == 2) (void)s.get_rank(probe_item(1990));      // builds the cached sorted view
  }
  template<class B> static void merge(S& a, B& b) { a.merge(b); }
  static void merge_move(S& a, S&& b) { a.merge(std::move(b)); }
  static void reset(S& s, int aid) { s = S(8, probe_less(), A(aid)); }
  static void serialize(const S& s) { auto b = s.serialize(0, probe_serde()); fixed_ostream ss; s.serialize(ss, probe_serde());
    { auto d = S::deserialize(b.data(), b.size(), probe_serde(), probe_less(), A(7)); (void)d.get_n(); } }
  static void image(const S& s, Bytes& out) { put(out, s.serialize(0, probe_serde())); put_pod(out, s.get_n()); put_pod(out, s.get_num_retained()); }
};

// ---------------------------------------------------------------- REQ
struct ReqAd {
  typedef track_alloc<probe_item> A;
  typedef req_sketch<probe_item, probe_less, A> S;
  static const char* name() { return "req"; }
  static void construct(void* p, int aid) { new (p) S(4, true, probe_less(), A(aid)); }
  static void mutate(S& s, int op) {
    std::vector<int> v = stream(op, 70);
    for (size_t n = 0; n < v.size(); n++) { if (n % 2) { probe_item x(v[n]); s.update(x); } else s.update(probe_item(v[n])); }
    if (op == 2) (void)s.get_quantile(0.5);               // builds the cached sorted view (get_rank does not)
  }
  template<class B> static void merge(S& a, B& b) { a.merge(b); }
  static void merge_move(S& a, S&& b) { a.merge(std::move(b)); }
  static void reset(S& s, int aid) { s = S(4, true, probe_less(), A(aid)); }
  static void serialize(const S& s) { auto b = s.serialize(0, probe_serde()); fixed_ostream ss; s.serialize(ss, probe_serde());
    { auto d = S::deserialize(b.data(), b.size(), probe_serde(), probe_less(), A(7)); (void)d.get_n(); } }
  static void image(const S& s, Bytes& out) { put(out, s.serialize(0, probe_serde())); put_pod(out, s.get_n()); put_pod(out, s.get_num_retained()); }
};

// ---------------------------------------------------------------- frequent items
struct FiAd {
  typedef track_alloc<probe_item> A;
  typedef frequent_items_sketch<probe_item, uint64_t, probe_hash, probe_equal, A> S;
  static const char* name() { return "fi"; }
  static void construct(void* p, int aid) { new (p) S(4, 3, probe_equal(), A(aid)); }
  static void mutate(S& s, int op) {
    std::vector<int> v = stream(op, 60);
    for (size_t n = 0; n < v.size(); n++) { if (n % 2) { probe_item x(v[n]); s.update(x, 1 + n % 5); } else s.update(probe_item(v[n]), 1 + n % 3); }
  }
  template<class B> static void merge(S& a, B& b) { a.merge(b); }
  static void merge_move(S& a, S&& b) { a.merge(std::move(b)); }
  static void reset(S& s, int aid) { s = S(4, 3, probe_equal(), A(aid)); }
  static void serialize(const S& s) { auto b = s.serialize(0, probe_serde()); fixed_ostream ss; s.serialize(ss, probe_serde());
    { auto d = S::deserialize(b.data(), b.size(), probe_serde(), probe_equal(), A(7)); (void)d.get_total_weight(); } }
  static void image(const S& s, Bytes& out) {
    put(out, s.serialize(0, probe_serde())); put_pod(out, s.get_total_weight()); put_pod(out, s.get_maximum_error()); put_pod(out, s.get_num_active_items());
  }
};

// ---------------------------------------------------------------- HLL sketch (merge through hll_union)
struct HllAd {
  typedef track_alloc<uint8_t> A;
  typedef hll_sketch_alloc<A> S;
  typedef hll_union_alloc<A> U;
  static const char* name() { return "hll"; }
  static void construct(void* p, int aid) { new (p) S(9, HLL_4, false, A(aid)); }
  // items whose coupon value (leading zeros of the second hash word + 1) is >= 18: in HLL_4 mode they do not fit a nibble
  // above cur_min and go to the auxiliary hash map; a dozen of them make that map grow
  static const std::vector<uint64_t>& rare() {
    static std::vector<uint64_t> r;
    if (r.empty()) { Quiet q; for (uint64_t x = 1; r.size() < 14; x++) { HashState h; MurmurHash3_x64_128(&x, sizeof x, DEFAULT_SEED, h); if ((h.h2 >> 47) == 0) r.push_back(x); } }
    return r;
  }
  static void warm_up() { (void)rare(); }
  static void mutate(S& s, int op) {
    for (int v : stream(op == 2 ? 1 : op, op == 2 ? 40 : 600)) s.update((uint64_t)v + (op == 2 ? 7000000 : 0));
    if (op == 1) for (uint64_t x : rare()) s.update(x);      // HLL mode: aux map insertions and growth
  }
  template<class B> static void merge(S& a, B& b) { U u(9, A(9)); u.update(a); u.update(b); a = u.get_result(HLL_4); }
  static void merge_move(S& a, S&& b) { U u(9, A(9)); u.update(a); u.update(std::move(b)); a = u.get_result(HLL_4); }
  static void reset(S& s, int) { s.reset(); }
  static void serialize(const S& s) { auto b = s.serialize_compact(); auto c = s.serialize_updatable(); fixed_ostream ss; s.serialize_compact(ss); s.serialize_updatable(ss);
    { auto d = S::deserialize(b.data(), b.size(), A(7)); auto e = S::deserialize(c.data(), c.size(), A(7)); (void)d.get_estimate(); (void)e.get_estimate(); } }
  static void image(const S& s, Bytes& out) { put(out, s.serialize_updatable()); put(out, s.serialize_compact()); }
};

// ---------------------------------------------------------------- HLL union
struct HllUnionAd {
  typedef track_alloc<uint8_t> A;
  typedef hll_union_alloc<A> S;
  typedef hll_sketch_alloc<A> SK;
  static const char* name() { return "hllunion"; }
  static void construct(void* p, int aid) { new (p) S(9, A(aid)); }
  // inputs cover the ownership-transfer path of update(&&) (HLL_8 input, lg_k <= lg_max_k, in HLL mode or with lg_k == lg_max_k,
  // into a still empty union) as well as the general path (other types, larger / smaller lg_k, lvalues, non-empty union)
  static SK input(uint8_t lg_k, target_hll_type t, int n, int salt) { SK k(lg_k, t, false, A(8)); for (int v : stream(1, n)) k.update((uint64_t)v + salt); return k; }
  static void mutate(S& s, int op) {
    if (op == 0) {            // LIST-mode HLL_8 sketch with lg_k == lg_max_k by rvalue, then single items
      s.update(input(9, HLL_8, 3, 0));
      for (int v : stream(0, 0)) s.update((uint64_t)v);
    } else if (op == 1) {     // HLL-mode HLL_8 sketch with smaller lg_k by rvalue, then a larger HLL_6 sketch by lvalue
      s.update(input(8, HLL_8, 900, 1));
      SK k = input(10, HLL_6, 900, 2); s.update(k);
    } else {                  // SET-mode HLL_4 by rvalue, then SET-mode HLL_8 with lg_k == lg_max_k by non-const lvalue
      s.update(input(8, HLL_4, 40, 3));
      SK k = input(9, HLL_8, 40, 4); s.update(k);
    }
  }
  template<class B> static void merge(S& a, B& b) { SK r = b.get_result(HLL_8); a.update(r); }
  static void merge_move(S& a, S&& b) { a.update(b.get_result(HLL_8)); S sink(std::move(b)); }
  static void reset(S& s, int) { s.reset(); }
  static void serialize(const S& s) { auto r = s.get_result(HLL_6); auto b = r.serialize_compact(); }
  static void image(const S& s, Bytes& out) { auto r = s.get_result(HLL_8); put(out, r.serialize_updatable()); }
};

// ---------------------------------------------------------------- CPC sketch (merge through cpc_union)
struct CpcAd {
  typedef track_alloc<uint8_t> A;
  typedef cpc_sketch_alloc<A> S;
  typedef cpc_union_alloc<A> U;
  static const char* name() { return "cpc"; }
  // the CPC compression tables are one process-wide immutable object, created on first use with plain new ("use new for
  // global initialization" in cpc_compressor_impl.hpp) and independent of any sketch or allocator instance: created here
  static void warm_up() { (void)get_compressor<A>(); }
  static void construct(void* p, int aid) { new (p) S(6, DEFAULT_SEED, A(aid)); }
  static void mutate(S& s, int op) { for (int v : stream(op == 2 ? 1 : op, op == 2 ? 45 : 500)) s.update((uint64_t)v + (op == 2 ? 7000000 : 0)); }
  template<class B> static void merge(S& a, B& b) { U u(6, DEFAULT_SEED, a.get_allocator()); u.update(a); u.update(b); a = u.get_result(); }
  static void merge_move(S& a, S&& b) { U u(6, DEFAULT_SEED, a.get_allocator()); u.update(a); u.update(std::move(b)); a = u.get_result(); }
  static void reset(S& s, int aid) { s = S(6, DEFAULT_SEED, A(aid)); }
  static void serialize(const S& s) { auto b = s.serialize(); fixed_ostream ss; s.serialize(ss);
    { auto d = S::deserialize(b.data(), b.size(), DEFAULT_SEED, A(7)); (void)d.get_estimate(); } }
  static void image(const S& s, Bytes& out) { put(out, s.serialize()); put_pod(out, s.get_estimate()); }
};

// ---------------------------------------------------------------- CPC union
struct CpcUnionAd {
  typedef track_alloc<uint8_t> A;
  typedef cpc_union_alloc<A> S;
  typedef cpc_sketch_alloc<A> SK;
  static const char* name() { return "cpcunion"; }
  static void warm_up() { (void)get_compressor<A>(); }
  static void construct(void* p, int aid) { new (p) S(6, DEFAULT_SEED, A(aid)); }
  static void mutate(S& s, int op) {
    A a = s.get_result().get_allocator();
    SK k(op == 1 ? 7 : 6, DEFAULT_SEED, a);
    for (int v : stream(op == 0 ? 0 : 1, op == 1 ? 700 : 45)) k.update((uint64_t)v + op);
    if (op == 1) s.update(k); else s.update(std::move(k));
  }
  template<class B> static void merge(S& a, B& b) { SK r = b.get_result(); a.update(r); }
  static void merge_move(S& a, S&& b) { a.update(b.get_result()); S sink(std::move(b)); }
  static void reset(S& s, int aid) { s = S(6, DEFAULT_SEED, A(aid)); }
  static void serialize(const S& s) { auto r = s.get_result(); auto b = r.serialize(); }
  static void image(const S& s, Bytes& out) { put(out, s.get_result().serialize()); }
};

// ---------------------------------------------------------------- tuple sketch with an instrumented summary
struct probe_tuple_policy {
  probe_item create() const { return probe_item(0); }
  void update(probe_item& summary, const int& u) const { summary = probe_item(summary.get() + u); }
};
struct probe_union_policy {
  void operator()(probe_item& summary, const probe_item& other) const { summary = probe_item(summary.get() + other.get()); }
};
struct TupleAd {
  typedef track_alloc<probe_item> A;
  typedef update_tuple_sketch<probe_item, int, probe_tuple_policy, A> S;
  typedef tuple_union<probe_item, probe_union_policy, A> U;
  static const char* name() { return "tuple"; }
  static void construct(void* p, int aid) { new (p) S(typename S::builder(probe_tuple_policy(), A(aid)).set_lg_k(5).build()); }
  static void mutate(S& s, int op) {
    std::vector<int> v = stream(op, 150);
    for (size_t n = 0; n < v.size(); n++) s.update((uint64_t)v[n], (int)(1 + n % 3));
    if (op == 2) s.trim();
  }
  typedef tuple_intersection<probe_item, probe_union_policy, A> I;
  typedef tuple_a_not_b<probe_item, A> N;
  // as for theta: union, intersection (operand = first update) and a-not-b; target and operand keep their content
  template<class B> static void merge(S& a, B& b) {
    A al = a.get_allocator();
    I x(DEFAULT_SEED, probe_union_policy(), al); x.update(b); x.update(a); auto in = x.get_result();
    N n(DEFAULT_SEED, al); auto df = n.compute(a, b);
    U u = typename U::builder(probe_union_policy(), al).set_lg_k(5).build(); u.update(a); u.update(b); u.update(df); u.update(in);
    auto r = u.get_result(); (void)r.get_estimate();
  }
  static void merge_move(S& a, S&& b) {
    A al = a.get_allocator();
    S bc(b);
    I x(DEFAULT_SEED, probe_union_policy(), al); x.update(std::move(bc)); x.update(a); auto in = x.get_result(false);
    N n(DEFAULT_SEED, al); auto df = n.compute(S(a), b, false);
    U u = typename U::builder(probe_union_policy(), al).set_lg_k(5).build(); u.update(a); u.update(std::move(df)); u.update(std::move(in)); u.update(std::move(b));
    auto r = u.get_result(false); (void)r.get_estimate();
  }
  static void reset(S& s, int) { s.reset(); }
  static void serialize(const S& s) { auto c = s.compact(); auto b = c.serialize(0, probe_serde()); fixed_ostream ss; c.serialize(ss, probe_serde());
    { auto d = compact_tuple_sketch<probe_item, A>::deserialize(b.data(), b.size(), DEFAULT_SEED, probe_serde(), A(7)); (void)d.get_estimate(); } }
  static void image(const S& s, Bytes& out) { put(out, s.compact(true).serialize(0, probe_serde())); put_pod(out, s.get_theta64()); put_pod(out, s.get_num_retained()); }
};

// ---------------------------------------------------------------- compact tuple sketch through tuple_union / tuple_intersection
struct TupleSetAd {
  typedef track_alloc<probe_item> A;
  typedef compact_tuple_sketch<probe_item, A> S;
  typedef update_tuple_sketch<probe_item, int, probe_tuple_policy, A> UP;
  typedef tuple_union<probe_item, probe_union_policy, A> U;
  typedef tuple_intersection<probe_item, probe_union_policy, A> I;
  static const char* name() { return "tupleset"; }
  static UP input(const A& a, int op) { UP u = typename UP::builder(probe_tuple_policy(), a).set_lg_k(5).build(); for (int v : stream(op, 150)) u.update((uint64_t)v, 1); return u; }
  static void construct(void* p, int aid) { A a(aid); UP u = typename UP::builder(probe_tuple_policy(), a).set_lg_k(5).build(); new (p) S(u.compact()); }
  static void mutate(S& s, int op) {
    A a = s.get_allocator();
    U u = typename U::builder(probe_union_policy(), a).set_lg_k(5).build(); u.update(s); u.update(input(a, op));
    if (op == 2) { I x(DEFAULT_SEED, probe_union_policy(), a); x.update(u.get_result()); x.update(input(a, 1).compact()); s = x.get_result(); }
    else s = u.get_result(op == 0);
  }
  typedef tuple_a_not_b<probe_item, A> N;
  // t := (t \ b) u (b n t) u b, every operator once; the by-reference operand b is the FIRST update of the intersection
  template<class B> static void merge(S& t, B& b) {
    A al = t.get_allocator();
    I x(DEFAULT_SEED, probe_union_policy(), al); x.update(b); x.update(t); S in = x.get_result();
    N n(DEFAULT_SEED, al); S df = n.compute(t, b);
    U u = typename U::builder(probe_union_policy(), al).set_lg_k(5).build(); u.update(df); u.update(in); u.update(b);
    t = u.get_result();
  }
  static void merge_move(S& t, S&& b) {
    A al = t.get_allocator();
    S bc(b);
    I x(DEFAULT_SEED, probe_union_policy(), al); x.update(std::move(bc)); x.update(t); S in = x.get_result();
    N n(DEFAULT_SEED, al); S df = n.compute(std::move(t), b);
    U u = typename U::builder(probe_union_policy(), al).set_lg_k(5).build(); u.update(std::move(df)); u.update(std::move(in)); u.update(std::move(b));
    t = u.get_result();
  }
  static void reset(S& s, int aid) { A a(aid); UP u = typename UP::builder(probe_tuple_policy(), a).set_lg_k(5).build(); s = u.compact(); }
  static void serialize(const S& s) { auto b = s.serialize(0, probe_serde()); fixed_ostream ss; s.serialize(ss, probe_serde());
    { auto d = S::deserialize(b.data(), b.size(), DEFAULT_SEED, probe_serde(), A(7)); (void)d.get_estimate(); } }
  static void image(const S& s, Bytes& out) { put(out, s.serialize(0, probe_serde())); put_pod(out, (int)s.is_ordered()); }
};

// ---------------------------------------------------------------- classic quantiles
struct QuantAd {
  typedef track_alloc<probe_item> A;
  typedef quantiles_sketch<probe_item, probe_less, A> S;
  static const char* name() { return "quant"; }
  static void construct(void* p, int aid) { new (p) S(4, probe_less(), A(aid)); }
  static void mutate(S& s, int op) {
    std::vector<int> v = stream(op, 45);
    for (size_t n = 0; n < v.size(); n++) { if (n % 2) { probe_item x(v[n]); s.update(x); } else s.update(probe_item(v[n])); }
    if (op == 2) (void)s.get_rank(probe_item(1990));
  }
  template<class B> static void merge(S& a, B& b) { a.merge(b); }
  static void merge_move(S& a, S&& b) { a.merge(std::move(b)); }
  static void reset(S& s, int aid) { s = S(4, probe_less(), A(aid)); }
  static void serialize(const S& s) { auto b = s.serialize(0, probe_serde()); fixed_ostream ss; s.serialize(ss, probe_serde());
    { auto d = S::deserialize(b.data(), b.size(), probe_serde(), probe_less(), A(7)); (void)d.get_n(); } }
  static void image(const S& s, Bytes& out) { put(out, s.serialize(0, probe_serde())); put_pod(out, s.get_n()); put_pod(out, s.get_num_retained()); }
};

// ---------------------------------------------------------------- VarOpt sketch (merge through var_opt_union)
struct VarOptAd {
  typedef track_alloc<probe_item> A;
  typedef var_opt_sketch<probe_item, A> S;
  typedef var_opt_union<probe_item, A> U;
  static const char* name() { return "varopt"; }
  static void construct(void* p, int aid) { new (p) S(8, resize_factor::X2, A(aid)); }
  static void mutate(S& s, int op) {
    std::vector<int> v = stream(op, 40);
    for (size_t n = 0; n < v.size(); n++) { double w = op == 2 ? 1.0 + 50.0 * (n % 4 == 0) : 1.0 + n % 7; if (n % 2) { probe_item x(v[n]); s.update(x, w); } else s.update(probe_item(v[n]), w); }
  }
  template<class B> static void merge(S& a, B& b) { U u(8, A(9)); u.update(a); u.update(b); a = u.get_result(); }
  static void merge_move(S& a, S&& b) { U u(8, A(9)); u.update(a); u.update(std::move(b)); a = u.get_result(); }
  static void reset(S& s, int) { s.reset(); }
  static void serialize(const S& s) { auto b = s.serialize(0, probe_serde()); fixed_ostream ss; s.serialize(ss, probe_serde());
    { auto d = S::deserialize(b.data(), b.size(), probe_serde(), A(7)); (void)d.get_n(); } }
  static void image(const S& s, Bytes& out) { put(out, s.serialize(0, probe_serde())); put_pod(out, s.get_n()); put_pod(out, s.get_num_samples()); }
};

// ---------------------------------------------------------------- VarOpt union
struct VarOptUnionAd {
  typedef track_alloc<probe_item> A;
  typedef var_opt_union<probe_item, A> S;
  typedef var_opt_sketch<probe_item, A> SK;
  static const char* name() { return "varoptunion"; }
#ifndef LIFE_VAROPT_UNION_COPY_ASSIGN
  // On the pinned tree var_opt_union::operator=(const var_opt_union&) is ill-formed (it swaps with a member of its const
  // argument) and cannot be instantiated; bin/vlib/p_lifecycle.py probes this (harness/life_probe.cpp), reports it, and
  // defines LIFE_VAROPT_UNION_COPY_ASSIGN when the operator compiles.  Until then a copy assignment is replayed as
  // copy construction + move assignment, which is its sequential meaning.
  static void copy_assign(S& dst, const S& src) { S tmp(src); dst = std::move(tmp); }
#endif
  static void construct(void* p, int aid) { new (p) S(8, A(aid)); }
  static void mutate(S& s, int op) {
    SK k(op == 1 ? 6 : 8, resize_factor::X2, A(8));
    std::vector<int> v = stream(op, 40);
    for (size_t n = 0; n < v.size(); n++) k.update(probe_item(v[n]), op == 2 ? 1.0 + 50.0 * (n % 4 == 0) : 1.0 + n % 7);
    if (op == 1) s.update(k); else s.update(std::move(k));
  }
  template<class B> static void merge(S& a, B& b) { SK r = b.get_result(); a.update(r); }
  static void merge_move(S& a, S&& b) { a.update(b.get_result()); S sink(std::move(b)); }
  static void reset(S& s, int) { s.reset(); }
  static void serialize(const S& s) { auto b = s.serialize(0, probe_serde()); fixed_ostream ss; s.serialize(ss, probe_serde());
    { auto d = S::deserialize(b.data(), b.size(), probe_serde(), A(7)); auto r = d.get_result(); (void)r.get_n(); } }
  static void image(const S& s, Bytes& out) { put(out, s.serialize(0, probe_serde())); put(out, s.get_result().serialize(0, probe_serde())); }
};

// ---------------------------------------------------------------- EBPPS
struct EbppsAd {
  typedef track_alloc<probe_item> A;
  typedef ebpps_sketch<probe_item, A> S;
  static const char* name() { return "ebpps"; }
  static void construct(void* p, int aid) { new (p) S(6, A(aid)); }
  static void mutate(S& s, int op) {
    std::vector<int> v = stream(op, 40);
    for (size_t n = 0; n < v.size(); n++) { double w = op == 2 ? 1.0 + 20.0 * (n % 5 == 0) : 1.0 + n % 3; if (n % 2) { probe_item x(v[n]); s.update(x, w); } else s.update(probe_item(v[n]), w); }
  }
  template<class B> static void merge(S& a, B& b) { a.merge(b); }
  static void merge_move(S& a, S&& b) { a.merge(std::move(b)); }
  static void reset(S& s, int) { s.reset(); }
  static void serialize(const S& s) { auto b = s.serialize(0, probe_serde()); fixed_ostream ss; s.serialize(ss, probe_serde());
    { auto d = S::deserialize(b.data(), b.size(), probe_serde(), A(7)); (void)d.get_n(); } }
  static void image(const S& s, Bytes& out) { put(out, s.serialize(0, probe_serde())); put_pod(out, s.get_n()); put_pod(out, s.get_c()); }
};

// ---------------------------------------------------------------- Bloom filter
struct BloomAd {
  typedef track_alloc<uint8_t> A;
  typedef bloom_filter_alloc<A> S;
  static const char* name() { return "bloom"; }
  static S make(int aid) { return S::builder::create_by_size(512, 3, 0x5eedULL, A(aid)); }
  static void construct(void* p, int aid) { new (p) S(make(aid)); }
  static void mutate(S& s, int op) {
    for (int v : stream(op, 60)) s.update((uint64_t)v);
    if (op == 2) { S t = make(8); for (int v : stream(1, 60)) t.update((uint64_t)v); s.intersect(t); s.invert(); }
  }
  template<class B> static void merge(S& a, B& b) { a.union_with(b); }
  static void merge_move(S& a, S&& b) { a.union_with(b); S sink(std::move(b)); }
  static void reset(S& s, int) { s.reset(); }
  static void serialize(const S& s) { auto b = s.serialize(); fixed_ostream ss; s.serialize(ss);
    { auto d = S::deserialize(b.data(), b.size(), A(7)); (void)d.get_bits_used(); } }
  static void image(const S& s, Bytes& out) { put(out, s.serialize()); put_pod(out, s.get_capacity()); }
};

// ---------------------------------------------------------------- Bloom filter in every OWNERSHIP kind
// Objects of one slot type, bloom_filter_alloc<A>, that own their bit array (builder / deserialize), live in caller memory
// (initialize_by_size), are writable views (writable_wrap) or read-only views (wrap) of a caller-held image - all with the
// same number of bits, so that every pairing of kinds occurs as source and target of copy / move construction and
// assignment.  Which kind an object has is decided by the LAST Mutate: few -> caller memory, many -> writable view, alt ->
// read-only view; Construct / Reset / merges give owned objects.  The content stays a function of the history term.
// A view shares the caller's memory with its copies BY DESIGN (documented: the filter does not take ownership), which is
// aliasing, not value semantics; so the adapter never writes THROUGH an existing view: a Mutate builds the new content in a
// fresh object over a fresh caller buffer and assigns it, merge / reset first replace a not-owned target by an owned copy.
// The caller's buffers are static (never the library's to release: a deallocate of one shows as block id 0).
struct BloomViewAd {
  typedef track_alloc<uint8_t> A;
  typedef bloom_filter_alloc<A> S;
  static const char* name() { return "bloomview"; }
  enum { BITS = 512, NBUF = 64, BUFSZ = 256 };
  static uint8_t* fresh() { static uint8_t pool[NBUF][BUFSZ]; static unsigned n = 0; return pool[n++ % NBUF]; }
  static S make(int aid) { return S::builder::create_by_size(BITS, 3, 0x5eedULL, A(aid)); }
  static void own(S& s) { if (!s.is_memory_owned()) { auto img = s.serialize(); s = S::deserialize(img.data(), img.size(), A(7)); } }
  static void construct(void* p, int aid) { new (p) S(make(aid)); }
  static void mutate(S& s, int op) {
    uint8_t* buf = fresh();
    if (op == 0) {            // a filter initialised in the caller's memory takes the place of s (move assignment)
      S t = S::builder::initialize_by_size(buf, BUFSZ, BITS, 3, 0x5eedULL, A(8));
      t.union_with(s);
      for (int v : stream(0, 0)) t.update((uint64_t)v);
      s = std::move(t);
    } else {                  // the new content is serialized into the caller's buffer and s becomes a view of it
      S t = make(8);
      t.union_with(s);
      for (int v : stream(op, 60)) t.update((uint64_t)v);
      auto img = t.serialize();
      memcpy(buf, img.data(), img.size());
      if (op == 1) s = S::writable_wrap(buf, img.size(), A(8));     // move assignment from a writable view
      else s = S::wrap(buf, img.size(), A(8));                      // wrap() returns a const object: copy assignment from a read-only view
    }
  }
  template<class B> static void merge(S& a, B& b) { own(a); a.union_with(b); }
  static void merge_move(S& a, S&& b) { own(a); a.union_with(b); S sink(std::move(b)); }
  static void reset(S& s, int aid) { if (s.is_memory_owned()) s.reset(); else s = make(aid); }
  static void serialize(const S& s) { auto b = s.serialize(); fixed_ostream ss; s.serialize(ss);
    { auto d = S::deserialize(b.data(), b.size(), A(7)); (void)d.get_bits_used(); } }
  static void image(const S& s, Bytes& out) { put(out, s.serialize()); put_pod(out, s.get_capacity()); put_pod(out, (int)s.is_empty()); }
};

// ---------------------------------------------------------------- count-min
struct CountMinAd {
  typedef track_alloc<uint64_t> A;
  typedef count_min_sketch<uint64_t, A> S;
  static const char* name() { return "countmin"; }
  static void construct(void* p, int aid) { new (p) S(3, 16, DEFAULT_SEED, A(aid)); }
  static void mutate(S& s, int op) { std::vector<int> v = stream(op, 60); for (size_t n = 0; n < v.size(); n++) s.update((uint64_t)v[n], (uint64_t)(1 + n % 4)); }
  template<class B> static void merge(S& a, B& b) { a.merge(b); }
  static void merge_move(S& a, S&& b) { a.merge(b); S sink(std::move(b)); }
  static void reset(S& s, int aid) { s = S(3, 16, DEFAULT_SEED, A(aid)); }
  static void serialize(const S& s) { auto b = s.serialize(); fixed_ostream ss; s.serialize(ss);
    { auto d = S::deserialize(b.data(), b.size(), DEFAULT_SEED, A(7)); (void)d.get_total_weight(); } }
  static void image(const S& s, Bytes& out) { put(out, s.serialize()); put_pod(out, s.get_total_weight()); }
};

// ---------------------------------------------------------------- t-digest
struct TDigestAd {
  typedef track_alloc<double> A;
  typedef tdigest<double, A> S;
  static const char* name() { return "tdigest"; }
  static void construct(void* p, int aid) { new (p) S(10, A(aid)); }
  static void mutate(S& s, int op) { for (int v : stream(op, 300)) s.update((double)v); if (op == 2) (void)s.get_rank(1990.0); }
  template<class B> static void merge(S& a, B& b) { a.merge(b); }
  static void merge_move(S& a, S&& b) { a.merge(b); S sink(std::move(b)); }
  static void reset(S& s, int aid) { s = S(10, A(aid)); }
  static void serialize(const S& s) { auto b = s.serialize(0, true); fixed_ostream ss; s.serialize(ss, false);
    { auto d = S::deserialize(b.data(), b.size(), A(7)); (void)d.get_total_weight(); } }
  // serializing without the buffer (like every query) first merges the buffered values into the centroids (DESIGN 4.2): the
  // digest is the compressed image, which that side effect leaves unchanged
  static void image(const S& s, Bytes& out) { put(out, s.serialize(0, false)); put_pod(out, s.get_total_weight()); }
};

// ---------------------------------------------------------------- density sketch
// the library's gaussian_kernel only accepts std::vector<T, std::allocator<T>>: a kernel on the sketch's own Vector type
struct life_kernel {
  typedef std::vector<float, track_alloc<float>> V;
  float operator()(const V& a, const V& b) const { float d = 0; for (size_t n = 0; n < a.size(); n++) d += (a[n] - b[n]) * (a[n] - b[n]); return std::exp(-d / 64.0f); }
};
struct DensityAd {
  typedef track_alloc<float> A;
  typedef density_sketch<float, life_kernel, A> S;
  static const char* name() { return "density"; }
  static void construct(void* p, int aid) { new (p) S(4, 2, life_kernel(), A(aid)); }
  static void mutate(S& s, int op) {
    std::vector<int> v = stream(op, 60);
    A a = s.get_allocator();
    for (size_t n = 0; n < v.size(); n++) {
      typename S::Vector pt(2, 0.0f, a); pt[0] = (float)(v[n] % 97); pt[1] = (float)(v[n] % 13);
      if (n % 2) s.update(pt); else s.update(std::move(pt));
    }
  }
  template<class B> static void merge(S& a, B& b) { a.merge(b); }
  static void merge_move(S& a, S&& b) { a.merge(std::move(b)); }
  static void reset(S& s, int aid) { s = S(4, 2, life_kernel(), A(aid)); }
  static void serialize(const S& s) { auto b = s.serialize(); fixed_ostream ss; s.serialize(ss);
    { auto d = S::deserialize(b.data(), b.size(), life_kernel(), A(7)); (void)d.get_n(); } }
  static void image(const S& s, Bytes& out) { put(out, s.serialize()); put_pod(out, s.get_n()); }
};

} // namespace life

#define LIFE_FAMILY_TABLE \
  FAM(ThetaAd), FAM(ThetaSetAd), FAM(KllAd), FAM(ReqAd), FAM(FiAd), FAM(HllAd), FAM(HllUnionAd), FAM(CpcAd), FAM(CpcUnionAd), \
  FAM(TupleAd), FAM(TupleSetAd), FAM(QuantAd), FAM(VarOptAd), FAM(VarOptUnionAd), FAM(EbppsAd), FAM(BloomAd), FAM(BloomViewAd), FAM(CountMinAd), \
  FAM(TDigestAd), FAM(DensityAd)
