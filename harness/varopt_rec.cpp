// Recording driver for var_opt_sketch / var_opt_union (C16) with serialization events (C09).
// Randomized operation histories on the real classes, one ND-JSON event per public call.  The driver offers
// DISTINCT items (ids 1,2,3.. per segment, realised as int64 or std::string items) with INTEGER weights, so the
// specification can do exact arithmetic.  Only inputs and observations are logged; every expected value is
// computed by the TLA+ contract (spec/VarOpt.tla through spec/TraceVarOpt.tla).
//
// Sample projection "s" (what iteration exposes, no classification by the harness):
//   n, k, ns (get_num_samples), x[] item ids in iteration order, wI[] the iterated weight when it is an integer
//   else -1, g[] 1-based index of the group of items carrying the bit-identical weight, and per group
//   gw[] = round(weight * group size), gres[] = |weight * group size - gw| in 1e-6 units (capped at 1e6).
//   (unit conversion of observations: tau * |R| is an integer when the offered weights are integers.)
#include <memory>
#include <sstream>
#include <algorithm>
#include <map>
#include <set>
#include <var_opt_sketch.hpp>
#include <var_opt_union.hpp>
#include "vtrace.hpp"

using namespace datasketches;
using vt::Ev;

struct ConvI {
  typedef int64_t T;
  static const char* name() { return "i64"; }
  static T item(long id) { return (int64_t)id * 1000003LL - 77; }
  static long id(const T& v) { return (long)((v + 77) / 1000003LL); }
};
struct ConvS {
  typedef std::string T;
  static const char* name() { return "str"; }
  static T item(long id) { return "item-" + std::to_string(id) + std::string((size_t)(id % 7), 'x'); }
  static long id(const T& v) { return v.size() > 5 ? atol(v.c_str() + 5) : -1; }
};

// A user-supplied SerDe that reads the standard item format but reports a short stream only through the stream state
// (it constructs every item and does not throw): the readers' own `if (!is.good()) throw` and the clean-up of H and R
// items already constructed are then what rejects a truncated stream.
template<class T> struct lenient_serde;
template<> struct lenient_serde<int64_t> : serde<int64_t> {
  using serde<int64_t>::deserialize;
  void deserialize(std::istream& is, int64_t* items, unsigned num) const {
    for (unsigned i = 0; i < num; i++) { items[i] = 0; is.read((char*)&items[i], 8); }
  }
};
template<> struct lenient_serde<std::string> : serde<std::string> {
  using serde<std::string>::deserialize;
  void deserialize(std::istream& is, std::string* items, unsigned num) const {
    for (unsigned i = 0; i < num; i++) {
      uint32_t len = 0; is.read((char*)&len, 4); std::string str;
      if (is.good()) for (uint32_t j = 0; j < len && is.good(); j++) { int c = is.get(); if (c != EOF) str.push_back((char)c); }
      new (&items[i]) std::string(std::move(str));
    }
  }
};

static std::string clean(const std::string& s) {
  std::string r; for (char c : s) r += (c == '"' || c == '\\' || (unsigned char)c < 32) ? ' ' : c; return r;
}
// weight REGIME of a segment: every offered weight is (integer) * g_unit with g_unit a power of two (1/1024 .. 2^20), so that
// streams of weights all below 1, all above 10^6, or mixed stay exactly representable; logged weights are divided by it
static double g_unit = 1.0;
static unsigned long g_segs = 0, g_seed0 = 0; static bool g_fix_unit = false;
static void next_unit() { static const double U[] = {1.0, 1.0 / 1024, 1.0, 1048576.0, 1.0 / 64, 1.0}; g_unit = g_fix_unit ? 1.0 : U[(g_segs++ + g_seed0) % 6]; }
static void intres(double v, long long& r, long long& res) {
  r = std::llround(v); double d = std::fabs(v - (double)r) * 1e6; res = d > 1e6 ? 1000000 : std::llround(d);
}

// traversal idioms: range-for, explicit loop, and the idioms that COPY iterators (container range constructor, std::copy,
// std::for_each, the value of it++, named iterators handed by value to a helper); all must show the same sample
static const int NIDIOMS = 7;
static const char* const IDIOMS[NIDIOMS] = {"range-for", "iterator", "range-ctor", "std::copy", "std::for_each", "postfix-value", "by-value"};
template<class It, class F> static void walk_by_value(It first, It last, F f) { for (; first != last; ++first) f(*first); }
template<class S, class T, class F> static void traverse(const S& s, int idiom, const T*, F f) {
  typedef std::pair<T, double> P;
  switch (idiom) {
    case 0: { for (auto p : s) f(p.first, p.second); break; }
    case 1: { for (auto it = s.begin(); it != s.end(); ++it) f((*it).first, (*it).second); break; }
    case 2: { auto b = s.begin(); auto e = s.end(); std::vector<P> v(b, e); for (const auto& x : v) f(x.first, x.second); break; }
    case 3: { auto b = s.begin(); auto e = s.end(); std::vector<P> v; std::copy(b, e, std::back_inserter(v)); for (const auto& x : v) f(x.first, x.second); break; }
    case 4: { auto b = s.begin(); auto e = s.end(); std::for_each(b, e, [&f](const std::pair<const T&, const double>& p) { f(p.first, p.second); }); break; }
    case 5: { auto it = s.begin(); auto e = s.end(); while (it != e) { auto cur = it++; f((*cur).first, (*cur).second); } break; }
    default: { auto b = s.begin(); auto e = s.end(); walk_by_value(b, e, [&f](const std::pair<const T&, const double>& p) { f(p.first, p.second); }); break; }
  }
}
template<class C> static std::string proj(const var_opt_sketch<typename C::T>& s, int idiom = 0) {
  std::vector<long long> xs; std::vector<double> ws;
  traverse(s, idiom, (const typename C::T*)nullptr, [&xs, &ws](const typename C::T& it, double w) { if (xs.size() < 100000) { xs.push_back(C::id(it)); ws.push_back(w / g_unit); } });
  size_t m = xs.size();
  std::vector<long long> wI(m), g(m), gw, gres; std::vector<double> gval; std::vector<int> gcnt;
  for (size_t i = 0; i < m; i++) {
    size_t j = 0;
    for (; j < gval.size(); j++) if (!memcmp(&gval[j], &ws[i], 8)) break;
    if (j == gval.size()) { gval.push_back(ws[i]); gcnt.push_back(0); }
    gcnt[j]++; g[i] = (long long)j + 1;
    wI[i] = (ws[i] == std::floor(ws[i]) && std::fabs(ws[i]) < 2e9) ? (long long)ws[i] : -1;
  }
  for (size_t j = 0; j < gval.size(); j++) {
    long long r, res; double prod = gval[j] * gcnt[j];
    if (!(std::fabs(prod) < 2e9)) { r = -1; res = 1000000; } else intres(prod, r, res);
    gw.push_back(r); gres.push_back(res);
  }
  Ev r("x"); r.s = "{\"z\":0";
  r.i("n", (long long)s.get_n()).i("k", s.get_k()).i("ns", s.get_num_samples()).il("x", xs).il("wI", wI).il("g", g).il("gw", gw).il("gres", gres);
  r.s += "}";
  return r.s;
}

template<class C> struct Seg {
  typedef typename C::T T;
  typedef var_opt_sketch<T> SK;
  typedef var_opt_union<T> UN;
  static const int NS = 5, NU = 3, NB = 4;
  static const long long CAP = 100000, UCAP = 400000;
  vt::Rng& g;
  std::unique_ptr<SK> sk[NS]; std::vector<int> ids[NS]; bool restored[NS], fromUnion[NS]; int prof[NS]; long long total[NS]; long giantAt[NS];
  std::unique_ptr<UN> un[NU]; std::set<int> uids[NU]; bool urestored[NU]; long long utotal[NU];
  struct Blob { bool live = false, isUnion = false; std::vector<uint8_t> bytes; } blob[NB];
  std::map<int, int> wt;
  int nextId = 1;
  long maxk;
  explicit Seg(vt::Rng& g_, long maxk_) : g(g_), maxk(maxk_) {
    next_unit();
    for (int i = 0; i < NS; i++) { restored[i] = fromUnion[i] = false; prof[i] = 0; total[i] = 0; giantAt[i] = 0; }
    for (int u = 0; u < NU; u++) { urestored[u] = false; utotal[u] = 0; }
  }
  Ev& tag(Ev& e, int i) { if (restored[i]) e.b("restored", true); if (fromUnion[i]) e.b("fromUnion", true); return e; }
  Ev& utag(Ev& e, int u) { if (urestored[u]) e.b("restored", true); return e; }

  long drawK() { if (g.chance(12)) return g.range(1, 2); return std::min(g.range(1, maxk), g.range(1, maxk)); }
  void drop(int i) { if (sk[i]) { sk[i].reset(); ids[i].clear(); total[i] = 0; restored[i] = fromUnion[i] = false; Ev("Drop").i("id", i).emit(); } }
  void udrop(int u) { if (un[u]) { un[u].reset(); uids[u].clear(); utotal[u] = 0; urestored[u] = false; Ev("UDrop").i("u", u).emit(); } }

  void opNew(int i, long k) {
    drop(i);
    resize_factor rf = (resize_factor)g.below(4);
    sk[i].reset(new SK((uint32_t)k, rf));
    prof[i] = (int)g.below(8); giantAt[i] = g.range(0, 60);
    Ev("New").i("id", i).i("k", k).i("rf", (int)rf).i("profile", prof[i]).emit();
  }
  void opNewInvalid() {
    int kind = (int)g.below(3);
    uint32_t k = kind == 0 ? 0u : kind == 1 ? 0x7fffffffu : 0xffffffffu;
    bool refused = false; std::string other;
    try { SK s(k); } catch (std::invalid_argument&) { refused = true; } catch (std::exception& ex) { other = clean(ex.what()); }
    Ev e("NewInvalid"); e.str("kind", kind == 0 ? "zero" : kind == 1 ? "max_k+1" : "2^32-1").b("refused", refused);
    if (!other.empty()) e.str("other", other);
    e.emit();
    bool urefused = false; other.clear();
    try { UN u(k); } catch (std::invalid_argument&) { urefused = true; } catch (std::exception& ex) { other = clean(ex.what()); }
    Ev e2("UNewInvalid"); e2.str("kind", kind == 0 ? "zero" : kind == 1 ? "max_k+1" : "2^32-1").b("refused", urefused);
    if (!other.empty()) e2.str("other", other);
    e2.emit();
  }
  long drawW(int i) {
    long c = (long)ids[i].size(); long w = 1;
    switch (prof[i]) {
      case 0: w = g.range(1, 9); break;                                   // small uniform (many ties)
      case 1: w = g.range(1, 1000); break;                                // uniform
      case 2: w = 1L << g.below(14); break;                               // exponentially spread
      case 3: w = g.chance(4) ? g.range(5000, 20000) : g.range(1, 20); break;   // heavy-tailed
      case 4: w = c + 1; break;                                           // increasing
      case 5: w = std::max(1L, 300 - c); break;                           // decreasing
      case 6: w = (c == giantAt[i]) ? 50000 : g.range(1, 5); break;       // single giant item
      case 7: w = 7; break;                                               // all equal
    }
    if (total[i] + w > CAP) w = 1;
    return w;
  }
  bool canUpdate(int i) { return sk[i] && total[i] + 1 <= (fromUnion[i] ? UCAP + CAP : CAP) && ids[i].size() < 450; }
  void opUpdate(int i, long w, bool rv) { opUpdateX(i, nextId++, w, rv); }
  // the same item may be offered to several objects (an original and its restored copies in lock-step)
  void opUpdateX(int i, int id, long w, bool rv) {
    wt[id] = (int)w; T item = C::item(id);
    std::string threw;
    try { if (rv) sk[i]->update(std::move(item), (double)w * g_unit); else sk[i]->update(item, (double)w * g_unit); }
    catch (std::exception& ex) { threw = clean(ex.what()); if (threw.empty()) threw = "exception"; }
    ids[i].push_back(id); total[i] += w;
    Ev e("Update"); e.i("id", i).i("x", id).i("w", w).b("rv", rv); tag(e, i);
    if (!threw.empty()) { e.str("threw", threw); e.emit(); drop(i); return; }
    e.raw("s", proj<C>(*sk[i])).emit();
  }
  // an update with weight 0 is ignored: no observable may change (n, emptiness, sample; the image is compared at the next Ser/Deser)
  void opUpdateZero(int i) {
    std::string threw; bool rv = g.chance(40); T item = C::item(2000000 + nextId);
    try { if (rv) sk[i]->update(std::move(item), 0.0); else sk[i]->update(item, 0.0); }
    catch (std::exception& ex) { threw = clean(ex.what()); if (threw.empty()) threw = "exception"; }
    Ev e("UpdateZero"); e.i("id", i).b("rv", rv); tag(e, i);
    if (!threw.empty()) { e.str("threw", threw).emit(); return; }
    e.b("empty", sk[i]->is_empty()).raw("s", proj<C>(*sk[i])).emit();
  }
  void opUpdateInvalid(int i) {
    static const double BAD[] = {-1.0, -0.5, NAN, INFINITY, -INFINITY};
    static const char* NAMES[] = {"-1", "-0.5", "nan", "+inf", "-inf"};
    int kind = (int)g.below(5);
    bool refused = false; std::string other;
    try { sk[i]->update(C::item(1000000 + nextId), BAD[kind]); } catch (std::invalid_argument&) { refused = true; } catch (std::exception& ex) { other = clean(ex.what()); }
    Ev e("UpdateInvalid"); e.i("id", i).str("kind", NAMES[kind]).b("refused", refused); tag(e, i);
    if (!other.empty()) e.str("other", other);
    e.raw("s", proj<C>(*sk[i])).emit();
  }
  void opObs(int i) {
    const SK& s = *sk[i];
    Ev e("Obs"); e.i("id", i); tag(e, i); e.raw("s", proj<C>(s));
    { int idiom = 1 + (int)g.below(NIDIOMS - 1); e.str("idiom", IDIOMS[idiom]).raw("sx", proj<C>(s, idiom)); }
    try {
    struct P { const char* name; int kind; };
    static const P PS[] = {{"all", 0}, {"none", 1}, {"even", 2}, {"mod3", 3}, {"heavy", 4}, {"light", 5}};
    std::string sub = "[";
    for (int j = 0; j < 6; j++) {
      int kind = PS[j].kind; const std::map<int, int>& W = wt;
      auto pred = [kind, &W](const T& it) -> bool {
        long id = C::id(it); auto f = W.find((int)id); int w = f == W.end() ? 0 : f->second;
        switch (kind) { case 0: return true; case 1: return false; case 2: return id % 2 == 0; case 3: return id % 3 == 0; case 4: return w > 10; default: return w <= 10; }
      };
      subset_summary ss = s.estimate_subset_sum(pred);
      Ev r("x"); r.s = "{\"p\":\""; r.s += PS[j].name; r.s += "\"";
      r.d("lb", ss.lower_bound).d("est", ss.estimate).d("ub", ss.upper_bound).d("tw", ss.total_sketch_weight);
      if (kind == 0) {
        long long a, ares, b, bres; intres(ss.estimate / g_unit, a, ares); intres(ss.total_sketch_weight / g_unit, b, bres);
        r.i("estI", a).i("estRes", ares).i("twI", b).i("twRes", bres);
      }
      r.s += "}"; if (j) sub += ","; sub += r.s;
    }
    sub += "]";
    e.raw("sub", sub).emit();
    } catch (std::exception& ex) { std::string w = clean(ex.what()); e.str("threw", w.empty() ? "exception" : w).emit(); }
  }
  void opCopy(int i, int j) {
    int how = (int)g.below(3);
    if (how == 0 || !sk[j]) { how = 0; sk[j].reset(new SK(*sk[i])); }
    else if (how == 1) *sk[j] = *sk[i];
    else { SK tmp(*sk[i]); *sk[j] = std::move(tmp); }
    ids[j] = ids[i]; total[j] = total[i]; restored[j] = restored[i]; fromUnion[j] = fromUnion[i]; prof[j] = prof[i]; giantAt[j] = -1;
    Ev e("Copy"); e.i("src", i).i("dst", j).str("how", how == 0 ? "ctor" : how == 1 ? "assign" : "move-assign"); tag(e, j); e.raw("s", proj<C>(*sk[j])).emit();
  }
  void opReset(int i) {
    sk[i]->reset(); ids[i].clear(); total[i] = 0; fromUnion[i] = false;
    Ev e("Reset"); e.i("id", i); tag(e, i); e.raw("s", proj<C>(*sk[i])).emit();
  }
  static unsigned drawHdr(vt::Rng& g) { static const unsigned HS[] = {0, 0, 1, 7, 8, 13, 64}; return HS[g.below(7)]; }
  void opSer(int i, int b) {
    unsigned hdr = drawHdr(g);
    std::string threw; std::vector<uint8_t> bytes; std::string st; size_t adv = 0;
    try {
      auto v = sk[i]->serialize(hdr); bytes.assign(v.begin(), v.end());
      std::ostringstream os; sk[i]->serialize(os); st = os.str();
      adv = sk[i]->get_serialized_size_bytes();
    } catch (std::exception& ex) { threw = clean(ex.what()); if (threw.empty()) threw = "exception"; }
    Ev e("Ser"); e.i("id", i).i("blob", b).i("hdr", hdr); tag(e, i);
    if (!threw.empty()) { e.str("threw", threw).emit(); return; }
    blob[b].live = true; blob[b].isUnion = false; blob[b].bytes.assign(bytes.begin() + std::min((size_t)hdr, bytes.size()), bytes.end());
    e.i("total", (long long)bytes.size()).i("size", (long long)blob[b].bytes.size()).i("advertised", (long long)adv)
     .bytes("img", blob[b].bytes.data(), blob[b].bytes.size()).bytes("simg", st.data(), st.size()).emit();
  }
  void opDeser(int b, int j, int path = -1) {
    bool stream = path < 0 ? g.chance(50) : path == 1;
    std::string threw; long long consumed = -1; std::unique_ptr<SK> r; std::vector<uint8_t> re;
    try {
      if (stream) {
        std::string in((const char*)blob[b].bytes.data(), blob[b].bytes.size()); in += std::string(16, '\x5a');
        std::istringstream is(in);
        r.reset(new SK(SK::deserialize(is)));
        consumed = (long long)is.tellg();
      } else {
        r.reset(new SK(SK::deserialize(blob[b].bytes.data(), blob[b].bytes.size())));
        consumed = (long long)blob[b].bytes.size();
      }
      auto v = r->serialize(); re.assign(v.begin(), v.end());
    } catch (std::exception& ex) { threw = clean(ex.what()); if (threw.empty()) threw = "exception"; }
    Ev e("Deser"); e.i("blob", b).i("dst", j).str("path", stream ? "stream" : "bytes").b("restored", true);
    if (!threw.empty()) { e.str("threw", threw).emit(); return; }
    drop(j);
    sk[j] = std::move(r); restored[j] = true; fromUnion[j] = false; prof[j] = (int)g.below(8); giantAt[j] = -1;
    // the harness does not know the stream of the blob's source any more than the spec tells it: recover ids/total from the event log side
    e.i("consumed", consumed).bytes("reimg", re.data(), re.size()).raw("s", proj<C>(*sk[j])).emit();
  }
  // damaged images (C11 clauses inside this family's driver): a truncated image, or one whose first H weight is made
  // non-positive, must be refused by an exception and nothing else happens
  void opDeserBad(int b) {
    const std::vector<uint8_t>& img = blob[b].bytes; bool isU = blob[b].isUnion;
    if (img.size() < 9) return;
    int kind = (int)g.below(isU ? 3 : 5);     // 0 stream+lenient serde, 1 stream, 2 bytes (all truncated); 3/4 non-positive weight (sketch images)
    std::vector<uint8_t> bad(img); long cut = -1; const char* what = "truncated";
    if (kind <= 2) { cut = g.chance(70) && img.size() > 40 ? g.range(33, (long)img.size() - 1) : g.range(1, (long)img.size() - 1); bad.resize((size_t)cut); }
    else {
      unsigned pre = img[0] & 0x3f; uint32_t h = 0; if (pre >= 3) memcpy(&h, &img[16], 4);
      if (pre < 3 || h == 0) return;
      size_t off = (size_t)pre * 8;
      if (kind == 3) { bad[off + 7] |= 0x80; what = "negative-weight"; } else { memset(&bad[off], 0, 8); what = "zero-weight"; }
    }
    bool refused = false; std::string ex;
    try {
      if (kind == 0 || (kind >= 3 && g.chance(50))) {
        std::istringstream is(std::string((const char*)bad.data(), bad.size()));
        if (isU) { UN r = UN::deserialize(is, lenient_serde<T>()); (void)r; } else { SK r = SK::deserialize(is, lenient_serde<T>()); (void)r; }
      } else if (kind == 1) {
        std::istringstream is(std::string((const char*)bad.data(), bad.size()));
        if (isU) { UN r = UN::deserialize(is); (void)r; } else { SK r = SK::deserialize(is); (void)r; }
      } else {
        if (isU) { UN r = UN::deserialize(bad.data(), bad.size()); (void)r; } else { SK r = SK::deserialize(bad.data(), bad.size()); (void)r; }
      }
    } catch (std::exception& e) { refused = true; ex = clean(e.what()); }
    Ev("DeserBad").i("blob", b).str("what", what).str("path", kind == 0 ? "stream-lenient-serde" : kind == 1 ? "stream" : kind == 2 ? "bytes" : "mixed")
      .i("cut", cut).i("size", (long long)img.size()).b("union", isU).b("refused", refused).str("ex", ex.substr(0, 80)).emit();
  }
  // ---- union ----
  void opUNew(int u, long k) {
    udrop(u);
    un[u].reset(new UN((uint32_t)k));
    Ev("UNew").i("u", u).i("maxk", k).emit();
  }
  bool disjoint(int u, int i) { for (int id : ids[i]) if (uids[u].count(id)) return false; return true; }
  void opUUpdate(int u, int i, bool rv) {
    std::string threw;
    Ev e("UUpdate"); e.i("u", u).i("id", i).b("rv", rv); utag(e, u); if (restored[i] && !urestored[u]) e.b("restored", true);
    try { if (rv) un[u]->update(std::move(*sk[i])); else un[u]->update(*sk[i]); }
    catch (std::exception& ex) { threw = clean(ex.what()); if (threw.empty()) threw = "exception"; }
    for (int id : ids[i]) uids[u].insert(id);
    utotal[u] += total[i]; if (restored[i]) urestored[u] = true;
    if (!threw.empty()) { e.str("threw", threw).emit(); udrop(u); if (rv) drop(i); return; }
    e.emit();
    if (rv) drop(i);   // the argument was moved from
  }
  void opUResult(int u, int j) {
    std::string threw; std::unique_ptr<SK> r;
    try { r.reset(new SK(un[u]->get_result())); }
    catch (std::exception& ex) { threw = clean(ex.what()); if (threw.empty()) threw = "exception"; }
    Ev e("UResult"); e.i("u", u).i("dst", j); utag(e, u);
    if (!threw.empty()) { e.str("threw", threw).emit(); return; }
    drop(j);
    sk[j] = std::move(r); ids[j].assign(uids[u].begin(), uids[u].end()); total[j] = utotal[u];
    restored[j] = urestored[u]; fromUnion[j] = true; prof[j] = (int)g.below(8); giantAt[j] = -1;
    e.raw("s", proj<C>(*sk[j])).emit();
  }
  void opUReset(int u) {
    un[u]->reset(); uids[u].clear(); utotal[u] = 0;
    Ev e("UReset"); e.i("u", u); utag(e, u); e.emit();
  }
  // copy / move construction and copy / move ASSIGNMENT between union objects (the target may be in any state)
  void opUCopy(int u, int v, int how) {
    if (!un[v] && (how == 1 || how == 3)) how -= 1;          // assignment needs an existing target
    std::string threw;
    try {
      if (how == 0) un[v].reset(new UN(*un[u]));
      else if (how == 1) *un[v] = *un[u];
      else if (how == 2) un[v].reset(new UN(std::move(*un[u])));
      else *un[v] = std::move(*un[u]);
    } catch (std::exception& ex) { threw = clean(ex.what()); if (threw.empty()) threw = "exception"; }
    uids[v] = uids[u]; utotal[v] = utotal[u]; urestored[v] = urestored[u];
    Ev e("UCopy"); e.i("src", u).i("dst", v).str("how", how == 0 ? "copy-ctor" : how == 1 ? "copy-assign" : how == 2 ? "move-ctor" : "move-assign"); utag(e, v);
    if (!threw.empty()) e.str("threw", threw);
    e.emit();
    if (how >= 2) udrop(u);       // moved from
  }
  void opUSer(int u, int b) {
    unsigned hdr = drawHdr(g);
    std::string threw; std::vector<uint8_t> bytes; std::string st; size_t adv = 0;
    try {
      auto v = un[u]->serialize(hdr); bytes.assign(v.begin(), v.end());
      std::ostringstream os; un[u]->serialize(os); st = os.str();
      adv = un[u]->get_serialized_size_bytes();
    } catch (std::exception& ex) { threw = clean(ex.what()); if (threw.empty()) threw = "exception"; }
    Ev e("SerU"); e.i("u", u).i("blob", b).i("hdr", hdr); utag(e, u);
    if (!threw.empty()) { e.str("threw", threw).emit(); return; }
    blob[b].live = true; blob[b].isUnion = true; blob[b].bytes.assign(bytes.begin() + std::min((size_t)hdr, bytes.size()), bytes.end());
    e.i("total", (long long)bytes.size()).i("size", (long long)blob[b].bytes.size()).i("advertised", (long long)adv)
     .bytes("img", blob[b].bytes.data(), blob[b].bytes.size()).bytes("simg", st.data(), st.size()).emit();
    ublobIds[b] = uids[u]; ublobTotal[b] = utotal[u];
  }
  std::set<int> ublobIds[NB]; long long ublobTotal[NB] = {0, 0, 0, 0};
  std::vector<int> sblobIds[NB]; long long sblobTotal[NB] = {0, 0, 0, 0}; bool sblobFromUnion[NB] = {false, false, false, false};
  void opUDeser(int b, int u, int path = -1) {
    bool stream = path < 0 ? g.chance(50) : path == 1;
    std::string threw; long long consumed = -1; std::unique_ptr<UN> r; std::vector<uint8_t> re;
    try {
      if (stream) {
        std::string in((const char*)blob[b].bytes.data(), blob[b].bytes.size()); in += std::string(16, '\x5a');
        std::istringstream is(in);
        r.reset(new UN(UN::deserialize(is)));
        consumed = (long long)is.tellg();
      } else {
        r.reset(new UN(UN::deserialize(blob[b].bytes.data(), blob[b].bytes.size())));
        consumed = (long long)blob[b].bytes.size();
      }
      auto v = r->serialize(); re.assign(v.begin(), v.end());
    } catch (std::exception& ex) { threw = clean(ex.what()); if (threw.empty()) threw = "exception"; }
    Ev e("DeserU"); e.i("blob", b).i("u", u).str("path", stream ? "stream" : "bytes").b("restored", true);
    if (!threw.empty()) { e.str("threw", threw).emit(); return; }
    udrop(u);
    un[u] = std::move(r); urestored[u] = true; uids[u] = ublobIds[b]; utotal[u] = ublobTotal[b];
    e.i("consumed", consumed).bytes("reimg", re.data(), re.size()).emit();
  }

  // one randomized segment
  void run(long events, int serde_pct) {
    opNew(0, drawK());
    for (long n = 0; n < events; n++) {
      int i = (int)g.below(NS);
      if (!sk[i]) { if (g.chance(30)) { opNew(i, drawK()); continue; } i = 0; if (!sk[0]) { opNew(0, drawK()); continue; } }
      int op = (int)g.below(100);
      int upd = 100 - 22 - 2 * serde_pct;     // share of plain updates
      if (op < upd) {
        if (canUpdate(i)) opUpdate(i, fromUnion[i] ? g.range(1, 30) : drawW(i), g.chance(40));
        else if (g.chance(50)) opReset(i); else opObs(i);
      } else if (op < upd + 4) opObs(i);
      else if (op < upd + 5) { if (g.chance(50)) opUpdateInvalid(i); else { opUpdateZero(i); if (g.chance(30)) { int b = (int)g.below(NB); serTrack(i, b); if (blob[b].live && !blob[b].isUnion) deserTrack(b, (int)g.below(NS), -1); } } }
      else if (op < upd + 6) { if (g.chance(40)) opNewInvalid(); else if (g.chance(25)) opReset(i); }
      else if (op < upd + 8) { int j = (int)g.below(NS); if (j != i) opCopy(i, j); }
      else if (op < upd + 9) { int j = (int)g.below(NS); opNew(j, drawK()); }
      else if (op < upd + 22) {
        // union block
        int u = (int)g.below(NU); int c = (int)g.below(13);
        if (!un[u] || c == 0) { long k = g.chance(50) ? drawK() : g.range(1, 2 * maxk); opUNew(u, k); }
        else if (c <= 6) { if (disjoint(u, i) && utotal[u] + total[i] <= UCAP && uids[u].size() + ids[i].size() < 1200) opUUpdate(u, i, g.chance(35)); }
        else if (c <= 10) { int j = (int)g.below(NS); opUResult(u, j); if (sk[j] && g.chance(50)) opObs(j); }
        else if (c == 11) { if (g.chance(40)) opUReset(u); else { int v = (int)g.below(NU); if (v != u) opUCopy(u, v, (int)g.below(4)); } }
        else { int b = (int)g.below(NB); opUSer(u, b); }
      } else if (op < upd + 22 + serde_pct) {
        int b = (int)g.below(NB);
        if (g.chance(75)) { opSer(i, b); if (blob[b].live && !blob[b].isUnion) { sblobIds[b] = ids[i]; sblobTotal[b] = total[i]; sblobFromUnion[b] = fromUnion[i]; } }
        else { int u = (int)g.below(NU); if (un[u]) opUSer(u, b); }
      } else {
        int b = (int)g.below(NB);
        if (blob[b].live && g.chance(25)) opDeserBad(b);
        if (blob[b].live && !blob[b].isUnion) {
          int j = (int)g.below(NS); opDeser(b, j);
          if (sk[j] && restored[j]) { ids[j] = sblobIds[b]; total[j] = sblobTotal[b]; fromUnion[j] = sblobFromUnion[b]; }
        } else if (blob[b].live) { int u = (int)g.below(NU); opUDeser(b, u); }
      }
    }
    for (int i = 0; i < NS; i++) if (sk[i]) opObs(i);
    for (int u = 0; u < NU; u++) if (un[u]) { int j = (int)g.below(NS); opUResult(u, j); if (sk[j]) opObs(j); }
  }

  // unions of inputs living in strongly different weight regimes: a sketch of many very light items against one of few
  // heavy items (weight ratio 10^2..10^4, integers), different k and fill (exact / estimation mode on either side),
  // both orders, lvalue and rvalue, max_k below / between / above the inputs' k; results observed, updated, fed on
  void runRegimes(long rounds) {
    for (long r = 0; r < rounds; r++) {
      long kl = g.range(1, 12), kh = g.range(1, 12);
      long nl = g.range(6, 70), nh = g.range(1, 9);
      long lw = g.chance(60) ? 1 : g.range(1, 4);
      long hw = g.chance(50) ? (128L << g.below(7)) : 1000 * g.range(1, 9);
      opNew(0, kl); for (long t = 0; t < nl; t++) opUpdate(0, g.chance(80) ? lw : g.range(1, 4), g.chance(40));
      opNew(1, kh); for (long t = 0; t < nh; t++) opUpdate(1, g.chance(75) ? hw : hw / 2 + g.range(0, 9), g.chance(40));
      if (!sk[0] || !sk[1]) continue;
      long mk = g.chance(34) ? g.range(1, std::min(kl, kh)) : g.chance(50) ? g.range(std::min(kl, kh), std::max(kl, kh)) : g.range(std::max(kl, kh), 40);
      opUNew(0, mk);
      int first = (int)(r % 2), second = 1 - first;
      bool keep = g.chance(50);                      // keep the inputs (lvalue) to feed a second union in the other order
      opUUpdate(0, first, keep ? false : g.chance(50)); if (!un[0]) continue;
      if (g.chance(30)) { opUResult(0, 2); if (sk[2]) opObs(2); }
      if (sk[second]) opUUpdate(0, second, keep ? false : g.chance(50));
      if (!un[0]) continue;
      opUResult(0, 2);
      if (sk[2]) {
        opObs(2);
        long more = g.range(1, 5);
        for (long t = 0; t < more && sk[2]; t++) opUpdate(2, g.chance(50) ? lw : hw, g.chance(40));
        if (sk[2]) opObs(2);
      }
      if (keep && sk[0] && sk[1]) {                  // same inputs, other order, rvalue
        opUNew(1, mk); opUUpdate(1, second, true); if (un[1] && sk[first]) opUUpdate(1, first, true);
        if (un[1]) { opUResult(1, 3); if (sk[3]) opObs(3); }
      }
      for (int i = 0; i < NS; i++) drop(i);
      for (int u = 0; u < NU; u++) udrop(u);
    }
  }

  // unions whose inputs are PURE RESERVOIRS (h = 0: equal weights inside each input, so every sample carries tau) of
  // different k, fill and tau, with max_k below / between / above the inputs' k: the gadget then holds only marked
  // items and resolution has to shrink k; also reservoir + exact-mode input, and three inputs
  void runReservoirs(long rounds) {
    for (long r = 0; r < rounds; r++) {
      int nin = (int)g.range(2, 3); long kmin = 1000, kmax = 0;
      for (int i = 0; i < nin; i++) {
        long k = g.range(1, 10); long w = g.chance(40) ? 1 : g.range(1, 12) * (g.chance(30) ? 100 : 1);
        bool exact = (i == nin - 1) && g.chance(25);
        long n = exact ? g.range(1, k) : k + g.range(1, 25);
        opNew(i, k); for (long t = 0; t < n; t++) opUpdate(i, w, g.chance(30));
        kmin = std::min(kmin, k); kmax = std::max(kmax, k);
      }
      long mk = g.chance(34) ? g.range(1, kmin) : g.chance(50) ? g.range(kmin, kmax) : g.range(kmax, 3 * kmax + 2);
      opUNew(0, mk);
      bool ser = g.chance(25);
      for (int i = 0; i < nin && un[0]; i++) {
        if (sk[i]) opUUpdate(0, i, g.chance(40));
        if (un[0] && g.chance(40)) { opUResult(0, 3); if (sk[3]) opObs(3); }
      }
      if (!un[0]) continue;
      if (ser) { opUSer(0, 0); if (blob[0].live) { opDeserBad(0); opUDeser(0, 1); if (un[1]) { opUResult(1, 4); if (sk[4]) opObs(4); } } }
      opUResult(0, 3);
      if (sk[3]) {
        opObs(3);
        long more = g.range(1, 4);
        for (long t = 0; t < more && sk[3]; t++) opUpdate(3, g.range(1, 12), g.chance(40));
        if (sk[3]) opObs(3);
        if (sk[3] && g.chance(40)) { opSer(3, 1); if (blob[1].live && !blob[1].isUnion) { sblobIds[1] = ids[3]; sblobTotal[1] = total[3]; sblobFromUnion[1] = fromUnion[3]; opDeserBad(1); } }
      }
      for (int i = 0; i < NS; i++) drop(i);
      for (int u = 0; u < NU; u++) udrop(u);
    }
  }

  // tier B (design model) conformance: one sketch, updates only; every event carries the size h of the H region as
  // printed by to_string(), so that the design model's H / R split can be compared (spec/TraceVarOptDesign.tla)
  static long parse_h(const std::string& t) { size_t p = t.find("   h            : "); return p == std::string::npos ? -1 : atol(t.c_str() + p + 18); }
  void runDesign(long events) {
    long k = drawK();
    sk[0].reset(new SK((uint32_t)k, (resize_factor)g.below(4))); prof[0] = (int)g.below(8); giantAt[0] = g.range(0, 60);
    Ev("DNew").i("k", k).i("profile", prof[0]).emit();
    for (long n = 0; n < events && canUpdate(0); n++) {
      long w = drawW(0); int id = nextId++; wt[id] = (int)w; bool rv = g.chance(40); T item = C::item(id);
      std::string threw;
      try { if (rv) sk[0]->update(std::move(item), (double)w); else sk[0]->update(item, (double)w); }
      catch (std::exception& ex) { threw = clean(ex.what()); if (threw.empty()) threw = "exception"; }
      ids[0].push_back(id); total[0] += w;
      Ev e("DUpdate"); e.i("x", id).i("w", w);
      if (!threw.empty()) { e.str("threw", threw).emit(); return; }
      std::string ts(sk[0]->to_string().c_str());
      e.i("h", parse_h(ts)).raw("s", proj<C>(*sk[0])).emit();
    }
  }

  // ---- internal states ("modes") of a union's gadget, reached through the public API ----
  // 0 empty; 1 exact (only exact-mode inputs, all fit); 2 pseudo-exact (one estimation-mode pure-reservoir input whose
  // samples fit max_k, optionally an exact input of items not lighter than its tau): marked items in H, one tau;
  // 3 marked items of different tau in H (two estimation-mode inputs that both fit); 4 gadget itself in estimation
  // mode (more samples offered than max_k); 5 marked heavy item next to an estimation-mode gadget
  static const int NMODES = 6;
  void feedSketch(int u, long k, long n, long wlo, long whi) {
    opNew(4, k); for (long t = 0; t < n && sk[4]; t++) opUpdate(4, wlo == whi ? wlo : g.range(wlo, whi), g.chance(30));
    if (sk[4] && un[u]) opUUpdate(u, 4, g.chance(40));
    drop(4);
  }
  void feedMode(int u, int mode, long mk) {
    if (!un[u]) return;
    long half = std::max(1L, mk / 2);
    switch (mode) {
      case 0: break;
      case 1: feedSketch(u, mk + 3, g.range(1, half), 1, 9); if (g.chance(50)) feedSketch(u, 4, g.range(1, std::min(4L, half)), 1, 9); break;
      case 2: { long k = g.range(1, half); long w = g.range(1, 20);
                feedSketch(u, k, k + g.range(1, 30), w, w);
                if (g.chance(50)) feedSketch(u, mk, g.range(1, std::max(1L, mk - k)), 2000, 3000); break; }
      case 3: { long k1 = g.range(1, half), k2 = g.range(1, std::max(1L, mk - k1));
                feedSketch(u, k1, k1 + g.range(1, 20), 1, 1); feedSketch(u, k2, k2 + g.range(1, 20), 10, 10); break; }
      case 4: feedSketch(u, 2 * mk + 2, mk + g.range(1, 12), 1, 9); if (g.chance(50)) feedSketch(u, 3, g.range(4, 20), 1, 5); break;
      case 5: feedSketch(u, 2 * mk + 2, mk + g.range(1, 12), 1, 9); feedSketch(u, 1, g.range(2, 6), 4000, 4000); break;
    }
  }
  void resultObs(int u, int j, bool more) {
    if (!un[u]) return;
    opUResult(u, j); if (!sk[j]) return;
    opObs(j);
    if (more) { for (int t = 0; t < 3 && sk[j]; t++) opUpdate(j, g.range(1, 12), g.chance(40)); if (sk[j]) opObs(j); }
  }
  // reset() of every object from every mode, then a full SECOND LIFE in every mode, all clauses applied to it
  void runSecondLife(long salt) {
    for (int m1 = 0; m1 < NMODES; m1++) for (int m2 = 0; m2 < NMODES; m2++) {
      long mk = g.range(4, 12);
      opUNew(0, mk); feedMode(0, m1, mk);
      if ((m1 + m2 + salt) % 2 == 0) resultObs(0, 3, false);
      if (!un[0]) continue;
      opUReset(0);
      if ((m1 * NMODES + m2 + salt) % 3 == 0) resultObs(0, 3, false);      // the empty result of the reset union
      feedMode(0, m2, mk);
      resultObs(0, 3, true);
      for (int i = 0; i < NS; i++) drop(i);
      udrop(0);
    }
    // sketches: 0 empty, 1 warm-up, 2 estimation with exact heavy items, 3 pure reservoir, 4 one giant item
    for (int m1 = 0; m1 < 5; m1++) for (int m2 = 0; m2 < 5; m2++) {
      long k = g.range(2, 9);
      opNew(0, k);
      for (int life = 0; life < 2 && sk[0]; life++) {
        int m = life == 0 ? m1 : m2;
        long n = m == 0 ? 0 : m == 1 ? g.range(1, k) : k + g.range(1, 20);
        for (long t = 0; t < n && sk[0]; t++) {
          long w = m == 2 ? (g.chance(25) ? g.range(500, 900) : g.range(1, 9)) : m == 3 ? 7 : m == 4 ? (t == 2 ? 30000 : g.range(1, 5)) : g.range(1, 9);
          opUpdate(0, w, g.chance(40));
        }
        if (!sk[0]) break;
        opObs(0);
        if (life == 0) { opReset(0); if ((m1 + m2 + salt) % 2 == 0) opObs(0); }
      }
      if (sk[0]) { long mk = g.range(2, 10); opUNew(0, mk); opUUpdate(0, 0, g.chance(50)); feedMode(0, (int)((m1 + m2 + salt) % NMODES), mk); resultObs(0, 3, false); }
      for (int i = 0; i < NS; i++) drop(i);
      udrop(0);
    }
  }
  // construction and ASSIGNMENT (copy and move) between unions whose gadgets are in different modes, then results and
  // further inputs on BOTH sides
  void runUnionAssign(long salt) {
    for (int ma = 0; ma < NMODES; ma++) for (int mb = 0; mb < NMODES; mb++) {
      int how = (int)((ma + 2 * mb + salt) % 4);
      long mka = g.range(4, 12), mkb = g.chance(50) ? mka : g.range(4, 12);
      opUNew(0, mka); feedMode(0, ma, mka);
      opUNew(1, mkb); feedMode(1, mb, mkb);
      if (!un[0] || !un[1]) { for (int u = 0; u < NU; u++) udrop(u); continue; }
      if ((ma + mb + salt) % 3 == 0) resultObs(1, 3, false);
      opUCopy(0, 1, how);                                   // 1 := 0
      for (int u = 0; u < 2; u++) if (un[u]) resultObs(u, 2 + u, false);
      for (int u = 0; u < 2; u++) if (un[u]) { feedMode(u, (int)((ma + mb + u + salt) % NMODES), u == 0 ? mka : mka); resultObs(u, 2 + u, u == 1); }
      if (un[1] && (ma + salt) % 2 == 0) { opUSer(1, 0); if (blob[0].live) { opUDeser(0, 2); resultObs(2, 3, false); } }
      for (int i = 0; i < NS; i++) drop(i);
      for (int u = 0; u < NU; u++) udrop(u);
    }
  }

  void serTrack(int i, int b) { opSer(i, b); if (blob[b].live && !blob[b].isUnion) { sblobIds[b] = ids[i]; sblobTotal[b] = total[i]; sblobFromUnion[b] = fromUnion[i]; } }
  void deserTrack(int b, int j, int path) { opDeser(b, j, path); if (sk[j] && restored[j]) { ids[j] = sblobIds[b]; total[j] = sblobTotal[b]; fromUnion[j] = sblobFromUnion[b]; } }
  // C09 "restore, then continue" at the EDGE states: the empty sketch, exactly one item, and right after reset().
  // The image (bytes with a header and stream form) is restored through both readers; original (slot 0) and the
  // two restored sketches (slots 1, 2) then receive the SAME further items in lock-step, across the warm-up /
  // estimation boundary, are observed, serialized again, and used as union operands next to a fresh sketch.
  // The same for var_opt_union objects: empty, fed one one-item sketch, right after reset().
  void directedRestoreEdges() {
    for (int state = 0; state < 3; state++) {
      long k = state == 0 ? 3 : state == 1 ? 4 : 2;
      opNew(0, k); prof[0] = 0;
      if (state == 1) opUpdate(0, 5, false);
      if (state == 2) { for (int t = 0; t < 7; t++) opUpdate(0, 1 + t % 3, false); opObs(0); opReset(0); }
      opObs(0);
      opUpdateZero(0); opObs(0);
      serTrack(0, 0); if (!blob[0].live) continue;
      deserTrack(0, 1, 0); deserTrack(0, 2, 1);
      for (int j = 1; j <= 2; j++) if (sk[j]) opObs(j);
      for (int t = 0; t < (int)k + 6; t++) {
        int id = nextId++; long w = g.range(1, 9); bool rv = g.chance(40);
        for (int j = 0; j <= 2; j++) if (sk[j]) opUpdateX(j, id, w, rv);
        if (t == 0 || t == (int)k || t == (int)k + 5) for (int j = 0; j <= 2; j++) if (sk[j]) { opUpdateZero(j); opObs(j); }
      }
      for (int j = 0; j <= 2; j++) if (sk[j]) { serTrack(j, 1 + j % 3); }
      // as union operands: the bytes-restored one and the original into two unions next to the same fresh sketch
      opNew(3, 3); for (int t = 0; t < 5; t++) opUpdate(3, g.range(1, 9), false);
      for (int u = 0; u < 2; u++) {
        int src = u == 0 ? 1 : 0;
        if (!sk[src] || !sk[3]) continue;
        opUNew(u, 4); opUUpdate(u, src, false); if (un[u]) opUUpdate(u, 3, false);
        if (un[u]) { opUResult(u, 4); if (sk[4]) opObs(4); }
      }
      if (sk[2]) { opReset(2); opObs(2); opUpdate(2, 3, false); if (sk[2]) opObs(2); }   // the stream-restored one: reset and reuse
      for (int i = 0; i < NS; i++) drop(i);
      for (int u = 0; u < NU; u++) udrop(u);
    }
    // union objects
    for (int state = 0; state < 3; state++) for (int path = 0; path < 2; path++) {
      long mk = state == 0 ? 3 : state == 1 ? 5 : 2;
      opUNew(0, mk);
      if (state == 1) { opNew(0, 2); opUpdate(0, 4, false); opUUpdate(0, 0, false); drop(0); }
      if (state == 2) { opNew(0, 2); for (int t = 0; t < 6; t++) opUpdate(0, 1 + t % 4, false); opUUpdate(0, 0, false); if (un[0]) { opUResult(0, 4); opUReset(0); } drop(0); drop(4); }
      if (!un[0]) continue;
      opUResult(0, 3); if (sk[3]) opObs(3);
      opUSer(0, 0); if (!blob[0].live) continue;
      opUDeser(0, 1, path); if (!un[1]) continue;
      opUResult(1, 4); if (sk[4]) opObs(4);
      // lock-step: the same input sketches (lvalue) into the original and the restored union
      for (int round = 0; round < 3 && un[0] && un[1]; round++) {
        long k = round == 0 ? 1 : round == 1 ? 3 : 2; long n = round == 0 ? 1 : round == 1 ? 2 : 8;
        opNew(0, k); for (long t = 0; t < n; t++) opUpdate(0, g.range(1, 9), false);
        opUUpdate(0, 0, false); if (un[1] && sk[0]) opUUpdate(1, 0, false);
        if (un[0]) { opUResult(0, 3); if (sk[3]) opObs(3); }
        if (un[1]) { opUResult(1, 4); if (sk[4]) opObs(4); }
      }
      if (un[1]) { opUSer(1, 1); if (blob[1].live) opUDeser(1, 1, 1 - path); if (un[1]) { opUResult(1, 4); if (sk[4]) { opObs(4); opUpdate(4, 2, false); if (sk[4]) opObs(4); } } }
      for (int i = 0; i < NS; i++) drop(i);
      for (int u = 0; u < NU; u++) udrop(u);
    }
  }

  // directed histories (inputs on which the pinned tree was found to throw; see notes/C16-report.md)
  void directedTie() {
    // a: estimation mode, r = 3, total 28, tau = 28/3; b: exact mode; in the gadget the 4th candidate ties with tau
    opNew(0, 3); prof[0] = 7; for (int t = 0; t < 4; t++) opUpdate(0, 7, false);
    opNew(1, 10); static const long WB[] = {4, 9, 9, 10, 6, 12}; for (long w : WB) opUpdate(1, w, false);
    opUNew(0, 7); opUUpdate(0, 0, false); if (un[0]) opUUpdate(0, 1, false); if (un[0]) { opUResult(0, 2); if (sk[2]) opObs(2); }
  }
  void directedResultHeap() {
    // pseudo-exact result whose H region is in arrival order (13 first); two light updates of the result
    opNew(0, 4); static const long WA[] = {7, 7, 7, 7, 8}; for (long w : WA) opUpdate(0, w, false);
    opNew(1, 10); static const long WB[] = {13, 24, 9, 10, 12, 13, 11}; for (long w : WB) opUpdate(1, w, false);
    opUNew(0, 20); opUUpdate(0, 1, false); opUUpdate(0, 0, false); opUResult(0, 2);
    if (sk[2]) { opUpdate(2, 8, false); if (sk[2]) opUpdate(2, 9, false); if (sk[2]) opObs(2); }
  }
  void directedPseudoExact() {
    // a: estimation mode (tau = 15); b: exact mode with items lighter than tau; result, then one more update of the result
    opNew(0, 2); for (int t = 0; t < 3; t++) opUpdate(0, 10, false);
    opNew(1, 10); for (int t = 0; t < 3; t++) opUpdate(1, 1, false);
    opUNew(0, 10); opUUpdate(0, 0, false); opUUpdate(0, 1, false); opUResult(0, 2);
    if (sk[2]) { opObs(2); opUpdate(2, 1, false); if (sk[2]) opObs(2); }
  }
};

// ---- statistical segment: subset-sum estimates over repeated seeded runs of one fixed stream ----
static void stat_event(vt::Rng& g, uint64_t seed, int which, bool uni) {
  const int T = 400;
  int m = (int)g.range(8, 14); std::vector<long> w(m + 1, 0); long tot = 0;
  for (int i = 1; i <= m; i++) { w[i] = g.chance(15) ? g.range(10, 20) : g.range(1, 5); if (tot + w[i] > 95) w[i] = 1; tot += w[i]; }
  int k = (int)g.range(2, 5), k2 = (int)g.range(2, 5), maxk = (int)g.range(3, 8); int split = (int)g.range(3, m - 3);
  std::vector<std::vector<long>> preds(3);
  for (int i = 1; i <= m; i++) { if (i % 2 == 0) preds[0].push_back(i); if (w[i] <= 3) preds[1].push_back(i); if (i <= m / 2 || w[i] >= 10) preds[2].push_back(i); }
  std::vector<std::vector<long long>> est(3, std::vector<long long>());
  std::string threw;
  for (int t = 0; t < T && threw.empty(); t++) try {
    random_utils::override_seed(seed * 1000003ULL + (uint64_t)which * 7919ULL + (uint64_t)t);
    std::unique_ptr<var_opt_sketch<int64_t>> res;
    if (!uni) {
      res.reset(new var_opt_sketch<int64_t>((uint32_t)k));
      for (int i = 1; i <= m; i++) res->update((int64_t)i, (double)w[i]);
    } else {
      var_opt_sketch<int64_t> a((uint32_t)k), b((uint32_t)k2);
      for (int i = 1; i <= split; i++) a.update((int64_t)i, (double)w[i]);
      for (int i = split + 1; i <= m; i++) b.update((int64_t)i, (double)w[i]);
      var_opt_union<int64_t> u((uint32_t)maxk); u.update(a); u.update(b);
      res.reset(new var_opt_sketch<int64_t>(u.get_result()));
    }
    for (int j = 0; j < 3; j++) {
      const std::vector<long>& P = preds[j];
      subset_summary ss = res->estimate_subset_sum([&P](const int64_t& it) { return std::find(P.begin(), P.end(), (long)it) != P.end(); });
      est[j].push_back(std::llround(ss.estimate));
    }
  } catch (std::exception& ex) { threw = clean(ex.what()); if (threw.empty()) threw = "exception"; }
  Ev e("Stat"); if (!threw.empty()) e.str("threw", threw);
  e.str("what", uni ? "union" : "sketch").i("T", T).i("k", k).i("k2", k2).i("maxk", maxk).i("split", split);
  std::vector<long> ws(w.begin() + 1, w.end()); e.il("w", ws);
  std::string ps = "[", es = "[";
  for (int j = 0; j < 3; j++) { Ev a("x"); a.s = ""; a.il("p", preds[j]); Ev b("x"); b.s = ""; b.il("e", est[j]);
    if (j) { ps += ","; es += ","; }
    ps += a.s.substr(a.s.find('[')); es += b.s.substr(b.s.find('[')); }
  ps += "]"; es += "]";
  e.raw("preds", ps).raw("est", es).emit();
}

// inclusion of the FIRST items arriving after a checkpoint operation on an estimation-mode sketch: a pure reservoir (n items of
// one weight, k < n) is copied / assigned / restored (or left alone), then `arrivals` more items of the same weight arrive;
// each of them must end up in the sample with probability k / (n + arrivals).  T seeded runs per checkpoint kind.
static void stat_incl_event(vt::Rng& g, uint64_t seed, int which) {
  const int T = 1000; static const char* const HOW[] = {"none", "copy-ctor", "copy-assign", "move-ctor", "move-assign", "deser-bytes", "deser-stream"};
  typedef var_opt_sketch<int64_t> SK;
  int k = (int)g.range(2, 8), n = k + (int)g.range(1, 30), arrivals = 1 + (which % 2); double w = (double)g.range(1, 9);
  std::string cs = "["; std::string threw;
  for (int how = 0; how < 7 && threw.empty(); how++) {
    std::vector<long long> count((size_t)arrivals, 0);
    for (int t = 0; t < T && threw.empty(); t++) try {
      random_utils::override_seed(seed * 1000003ULL + (uint64_t)which * 104729ULL + (uint64_t)how * 7919ULL + (uint64_t)t);
      SK a((uint32_t)k); for (int i = 1; i <= n; i++) a.update((int64_t)i, w);
      std::unique_ptr<SK> b;
      switch (how) {
        case 0: b.reset(new SK(std::move(a))); b.reset(); b.reset(new SK((uint32_t)k)); for (int i = 1; i <= n; i++) b->update((int64_t)i, w); break;
        case 1: b.reset(new SK(a)); break;
        case 2: b.reset(new SK((uint32_t)(k + 1))); b->update((int64_t)-5, 2.0); *b = a; break;
        case 3: b.reset(new SK(std::move(a))); break;
        case 4: b.reset(new SK((uint32_t)(k + 1))); b->update((int64_t)-5, 2.0); *b = std::move(a); break;
        case 5: { auto bytes = a.serialize(); b.reset(new SK(SK::deserialize(bytes.data(), bytes.size()))); break; }
        default: { std::stringstream ss; a.serialize(ss); b.reset(new SK(SK::deserialize(ss))); break; }
      }
      for (int j = 1; j <= arrivals; j++) b->update((int64_t)(n + j), w);
      for (auto p : *b) if (p.first > n && p.first <= n + arrivals) count[(size_t)(p.first - n - 1)]++;
    } catch (std::exception& ex) { threw = clean(ex.what()); if (threw.empty()) threw = "exception"; }
    Ev a("x"); a.s = ""; a.il("c", count); if (how) cs += ","; cs += a.s.substr(a.s.find('['));
  }
  cs += "]";
  std::string hs = "["; for (int how = 0; how < 7; how++) { if (how) hs += ","; hs += "\""; hs += HOW[how]; hs += "\""; } hs += "]";
  Ev e("StatIncl"); if (!threw.empty()) e.str("threw", threw);
  e.i("T", T).i("k", k).i("n", n).i("arrivals", arrivals).raw("how", hs).raw("counts", cs).emit();
}

int main(int argc, char** argv) {
  vt::install_terminate();
  uint64_t seed = (uint64_t)vt::argl(argc, argv, "--seed", 1);
  long segments = vt::argl(argc, argv, "--segments", 6);
  long events = vt::argl(argc, argv, "--events", 600);
  long maxk = vt::argl(argc, argv, "--maxk", 24);
  int serde_pct = (int)vt::argl(argc, argv, "--serde", 4);
  long stats = vt::argl(argc, argv, "--stat", 2);
  long directed = vt::argl(argc, argv, "--directed", 0);
  long design = vt::argl(argc, argv, "--design", 0);
  vt::open_out(vt::arg(argc, argv, "--out", "/dev/stdout"));
  vt::Rng g0(seed); g0.next(); vt::Rng g(g0.next() >> 1);   // consecutive seeds of vt::Rng are shifted copies of one stream: decorrelate
  random_utils::override_seed(seed);
  long segno = 0; g_seed0 = (unsigned long)seed; g_fix_unit = design != 0;
  if (directed) {
    { Ev("Begin").i("seg", segno++).str("type", "i64").str("kind", "directed-tie").emit(); Seg<ConvI> s(g, maxk); s.directedTie(); }
    { Ev("Begin").i("seg", segno++).str("type", "str").str("kind", "directed-pseudo-exact").emit(); Seg<ConvS> s(g, maxk); s.directedPseudoExact(); }
    { Ev("Begin").i("seg", segno++).str("type", "i64").str("kind", "directed-result-heap").emit(); Seg<ConvI> s(g, maxk); s.directedResultHeap(); }
  }
  if (!design && vt::argl(argc, argv, "--edges", 1)) {
    { Ev("Begin").i("seg", segno++).str("type", "i64").str("kind", "directed-restore-edges").emit(); Seg<ConvI> s(g, maxk); s.directedRestoreEdges(); }
    { Ev("Begin").i("seg", segno++).str("type", "str").str("kind", "directed-restore-edges").emit(); Seg<ConvS> s(g, maxk); s.directedRestoreEdges(); }
  }
  if (!design && vt::argl(argc, argv, "--lives", 1)) {
    bool str = (seed % 2) == 1;
    { Ev("Begin").i("seg", segno++).str("type", str ? "str" : "i64").str("kind", "second-life").emit(); if (str) { Seg<ConvS> s(g, maxk); s.runSecondLife((long)seed); } else { Seg<ConvI> s(g, maxk); s.runSecondLife((long)seed); } }
    { Ev("Begin").i("seg", segno++).str("type", str ? "i64" : "str").str("kind", "union-assign").emit(); if (!str) { Seg<ConvS> s(g, maxk); s.runUnionAssign((long)seed); } else { Seg<ConvI> s(g, maxk); s.runUnionAssign((long)seed); } }
  }
  long regimes = vt::argl(argc, argv, "--regimes", design ? 0 : 16);
  if (regimes > 0) {
    { Ev("Begin").i("seg", segno++).str("type", "i64").str("kind", "regimes").emit(); Seg<ConvI> s(g, maxk); s.runRegimes(regimes); }
    { Ev("Begin").i("seg", segno++).str("type", "str").str("kind", "regimes").emit(); Seg<ConvS> s(g, maxk); s.runRegimes(regimes / 2); }
    { Ev("Begin").i("seg", segno++).str("type", "str").str("kind", "reservoirs").emit(); Seg<ConvS> s(g, maxk); s.runReservoirs(regimes); }
    { Ev("Begin").i("seg", segno++).str("type", "i64").str("kind", "reservoirs").emit(); Seg<ConvI> s(g, maxk); s.runReservoirs(regimes / 2); }
  }
  for (long seg = 0; seg < segments; seg++) {
    bool str = (seg % 2 == 1);
    Ev("Begin").i("seg", segno++).str("type", str ? "str" : "i64").str("kind", design ? "design" : "random").emit();
    if (design) { if (str) { Seg<ConvS> s(g, maxk); s.runDesign(events); } else { Seg<ConvI> s(g, maxk); s.runDesign(events); } continue; }
    if (str) { Seg<ConvS> s(g, maxk); s.run(events, serde_pct); }
    else { Seg<ConvI> s(g, maxk); s.run(events, serde_pct); }
  }
  if (stats > 0) {
    Ev("Begin").i("seg", segno++).str("type", "i64").str("kind", "stat").emit();
    g_unit = 1.0;
    for (long j = 0; j < stats; j++) stat_event(g, seed, (int)j, j % 2 == 1);
    for (long j = 0; j < stats; j++) stat_incl_event(g, seed, (int)j);
  }
  vt::close_out();
  fprintf(stderr, "varopt_rec: %ld events\n", vt::g_events);
  return 0;
}
