// Recording driver for tdigest<double> / tdigest<float> (C17) with serialization events (C09).
// Runs randomized operation histories on the real classes and logs one ND-JSON event per public call (batches of
// update() calls are one event; a batch ends at the first call that compressed).  The harness only LOGS: inputs and
// the observable outputs of the real objects; every expected value is computed by spec/TraceTDigest.tla.
//
// The full projection of a sketch (centroid means and weights, buffered values) is read without side effects from
// serialize(0, with_buffer = true) -- the layout is the one documented in tdigest_impl.hpp -- and from to_string()
// (number of centroids / buffered values, reported centroid capacity).
#include <memory>
#include <functional>
#include <sstream>
#include <fstream>
#include <algorithm>
#include <limits>
#include <sys/wait.h>
#include <unistd.h>
#include <tdigest.hpp>
#include "vtrace.hpp"

using namespace datasketches;
using vt::Ev;

static std::string g_refdir = "/repo/tdigest/test";

struct Cent { double m; long long w; bool operator==(const Cent& o) const { return w == o.w && ((m == o.m) || (std::isnan(m) && std::isnan(o.m))); } };
struct Proj {
  long k = 0, cap = 0, nc = 0, nb = 0; long long total = 0; bool empty = true; double mn = 0, mx = 0;
  std::vector<Cent> cent; std::vector<double> buf;
};

static long field(const std::string& s, const char* label) {
  size_t p = s.find(label);
  if (p == std::string::npos) { fprintf(stderr, "to_string: no field %s\n", label); exit(3); }
  p = s.find(':', p);
  return atol(s.c_str() + p + 1);
}

template<class T> static Proj project(const tdigest<T>& s) {
  using W = typename tdigest<T>::W;
  Proj r;
  std::string ts(s.to_string().c_str());
  r.k = s.get_k();
  r.cap = field(ts, "Centroids capacity");
  r.nc = field(ts, "Centroids          ");
  r.nb = field(ts, "Buffered");
  r.total = (long long)s.get_total_weight();
  r.empty = s.is_empty();
  if (r.empty) return r;
  r.mn = s.get_min_value(); r.mx = s.get_max_value();
  auto img = s.serialize(0, true);   // with the buffer: no compress
  const uint8_t* p = img.data();
  const uint8_t flags = p[5];
  if (flags & 2) {   // single value
    T v; memcpy(&v, p + 8, sizeof(T));
    if (r.nc == 1) r.cent.push_back({(double)v, 1}); else r.buf.push_back((double)v);
    return r;
  }
  uint32_t nc, nb; memcpy(&nc, p + 8, 4); memcpy(&nb, p + 12, 4);
  const uint8_t* q = p + 16 + 2 * sizeof(T);
  for (uint32_t i = 0; i < nc; i++) { T m; W w; memcpy(&m, q, sizeof(T)); memcpy(&w, q + sizeof(T), sizeof(W)); q += sizeof(T) + sizeof(W); r.cent.push_back({(double)m, (long long)w}); }
  for (uint32_t i = 0; i < nb; i++) { T v; memcpy(&v, q, sizeof(T)); q += sizeof(T); r.buf.push_back((double)v); }
  return r;
}

// distance in units in the last place between two finite values of type F (0 if equal)
template<class F> static long long ulps(F a, F b) {
  using I = typename std::conditional<sizeof(F) == 8, int64_t, int32_t>::type;
  auto key = [](F v) -> long long { I i; memcpy(&i, &v, sizeof(F)); return i < 0 ? (long long)std::numeric_limits<I>::min() - (long long)i : (long long)i; };
  if (!(std::isfinite(a) && std::isfinite(b))) return 1000000000LL;
  long long ka = key(a), kb = key(b); long long d = ka > kb ? ka - kb : kb - ka;
  return d > 1000000000LL ? 1000000000LL : d;
}
// largest decrease between consecutive answers, in ulps of the answer type (0 = non-decreasing)
template<class F> static long long max_drop(const std::vector<double>& v) {
  long long m = 0;
  for (size_t j = 1; j < v.size(); j++) if (v[j] < v[j - 1]) m = std::max(m, ulps<F>((F)v[j - 1], (F)v[j]));
  return m;
}

// NaN can only appear here after an infinity was accepted (the contract then ignores the centroids): log it as -inf
static double nn(double v) { return std::isnan(v) ? -INFINITY : v; }
static std::string cent_json(const std::vector<Cent>& c) {
  std::string s = "[";
  for (size_t i = 0; i < c.size(); i++) { if (i) s += ","; s += "{\"m\":" + Ev::dtok(nn(c[i].m)) + ",\"w\":" + std::to_string(c[i].w) + "}"; }
  return s + "]";
}
static Ev& scalars(Ev& e, const Proj& p) {
  return e.i("total", p.total).b("empty", p.empty).d("min", p.empty ? 0 : p.mn).d("max", p.empty ? 0 : p.mx).i("nc", p.nc).i("nb", p.nb);
}
static std::string proj_json(const Proj& p) {
  Ev r("x"); r.s = "{\"z\":0";
  r.i("k", p.k).i("cap", p.cap);
  scalars(r, p);
  r.raw("cent", cent_json(p.cent));
  std::vector<double> b; for (double v : p.buf) b.push_back(nn(v));
  r.dl("buf", b);
  r.s += "}";
  return r.s;
}
// note: with min/max logged as D tokens, an empty sketch logs D(0.0) there; the specification ignores them when empty

template<class T> struct Driver {
  using TD = tdigest<T>;
  static const int NS = 3, NB = 4;
  vt::Rng& g;
  int serde_pct; int hdr_pct = 70; int bigk_pct = 0;
  std::unique_ptr<TD> sk[2 * NS];   // i + NS = the twin of i restored from an image of i
  Proj last[2 * NS];
  bool twin[NS] = {false, false, false};
  bool twin_sb[NS] = {false, false, false};   // the twin was restored from the image of a single BUFFERED value (key of a known finding)
  bool tainted[2 * NS] = {false, false, false, false, false, false};
  bool foreign[2 * NS] = {false, false, false, false, false, false};   // content came from an image of the reference implementation
  bool rst[2 * NS] = {false, false, false, false, false, false};   // the object was restored from an image (C09 attribution)
  std::vector<uint8_t> blob[NB]; bool blive[NB] = {false, false, false, false}; bool bwb[NB]; bool bforeign[NB] = {false, false, false, false};
  int mode = 0; double cur = 0; long scale = 100; bool infmode = false;

  Driver(vt::Rng& g_, int serde) : g(g_), serde_pct(serde) {}

  static double fit(double v) { return (double)(T)v; }

  double draw() {
    switch (mode) {
      case 0: return fit((double)g.range(0, scale));                                   // small integers, many duplicates
      case 1: return fit((g.unit() - 0.5) * 2000.0);                                   // reals
      case 2: cur += g.below(3); return fit(cur);                                      // non-decreasing
      case 3: cur -= g.below(3); return fit(cur);                                      // non-increasing
      case 4: return fit(1.0e6 * (double)g.below(4) + (double)g.below(5) * 0.0625);    // tight clusters far apart
      case 5: return fit(42.0);                                                        // constant
      case 6: return fit(std::ldexp(g.unit() + 0.5, (int)g.range(-30, 30)) * (g.chance(50) ? 1 : -1));   // wide dynamic range
      default: return fit(std::floor(-std::log(1.0 - g.unit()) * 50.0) / 4.0);         // skewed, quarter steps
    }
  }

  void mk(int i, int fixed_k = 0) {
    static const int KS[] = {10, 10, 10, 11, 12, 15, 20, 25, 30, 40};
    int k = KS[g.below(10)];
    if ((int)g.below(100) < bigk_pct) k = (int[]){50, 64, 100, 200}[g.below(4)];   // thorough tier: capacities 110 .. 410
    if (fixed_k) k = fixed_k;
    sk[i].reset(new TD((uint16_t)k));
    last[i] = project(*sk[i]); tainted[i] = false; rst[i] = false; foreign[i] = false;
    if (i < NS) twin[i] = false;
    Ev e("New"); e.i("id", i).i("k", k).i("cap", last[i].cap); scalars(e, last[i]).emit();
  }

  // emits ev with the scalars of slot i after the call and the new centroid list if the call compressed
  void finish(Ev& e, int i, long pushed = 0) {
    const bool restored = rst[i];
    Proj now = project(*sk[i]);
    bool comp = !(now.cent == last[i].cent) || now.nb != last[i].nb + pushed;
    scalars(e, now);
    if (comp) e.raw("cent", cent_json(now.cent));
    if (restored) e.b("restored", true);
    last[i] = now;
    e.emit();
  }

  void do_updates(int i, const std::vector<double>& vals) {
    size_t pos = 0;
    while (pos < vals.size()) {
      std::vector<double> vs;
      long nb0 = last[i].nb;
      while (pos < vals.size()) {
        sk[i]->update((T)vals[pos]); vs.push_back(vals[pos]); pos++;
        std::string ts(sk[i]->to_string().c_str());
        if (field(ts, "Buffered") != nb0 + (long)vs.size()) break;   // this call compressed: the batch ends here
      }
      Ev e("Update"); e.i("id", i).dl("vs", vs);
      finish(e, i, (long)vs.size());
    }
  }
  void do_nan(int i) {
    sk[i]->update(std::numeric_limits<T>::quiet_NaN());
    Ev e("UpdateNaN"); e.i("id", i); finish(e, i);
  }
  void do_inf(int i, double v) {
    sk[i]->update((T)v);
    Proj now = project(*sk[i]);
    Ev e("UpdateInf"); e.i("id", i).d("v", v); scalars(e, now); e.raw("cent", cent_json(now.cent)).emit();
    if (now.total != last[i].total) tainted[i] = true;
    last[i] = now;
  }
  void do_compress(int i) {
    sk[i]->compress();
    Ev e("Compress"); e.i("id", i); finish(e, i);
  }
  void do_merge(int dst, int src) {
    sk[dst]->merge(*sk[src]);
    if (tainted[src]) tainted[dst] = true;
    Ev e("Merge"); e.i("dst", dst).i("src", src); finish(e, dst);
  }

  std::vector<double> value_pool(const Proj& p) {
    std::vector<double> c;
    auto add = [&](double v) { T t = (T)v; if (!std::isnan(t)) c.push_back((double)t); };
    auto around = [&](double v) {
      T t = (T)v; add(t);
      add(std::nextafter(t, std::numeric_limits<T>::infinity())); add(std::nextafter(t, -std::numeric_limits<T>::infinity()));
    };
    around(p.mn); around(p.mx); add(p.mn - 1); add(p.mx + 1); add(p.mn - 1e6); add(p.mx + 1e6);
    size_t n = p.cent.size();
    for (size_t j = 0; j < n; j++) {
      if (n > 24 && j >= 8 && j + 8 < n && g.below(n) >= 12) continue;
      around(p.cent[j].m);
      if (j + 1 < n) { add((p.cent[j].m + p.cent[j + 1].m) / 2); add(p.cent[j].m + (p.cent[j + 1].m - p.cent[j].m) * g.unit()); }
    }
    for (int j = 0; j < 12 && !p.buf.empty(); j++) around(p.buf[g.below(p.buf.size())]);
    for (int j = 0; j < 12; j++) add(p.mn + (p.mx - p.mn) * g.unit());
    std::sort(c.begin(), c.end());
    c.erase(std::unique(c.begin(), c.end()), c.end());
    return c;
  }
  std::vector<double> rank_pool(const Proj& p) {
    std::vector<double> c = {0.0, 1.0, 0.5};
    const double n = (double)p.total;
    auto add = [&](double r) { if (r >= 0 && r <= 1) c.push_back(r); };
    if (p.total <= 48) for (long long j = 0; j <= p.total; j++) { add(j / n); add((j + 0.5) / n); }
    else {
      for (int j = 0; j <= 12; j++) { add(j / n); add((j + 0.5) / n); add((n - j) / n); add((n - j - 0.5) / n); }
      for (int j = 0; j < 12; j++) add((double)g.below((uint64_t)p.total + 1) / n);
    }
    // cumulative-weight boundaries of the centroids as currently exposed
    double cum = 0; size_t m = p.cent.size();
    for (size_t j = 0; j < m; j++) {
      double w = (double)p.cent[j].w;
      if (!(m > 24 && j >= 8 && j + 8 < m && g.below(m) >= 10)) { add(cum / n); add((cum + w / 2) / n); add((cum + w / 2 - 0.5) / n); add((cum + w / 2 + 0.5) / n); add((cum + 1) / n); add((cum + w - 1) / n); }
      cum += w;
    }
    for (int j = 0; j <= 32; j++) add(j / 32.0);
    for (int j = 0; j < 10; j++) add(g.unit());
    add(1e-9); add(1 - 1e-9);
    std::sort(c.begin(), c.end());
    c.erase(std::unique(c.begin(), c.end()), c.end());
    return c;
  }

  static std::vector<double> strictly_increasing(std::vector<double> v) { std::sort(v.begin(), v.end()); v.erase(std::unique(v.begin(), v.end()), v.end()); return v; }
  std::vector<size_t> ask_order(size_t n) {
    std::vector<size_t> o(n); for (size_t j = 0; j < n; j++) o[j] = j;
    switch ((int)g.below(4)) {
      case 0: break;                                                        // ascending
      case 1: std::reverse(o.begin(), o.end()); break;                      // the largest first
      case 2: if (n) std::rotate(o.begin(), o.begin() + (long)g.below(n), o.end()); break;   // some interior point first
      default: for (size_t j = n; j > 1; j--) std::swap(o[j - 1], o[g.below(j)]); break;      // shuffled
    }
    return o;
  }
  // the same observation on COPIES of one sketch with a different query going first on each (quantile / rank / serialize /
  // getters + CDF): every copy must give the same answers
  void do_orderprobe(int i) {
    const Proj& p = last[i];
    std::vector<double> ps = {0.0, 0.01, 0.1, 0.25, 0.5, 0.75, 0.9, 0.99, 1.0};
    std::vector<double> pool = value_pool(p), xs;
    for (size_t j = 0; j < pool.size(); j += std::max<size_t>(1, pool.size() / 7)) xs.push_back(pool[j]);
    xs = strictly_increasing(xs);
    std::vector<T> pts; for (double v : xs) pts.push_back((T)v);
    long nnan = 0;
    auto quant = [&](TD& t, bool descending) { std::vector<double> q(ps.size()); for (size_t a = 0; a < ps.size(); a++) { size_t j = descending ? ps.size() - 1 - a : a; double v = (double)t.get_quantile(ps[j]); if (std::isnan(v)) { nnan++; v = -INFINITY; } q[j] = v; } return q; };
    auto rank = [&](TD& t) { std::vector<double> r; for (T x : pts) { double v = t.get_rank(x); if (std::isnan(v)) { nnan++; v = -INFINITY; } r.push_back(v); } return r; };
    TD a(*sk[i]), b(*sk[i]), c(*sk[i]), d(*sk[i]);
    auto qa = quant(a, true);  auto ra = rank(a);                                   // quantile(1) is the very first call
    auto rb = rank(b);         auto qb = quant(b, false);                            // rank first
    (void)c.serialize(0, false); auto qc = quant(c, true); auto rc = rank(c);        // serialize first
    (void)d.get_min_value(); (void)d.get_max_value(); (void)d.get_total_weight();
    auto cdf = d.get_CDF(pts.data(), (uint32_t)pts.size()); std::vector<double> rd(cdf.begin(), cdf.end() - 1); for (double& v : rd) if (std::isnan(v)) { nnan++; v = -INFINITY; }
    auto qd = quant(d, false);                                                       // getters and CDF first
    Ev e("OrderProbe"); e.i("id", i).dl("ps", ps).dl("xs", xs).i("nnan", nnan);
    e.key("qs"); e.s += "["; { Ev t("x"); bool f = true; for (auto* q : {&qa, &qb, &qc, &qd}) { Ev u("x"); u.s = ""; u.dl("v", *q); if (!f) e.s += ","; f = false; e.s += u.s.substr(u.s.find('[')); } } e.s += "]";
    e.key("rs"); e.s += "["; { bool f = true; for (auto* r : {&ra, &rb, &rc, &rd}) { Ev u("x"); u.s = ""; u.dl("v", *r); if (!f) e.s += ","; f = false; e.s += u.s.substr(u.s.find('[')); } } e.s += "]";
    if (rst[i]) e.b("restored", true);
    e.emit();
  }
  void do_selfmerge(int i) {
    sk[i]->merge(*sk[i]);
    Ev e("SelfMerge"); e.i("id", i); finish(e, i);
  }
  void do_rankgrid(int i, const std::vector<double>& xs_in) {
    const std::vector<double> xs = strictly_increasing(xs_in);   // (min == max: the grid must not repeat a value)
    // the answers must not depend on which query ran first (the first one compresses): ask in a rotating order, log ascending
    std::vector<double> rs(xs.size()); long nnan = 0;
    for (size_t j : ask_order(xs.size())) { double r = sk[i]->get_rank((T)xs[j]); if (std::isnan(r)) { nnan++; r = -INFINITY; } rs[j] = r; }
    Ev e("RankGrid"); e.i("id", i).dl("xs", xs).dl("rs", rs).i("nnan", nnan).i("maxdrop", max_drop<double>(rs)); finish(e, i);
  }
  void do_quantgrid(int i, const std::vector<double>& ps_in) {
    const std::vector<double> ps = strictly_increasing(ps_in);
    std::vector<double> qs(ps.size()); long nnan = 0;
    for (size_t j : ask_order(ps.size())) { double q = (double)sk[i]->get_quantile(ps[j]); if (std::isnan(q)) { nnan++; q = -INFINITY; } qs[j] = q; }
    Ev e("QuantGrid"); e.i("id", i).dl("ps", ps).dl("qs", qs).i("nnan", nnan).i("maxdrop", max_drop<T>(qs)); finish(e, i);
  }
  void do_cdf(int i, const std::vector<double>& sp_in) {
    const std::vector<double> sp = strictly_increasing(sp_in);   // the API requires unique, increasing split points
    std::vector<T> pts; for (double v : sp) pts.push_back((T)v);
    auto cdf = sk[i]->get_CDF(pts.data(), (uint32_t)pts.size());
    auto pmf = sk[i]->get_PMF(pts.data(), (uint32_t)pts.size());
    std::vector<double> ranks, ref; long nnan = 0;
    for (T v : pts) ranks.push_back(sk[i]->get_rank(v));
    // PMF is documented as the successive differences of the CDF: the same subtraction on the returned CDF values
    for (size_t j = 0; j < cdf.size(); j++) ref.push_back(j == 0 ? cdf[0] : cdf[j] - cdf[j - 1]);
    std::vector<double> c(cdf.begin(), cdf.end()), m(pmf.begin(), pmf.end());
    for (auto* v : {&c, &m, &ranks, &ref}) for (double& x : *v) if (std::isnan(x)) { nnan++; x = -INFINITY; }
    Ev e("Cdf"); e.i("id", i).dl("sp", sp).dl("cdf", c).dl("pmf", m).dl("ranks", ranks).dl("pmfref", ref).i("nnan", nnan).i("maxdrop", max_drop<double>(c));
    finish(e, i);
  }
  template<class F> static bool throws(F f) { try { f(); } catch (const std::exception&) { return true; } return false; }
  void do_emptyquery(int i) {
    TD& s = *sk[i]; T one = 1;
    std::vector<int> t = {
      throws([&] { s.get_rank(one); }), throws([&] { s.get_quantile(0.5); }), throws([&] { s.get_CDF(&one, 1); }),
      throws([&] { s.get_PMF(&one, 1); }), throws([&] { s.get_min_value(); }), throws([&] { s.get_max_value(); })};
    Ev e("EmptyQuery"); e.i("id", i).key("threw"); e.s += "[";
    for (size_t j = 0; j < t.size(); j++) { if (j) e.s += ","; e.s += t[j] ? "true" : "false"; }
    e.s += "]"; if (rst[i]) e.b("restored", true); e.emit();
  }
  void do_badquery(int i, double a, double b) {
    TD& s = *sk[i]; const T nan = std::numeric_limits<T>::quiet_NaN();
    T unsorted[2] = {(T)std::max(a, b), (T)std::min(a, b)}, dup[2] = {(T)a, (T)a}, wn[2] = {(T)a, nan};
    if (unsorted[0] == unsorted[1]) unsorted[0] = unsorted[1] + 1;
    std::vector<int> t = {
      throws([&] { s.get_rank(nan); }), throws([&] { s.get_quantile(-0.01); }), throws([&] { s.get_quantile(1.01); }),
      throws([&] { s.get_CDF(unsorted, 2); }), throws([&] { s.get_CDF(dup, 2); }), throws([&] { s.get_CDF(wn, 2); }),
      throws([&] { s.get_PMF(unsorted, 2); }), throws([&] { s.get_PMF(dup, 2); })};
    bool qnan = throws([&] { s.get_quantile(std::nan("")); });   // not documented either way: logged, not judged
    Ev e("BadQuery"); e.i("id", i).key("threw"); e.s += "[";
    for (size_t j = 0; j < t.size(); j++) { if (j) e.s += ","; e.s += t[j] ? "true" : "false"; }
    e.s += "]"; e.b("qnan_threw", qnan); finish(e, i);
  }

  // serialize(hdr > 0) in a forked child: on the pinned tree it writes past its buffer; the recorder must survive
  // returns false if the child crashed or threw; out = what serialize returned
  bool forked_serialize(const TD& s, unsigned hdr, bool wb, std::vector<uint8_t>& out) {
    int fd[2]; if (pipe(fd) != 0) { perror("pipe"); exit(3); }
    fflush(vt::g_out);
    pid_t pid = fork();
    if (pid < 0) { perror("fork"); exit(3); }
    if (pid == 0) {
      close(fd[0]);
      int status = 0;
      try {
        auto v = s.serialize(hdr, wb);
        uint64_t n = v.size();
        if (write(fd[1], &n, 8) != 8) status = 6;
        size_t off = 0;
        while (status == 0 && off < v.size()) { ssize_t w = write(fd[1], v.data() + off, v.size() - off); if (w <= 0) status = 6; else off += (size_t)w; }
        vt::child_exit(status);   // without running destructors on a possibly corrupted heap
      } catch (...) { _exit(5); }
    }
    close(fd[1]);
    std::vector<uint8_t> data; uint8_t buf[4096]; ssize_t r;
    while ((r = read(fd[0], buf, sizeof buf)) > 0) data.insert(data.end(), buf, buf + r);
    close(fd[0]);
    int st = 0; waitpid(pid, &st, 0);
    if (!WIFEXITED(st) || WEXITSTATUS(st) != 0 || data.size() < 8) return false;
    uint64_t n; memcpy(&n, data.data(), 8);
    if (data.size() != 8 + n) return false;
    out.assign(data.begin() + 8, data.end());
    return true;
  }

  // returns the image (without header) in img
  void do_ser(int i, int b, bool wb, unsigned hdr, bool store) {
    TD& s = *sk[i];
    auto bytes0 = s.serialize(0, wb);             // compresses first unless with_buffer
    std::ostringstream os; s.serialize(os, wb); std::string st = os.str();
    long long advertised = (long long)s.get_serialized_size_bytes(wb);
    std::vector<uint8_t> hb; bool ok = true;
    if (hdr > 0) ok = forked_serialize(s, hdr, wb, hb); else hb.assign(bytes0.begin(), bytes0.end());
    Ev e("Ser"); e.i("src", i).i("blob", store ? b : -1).b("wb", wb).i("hdr", hdr).b("crashed", !ok)
      .i("bytes", ok ? (long long)hb.size() : -1).i("size", (long long)bytes0.size()).i("advertised", advertised)
      .bytes("img", bytes0.data(), bytes0.size()).bytes("simg", st.data(), st.size());
    if (ok && hb.size() >= hdr) e.bytes("himg", hb.data() + hdr, hb.size() - hdr); else e.bytes("himg", "", 0);
    if (store) { blob[b].assign(bytes0.begin(), bytes0.end()); bwb[b] = wb; blive[b] = true; bforeign[b] = foreign[i]; }
    finish(e, i);
  }
  void do_deser(int b, int dst, int forced_path = -1) {
    int path = forced_path >= 0 ? forced_path : (int)g.below(2); long long consumed;
    if (path == 0) {
      sk[dst].reset(new TD(TD::deserialize(blob[b].data(), blob[b].size()))); consumed = (long long)blob[b].size();
    } else {
      std::string in((const char*)blob[b].data(), blob[b].size()); in += std::string(16, '\x5a');
      std::istringstream is(in);
      sk[dst].reset(new TD(TD::deserialize(is))); consumed = (long long)is.tellg();
    }
    auto re = sk[dst]->serialize(0, true);
    last[dst] = project(*sk[dst]); tainted[dst] = false; rst[dst] = true; foreign[dst] = bforeign[b];
    if (dst < NS) twin[dst] = false;
    Ev("Deser").i("blob", b).i("dst", dst).str("path", path ? "stream" : "bytes").i("consumed", consumed)
      .bytes("reimg", re.data(), re.size()).raw("r", proj_json(last[dst])).b("restored", true).emit();
  }

  // ---- images in the two formats of the reference implementation (big endian), built from a chosen content
  static void be(std::string& s, const void* p, size_t n) { const char* c = (const char*)p; for (size_t j = n; j > 0; j--) s.push_back(c[j - 1]); }
  static std::string ref_image(int fmt, double mn, double mx, int k, const std::vector<Cent>& c) {
    std::string s; uint32_t t = (uint32_t)fmt; be(s, &t, 4); be(s, &mn, 8); be(s, &mx, 8);
    if (fmt == 1) {
      double kd = k; be(s, &kd, 8); uint32_t n = (uint32_t)c.size(); be(s, &n, 4);
      for (auto& x : c) { double w = (double)x.w; be(s, &w, 8); be(s, &x.m, 8); }
    } else {
      float kf = (float)k; be(s, &kf, 4); uint16_t z = 0; be(s, &z, 2); be(s, &z, 2); uint16_t n = (uint16_t)c.size(); be(s, &n, 2);
      for (auto& x : c) { float w = (float)x.w, m = (float)x.m; be(s, &w, 4); be(s, &m, 4); }
    }
    return s;
  }
  template<class V> static V rd_be(const std::string& s, size_t& off) { V v; char* p = (char*)&v; for (size_t j = 0; j < sizeof(V); j++) p[sizeof(V) - 1 - j] = s[off + j]; off += sizeof(V); return v; }
  // independent decoder of the reference formats (layout as documented in tdigest_impl.hpp, deserialize_compat)
  static bool ref_decode(const std::string& s, int& fmt, double& mn, double& mx, int& k, std::vector<Cent>& c) {
    size_t off = 0; if (s.size() < 30) return false;
    fmt = (int)rd_be<uint32_t>(s, off); mn = rd_be<double>(s, off); mx = rd_be<double>(s, off);
    size_t n;
    if (fmt == 1) { k = (int)rd_be<double>(s, off); n = rd_be<uint32_t>(s, off); if (s.size() < off + 16 * n) return false;
      for (size_t j = 0; j < n; j++) { double w = rd_be<double>(s, off), m = rd_be<double>(s, off); c.push_back({m, (long long)w}); } }
    else if (fmt == 2) { k = (int)rd_be<float>(s, off); off += 4; n = rd_be<uint16_t>(s, off); if (s.size() < off + 8 * n) return false;
      for (size_t j = 0; j < n; j++) { float w = rd_be<float>(s, off), m = rd_be<float>(s, off); c.push_back({(double)m, (long long)w}); } }
    else return false;
    return off == s.size();
  }
  void do_refimage(int dst, const std::string* given = nullptr, int forced_path = -1) {
    std::string img;
    int pick = (int)g.below(10);
    if (given) img = *given;
    else if (pick < 2) {
      std::ifstream f(g_refdir + (pick == 0 ? "/tdigest_ref_k100_n10000_double.sk" : "/tdigest_ref_k100_n10000_float.sk"), std::ios::binary);
      if (f) img.assign((std::istreambuf_iterator<char>(f)), std::istreambuf_iterator<char>());
    }
    if (img.empty()) {
      // content of a digest produced elsewhere: sorted means, arbitrary positive weights, the extreme centroids may
      // be heavy (other scale functions do not protect them); values exactly representable in float
      static const long long WS[] = {1, 1, 2, 2, 3, 4, 5, 8, 13, 40};
      int n = (int)g.range(1, 14);
      std::vector<Cent> c; double m = (double)g.range(-50, 50);
      for (int j = 0; j < n; j++) { c.push_back({m, WS[g.below(j == 0 || j == n - 1 ? 10 : 8)]}); m += (double)g.range(g.chance(15) ? 0 : 1, 12) * 0.5; }
      double mn = c.front().m, mx = c.back().m;
      if (c.front().w > 1 && g.chance(85)) mn -= (double)g.range(1, 8) * 0.25;
      if (c.back().w > 1 && g.chance(85)) mx += (double)g.range(1, 8) * 0.25;
      if (n == 1) { c[0].w = 1; mn = mx = c[0].m; }   // (a lone centroid heavier than 1 is not a state any digest produces)
      img = ref_image((int)g.range(1, 2), mn, mx, (int[]){10, 20, 100, 200}[g.below(4)], c);
    }
    int fmt, k; double mn, mx; std::vector<Cent> c;
    if (!ref_decode(img, fmt, mn, mx, k, c)) { fprintf(stderr, "reference image does not decode\n"); exit(3); }
    int path = forced_path >= 0 ? forced_path : (int)g.below(2); long long consumed;
    if (path == 0) { sk[dst].reset(new TD(TD::deserialize(img.data(), img.size()))); consumed = (long long)img.size(); }
    else { std::istringstream is(img + std::string(16, '\x5a')); sk[dst].reset(new TD(TD::deserialize(is))); consumed = (long long)is.tellg(); }
    last[dst] = project(*sk[dst]); tainted[dst] = false; rst[dst] = false; foreign[dst] = true; if (dst < NS) twin[dst] = false;
    std::string src = "{\"k\":" + std::to_string(k) + ",\"min\":" + Ev::dtok(mn) + ",\"max\":" + Ev::dtok(mx) + ",\"cent\":" + cent_json(c) + "}";
    Ev("RefImage").i("dst", dst).i("fmt", fmt).str("path", path ? "stream" : "bytes").raw("src", src).i("size", (long long)img.size())
      .i("consumed", consumed).raw("r", proj_json(last[dst])).emit();
  }

  // ---- directed segments: the centroid bound under pressure ("however long the stream").  Every compress point is an
  // event, so the capacity clause is judged at each of them.
  void begin_segment(long seg, const char* what) {
    Ev("Begin").i("seg", seg).str("T", sizeof(T) == 8 ? "double" : "float").str("directed", what).d("zero", 0.0).d("one", 1.0).emit();
    for (int i = 0; i < 2 * NS; i++) { sk[i].reset(); rst[i] = false; tainted[i] = false; foreign[i] = false; }
    for (int b = 0; b < NB; b++) blive[b] = false;
    for (int i = 0; i < NS; i++) twin[i] = false;
    mode = (int)g.below(8); if (mode == 5) mode = 1; cur = 0; scale = 1000;
  }
  // (a) a compress point (explicit compress, or a query) after every single update
  void directed_query_each(long seg, int k, long n) {
    begin_segment(seg, "query-after-every-update");
    mk(0, k);
    for (long j = 0; j < n; j++) {
      do_updates(0, std::vector<double>{draw()});
      int w = (int)g.below(20);
      if (w == 0) do_quantgrid(0, std::vector<double>{0.0, 0.25, 0.5, 1.0});
      else if (w == 2) do_orderprobe(0);
      else if (w == 1) do_rankgrid(0, std::vector<double>{last[0].mn, last[0].mx});
      else do_compress(0);
    }
    { Ev e("Obs"); e.i("id", 0).raw("r", proj_json(project(*sk[0]))); e.emit(); }
  }
  // (b) a chain of merges of many tiny sketches into one
  void directed_merge_chain(long seg, int k, long merges) {
    begin_segment(seg, "merge-chain-of-tiny-sketches");
    mk(0, k);
    for (long j = 0; j < merges; j++) {
      mk(1, g.chance(80) ? k : 10);
      std::vector<double> vals; for (long u = g.range(1, 8); u > 0; u--) vals.push_back(draw());
      do_updates(1, vals);
      if (g.chance(30)) do_compress(1);
      do_merge(0, 1);
    }
    { Ev e("Obs"); e.i("id", 0).raw("r", proj_json(project(*sk[0]))); e.emit(); }
  }
  // (d) degenerate contents: no value, NaN only, one value, two equal values, a constant stream, two distinct values - each
  // observed with every query before and after a compress
  void observe_all(int i) {
    if (last[i].empty) { do_emptyquery(i); return; }
    do_orderprobe(i);   // first: on copies that still hold whatever is buffered
    auto pool = value_pool(last[i]);
    if (g.chance(50)) { do_quantgrid(i, rank_pool(last[i])); do_rankgrid(i, pool); } else { do_rankgrid(i, pool); do_quantgrid(i, rank_pool(last[i])); }
    do_cdf(i, std::vector<double>{pool[pool.size() / 2]}); do_cdf(i, pool.size() > 6 ? std::vector<double>(pool.begin() + 1, pool.begin() + 6) : pool);
    do_badquery(i, last[i].mn, last[i].mx);
    { Ev e("Obs"); e.i("id", i).raw("r", proj_json(project(*sk[i]))); e.emit(); }
  }
  void directed_degenerate(long seg) {
    begin_segment(seg, "degenerate-contents");
    static const int KS[] = {10, 11, 30, 200};
    for (int round = 0; round < 12; round++) {
      const double v = draw(), w = draw();
      mk(0, KS[g.below(4)]);
      observe_all(0);
      do_nan(0); do_nan(0); observe_all(0);                       // NaN only: still empty
      do_updates(0, std::vector<double>{v}); observe_all(0);     // one value, buffered
      if (g.chance(50)) { do_compress(0); observe_all(0); }      // one value, as a centroid
      switch (round % 4) {
        case 0: do_updates(0, std::vector<double>{v}); break;                                   // two equal values
        case 1: do_updates(0, std::vector<double>(g.range(2, 500), v)); break;                  // constant stream
        case 2: do_updates(0, std::vector<double>{w}); break;                                   // two (almost surely distinct) values
        default: do_nan(0); do_updates(0, std::vector<double>{v, w, v}); break;
      }
      observe_all(0); do_compress(0); observe_all(0);
      if (round % 3 == 0) { do_selfmerge(0); observe_all(0); }   // a.merge(a) doubles the weight
      mk(1, 10); do_merge(0, 1); do_merge(1, 0); observe_all(1);   // merging an empty sketch, merging into an empty sketch
    }
  }
  // (e) C09 "restore, then continue": an image taken at the EMPTY state and at exactly ONE value (buffered / compressed),
  // with and without the buffer, restored through bytes and stream, then the restored sketch and the original receive the
  // same NaNs, updates (across a buffer-full compress), queries and merges in lock-step; both are also used as merge operands
  // of two equal fresh sketches.  The same for empty / one-value images in the two formats of the reference implementation
  // (no original to compare with: the restored sketch simply has to keep behaving as the contract says).
  void pair_mark(int a, int b) { Ev("Twin").i("a", a).i("b", b).b("sb_origin", false).emit(); }
  std::vector<double> some(long n) { std::vector<double> v; for (long j = 0; j < n; j++) v.push_back(draw()); return v; }
  void continue_both(int a, int b, bool both) {
    auto on = [&](std::function<void(int)> f) { f(a); if (both) { f(b); pair_mark(a, b); } };
    on([&](int i) { do_nan(i); });
    for (long left = 4 * last[a].cap + (long)g.range(5, 60); left > 0; ) {
      long m = std::min(left, (long)g.range(1, 150)); left -= m;
      auto vals = some(m);
      on([&](int i) { do_updates(i, vals); });
      if (g.chance(20)) { auto ps = rank_pool(last[a]); on([&](int i) { do_quantgrid(i, ps); }); }
    }
    auto xs = value_pool(last[a]); on([&](int i) { do_rankgrid(i, xs); });
    auto ps = rank_pool(last[a]); on([&](int i) { do_quantgrid(i, ps); });
    on([&](int i) { Ev e("Obs"); e.i("id", i).raw("r", proj_json(project(*sk[i]))); if (rst[i]) e.b("restored", true); e.emit(); });
  }
  void directed_restore(long seg) {
    begin_segment(seg, "restore-empty-or-one-value-and-continue");
    static const int KS[] = {10, 11, 30};
    int combo = 0;
    for (int state = 0; state < 3; state++) for (int wb = 1; wb >= 0; wb--) for (int path = 0; path < 2; path++, combo++) {
      const int k = KS[combo % 3];
      mk(0, k);
      if (state >= 1) do_updates(0, some(1));
      if (state == 2) do_compress(0);
      do_ser(0, 0, wb != 0, combo % 4 == 3 ? 8 : 0, true);
      do_deser(0, NS, path); pair_mark(0, NS);
      if (last[0].empty) { do_emptyquery(0); do_emptyquery(NS); }
      if (combo % 2 == 1) {   // the restored sketch as a merge TARGET in its restored state
        mk(1, k); do_updates(1, some(g.range(1, 60)));
        do_merge(0, 1); do_merge(NS, 1); pair_mark(0, NS);
      }
      continue_both(0, NS, true);
      // ... and as a merge OPERAND of two equal fresh sketches
      mk(1, k); mk(2, k); { auto vals = some(g.range(0, 40)); if (!vals.empty()) { do_updates(1, vals); do_updates(2, vals); } }
      do_merge(1, 0); do_merge(2, NS); pair_mark(1, 2);
      sk[NS].reset();
    }
    for (int fmt = 1; fmt <= 2; fmt++) for (int one = 0; one < 2; one++) for (int path = 0; path < 2; path++) {
      std::vector<Cent> c; double mn = INFINITY, mx = -INFINITY;   // an empty digest of the reference implementation: min = +inf, max = -inf
      if (one) { double v = (double)(float)draw(); c.push_back({v, 1}); mn = mx = v; }
      const std::string img = ref_image(fmt, mn, mx, KS[(fmt + one + path) % 3], c);
      do_refimage(0, &img, path); foreign[0] = false;   // nothing foreign about it: no centroid stands for several values
      if (last[0].empty) do_emptyquery(0);
      continue_both(0, 0, false);
      mk(1, 10); do_updates(1, some(g.range(1, 40))); do_merge(1, 0);
      { Ev e("Obs"); e.i("id", 1).raw("r", proj_json(project(*sk[1]))); e.emit(); }
    }
  }
  // (f) infinities as the extremes of a long stream (at most one +inf and one -inf: each is then a protected single-value
  // extreme centroid and no mean is computed from inf - inf), judged by a DENSE quantile sweep: every half rank j / (2n) of the
  // lowest and highest few hundred ranks must give a non-NaN value within [min, max], non-decreasing
  void directed_inf_extremes(long seg, int k, long n, bool pinf, bool ninf) {
    begin_segment(seg, "infinite-extremes-dense-quantile-sweep");
    mode = 1; mk(0, k);
    long at_p = pinf ? (long)g.below((uint64_t)n) : -1, at_n = ninf ? (long)g.below((uint64_t)n) : -1;
    if (at_n == at_p && ninf) at_n = (at_p + 1) % n;
    std::vector<double> run;
    for (long j = 0; j < n; j++) {
      if (j == at_p || j == at_n) { if (!run.empty()) { do_updates(0, run); run.clear(); } do_inf(0, j == at_p ? INFINITY : -INFINITY); }
      else run.push_back(draw());
    }
    if (!run.empty()) do_updates(0, run);
    for (int round = 0; round < 2; round++) {
      const double tot2 = 2.0 * (double)last[0].total;
      std::vector<double> ps = {0.0, 0.5, 1.0};
      for (long j = 0; j <= 1400; j++) { ps.push_back((double)j / tot2); ps.push_back((tot2 - (double)j) / tot2); }
      for (int j = 1; j < 64; j++) ps.push_back(j / 64.0);
      do_quantgrid(0, ps);
      if (round == 0) do_updates(0, some(g.range(1, 300)));
    }
  }
  // (g) wide counters: total weight driven past 2^32 by merge doublings (t.merge(copy of t)); every value is logged as two
  // limbs (24 bits and the rest), centroid weights too; then images through both paths, with and without buffer
  static std::string limbs(unsigned long long v) { return "[" + std::to_string(v & 0xffffffULL) + "," + std::to_string(v >> 24) + "]"; }
  void wide_state(Ev& e, const TD& t) {
    Proj p = project(t);
    std::string cw = "[";
    for (size_t j = 0; j < p.cent.size(); j++) { if (j) cw += ","; cw += limbs((unsigned long long)p.cent[j].w); }
    cw += "]";
    e.raw("total", limbs((unsigned long long)p.total)).raw("cw", cw).i("nb", p.nb).i("nc", p.nc).d("min", p.empty ? 0 : p.mn).d("max", p.empty ? 0 : p.mx);
  }
  void directed_wide(long seg) {
    begin_segment(seg, "total-weight-beyond-2^32");
    std::unique_ptr<TD> w[4];
    w[0].reset(new TD(10));
    { Proj p = project(*w[0]); Ev("WNew").i("id", 0).i("k", 10).i("cap", p.cap).emit(); }
    auto upd = [&](int i, long m) { auto vals = some(m); for (double v : vals) w[i]->update((T)v); Ev e("WStep"); e.i("id", i).str("op", "update").dl("vs", vals); wide_state(e, *w[i]); if (i >= 2) e.b("restored", true); e.emit(); };
    auto mrg = [&](int i, int src) { TD tmp(*w[src]); w[i]->merge(tmp); Ev e("WStep"); e.i("id", i).str("op", "merge").i("src", src); wide_state(e, *w[i]); if (i >= 2) e.b("restored", true); e.emit(); };
    upd(0, 8);
    for (int d = 0; d < 30; d++) { mrg(0, 0); if (d % 9 == 4) upd(0, g.range(1, 30)); }      // 8 * 2^30 > 2^32
    { w[1].reset(new TD(*w[0])); Ev e("WCopy"); e.i("src", 0).i("dst", 1); wide_state(e, *w[1]); e.emit(); }
    upd(1, 3);
    int b = 0;
    for (int wb = 1; wb >= 0; wb--) for (int path = 0; path < 2; path++, b++) {
      TD& t = *w[1];
      if (wb) upd(1, 5);                              // something in the buffer
      auto bytes0 = t.serialize(0, wb != 0);
      std::ostringstream os; t.serialize(os, wb != 0); std::string st = os.str();
      { Ev e("WSer"); e.i("src", 1).i("blob", b).b("wb", wb != 0).i("size", (long long)bytes0.size()).i("advertised", (long long)t.get_serialized_size_bytes(wb != 0))
          .bytes("img", bytes0.data(), bytes0.size()).bytes("simg", st.data(), st.size()); wide_state(e, t); e.emit(); }
      long long consumed;
      if (path == 0) { w[2].reset(new TD(TD::deserialize(bytes0.data(), bytes0.size()))); consumed = (long long)bytes0.size(); }
      else { std::istringstream is(st + std::string(16, '\x5a')); w[2].reset(new TD(TD::deserialize(is))); consumed = (long long)is.tellg(); }
      auto re = w[2]->serialize(0, true);
      { Ev e("WDeser"); e.i("blob", b).i("dst", 2).str("path", path ? "stream" : "bytes").i("consumed", consumed).bytes("reimg", re.data(), re.size());
        wide_state(e, *w[2]); e.b("restored", true).emit(); }
      upd(2, g.range(1, 20)); mrg(2, 0); mrg(2, 2);   // the restored sketch keeps counting
    }
  }
  // (c) one long stream, with a quantile grid now and then
  void directed_long_stream(long seg, int k, long n) {
    begin_segment(seg, "long-stream");
    mode = 1;
    mk(0, k);
    for (long done = 0; done < n; ) {
      long m = std::min(n - done, (long)g.range(3000, 12000));
      std::vector<double> vals; vals.reserve(m); for (long j = 0; j < m; j++) vals.push_back(draw());
      do_updates(0, vals); done += m;
      if (g.chance(10)) do_quantgrid(0, rank_pool(last[0]));
    }
    { Ev e("Obs"); e.i("id", 0).raw("r", proj_json(project(*sk[0]))); e.emit(); }
  }

  void twin_mark(int i) { Ev("Twin").i("a", i).i("b", i + NS).b("sb_origin", twin_sb[i]).emit(); }

  void segment(long seg, long events) {
    Ev("Begin").i("seg", seg).str("T", sizeof(T) == 8 ? "double" : "float").d("zero", 0.0).d("one", 1.0).emit();
    for (int i = 0; i < 2 * NS; i++) { sk[i].reset(); rst[i] = false; tainted[i] = false; foreign[i] = false; }
    for (int b = 0; b < NB; b++) blive[b] = false;
    for (int i = 0; i < NS; i++) twin[i] = false;
    mode = (int)g.below(8); cur = (double)g.range(-100, 100); scale = (long)g.range(3, 400);
    infmode = g.chance(8);
    mk(0);
    if (serde_pct >= 10 && g.chance(30)) {
      // serde profile, directed: an image taken while the sketch holds ONE value, still buffered; the restored twin then
      // receives the same updates across (at least) one buffer-full compress of the original, and both are queried
      do_updates(0, std::vector<double>{draw()});
      do_ser(0, 0, true, 0, true);
      do_deser(0, NS); twin[0] = true; twin_sb[0] = true; twin_mark(0);
      for (long left = 4 * last[0].cap + (long)g.range(2, 40); left > 0; ) {
        long m = std::min(left, (long)g.range(20, 200)); left -= m;
        std::vector<double> vals; for (long j = 0; j < m; j++) vals.push_back(draw());
        do_updates(0, vals); do_updates(NS, vals); twin_mark(0);
      }
      auto ps = rank_pool(last[0]); do_quantgrid(0, ps); do_quantgrid(NS, ps); twin_mark(0);
    }
    for (long n = 0; n < events; n++) {
      int i = (int)g.below(NS);
      if (!sk[i]) { if (g.chance(30)) { mk(i); continue; } i = 0; }
      if (g.chance(2)) mode = (int)g.below(8);
      int op = (int)g.below(100);
      // a digest loaded from an image of the reference implementation (its extreme centroids may stand for several values,
      // which tdigest itself never produces) is only observed: queries, copies, serialization - no updates, no merges
      if (foreign[i] && op < 66 - serde_pct) op = 66 - serde_pct + (int)g.below(27);
      const bool tw = twin[i], bad = tainted[i];
      const int sp = serde_pct;
      if (op < 52 - sp) {                       // updates
        long m = g.chance(60) ? g.range(1, 12) : g.range(20, 400);
        std::vector<double> vals; for (long j = 0; j < m; j++) vals.push_back(draw());
        do_updates(i, vals);
        if (tw) { do_updates(i + NS, vals); twin_mark(i); }
      } else if (op < 54 - sp) {
        if (infmode && g.chance(50) && !tw) do_inf(i, g.chance(50) ? INFINITY : -INFINITY);
        else { do_nan(i); if (tw) { do_nan(i + NS); twin_mark(i); } }
      } else if (op < 58 - sp) {
        do_compress(i); if (tw) { do_compress(i + NS); twin_mark(i); }
      } else if (op < 66 - sp) {
        int j = (int)g.below(NS);
        if (j != i && sk[j] && !foreign[j]) {
          if (tainted[j] && tw) { twin[i] = false; }
          do_merge(i, j);
          if (twin[i]) { do_merge(i + NS, j); twin_mark(i); }
        }
      } else if (op < 76 - sp) {
        if (last[i].empty) { do_emptyquery(i); if (tw) do_emptyquery(i + NS); }
        else if (!bad) { auto xs = value_pool(last[i]); do_rankgrid(i, xs); if (tw) { do_rankgrid(i + NS, xs); twin_mark(i); } }
      } else if (op < 86 - sp) {
        if (!last[i].empty && !bad) { auto ps = rank_pool(last[i]); do_quantgrid(i, ps); if (tw) { do_quantgrid(i + NS, ps); twin_mark(i); } }
      } else if (op < 89 - sp) {
        if (!last[i].empty && !bad) {
          auto pool = value_pool(last[i]); std::vector<double> spts;
          size_t want = (size_t)g.range(1, 8);
          for (double v : pool) if (spts.size() < want && g.chance(25)) spts.push_back(v);
          if (spts.empty()) spts.push_back(pool[g.below(pool.size())]);
          do_cdf(i, spts); if (tw) { do_cdf(i + NS, spts); twin_mark(i); }
        }
      } else if (op < 90 - sp) {
        if (!last[i].empty && !bad) { double a = draw(), b = draw(); do_badquery(i, a, b); if (tw) { do_badquery(i + NS, a, b); twin_mark(i); } }
      } else if (op < 93 - sp && !last[i].empty && !bad && g.chance(45)) {
        if (g.chance(75) || foreign[i]) { do_orderprobe(i); if (tw) do_orderprobe(i + NS); }
        else { do_selfmerge(i); if (tw) { do_selfmerge(i + NS); twin_mark(i); } }
      } else if (op < 93 - sp) {
        { Ev e("Obs"); e.i("id", i).raw("r", proj_json(project(*sk[i]))); if (rst[i]) e.b("restored", true); e.emit(); }
        if (tw) { Ev("Obs").i("id", i + NS).raw("r", proj_json(project(*sk[i + NS]))).b("restored", true).emit(); twin_mark(i); }
      } else if (op < 95 - sp) {
        int j = (int)g.below(NS);
        if (j != i) {
          if (sk[j] && g.chance(50)) *sk[j] = *sk[i]; else sk[j].reset(new TD(*sk[i]));
          last[j] = project(*sk[j]); tainted[j] = tainted[i]; rst[j] = rst[i]; foreign[j] = foreign[i]; twin[j] = false;
          Ev("Copy").i("src", i).i("dst", j).raw("r", proj_json(last[j])).emit();
        }
      } else if (op < 97 - sp) {
        if (!bad && g.chance(60)) { int j = (int)g.below(NS); do_refimage(j); }
      } else {
        // serialization: image of i, then either a twin restored from it (continues in lock-step) or a later restore
        static const unsigned HS[] = {0, 0, 1, 7, 8, 13, 64};
        if (bad) continue;
        int b = (int)g.below(NB); bool wb = g.chance(50); unsigned hdr = (int)g.below(100) < hdr_pct ? HS[2 + g.below(5)] : 0;
        int what = (int)g.below(10);
        if (what < 5) {
          do_ser(i, b, wb, hdr, true);
          if (tw) { do_ser(i + NS, b, wb, hdr, false); twin_mark(i); }
          if (what < 3) { const bool sb = wb && last[i].total == 1 && last[i].nb == 1; do_deser(b, i + NS); twin[i] = true; twin_sb[i] = sb; twin_mark(i); }
        } else if (blive[b]) {
          int j = (int)g.below(NS);
          do_deser(b, j);
        }
      }
    }
    for (int i = 0; i < 2 * NS; i++) if (sk[i] && (i < NS || twin[i - NS])) {
      Ev e("Obs"); e.i("id", i).raw("r", proj_json(project(*sk[i]))); if (rst[i]) e.b("restored", true); e.emit();
    }
  }
};

// ---- accuracy on long streams: seeded trials, exact ranks computed from the stream itself
template<class T> static void trial(vt::Rng& g, long idx, int big_k = 0, long big_n = 0) {
  static const int KS[] = {10, 20, 50, 100, 200, 500};
  static const long NSZ[] = {1000, 5000, 20000, 100000, 300000};
  static const int Q4[] = {1, 10, 100, 500, 1000, 2500, 5000, 7500, 9000, 9500, 9900, 9990, 9999};
  int k = KS[g.below(6)]; long n = NSZ[g.below(5)]; int dist = (int)g.below(5); int parts = (int[]){1, 1, 2, 5, 20}[g.below(5)];
  // large-k profile (the quantifier is "k >= 10", k is a uint16_t): the buffer of such a sketch holds 4 * (2k + 10) values, the
  // queries below are the compress points
  if (big_k) { k = big_k; n = big_n; parts = (int[]){1, 1, 2}[g.below(3)]; }
  std::vector<tdigest<T>> ts; for (int p = 0; p < parts; p++) ts.emplace_back((uint16_t)k);
  std::vector<double> vals; vals.reserve(n);
  bool blocks = g.chance(50);
  for (long i = 0; i < n; i++) {
    double v;
    switch (dist) {
      case 0: v = g.unit(); break;
      case 1: { double u1 = g.unit() + 1e-18, u2 = g.unit(); v = std::sqrt(-2 * std::log(u1)) * std::cos(6.283185307179586 * u2); break; }
      case 2: v = -std::log(1.0 - g.unit()); break;
      case 3: v = (double)i + g.unit() * 0.5; break;          // increasing
      default: v = (double)(n - i) + g.unit() * 0.5; break;   // decreasing
    }
    v = (double)(T)v; vals.push_back(v);
    int p = (dist >= 3 && blocks) ? (int)((long long)i * parts / n) : (int)g.below(parts);
    ts[p].update((T)v);
  }
  for (int p = 1; p < parts; p++) ts[0].merge(ts[p]);
  tdigest<T>& t = ts[0];
  std::sort(vals.begin(), vals.end());
  std::vector<long long> q4, rerr, qerr;
  for (int q : Q4) {
    double qq = q / 10000.0;
    size_t idx2 = std::min((size_t)(qq * n), (size_t)n - 1);
    double x = vals[idx2];
    double lo = (double)(std::lower_bound(vals.begin(), vals.end(), x) - vals.begin());
    double hi = (double)(std::upper_bound(vals.begin(), vals.end(), x) - vals.begin());
    double tr = (lo + hi) / 2 / n;                       // true rank of a data point: mid-point of its tie interval
    double e1 = std::fabs(t.get_rank((T)x) - tr);
    double v = (double)t.get_quantile(qq);
    double lo2 = (double)(std::lower_bound(vals.begin(), vals.end(), v) - vals.begin()) / n;
    double hi2 = (double)(std::upper_bound(vals.begin(), vals.end(), v) - vals.begin()) / n;
    double e2 = qq < lo2 ? lo2 - qq : qq > hi2 ? qq - hi2 : 0;   // distance from q to the true rank interval of the answer
    if (std::isnan(e1)) e1 = 2;
    if (std::isnan(v)) e2 = 2;
    q4.push_back(q); rerr.push_back(llround(e1 * 1e7)); qerr.push_back(llround(e2 * 1e7));
  }
  std::string tstr(t.to_string().c_str());
  Ev("Trial").i("idx", idx).str("T", sizeof(T) == 8 ? "double" : "float").i("k", k).i("n", n).i("dist", dist).i("parts", parts)
    .i("nc", field(tstr, "Centroids          ")).i("cap", field(tstr, "Centroids capacity"))
    .il("q4", q4).il("rerr7", rerr).il("qerr7", qerr).emit();
}

int main(int argc, char** argv) {
  vt::install_terminate();
  uint64_t seed = (uint64_t)vt::argl(argc, argv, "--seed", 1);
  long segments = vt::argl(argc, argv, "--segments", 8);
  long events = vt::argl(argc, argv, "--events", 250);
  int serde_pct = (int)vt::argl(argc, argv, "--serde", 3);
  long trials = vt::argl(argc, argv, "--trials", 0);
  int hdr_pct = (int)vt::argl(argc, argv, "--hdr", 70);   // share of Ser events that request a header > 0
  int bigk_pct = (int)vt::argl(argc, argv, "--bigk", 0);
  g_refdir = vt::arg(argc, argv, "--ref", "/repo/tdigest/test");
  vt::open_out(vt::arg(argc, argv, "--out", "/dev/stdout"));
  vt::Rng g(seed);
  long directed = vt::argl(argc, argv, "--directed", -1);
  if (directed >= 0) {
    alarm(600);
    Driver<double> d(g, 0);
    switch (directed) {
      case 0: d.directed_query_each(0, 10, 1500); break;
      case 1: d.directed_query_each(0, 50, 700); break;
      case 2: d.directed_merge_chain(0, 10, 250); d.directed_merge_chain(1, 50, 250); break;
      case 3: d.directed_query_each(0, 200, 1500); break;
      case 4: d.directed_merge_chain(0, 200, 400); break;
      case 5: d.directed_degenerate(0); d.directed_degenerate(1); break;
      case 6: d.directed_inf_extremes(0, 10, 16384, true, false); d.directed_inf_extremes(1, 10, 32768, true, true);
              d.directed_inf_extremes(2, 20, 16384, false, true); d.directed_inf_extremes(3, 10, 20000 + (long)g.below(20000), true, g.chance(50)); break;
      default: d.directed_long_stream(0, directed % 2 ? 200 : 100, 1200000); break;   // 7, 8
    }
  } else if (trials > 0) {
    Ev("Begin").i("seg", 0).str("T", "stat").d("zero", 0.0).d("one", 1.0).emit();
    alarm(600);
    for (long t = 0; t < trials; t++) { if (g.chance(25)) trial<float>(g, t); else trial<double>(g, t); }
    static const int BIGK[] = {1000, 8192, 32767, 32768, 32769, 40000, 65535};
    const long bign = vt::argl(argc, argv, "--bign", 0);
    for (int j = 0; j < 7; j++) {
      long n = bign > 0 && g.chance(50) ? bign : g.range(20000, 60000);
      if (g.chance(25)) trial<float>(g, trials + j, BIGK[j], n); else trial<double>(g, trials + j, BIGK[j], n);
    }
    Ev("Verdict").emit();
  } else {
    if (vt::argl(argc, argv, "--restore", 0) > 0) {   // directed C09 segments, present in every run of the job
      alarm(120);
      { Driver<double> d(g, serde_pct); d.hdr_pct = hdr_pct; d.directed_restore(-1); d.directed_wide(-3); }
      { Driver<float> d(g, serde_pct); d.hdr_pct = hdr_pct; d.directed_restore(-2); }
    }
    for (long seg = 0; seg < segments; seg++) {
      alarm(30);    // watchdog: a sketch that loops forever is a finding (the recorder dies by SIGALRM), not a hung check
      if (g.chance(35)) { Driver<float> d(g, serde_pct); d.hdr_pct = hdr_pct; d.bigk_pct = bigk_pct; d.segment(seg, events); }
      else { Driver<double> d(g, serde_pct); d.hdr_pct = hdr_pct; d.bigk_pct = bigk_pct; d.segment(seg, events); }
    }
  }
  vt::close_out();
  fprintf(stderr, "tdigest_rec: %ld events\n", vt::g_events);
  return 0;
}
