// C08(a): exhaustive coin trees on the REAL classes.  A fixed short scenario per family (plain updates, and two sketches
// merged then continued) is executed once per coin string, for ALL 2^f strings of the f fair-coin flips it consumes; the
// coin is dictated through the DATASKETCHES_VERIF hook (random_utils::random_bit.source).  Per leaf the harness logs the
// number of flips consumed and W(leaf, v) = get_rank(v) * n for every distinct stream value v (inclusive and exclusive).
// The trace specification TraceCoin accumulates the leaves and decides: every leaf consumed exactly f flips, and
// sum over leaves of W(leaf, v) = 2^f * TrueWeight(v), where TrueWeight is computed by the specification from the logged stream.
#include <memory>
#include <functional>
#include <algorithm>
#include <kll_sketch.hpp>
#include <req_sketch.hpp>
#include <quantiles_sketch.hpp>
#include "vtrace.hpp"

using namespace datasketches;
using vt::Ev;

struct CoinString { uint32_t bits; uint32_t pos; };
static CoinString g_cs = {0, 0};
static uint32_t coin_from_string(void* c) {
  CoinString* s = static_cast<CoinString*>(c);
  uint32_t b = s->pos < 32 ? (s->bits >> s->pos) & 1u : 0u;   // beyond the string: zeros (and the call is still counted)
  s->pos++;
  return b;
}

struct Result { std::vector<long long> le, lt; long long n; bool exact; };

template<class Sk> static Result measure(const Sk& s, const std::vector<double>& probes) {
  Result r; r.n = (long long)s.get_n(); r.exact = true;
  for (double v : probes) {
    double a = s.get_rank((float)v, true) * (double)r.n, b = s.get_rank((float)v, false) * (double)r.n;
    long long ia = llround(a), ib = llround(b);
    if (std::fabs(a - (double)ia) > 1e-6 || std::fabs(b - (double)ib) > 1e-6) r.exact = false;
    r.le.push_back(ia); r.lt.push_back(ib);
  }
  return r;
}

// a scenario: build(n) runs the operations on fresh sketches and returns the measurements; stream(n) is what was offered
struct Scenario {
  std::string name, fam; int nmin, nmax;
  std::function<Result(int, const std::vector<double>&)> run;
  std::function<std::vector<double>(int)> stream;
};

// deterministic pseudo-random stream values (distinct unless dup > 0)
static std::vector<double> values(int n, uint64_t salt, int dup) {
  vt::Rng g(salt); std::vector<double> v;
  for (int i = 0; i < n; i++) v.push_back(dup > 0 ? (double)g.below((uint64_t)dup) : (double)(i * 7 % 101) + (double)g.below(3) * 101.0 + (double)i / 1024.0);
  return v;
}

template<class Sk, class Mk> static Scenario updates(const char* name, const char* fam, int nmin, int nmax, uint64_t salt, int dup, Mk mk) {
  Scenario sc; sc.name = name; sc.fam = fam; sc.nmin = nmin; sc.nmax = nmax;
  sc.stream = [=](int n) { return values(n, salt, dup); };
  sc.run = [=](int n, const std::vector<double>& probes) {
    Sk s = mk(0);
    for (double x : values(n, salt, dup)) s.update((float)x);
    return measure(s, probes);
  };
  return sc;
}
// A gets pa % of the stream, B pb % (its own k), A.merge(B) (lvalue or rvalue), then A continues with the rest
template<class Sk, class Mk> static Scenario merged(const char* name, const char* fam, int nmin, int nmax, uint64_t salt, bool rv, Mk mk, int pa = 40, int pb = 50) {
  Scenario sc; sc.name = name; sc.fam = fam; sc.nmin = nmin; sc.nmax = nmax;
  sc.stream = [=](int n) { return values(n, salt, 0); };
  sc.run = [=](int n, const std::vector<double>& probes) {
    std::vector<double> v = values(n, salt, 0);
    const int na = n * pa / 100, nb = n * pb / 100;
    Sk a = mk(0), b = mk(1);
    for (int i = 0; i < na; i++) a.update((float)v[i]);
    for (int i = na; i < na + nb; i++) b.update((float)v[i]);
    if (rv) a.merge(std::move(b)); else a.merge(b);
    for (int i = na + nb; i < n; i++) a.update((float)v[i]);
    return measure(a, probes);
  };
  return sc;
}

static void execute(const Scenario& sc, int fmax, long seg) {
  random_utils::random_bit.source = &coin_from_string;
  random_utils::random_bit.context = &g_cs;
  // choose the longest stream in [nmin, nmax] whose all-zero run draws at most fmax coins
  int n = -1, f = 0;
  for (int cand = sc.nmax; cand >= sc.nmin; cand--) {
    std::vector<double> st = sc.stream(cand);
    g_cs.bits = 0; g_cs.pos = 0; random_utils::random_bit.calls = 0;
    sc.run(cand, st);
    if ((int)random_utils::random_bit.calls <= fmax) { n = cand; f = (int)random_utils::random_bit.calls; break; }
  }
  if (n < 0) { fprintf(stderr, "coin_rec: scenario %s does not fit %d flips\n", sc.name.c_str(), fmax); exit(5); }
  std::vector<double> st = sc.stream(n);
  std::vector<double> probes = st; std::sort(probes.begin(), probes.end()); probes.erase(std::unique(probes.begin(), probes.end()), probes.end());
  const size_t maxp = f > 12 ? 24 : 64;
  if (probes.size() > maxp) {   // long streams / big trees: an evenly spaced subset of the values (both extremes included) keeps the trace small
    std::vector<double> sub; const size_t step = (probes.size() + maxp - 1) / maxp;
    for (size_t i = 0; i < probes.size(); i += step) sub.push_back(probes[i]);
    if (sub.back() != probes.back()) sub.push_back(probes.back());
    probes = sub;
  }
  Ev("Begin").i("seg", seg).str("scen", sc.name).str("fam", sc.fam).i("f", f).i("n", n).dl("stream", st).dl("probes", probes).emit();
  for (uint32_t c = 0; c < (1u << f); c++) {
    g_cs.bits = c; g_cs.pos = 0; random_utils::random_bit.calls = 0;
    Result r = sc.run(n, probes);
    Ev("Leaf").i("coins", c).i("flips", (long long)random_utils::random_bit.calls).i("n", r.n).b("exact", r.exact).il("le", r.le).il("lt", r.lt).emit();
  }
  Ev("Verdict").i("leaves", 1LL << f).emit();
}

int main(int argc, char** argv) {
  vt::install_terminate();
  int fmax = (int)vt::argl(argc, argv, "--fmax", 12);
  long part = vt::argl(argc, argv, "--part", -1);      // run only scenario number `part` (one file per scenario), -1: all
  uint64_t seed = (uint64_t)vt::argl(argc, argv, "--seed", 1);
  vt::open_out(vt::arg(argc, argv, "--out", "/dev/stdout"));
  typedef kll_sketch<float> K; typedef req_sketch<float> R; typedef quantiles_sketch<float> Q;
  std::vector<Scenario> all;
  all.push_back(updates<K>("kll-updates", "kll", 40, 140, seed * 11 + 1, 0, [](int) { return K(8); }));
  all.push_back(updates<K>("kll-duplicates", "kll", 40, 140, seed * 11 + 2, 7, [](int) { return K(8); }));
  all.push_back(merged<K>("kll-merge", "kll", 36, 140, seed * 11 + 3, false, [](int) { return K(8); }));
  all.push_back(merged<K>("kll-merge-unequal-k-rvalue", "kll", 36, 140, seed * 11 + 4, true, [](int j) { return K(j == 0 ? 8 : 12); }));
  all.push_back(updates<R>("req-hra-updates", "req", 40, 400, seed * 11 + 5, 0, [](int) { return R(4, true); }));
  all.push_back(updates<R>("req-lra-updates", "req", 40, 400, seed * 11 + 6, 0, [](int) { return R(4, false); }));
  all.push_back(merged<R>("req-hra-merge", "req", 60, 400, seed * 11 + 7, false, [](int) { return R(4, true); }));
  all.push_back(merged<R>("req-lra-merge-rvalue", "req", 60, 400, seed * 11 + 8, true, [](int j) { return R(j == 0 ? 4 : 6, false); }));
  // a still exact (never compacted) sketch absorbs an estimating one, then keeps compacting
  all.push_back(merged<R>("req-hra-exact-absorbs-estimating", "req", 60, 400, seed * 11 + 13, false, [](int) { return R(4, true); }, 5, 45));
  all.push_back(merged<K>("kll-exact-absorbs-estimating", "kll", 36, 140, seed * 11 + 14, false, [](int) { return K(8); }, 5, 45));
  all.push_back(updates<Q>("classic-updates", "classic", 12, 20, seed * 11 + 9, 0, [](int) { return Q(2); }));
  all.push_back(updates<Q>("classic-duplicates", "classic", 12, 20, seed * 11 + 10, 5, [](int) { return Q(2); }));
  all.push_back(merged<Q>("classic-merge", "classic", 16, 28, seed * 11 + 11, false, [](int) { return Q(2); }));
  all.push_back(merged<Q>("classic-merge-rvalue", "classic", 16, 28, seed * 11 + 12, true, [](int) { return Q(2); }));
  all.push_back(merged<Q>("classic-exact-absorbs-estimating", "classic", 16, 28, seed * 11 + 15, false, [](int) { return Q(2); }, 10, 50));
  if (vt::argl(argc, argv, "--count", 0)) { printf("%zu\n", all.size()); return 0; }
  for (size_t i = 0; i < all.size(); i++) if (part < 0 || (size_t)part == i) execute(all[i], fmax, (long)i);
  vt::close_out();
  fprintf(stderr, "coin_rec: %ld events\n", vt::g_events);
  return 0;
}
