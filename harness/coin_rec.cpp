// C08(a): exhaustive coin trees on the REAL classes.  A fixed short scenario per family (plain updates, and two sketches
// merged then continued) is executed once per coin string, for ALL 2^f strings of the f fair-coin flips it consumes; the
// coin is dictated through the DATASKETCHES_VERIF hook (random_utils::random_bit.source).  Per leaf the harness logs the
// number of flips consumed and W(leaf, v) = get_rank(v) * n for every distinct stream value v (inclusive and exclusive).
// The trace specification TraceCoin accumulates the leaves and decides: every leaf consumed exactly f flips, and
// sum over leaves of W(leaf, v) = 2^f * TrueWeight(v), where TrueWeight is computed by the specification from the logged stream.
#include <memory>
#include <functional>
#include <algorithm>
#include <sstream>
#include <random>
#include <map>
#include <kll_sketch.hpp>
#include <req_sketch.hpp>
#include <quantiles_sketch.hpp>
#include "vtrace.hpp"

using namespace datasketches;
using vt::Ev;

struct CoinString { uint32_t bits; uint32_t pos; };
static CoinString g_cs = {0, 0};
static uint32_t coin_from_string(void* c) {
  CoinString* s = static_cast<CoinString*>(c);
  uint32_t b = s->pos < 32 ? (s->bits >> s->pos) & 1u : 0u;   // beyond the string: zeros (and the call is still counted)
  s->pos++;
  return b;
}

// per call: after every update / merge the scenario reports the cumulative number of flips; logged as [call index, flips, ...] at the
// calls where it grew - the flip count of each call must be a function of the call index only
static std::vector<long long> g_fl; static long long g_op = 0, g_last = 0;
static void tick() { g_op++; long long c = (long long)random_utils::random_bit.calls; if (c != g_last) { g_fl.push_back(g_op); g_fl.push_back(c); g_last = c; } }
struct Result { std::vector<long long> le, lt; long long n; bool exact; long draws = -1; };
static uint64_t g_rand_seed = 1;

template<class Sk> static Result measure(const Sk& s, const std::vector<double>& probes) {
  Result r; r.n = (long long)s.get_n(); r.exact = true;
  for (double v : probes) {
    double a = s.get_rank((float)v, true) * (double)r.n, b = s.get_rank((float)v, false) * (double)r.n;
    long long ia = llround(a), ib = llround(b);
    if (std::fabs(a - (double)ia) > 1e-6 || std::fabs(b - (double)ib) > 1e-6) r.exact = false;
    r.le.push_back(ia); r.lt.push_back(ib);
  }
  return r;
}

// a scenario: build(n) runs the operations on fresh sketches and returns the measurements; stream(n) is what was offered
struct Scenario {
  std::string name, fam; int nmin, nmax;
  // equally likely outcome sequences of randomness that is NOT the coin (classic down-sampling offsets), dictated by seeding
  // random_utils::rand; empty: none.  g_rand_seed is installed by the scenario right before the operation that draws.
  std::vector<uint64_t> rand_seeds;
  int rand_draws = 0;          // engine draws the modelled source makes per run (checked against the engine state)
  bool skip_if_over = false;   // shape batches: a scenario that needs more than fmax flips is skipped, not fatal
  std::function<Result(int, const std::vector<double>&)> run;
  std::function<std::vector<double>(int)> stream;
};

// deterministic pseudo-random stream values (distinct unless dup > 0)
static std::vector<double> values(int n, uint64_t salt, int dup) {
  vt::Rng g(salt); std::vector<double> v;
  // dup > 0: uniform over `dup` values; 0: distinct; duplicate-heavy patterns with skewed multiplicities:
  // -1: a single outlier followed by copies of one value; -2: two values, 15 % / 85 %; -3: runs of 12 equal values (a run can fill a level)
  for (int i = 0; i < n; i++) {
    double x;
    if (dup > 0) x = (double)g.below((uint64_t)dup);
    else if (dup == -1) x = i == 0 ? 1.0 : 2.0;
    else if (dup == -2) x = g.below(100) < 15 ? 3.0 : 5.0;
    else if (dup == -3) x = (double)((i / 12) * 5 % 7);
    else x = (double)(i * 7 % 101) + (double)g.below(3) * 101.0 + (double)i / 1024.0;
    v.push_back(x);
  }
  return v;
}

template<class Sk, class Mk> static Scenario updates(const char* name, const char* fam, int nmin, int nmax, uint64_t salt, int dup, Mk mk) {
  Scenario sc; sc.name = name; sc.fam = fam; sc.nmin = nmin; sc.nmax = nmax;
  sc.stream = [=](int n) { return values(n, salt, dup); };
  sc.run = [=](int n, const std::vector<double>& probes) {
    Sk s = mk(0);
    for (double x : values(n, salt, dup)) { s.update((float)x); tick(); }
    return measure(s, probes);
  };
  return sc;
}
// the history continues on a COPY (copy constructor or copy assignment) taken after `pos(n)` updates: the copy must behave like the original -
// in particular its coin state (REQ: the pending flipped coin of an odd compaction counter) must come along
template<class Sk, class Mk, class Pos> static Scenario updates_copy(const std::string& name, const char* fam, int nmin, int nmax, uint64_t salt, int route, Mk mk, Pos pos) {
  Scenario sc; sc.name = name; sc.fam = fam; sc.nmin = nmin; sc.nmax = nmax;
  sc.stream = [=](int n) { return values(n, salt, 0); };
  sc.run = [=](int n, const std::vector<double>& probes) {
    std::unique_ptr<Sk> cur(new Sk(mk(0)));
    std::vector<double> v = values(n, salt, 0); const int p = pos(n);
    for (int i = 0; i < n; i++) {
      cur->update((float)v[i]); tick();
      if (i + 1 == p) {
        // route 0: copy constructor, 1: copy assignment, 2 / 3: the history continues on the sketch RESTORED from the bytes / stream image
        if (route == 1) { std::unique_ptr<Sk> c(new Sk(mk(0))); c->update((float)v[0]); *c = *cur; cur.swap(c); }
        else if (route == 0) { std::unique_ptr<Sk> c(new Sk(*cur)); cur.swap(c); }
        else if (route == 2) { auto img = cur->serialize(); std::unique_ptr<Sk> c(new Sk(Sk::deserialize(img.data(), img.size()))); cur.swap(c); tick(); }
        else { std::stringstream ss; cur->serialize(ss); std::unique_ptr<Sk> c(new Sk(Sk::deserialize(ss))); cur.swap(c); tick(); }
      }
    }
    return measure(*cur, probes);
  };
  return sc;
}
// A gets pa % of the stream, B pb % (its own k), A.merge(B) (lvalue or rvalue), then A continues with the rest
template<class Sk, class Mk> static Scenario merged(const char* name, const char* fam, int nmin, int nmax, uint64_t salt, bool rv, Mk mk, int pa = 40, int pb = 50, int dup = 0) {
  Scenario sc; sc.name = name; sc.fam = fam; sc.nmin = nmin; sc.nmax = nmax;
  sc.stream = [=](int n) { return values(n, salt, dup); };
  sc.run = [=](int n, const std::vector<double>& probes) {
    std::vector<double> v = values(n, salt, dup);
    const int na = n * pa / 100, nb = n * pb / 100;
    Sk a = mk(0), b = mk(1);
    for (int i = 0; i < na; i++) { a.update((float)v[i]); tick(); }
    for (int i = na; i < na + nb; i++) { b.update((float)v[i]); tick(); }
    // query - mutate - query: the target's sorted view is cached by a query right before the merge
    if (!a.is_empty()) (void)a.get_rank((float)v[0], true);
    if (rv) a.merge(std::move(b)); else a.merge(b);
    tick();
    for (int i = na + nb; i < n; i++) { if (!a.is_empty()) (void)a.get_rank((float)v[0], false); a.update((float)v[i]); tick(); }
    return measure(a, probes);
  };
  return sc;
}

static bool execute(const Scenario& sc, int fmax, long seg) {
  random_utils::random_bit.source = &coin_from_string;
  random_utils::random_bit.context = &g_cs;
  if (!sc.rand_seeds.empty()) g_rand_seed = sc.rand_seeds[0];
  // choose the longest stream in [nmin, nmax] whose all-zero run draws at most fmax coins
  int n = -1, f = 0; long draws0 = -1;
  for (int cand = sc.nmax; cand >= sc.nmin; cand--) {
    std::vector<double> st = sc.stream(cand);
    g_cs.bits = 0; g_cs.pos = 0; random_utils::random_bit.calls = 0; g_fl.clear(); g_op = 0; g_last = 0;
    Result r0 = sc.run(cand, st);
    if ((int)random_utils::random_bit.calls <= fmax) { n = cand; f = (int)random_utils::random_bit.calls; draws0 = r0.draws; break; }
  }
  if (n < 0) {
    fprintf(stderr, "coin_rec: scenario %s does not fit %d flips%s\n", sc.name.c_str(), fmax, sc.skip_if_over ? " (skipped)" : "");
    if (sc.skip_if_over) return false;
    exit(5);
  }
  if (!sc.rand_seeds.empty() && draws0 != sc.rand_draws) {
    // the library does not draw the non-coin randomness the way this enumeration models it: no exhaustive verdict is possible here
    // (the seeded statistical trials of quant_err_rec judge unbiasedness of this path independently of the mechanism)
    fprintf(stderr, "coin_rec: scenario %s: %ld engine draws instead of %d - exhaustive offset enumeration not applicable (skipped)\n", sc.name.c_str(), draws0, sc.rand_draws);
    return false;
  }
  std::vector<double> st = sc.stream(n);
  std::vector<double> probes = st; std::sort(probes.begin(), probes.end()); probes.erase(std::unique(probes.begin(), probes.end()), probes.end());
  const size_t choices = sc.rand_seeds.empty() ? 1 : sc.rand_seeds.size();
  const size_t maxp = (f > 12 || choices > 16) ? 24 : 64;
  if (probes.size() > maxp) {   // long streams / big trees: an evenly spaced subset of the values (both extremes included) keeps the trace small
    std::vector<double> sub; const size_t step = (probes.size() + maxp - 1) / maxp;
    for (size_t i = 0; i < probes.size(); i += step) sub.push_back(probes[i]);
    if (sub.back() != probes.back()) sub.push_back(probes.back());
    probes = sub;
  }
  Ev("Begin").i("seg", seg).str("scen", sc.name).str("fam", sc.fam).i("f", f).i("choices", (long long)choices).i("n", n).dl("stream", st).dl("probes", probes).emit();
  long long leaf = 0;
  for (size_t ch = 0; ch < choices; ch++) {
    if (!sc.rand_seeds.empty()) g_rand_seed = sc.rand_seeds[ch];
    for (uint32_t c = 0; c < (1u << f); c++) {
      g_cs.bits = c; g_cs.pos = 0; random_utils::random_bit.calls = 0; g_fl.clear(); g_op = 0; g_last = 0;
      Result r = sc.run(n, probes);
      Ev("Leaf").i("leaf", leaf++).i("coins", c).i("choice", (long long)ch).i("flips", (long long)random_utils::random_bit.calls).i("n", r.n).b("exact", r.exact)
        .b("drawsok", sc.rand_seeds.empty() || r.draws == sc.rand_draws).il("fl", g_fl).il("le", r.le).il("lt", r.lt).emit();
    }
  }
  Ev("Verdict").i("leaves", leaf).emit();
  return true;
}

// ---------------------------------------------------------------------------------------------------------------
// REQ merge SHAPES: all merge trees over 3 (4) small sketches whose level-0 compactors are in every combination of
// {never compacted (state 0), even non-zero state, odd state}; the stream lengths realising a state are found by brute
// force (the state is the first field of the serialized level-0 compactor; it does not depend on coin outcomes)
// ---------------------------------------------------------------------------------------------------------------
static uint64_t req_level0_state(int n, bool hra) {
  g_cs.bits = 0; g_cs.pos = 0;
  req_sketch<float> s(4, hra);
  for (int i = 0; i < n; i++) s.update((float)((i * 37) % 1009));
  if (s.get_n() <= 4) return 0;                        // raw items layout: never compacted
  auto b = s.serialize();
  const size_t off = s.is_estimation_mode() ? 8 + 8 + 4 + 4 : 8;
  uint64_t st; memcpy(&st, b.data() + off, 8); return st;
}
// lengths[c]: stream length whose level-0 state is of class c (0: zero, 1: even non-zero, 2: odd)
static std::vector<int> req_lengths(bool hra, int variant) {
  static std::map<int, std::vector<std::vector<int>>> cache;
  if (!cache.count(hra)) {
    std::vector<std::vector<int>> by(3);
    for (int n = 6; n <= 400; n++) { uint64_t st = req_level0_state(n, hra); by[st == 0 ? 0 : (st % 2 == 0 ? 1 : 2)].push_back(n); }
    cache[hra] = by;
  }
  // variant 0: an EMPTY never-compacted sketch and the shortest streams right after the compaction that produced the state;
  // variant 1: a few items in the never-compacted sketch, and a few more items after that compaction
  std::vector<int> len;
  for (int c = 0; c < 3; c++) {
    auto& l = cache[hra][c];
    if (l.empty()) { fprintf(stderr, "coin_rec: no stream length for a state class\n"); exit(5); }
    if (c == 0) len.push_back(variant == 0 ? 0 : 5);
    else len.push_back(l[std::min<size_t>(variant == 0 ? 0 : 3, l.size() - 1)]);
  }
  return len;
}
// shape over sketches S0..S(m-1) as a sequence of merges (dst, src); S0 is the final sketch and is then updated further
typedef std::vector<std::pair<int, int>> Shape;
static uint64_t level0_state(const req_sketch<float>& s) {
  if (s.get_n() <= 4) return 0;
  auto b = s.serialize(); uint64_t st; memcpy(&st, b.data() + (s.is_estimation_mode() ? 24 : 8), 8); return st;
}
static Scenario req_shape(const std::string& name, bool hra, const std::vector<int>& lens, const Shape& shape, int post_min, uint64_t salt, bool rv, int copy = 0) {
  Scenario sc; sc.name = name; sc.fam = "req"; sc.skip_if_over = true;
  // continue after the merges until the final sketch's level-0 compactor has compacted twice more (one even, one odd compaction)
  int post = post_min;
  {
    typedef req_sketch<float> R;
    g_cs.bits = 0; g_cs.pos = 0;
    std::vector<std::unique_ptr<R>> sk; int x0 = 0;
    for (int x : lens) { sk.emplace_back(new R(4, hra)); for (int i = 0; i < x; i++) sk.back()->update((float)(x0++)); }
    for (auto& m : shape) sk[m.first]->merge(*sk[m.second]);
    const uint64_t st0 = level0_state(*sk[0]);
    int extra = 0; while (extra < 200 && level0_state(*sk[0]) < st0 + 2) { sk[0]->update((float)(x0++)); extra++; }
    post = std::max(post_min, extra + 2);
  }
  int total = post; for (int x : lens) total += x;
  sc.nmin = sc.nmax = total;
  sc.stream = [=](int n) { return values(n, salt, 0); };
  sc.run = [=](int n, const std::vector<double>& probes) {
    typedef req_sketch<float> R;
    std::vector<double> v = values(n, salt, 0);
    std::vector<std::unique_ptr<R>> sk; size_t pos = 0;
    for (int x : lens) { sk.emplace_back(new R(4, hra)); for (int i = 0; i < x; i++) { sk.back()->update((float)v[pos++]); tick(); } }
    for (auto& m : shape) { if (rv) sk[m.first]->merge(std::move(*sk[m.second])); else sk[m.first]->merge(*sk[m.second]); tick(); }
    // copy = 1 / 2: the merged sketch is replaced by a copy of itself (copy constructor / copy assignment) before it continues
    if (copy == 1) { std::unique_ptr<R> c(new R(*sk[0])); sk[0].swap(c); }
    else if (copy == 2) { std::unique_ptr<R> c(new R(4, hra)); *c = *sk[0]; sk[0].swap(c); }
    while (pos < v.size()) { sk[0]->update((float)v[pos++]); tick(); }
    return measure(*sk[0], probes);
  };
  return sc;
}
static void req_shapes(std::vector<std::vector<Scenario>>& parts, int m, uint64_t seed, size_t per_part) {
  static const char* CN = "ZEO";    // zero / even / odd
  std::vector<Shape> shapes; std::vector<std::string> sn;
  if (m == 3) {
    shapes.push_back({{0, 1}, {0, 2}}); sn.push_back("seq");          // (S0 <- S1) <- S2
    shapes.push_back({{1, 2}, {0, 1}}); sn.push_back("nest");         // S0 <- (S1 <- S2)
  } else {
    shapes.push_back({{0, 1}, {0, 2}, {0, 3}}); sn.push_back("seq");
    shapes.push_back({{2, 3}, {1, 2}, {0, 1}}); sn.push_back("nest");
    shapes.push_back({{0, 1}, {2, 3}, {0, 2}}); sn.push_back("bal");
    shapes.push_back({{1, 2}, {0, 1}, {0, 3}}); sn.push_back("mix");
  }
  int patterns = 1; for (int i = 0; i < m; i++) patterns *= 3;
  std::vector<Scenario> cur; int idx = 0;
  for (int p = 0; p < patterns; p++) for (size_t sh = 0; sh < shapes.size(); sh++) for (int var = 0; var < 2; var++) for (int cp = 0; cp < 2; cp++, idx++) {
    const bool hra = (p + (int)sh + var) % 2 == 0;
    std::vector<int> L = req_lengths(hra, var);
    std::vector<int> lens; std::string pat; int q = p;
    for (int i = 0; i < m; i++) { lens.push_back(L[q % 3]); pat += CN[q % 3]; q /= 3; }
    cur.push_back(req_shape("req-shape" + std::to_string(m) + "-" + sn[sh] + "-" + pat + (var ? "-b" : "-a") + (cp ? "-copy" : "") + (hra ? "-hra" : "-lra"), hra, lens, shapes[sh], 30, seed * 131 + (uint64_t)idx, idx % 3 == 0, cp ? 1 + (p + (int)sh) % 2 : 0));
    if (cur.size() == per_part) { parts.push_back(cur); cur.clear(); }
  }
  if (!cur.empty()) parts.push_back(cur);
}

// ---------------------------------------------------------------------------------------------------------------
// classic down-sampling merge: the stride offsets come from random_utils::rand through
// std::uniform_int_distribution<uint16_t>(0, stride - 1), one draw per populated source level.  All offset sequences are
// enumerated by seeding the engine with seeds found (by simulation of the same standard engine and distribution) to
// produce each sequence; the run reports how many engine draws the merge really made.
// ---------------------------------------------------------------------------------------------------------------
static std::vector<uint64_t> offset_seeds(int stride, int draws) {
  size_t want = 1; for (int i = 0; i < draws; i++) want *= (size_t)stride;
  std::map<size_t, uint64_t> found;
  for (uint64_t sd = 1; found.size() < want && sd < 1000000; sd++) {
    std::mt19937_64 e(sd); size_t code = 0;
    for (int i = 0; i < draws; i++) { std::uniform_int_distribution<uint16_t> d(0, (uint16_t)(stride - 1)); code = code * (size_t)stride + d(e); }
    if (!found.count(code)) found[code] = sd;
  }
  std::vector<uint64_t> out; for (auto& kv : found) out.push_back(kv.second);
  return out;
}
static Scenario downsample(const std::string& name, int ratio, bool small_absorbs, uint64_t salt) {
  typedef quantiles_sketch<float> Q;
  const int kt = 2, ks = kt * ratio, nt = 2 * kt + 1, ns = 3 * 2 * ks + 3, draws = 2;   // source bit pattern 3: two populated levels
  Scenario sc; sc.name = name; sc.fam = "classic"; sc.nmin = sc.nmax = nt + ns;
  sc.rand_seeds = offset_seeds(ratio, draws); sc.rand_draws = draws;
  sc.stream = [=](int n) { return values(n, salt, 0); };
  sc.run = [=](int n, const std::vector<double>& probes) {
    std::vector<double> v = values(n, salt, 0);
    Q small((uint16_t)kt), large((uint16_t)ks);
    for (int i = 0; i < nt; i++) small.update((float)v[i]);
    for (int i = nt; i < n; i++) large.update((float)v[i]);
    random_utils::override_seed(g_rand_seed);
    std::mt19937_64 before = random_utils::rand;
    (void)small.get_rank((float)v[0], true); (void)large.get_rank((float)v[0], true);    // the targets' sorted views are cached before the merge
    if (small_absorbs) small.merge(large); else large.merge(small);
    long d = 0; while (d <= 64 && !(before == random_utils::rand)) { before(); d++; }
    Result r = measure(small_absorbs ? small : large, probes);
    r.draws = d > 64 ? -1 : d;
    return r;
  };
  return sc;
}

int main(int argc, char** argv) {
  vt::install_terminate();
  int fmax = (int)vt::argl(argc, argv, "--fmax", 12);
  long part = vt::argl(argc, argv, "--part", -1);      // run only scenario number `part` (one file per scenario), -1: all
  uint64_t seed = (uint64_t)vt::argl(argc, argv, "--seed", 1);
  vt::open_out(vt::arg(argc, argv, "--out", "/dev/stdout"));
  typedef kll_sketch<float> K; typedef req_sketch<float> R; typedef quantiles_sketch<float> Q;
  std::vector<Scenario> all;
  all.push_back(updates<K>("kll-updates", "kll", 40, 140, seed * 11 + 1, 0, [](int) { return K(8); }));
  all.push_back(updates<K>("kll-duplicates", "kll", 40, 140, seed * 11 + 2, 7, [](int) { return K(8); }));
  all.push_back(merged<K>("kll-merge", "kll", 36, 140, seed * 11 + 3, false, [](int) { return K(8); }));
  all.push_back(merged<K>("kll-merge-unequal-k-rvalue", "kll", 36, 140, seed * 11 + 4, true, [](int j) { return K(j == 0 ? 8 : 12); }));
  all.push_back(updates<R>("req-hra-updates", "req", 40, 400, seed * 11 + 5, 0, [](int) { return R(4, true); }));
  all.push_back(updates<R>("req-lra-updates", "req", 40, 400, seed * 11 + 6, 0, [](int) { return R(4, false); }));
  all.push_back(merged<R>("req-hra-merge", "req", 60, 400, seed * 11 + 7, false, [](int) { return R(4, true); }));
  all.push_back(merged<R>("req-lra-merge-rvalue", "req", 60, 400, seed * 11 + 8, true, [](int j) { return R(j == 0 ? 4 : 6, false); }));
  // a still exact (never compacted) sketch absorbs an estimating one, then keeps compacting
  all.push_back(merged<R>("req-hra-exact-absorbs-estimating", "req", 60, 400, seed * 11 + 13, false, [](int) { return R(4, true); }, 5, 45));
  all.push_back(merged<K>("kll-exact-absorbs-estimating", "kll", 36, 140, seed * 11 + 14, false, [](int) { return K(8); }, 5, 45));
  all.push_back(updates<Q>("classic-updates", "classic", 12, 20, seed * 11 + 9, 0, [](int) { return Q(2); }));
  all.push_back(updates<Q>("classic-duplicates", "classic", 12, 20, seed * 11 + 10, 5, [](int) { return Q(2); }));
  all.push_back(merged<Q>("classic-merge", "classic", 16, 28, seed * 11 + 11, false, [](int) { return Q(2); }));
  all.push_back(merged<Q>("classic-merge-rvalue", "classic", 16, 28, seed * 11 + 12, true, [](int) { return Q(2); }));
  all.push_back(merged<Q>("classic-exact-absorbs-estimating", "classic", 16, 28, seed * 11 + 15, false, [](int) { return Q(2); }, 10, 50));
  // parts: one file per part.  0..14: the single scenarios; then the REQ merge-shape batches (3 sketches; 4 sketches with --shapes4 1)
  std::vector<std::vector<Scenario>> parts;
  for (auto& sc : all) parts.push_back(std::vector<Scenario>(1, sc));
  // exhaustive classic down-sampling merges (k ratio 2, 4, 8; both directions) ride along with the classic parts 10..14
  { int j = 0; for (int ratio : {2, 4, 8}) for (int dir = 0; dir < 2; dir++, j++)
      parts[10 + j % 5].push_back(downsample("classic-downsample-x" + std::to_string(ratio) + (dir ? "-small-absorbs-large" : "-large-absorbs-small"), ratio, dir == 1, seed * 11 + 20 + (uint64_t)j)); }
  // duplicate-heavy streams (few distinct values, skewed multiplicities): whether a run is single-valued depends on earlier coins
  {
    struct D { const char* tag; int dup; }; static const D DS[] = {{"outlier", -1}, {"two-values", -2}, {"runs", -3}};
    std::vector<Scenario> pk, pr, pq; int j = 0;
    for (auto& d : DS) {
      pk.push_back(updates<K>((std::string("kll-dup-") + d.tag).c_str(), "kll", 40, 100, seed * 11 + 40 + j, d.dup, [](int) { return K(8); }));
      pr.push_back(updates<R>((std::string("req-dup-") + d.tag).c_str(), "req", 40, 300, seed * 11 + 50 + j, d.dup, [=](int) { return R(4, j % 2 == 0); }));
      pq.push_back(updates<Q>((std::string("classic-dup-") + d.tag).c_str(), "classic", 12, 20, seed * 11 + 60 + j, d.dup, [](int) { return Q(2); }));
      j++;
    }
    pk.push_back(merged<K>("kll-dup-merge", "kll", 36, 100, seed * 11 + 70, false, [](int) { return K(8); }, 40, 50, -1));
    pk.push_back(merged<K>("kll-dup-merge-two-values", "kll", 36, 100, seed * 11 + 71, true, [](int j2) { return K(j2 == 0 ? 8 : 12); }, 40, 50, -2));
    pr.push_back(merged<R>("req-dup-merge", "req", 60, 300, seed * 11 + 72, false, [](int) { return R(4, true); }, 40, 50, -2));
    pq.push_back(merged<Q>("classic-dup-merge", "classic", 16, 28, seed * 11 + 73, false, [](int) { return Q(2); }, 40, 50, -2));
    parts.push_back(pk); parts.push_back(pr); parts.push_back(pq);
  }
  // the history continues on a COPY taken at several points (REQ: where the level-0 compaction counter is odd / even non-zero / zero)
  {
    std::vector<Scenario> pc; int j = 0;
    static const char* RT[] = {"-ctor", "-assign", "-restore-bytes", "-restore-stream"};
    for (int hra = 0; hra < 2; hra++) for (int cls = 0; cls < 3; cls++) for (int route = 0; route < 4; route++, j++) {
      const int at = req_lengths(hra == 1, route % 2)[cls] + (cls == 0 ? 7 : 0);
      pc.push_back(updates_copy<R>(std::string("req-copy-at-") + "ZEO"[cls] + RT[route] + (hra ? "-hra" : "-lra"), "req", at + 70, at + 70,
                                   seed * 11 + 80 + j, route, [=](int) { return R(4, hra == 1); }, [=](int) { return at; }));
    }
    for (int q = 1; q <= 3; q++) for (int route = 0; route < 4; route++, j++) {
      pc.push_back(updates_copy<K>(std::string("kll-copy-at-") + std::to_string(q) + "of4" + RT[route], "kll", 40, 100, seed * 11 + 80 + j, route,
                                   [](int) { return K(8); }, [=](int n) { return n * q / 4; }));
      pc.push_back(updates_copy<Q>(std::string("classic-copy-at-") + std::to_string(q) + "of4" + RT[route], "classic", 12, 20, seed * 11 + 110 + j, route,
                                   [](int) { return Q(2); }, [=](int n) { return n * q / 4; }));
    }
    // classic: target queried, then an estimating source with an EMPTY base buffer (n a multiple of 2k) merged, then queried at once
    pc.push_back(merged<Q>("classic-merge-cached-view-empty-base-buffer", "classic", 20, 20, seed * 11 + 140, false, [](int) { return Q(2); }, 40, 60));
    pc.push_back(merged<Q>("classic-merge-cached-view-empty-base-buffer-rvalue", "classic", 20, 20, seed * 11 + 141, true, [](int) { return Q(2); }, 40, 60));
    // classic: an estimating source whose base buffer is NON-EMPTY and UNSORTED merged into an EMPTY / an EXACT target, measured at once
    pc.push_back(merged<Q>("classic-merge-into-empty-unsorted-base-buffer", "classic", 22, 22, seed * 11 + 143, false, [](int) { return Q(2); }, 0, 100));
    pc.push_back(merged<Q>("classic-merge-into-empty-unsorted-base-buffer-rvalue", "classic", 22, 22, seed * 11 + 144, true, [](int) { return Q(2); }, 0, 100));
    pc.push_back(merged<Q>("classic-merge-into-exact-unsorted-base-buffer", "classic", 20, 20, seed * 11 + 145, false, [](int) { return Q(2); }, 10, 90));
    pc.push_back(merged<Q>("classic-merge-into-exact-larger-k-unsorted-base-buffer", "classic", 20, 20, seed * 11 + 146, true, [](int j2) { return Q(j2 == 0 ? 4 : 2); }, 10, 90));
    parts.push_back(pc);
  }
  req_shapes(parts, 3, seed, 36);
  if (vt::argl(argc, argv, "--shapes4", 0)) req_shapes(parts, 4, seed + 1, 108);
  if (vt::argl(argc, argv, "--count", 0)) { printf("%zu\n", parts.size()); return 0; }
  long seg = 0, done = 0;
  for (size_t i = 0; i < parts.size(); i++) if (part < 0 || (size_t)part == i) for (auto& sc : parts[i]) { if (execute(sc, fmax, seg++)) done++; }
  if (done == 0) { fprintf(stderr, "coin_rec: part %ld has no executable scenario\n", part); return 5; }
  vt::close_out();
  fprintf(stderr, "coin_rec: %ld events\n", vt::g_events);
  return 0;
}
