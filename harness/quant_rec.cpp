// Recording driver for the three quantile sketch families (C07; serde events for C09):
// kll_sketch, req_sketch, quantiles_sketch x item types float / double (with NaN) / int64 / std::string under a
// REVERSING comparator x stream shapes x k x merge trees.  Runs randomized operation histories on the real classes
// and logs one ND-JSON event per public call.  Items are logged as D tokens of a key that is order-isomorphic to the
// sketch's comparator (bin/vlib/munge.py renames them to ranks); expected values are computed by the specification.
// The library's fair coin is supplied through the DATASKETCHES_VERIF hook from a source that is re-seeded per
// operation index, so an object restored from an image and its original draw the same coins.
#include <memory>
#include <sstream>
#include <algorithm>
#include <functional>
#include <map>
#include <kll_sketch.hpp>
#include <req_sketch.hpp>
#include <quantiles_sketch.hpp>
#include "vtrace.hpp"

using namespace datasketches;
using vt::Ev;

// ---------------------------------------------------------------------------------------------------------------
// coin source (splitmix64 bits), installed through the hook
// ---------------------------------------------------------------------------------------------------------------
struct Coin { uint64_t x; uint64_t buf; int left; };
static Coin g_coin = {1, 0, 0};
static std::vector<int> g_bits;    // the coin outcomes drawn since the last seed_op(): logged with the operation (tier B)
static uint32_t coin_next(void* c) {
  Coin* k = static_cast<Coin*>(c);
  if (k->left == 0) {
    uint64_t z = (k->x += 0x9E3779B97F4A7C15ULL); z = (z ^ (z >> 30)) * 0xBF58476D1CE4E5B9ULL; z = (z ^ (z >> 27)) * 0x94D049BB133111EBULL;
    k->buf = z ^ (z >> 31); k->left = 64;
  }
  uint32_t b = (uint32_t)(k->buf & 1); k->buf >>= 1; k->left--;
  g_bits.push_back((int)b);
  return b;
}
static void seed_op(uint64_t s) {
  g_coin.x = s * 0xD6E8FEB86659FD93ULL + 12345; g_coin.left = 0; g_bits.clear();
  random_utils::override_seed(s ^ 0xabcdef);   // classic down-sampling merge draws its offset from random_utils::rand
}

// ---------------------------------------------------------------------------------------------------------------
// item types: mk(v) builds the item for driver value v, key(x) is order-isomorphic to the comparator
// ---------------------------------------------------------------------------------------------------------------
template<class T> struct Ad;
template<> struct Ad<float> {
  using C = std::less<float>; static const char* name() { return "f32"; } static const bool has_nan = true;
  static float mk(long v) { return (float)v * 0.5f; } static double key(const float& x) { return (double)x; }
  static float nan() { return std::nanf("7"); } static size_t item_bytes() { return 4; }
  using RC = std::greater<float>; using Wide = double;
};
template<> struct Ad<double> {
  using C = std::less<double>; static const char* name() { return "f64"; } static const bool has_nan = true;
  static double mk(long v) { if (v == 99999) return INFINITY; if (v == -99999) return -INFINITY; return (double)v * 0.25; }
  static double key(const double& x) { return x; }
  static double nan() { return std::nan("3"); } static size_t item_bytes() { return 8; }
  using RC = std::greater<double>; using Wide = void;
};
template<> struct Ad<int64_t> {
  using C = std::less<int64_t>; static const char* name() { return "i64"; } static const bool has_nan = false;
  static int64_t mk(long v) { return (int64_t)v * 1000003LL; } static double key(const int64_t& x) { return (double)x; }
  static int64_t nan() { return 0; } static size_t item_bytes() { return 8; }
  using RC = std::greater<int64_t>; using Wide = double;
};
template<> struct Ad<std::string> {
  using C = std::greater<std::string>; static const char* name() { return "str"; } static const bool has_nan = false;
  static std::string mk(long v) { char b[16]; snprintf(b, sizeof b, "%07ld", v + 1000000); return b; }
  static double key(const std::string& x) { return -(double)(atol(x.c_str()) - 1000000); }   // reversing comparator
  static std::string nan() { return ""; } static size_t item_bytes() { return 4 + 7; }
  using RC = std::less<std::string>; using Wide = void;
};

// ---------------------------------------------------------------------------------------------------------------
// families
// ---------------------------------------------------------------------------------------------------------------
template<class T> struct KllF {
  using Sk = kll_sketch<T, typename Ad<T>::C>;
  template<class U> using Fam = KllF<U>; template<class U, class C2> using SkOf = kll_sketch<U, C2>;
  static long num_levels(const Sk& s) {   // "Levels" of to_string()
    std::string t = s.to_string(); size_t p = t.find("Levels"); p = p == std::string::npos ? p : t.find(':', p);
    return p == std::string::npos ? -1 : atol(t.c_str() + p + 1);
  }
  // tier B: the nominal capacity of every level, as to_string(true) prints it ("index: nominal capacity, actual size")
  static void mechanism(Ev& e, const Sk& s) {
    std::string t = s.to_string(true, false); size_t p = t.find("### KLL sketch levels:");
    std::vector<long> caps;
    if (p != std::string::npos) { p = t.find("actual size", p); size_t end = t.find("### End sketch levels", p);
      while (p != std::string::npos && (p = t.find(": ", p)) != std::string::npos && p < end) { caps.push_back(atol(t.c_str() + p + 2)); p += 2; } }
    e.il("caps", caps);
  }
  // the extreme configurations: the largest k, 2^15 (2k no longer fits 16 bits) and its neighbour
  static unsigned extreme_k(long seg) { static const unsigned KK[3] = {65535, 32768, 32767}; return KK[seg % 3]; }
  // the k the published error is computed from: "min K" of to_string() (smallest k that contributed compacted data)
  static void published(const Sk& s, long long& pk, double& eps, double& eps_pk) {
    std::string t = s.to_string(); size_t p = t.find("min K"); p = p == std::string::npos ? p : t.find(':', p);
    pk = p == std::string::npos ? -1 : atoll(t.c_str() + p + 1);
    eps = s.get_normalized_rank_error(false); eps_pk = pk > 0 ? Sk::get_normalized_rank_error((uint16_t)pk, false) : -1;
  }
  static const char* name() { return "kll"; }
  static Sk make(unsigned k, bool) { return Sk((uint16_t)k); }
  static void on_new(Ev&, const Sk&) {}
  static bool refusable(const Sk&, int, std::unique_ptr<Sk>&, bool&) { return false; }   // no incompatible operand exists (M is fixed)
  static unsigned min_k() { return 8; }
  static unsigned draw_k(vt::Rng& g, long maxk) { return g.chance(50) ? 8 : (unsigned)g.range(8, maxk); }
  // the space the sketch publishes: serialized size against get_max_serialized_size_bytes(k, n)
  template<class TT = T, typename std::enable_if<std::is_arithmetic<TT>::value, int>::type = 0>
  static void space(const Sk& s, long long& used, long long& bound) {
    used = (long long)s.get_serialized_size_bytes(); bound = (long long)Sk::get_max_serialized_size_bytes(s.get_k(), s.get_n());
  }
  template<class TT = T, typename std::enable_if<!std::is_arithmetic<TT>::value, int>::type = 0>
  static void space(const Sk& s, long long& used, long long& bound) {
    used = (long long)s.get_serialized_size_bytes(); bound = (long long)Sk::get_max_serialized_size_bytes(s.get_k(), s.get_n(), Ad<T>::item_bytes());
  }
};
template<class T> struct ReqF {
  using Sk = req_sketch<T, typename Ad<T>::C>;
  template<class U> using Fam = ReqF<U>; template<class U, class C2> using SkOf = req_sketch<U, C2>;
  static void published(const Sk&, long long& pk, double& eps, double& eps_pk) { pk = 0; eps = 0; eps_pk = 0; }
  static long num_levels(const Sk&) { return -1; }
  template<class TT = T, typename std::enable_if<!std::is_arithmetic<TT>::value, int>::type = 0>
  static void mechanism(Ev&, const Sk&) {}
  // tier B: compaction counter, number of sections, section size and item count of every compactor, read from the sketch's own image
  template<class TT = T, typename std::enable_if<std::is_arithmetic<TT>::value, int>::type = 0>
  static void mechanism(Ev& e, const Sk& s) {
    if (s.get_n() <= req_constants::MIN_K) return;     // raw items layout: a single compactor that never compacted
    auto b = s.serialize();
    const bool est = s.is_estimation_mode();
    size_t off = est ? 8 + 8 + 2 * sizeof(T) : 8; const unsigned levels = b[6];
    std::string js = "[";
    for (unsigned h = 0; h < levels && off + 20 <= b.size(); h++) {
      uint64_t st; float ssr; uint8_t nsec; uint32_t num;
      memcpy(&st, b.data() + off, 8); memcpy(&ssr, b.data() + off + 8, 4); nsec = b[off + 13]; memcpy(&num, b.data() + off + 16, 4);
      if (h) js += ",";
      js += "[" + std::to_string((unsigned long long)st) + "," + std::to_string((unsigned)nsec) + "," + std::to_string(nearest_even(ssr)) + "," + std::to_string(num) + "]";
      off += 20 + (size_t)num * sizeof(T);
    }
    e.raw("rq", js + "]");
  }   // REQ publishes bounds, not a k-derived epsilon
  static const char* name() { return "req"; }
  static Sk make(unsigned k, bool hra) { return Sk((uint16_t)k, hra); }
  static unsigned nearest_even(float v) { return ((unsigned)std::round(v / 2)) << 1; }
  // tier B: the section sizes by generation for this k - the float sequence section_size_raw / sqrt(2) -> nearest_even while >= MIN_K,
  // computed here from its published definition (reference value, like refhash.hpp)
  static void on_new(Ev& e, const Sk& s) {
    std::vector<unsigned> secs; float ssr = (float)s.get_k(); secs.push_back(s.get_k());
    for (;;) { ssr = ssr / sqrtf(2); unsigned ne = nearest_even(ssr); if (ne < req_constants::MIN_K) break; secs.push_back(ne); }
    e.il("secs", secs);
  }
  // an operand of the OTHER accuracy mode: 0 empty, 1 a few items of a wider range, 2 estimating (more levels than a small target) and wider
  static bool refusable(const Sk& s, int variant, std::unique_ptr<Sk>& out, bool& must_throw) {
    out.reset(new Sk(s.get_k(), !s.is_HRA()));
    const long cnt = variant == 0 ? 0 : variant == 1 ? 5 : 40L * s.get_k();
    for (long i = 0; i < cnt; i++) out->update(Ad<T>::mk((i % 2 ? 80000 : -80000) + (i * 7) % 900));
    must_throw = cnt > 0;     // a non-empty operand of the other mode cannot be merged; what happens with an empty one is not claimed
    return true;
  }
  static unsigned extreme_k(long seg) { return seg % 2 ? 1024 : 512; }
  static unsigned min_k() { return 4; }
  static unsigned draw_k(vt::Rng& g, long maxk) { return g.chance(50) ? 4 : (unsigned)g.range(4, maxk); }
  // the space the sketch publishes: retained items against "Capacity items" of to_string()
  static void space(const Sk& s, long long& used, long long& bound) {
    used = (long long)s.get_num_retained();
    std::string t = s.to_string(); size_t p = t.find("Capacity items : ");
    bound = p == std::string::npos ? -1 : atoll(t.c_str() + p + 17);
  }
};
template<class T> struct ClassicF {
  using Sk = quantiles_sketch<T, typename Ad<T>::C>;
  template<class U> using Fam = ClassicF<U>; template<class U, class C2> using SkOf = quantiles_sketch<U, C2>;
  static long num_levels(const Sk&) { return -1; }
  static void mechanism(Ev&, const Sk&) {}
  static void published(const Sk& s, long long& pk, double& eps, double& eps_pk) {
    pk = s.get_k(); eps = s.get_normalized_rank_error(false); eps_pk = Sk::get_normalized_rank_error((uint16_t)pk, false);
  }
  static const char* name() { return "classic"; }
  static Sk make(unsigned k, bool) { return Sk((uint16_t)k); }
  static void on_new(Ev&, const Sk&) {}
  static bool refusable(const Sk&, int, std::unique_ptr<Sk>&, bool&) { return false; }   // every k is a power of two: always compatible
  static unsigned extreme_k(long seg) { return seg % 2 ? 32768 : 16384; }
  static unsigned min_k() { return 2; }
  static unsigned draw_k(vt::Rng& g, long maxk) { unsigned k = 2; while (k * 2 <= (unsigned)maxk && g.chance(55)) k *= 2; return k; }
  static void space(const Sk&, long long& used, long long& bound) { used = 0; bound = 0; }   // documented formula, computed by the specification
};

// ---------------------------------------------------------------------------------------------------------------
// projections
// ---------------------------------------------------------------------------------------------------------------
typedef std::pair<double, unsigned long long> KW;
static std::string grouped(std::vector<KW>& v) {
  std::sort(v.begin(), v.end());
  std::string s = "[";
  for (size_t i = 0; i < v.size();) {
    size_t j = i; while (j < v.size() && v[j] == v[i]) j++;
    if (i) s += ",";
    unsigned long long w = v[i].second; if (w > (1ULL << 30)) w = (1ULL << 30) + 1;   // garbage weight: keep it loggable (not a power of two)
    s += "[" + Ev::dtok(v[i].first) + "," + std::to_string(w) + "," + std::to_string(j - i) + "]";
    i = j;
  }
  return s + "]";
}

template<class F, class T, class Sk> static void scalars(Ev& e, const Sk& s) {
  e.i("k", s.get_k()).i("n", (long long)s.get_n()).i("nret", s.get_num_retained()).b("est", s.is_estimation_mode()).b("empty", s.is_empty());
  if (!s.is_empty()) e.d("minD", Ad<T>::key(s.get_min_item())).d("maxD", Ad<T>::key(s.get_max_item()));
  else e.i("minD", 0).i("maxD", 0);
  long long used, bound; F::space(s, used, bound);
  e.i("used", used).i("bound", bound);
  long long pk; double eps, eps_pk; F::published(s, pk, eps, eps_pk);
  e.i("pk", pk).d("epsD", eps).d("epsPkD", eps_pk);
}

// iteration, guarded: never dereference more entries than get_num_retained() announces.  Besides the bag of pairs the entries are
// logged level by level in iteration order ("lv": index = log2(weight); tier B compares them with the design model's levels)
template<class F, class T, class Sk> static void iterate(Ev& e, const Sk& s, std::vector<T>* items) {
  std::vector<KW> v; size_t lim = s.get_num_retained(), cnt = 0; bool over = false;
  std::vector<std::vector<double>> lv; bool lvok = true;
  auto it = s.begin(); auto end = s.end();
  while (it != end) {
    if (cnt == lim) { over = true; break; }
    auto p = *it;
    v.push_back(KW(Ad<T>::key(p.first), p.second));
    unsigned long long w = p.second; int lg = 0; while (lg < 31 && (1ULL << lg) < w) lg++;
    if (w == 0 || (1ULL << lg) != w || lg > 30) lvok = false;
    else { if ((int)lv.size() <= lg) lv.resize(lg + 1); lv[lg].push_back(Ad<T>::key(p.first)); }
    if (items) items->push_back(p.first);
    ++it; ++cnt;
  }
  e.i("iterN", (long long)(cnt + (over ? 1 : 0)));
  e.raw("pairs", grouped(v));
  if (lvok && !over) {
    const long nl = F::num_levels(s);
    if (nl > (long)lv.size()) lv.resize((size_t)nl);
    std::string js = "[";
    for (size_t h = 0; h < lv.size(); h++) { if (h) js += ","; js += "["; for (size_t i = 0; i < lv[h].size(); i++) { if (i) js += ","; js += Ev::dtok(lv[h][i]); } js += "]"; }
    e.raw("lv", js + "]").i("nl", nl);
    F::mechanism(e, s);
  }
}

static bool near_int(double x, long long& r) { r = llround(x); return std::fabs(x - (double)r) < 1e-6; }

template<class F, class T, class Sk> static void full_obs(Ev& e, const Sk& s, vt::Rng& g, const std::vector<long>& pool, bool queries) {
  scalars<F, T>(e, s);
  std::vector<T> items;
  iterate<F, T>(e, s, &items);
  // sorted view
  {
    auto sv = s.get_sorted_view();
    std::vector<double> svI; std::vector<unsigned long long> svC; std::vector<KW> sg;
    for (auto it = sv.begin(); it != sv.end(); ++it) {
      auto p = *it;
      svI.push_back(Ad<T>::key(p.first)); svC.push_back(std::min<unsigned long long>(p.second, 1ULL << 30)); sg.push_back(KW(Ad<T>::key(p.first), it.get_weight()));
    }
    e.dl("svI", svI).il("svC", svC).raw("svg", grouped(sg));
  }
  if (!queries || s.is_empty()) return;
  const double n = (double)s.get_n();
  // probe items: retained items, neighbours of offered values, beyond both extremes
  std::vector<std::pair<double, T>> probes;
  for (int j = 0; j < 6 && !items.empty(); j++) { const T& x = items[g.below(items.size())]; probes.push_back(std::make_pair(Ad<T>::key(x), x)); }
  for (int j = 0; j < 6 && !pool.empty(); j++) { long v = pool[g.below(pool.size())] + g.range(-1, 1); if (std::labs(v) >= 99999) v = 0; T x = Ad<T>::mk(v); probes.push_back(std::make_pair(Ad<T>::key(x), x)); }
  { T lo = Ad<T>::mk(-90000), hi = Ad<T>::mk(90000); probes.push_back(std::make_pair(Ad<T>::key(lo), lo)); probes.push_back(std::make_pair(Ad<T>::key(hi), hi)); }
  std::sort(probes.begin(), probes.end(), [](const std::pair<double, T>& a, const std::pair<double, T>& b) { return a.first < b.first; });
  std::string rs = "["; bool first = true;
  for (auto& pr : probes) {
    double ri = s.get_rank(pr.second, true), re = s.get_rank(pr.second, false);
    long long a, b; bool ok = near_int(ri * n, a); ok = near_int(re * n, b) && ok;
    if (!first) rs += ","; first = false;
    rs += "[" + Ev::dtok(pr.first) + "," + std::to_string(a) + "," + std::to_string(b) + "," + (ok ? "true" : "false") + "]";
  }
  e.raw("ranks", rs + "]");
  // quantiles: mid-point ranks (w + 1/2) / n around cumulative weights, and dyadic ranks a / 2^m (exact in binary)
  std::string qs = "["; first = true;
  unsigned long long nn = s.get_n();
  auto svw = s.get_sorted_view();
  std::vector<unsigned long long> cums; for (auto it = svw.begin(); it != svw.end(); ++it) cums.push_back((*it).second);
  for (int j = 0; j < 10; j++) {
    long long kind, a, b; double r;
    if (j < 6) {
      unsigned long long c = cums.empty() ? 0 : cums[g.below(cums.size())];
      long long w = (long long)c - (long long)g.below(2); if (g.chance(25)) w = (long long)g.below(nn);
      if (w < 0) w = 0; if (w > (long long)nn - 1) w = (long long)nn - 1;
      kind = 0; a = w; b = 0; r = ((double)w + 0.5) / n;
    } else {
      int m = (int)g.range(0, 10); b = 1LL << m; a = (long long)g.below((uint64_t)b + 1); if (j == 6) a = 0; if (j == 7) a = b;
      kind = 1; r = (double)a / (double)b;
    }
    auto qi = s.get_quantile(r, true); auto qe = s.get_quantile(r, false);
    if (!first) qs += ","; first = false;
    qs += "[" + std::to_string(kind) + "," + std::to_string(a) + "," + std::to_string(b) + "," + Ev::dtok(Ad<T>::key(qi)) + "," + Ev::dtok(Ad<T>::key(qe)) + "]";
  }
  e.raw("quants", qs + "]");
  // CDF / PMF over unique ascending split points
  std::vector<T> sp; std::vector<double> spk;
  for (auto& pr : probes) if ((spk.empty() || pr.first > spk.back()) && g.chance(60)) { sp.push_back(pr.second); spk.push_back(pr.first); }
  if (sp.empty()) { sp.push_back(probes[0].second); spk.push_back(probes[0].first); }
  bool ok = true;
  auto conv = [&](const std::vector<double>& v) { std::vector<long long> o; for (double x : v) { long long r; ok = near_int(x * n, r) && ok; o.push_back(r); } return o; };
  auto cI = s.get_CDF(sp.data(), (uint32_t)sp.size(), true); auto cE = s.get_CDF(sp.data(), (uint32_t)sp.size(), false);
  auto pI = s.get_PMF(sp.data(), (uint32_t)sp.size(), true); auto pE = s.get_PMF(sp.data(), (uint32_t)sp.size(), false);
  e.dl("sp", spk).il("cdfI", conv(cI)).il("cdfE", conv(cE)).il("pmfI", conv(pI)).il("pmfE", conv(pE));
  e.b("cdfok", ok && cI.size() == sp.size() + 1 && pI.size() == sp.size() + 1);
}

// a user serde that does not check the stream (the library's own serdes throw themselves): the sketch readers' stream checks must
// still reject a truncated image, after the items were handed over to the sketch's deleter
template<class T> struct lenient_serde {
  void serialize(std::ostream& os, const T* items, unsigned num) const { os.write(reinterpret_cast<const char*>(items), sizeof(T) * num); }
  void deserialize(std::istream& is, T* items, unsigned num) const { is.read(reinterpret_cast<char*>(items), sizeof(T) * num); }
  size_t serialize(void* ptr, size_t, const T* items, unsigned num) const { memcpy(ptr, items, sizeof(T) * num); return sizeof(T) * num; }
  size_t deserialize(const void* ptr, size_t, T* items, unsigned num) const { memcpy(items, ptr, sizeof(T) * num); return sizeof(T) * num; }
  size_t size_of_item(const T&) const { return sizeof(T); }
};
// type-converting copy to the widened item type (same order): must be the same sketch
template<class F, class T, class Sk, typename std::enable_if<!std::is_void<typename Ad<T>::Wide>::value, int>::type = 0>
static void convert_wide(const Sk& s, int src, int dst, uint64_t os, vt::Rng& g) {
  using U = typename Ad<T>::Wide; using F2 = typename F::template Fam<U>;
  typename F2::Sk c(s);
  Ev e("Convert"); e.i("src", src).i("dst", dst).str("to", Ad<U>::name());
  scalars<F2, U>(e, c); iterate<F2, U>(e, c, nullptr); e.emit();
  // an object obtained by a construction route must be usable: the converted copy and a plain copy of the source CONTINUE in lock-step
  // under the same coins with enough further updates to cross a carry into every level
  const int REF = 32;
  Ev("Copy").i("src", src).i("dst", REF).emit(); Sk ref(s);
  const long more = std::min<long>(150, 5L * s.get_k() + 3);
  try {
    for (long t = 0; t < more; t++) {
      T x = Ad<T>::mk((long)g.range(-400, 400)); const bool last = t + 1 == more;
      seed_op(os + (uint64_t)t); ref.update(x);
      { Ev u("Update"); u.i("id", REF).d("v", Ad<T>::key(x)).b("rv", false); if (!g_bits.empty()) u.il("coins", g_bits); scalars<F, T>(u, ref); if (last) iterate<F, T>(u, ref, nullptr); u.emit(); }
      seed_op(os + (uint64_t)t); c.update(static_cast<U>(x));
      { Ev u("Update"); u.i("id", dst).d("v", Ad<T>::key(x)).b("rv", false).i("twinOf", REF); if (!g_bits.empty()) u.il("coins", g_bits); scalars<F2, U>(u, c); if (last) iterate<F2, U>(u, c, nullptr); u.emit(); }
    }
  } catch (const std::exception&) {
    Ev("ContinueFailed").i("id", dst).str("route", "converting-copy").emit();
  }
  Ev("Destroy").i("id", dst).emit(); Ev("Destroy").i("id", REF).emit();
}
template<class F, class T, class Sk, typename std::enable_if<std::is_void<typename Ad<T>::Wide>::value, int>::type = 0>
static void convert_wide(const Sk&, int, int, uint64_t, vt::Rng&) {}
// type-converting copy under the REVERSED comparator: levels above level 0 that hold two different items are no longer sorted
template<class F, class T, class Sk> static void convert_reversed(const Sk& s, int id) {
  bool distinct = false; std::map<unsigned long long, double> first;
  for (auto it = s.begin(); it != s.end(); ++it) { auto p = *it; if (p.second < 2) continue; double kx = Ad<T>::key(p.first);
    auto f = first.find(p.second); if (f == first.end()) first[p.second] = kx; else if (f->second != kx) distinct = true; }
  bool threw = false;
  try { typename F::template SkOf<T, typename Ad<T>::RC> c(s); (void)c.get_n(); } catch (const std::exception&) { threw = true; }
  Ev("ConvertReversed").i("id", id).b("distinct", distinct).b("threw", threw).emit();
}
// a strict prefix of the sketch's image through deserialize(istream) with the lenient serde: must be rejected
template<class T, class Sk, typename std::enable_if<std::is_arithmetic<T>::value, int>::type = 0>
static void trunc_stream(const Sk& s, int id, vt::Rng& g) {
  auto img = s.serialize(0, lenient_serde<T>());
  if (img.size() < 9) return;
  size_t cut = g.chance(60) ? img.size() - 1 - g.below(std::min<size_t>(img.size() - 1, 4 * sizeof(T))) : 1 + g.below(img.size() - 1);
  std::istringstream is(std::string((const char*)img.data(), cut));
  bool threw = false;
  try { Sk r = Sk::deserialize(is, lenient_serde<T>()); (void)r.get_n(); } catch (const std::exception&) { threw = true; }
  Ev("TruncStream").i("id", id).i("size", (long long)img.size()).i("cut", (long long)cut).b("threw", threw).emit();
}
template<class T, class Sk, typename std::enable_if<!std::is_arithmetic<T>::value, int>::type = 0>
static void trunc_stream(const Sk&, int, vt::Rng&) {}

// ---------------------------------------------------------------------------------------------------------------
// one segment = one family x one item type
// ---------------------------------------------------------------------------------------------------------------
struct Shape { int kind; long cur; long lo, hi; };   // 0 sorted, 1 reversed, 2 random, 3 constant, 4 heavy duplicates
static long next_value(Shape& sh, vt::Rng& g) {
  switch (sh.kind) {
    case 0: return sh.cur++;
    case 1: return sh.cur--;
    case 2: return g.range(sh.lo, sh.hi);
    case 3: return sh.lo;
    default: { long r = (long)g.below(100); return sh.lo + (r < 50 ? 0 : r < 75 ? 1 : r < 88 ? 2 : r < 95 ? 3 : (long)g.range(4, 12)); }
  }
}

template<class F, class T> static void segment(vt::Rng& g, long seg, long events, long maxk, long maxn, int serde_pct) {
  using Sk = typename F::Sk;
  using A = Ad<T>;
  const int NS = 4, NB = 3, TW = 10, TMP = 20;
  Ev("Begin").i("seg", seg).str("fam", F::name()).str("type", A::name()).emit();
  std::unique_ptr<Sk> sk[NS], tw[NS];
  Shape shape[NS]; std::vector<long> pool[NS]; long version[NS] = {0, 0, 0, 0};
  std::vector<uint8_t> blob[NB]; int blob_src[NB] = {-1, -1, -1}; long blob_ver[NB] = {0, 0, 0};
  const bool hra = (seg / 3) % 2 == 0;      // both accuracy modes in every file (the families cycle with period 3)
  uint64_t opseed = g.next();
  auto drop_twin = [&](int i) { if (tw[i]) { tw[i].reset(); Ev("Destroy").i("id", TW + i).b("restored", true).emit(); } };
  auto mk = [&](int i, unsigned kforce = 0) {
    drop_twin(i);
    if (sk[i]) Ev("Destroy").i("id", i).emit();
    unsigned k = kforce ? kforce : F::draw_k(g, maxk);
    sk[i].reset(new Sk(F::make(k, hra)));
    shape[i].kind = (int)g.below(5); shape[i].lo = g.range(-300, 300); shape[i].hi = shape[i].lo + (g.chance(40) ? g.range(2, 30) : g.range(100, 4000));
    shape[i].cur = shape[i].kind == 1 ? shape[i].hi : shape[i].lo;
    pool[i].clear(); version[i]++;
    Ev e("New"); e.i("id", i).str("fam", F::name()).i("kreq", k).b("hra", hra).i("shape", shape[i].kind); F::on_new(e, *sk[i]);
    scalars<F, T>(e, *sk[i]); e.emit();
  };
  auto remember = [&](int i, long v) { if (pool[i].size() < 64) pool[i].push_back(v); else pool[i][g.below(64)] = v; };
  // "query; mutate; query": the full projection with all queries (they cache the sorted view) of a sketch and of its twin
  auto observe = [&](int i, uint64_t os) {
    seed_op(os); version[i]++;   // observers sort level 0 / the base buffer in place: an older image no longer has the same representation
    { Ev e("Obs"); e.i("id", i); vt::Rng q(os); full_obs<F, T>(e, *sk[i], q, pool[i], true); e.emit(); }
    if (tw[i]) { seed_op(os); Ev t("Obs"); t.i("id", TW + i).b("restored", true).i("twinOf", i); vt::Rng q(os); full_obs<F, T>(t, *tw[i], q, pool[i], true); t.emit(); }
  };
  auto update_one = [&](int i, long v, bool rv, uint64_t os2, bool project) {
    Sk& s = *sk[i];
    T x = A::mk(v); remember(i, v);
    seed_op(os2); if (rv) { T y = x; s.update(std::move(y)); } else s.update(x);
    version[i]++;
    Ev e("Update"); e.i("id", i).d("v", A::key(x)).b("rv", rv); if (!g_bits.empty()) e.il("coins", g_bits); scalars<F, T>(e, s);
    if (project) iterate<F, T>(e, s, nullptr);
    e.emit();
    if (tw[i]) {
      seed_op(os2); if (rv) { T y = x; tw[i]->update(std::move(y)); } else tw[i]->update(x);
      Ev t("Update"); t.i("id", TW + i).d("v", A::key(x)).b("rv", rv).b("restored", true).i("twinOf", i); if (!g_bits.empty()) t.il("coins", g_bits); scalars<F, T>(t, *tw[i]); t.emit();
    }
  };
  // query; merge; query on the target (and its twin, through a copy of the source); rv: the source is moved from and dead afterwards
  auto do_merge = [&](int i, int j, bool rv, uint64_t os) {
    Sk& s = *sk[i];
      // query; merge; query - the queries before the merge cache the sorted view of the target
      observe(i, os + 3);
      if (tw[i]) { Ev("Copy").i("src", j).i("dst", TMP).emit(); }
      std::unique_ptr<Sk> tmp; if (tw[i]) tmp.reset(new Sk(*sk[j]));
      seed_op(os); if (rv) s.merge(std::move(*sk[j])); else s.merge(*sk[j]);
      version[i]++;
      for (long v : pool[j]) remember(i, v);
      { Ev e("Merge"); e.i("dst", i).i("src", j).b("rv", rv).i("srck", sk[j] ? sk[j]->get_k() : 0).il("coins", g_bits); scalars<F, T>(e, s); iterate<F, T>(e, s, nullptr); e.emit(); }
      if (tw[i]) {
        seed_op(os); if (rv) tw[i]->merge(std::move(*tmp)); else tw[i]->merge(*tmp);
        Ev t("Merge"); t.i("dst", TW + i).i("src", TMP).b("rv", rv).b("restored", true).i("twinOf", i).il("coins", g_bits); scalars<F, T>(t, *tw[i]); iterate<F, T>(t, *tw[i], nullptr); t.emit();
        if (!rv) Ev("Destroy").i("id", TMP).emit();
      }
      if (rv) { drop_twin(j); sk[j].reset(); version[j]++; }   // moved-from: not used again
      observe(i, os + 5);
  };
  auto do_ser = [&](int i, int b, unsigned hdr) {
    Sk& s = *sk[i];
      // serialize: bytes form with a header of h reserved bytes, stream form, advertised size
      auto bytes = s.serialize(hdr);
      std::ostringstream os_; s.serialize(os_); std::string st = os_.str();
      version[i]++;   // serialize() itself may reorder (classic: sorts the base buffer) - the image is taken afterwards
      blob[b].assign(bytes.begin() + hdr, bytes.end()); blob_src[b] = i; blob_ver[b] = version[i];
      Ev e("Ser"); e.i("id", i).i("blob", b).i("hdr", hdr).i("total", (long long)bytes.size()).i("size", (long long)blob[b].size())
        .i("advertised", (long long)s.get_serialized_size_bytes()).bytes("img", blob[b].data(), blob[b].size()).bytes("simg", st.data(), st.size());
      scalars<F, T>(e, s); iterate<F, T>(e, s, nullptr); e.emit();
      if (tw[i]) {
        // serialization has side effects (the classic sketch sorts its base buffer): the restored twin does it too
        auto tb = tw[i]->serialize(hdr);
        std::ostringstream ts_; tw[i]->serialize(ts_); std::string tst = ts_.str();
        Ev t("Ser"); t.i("id", TW + i).i("blob", NB + b).i("hdr", hdr).i("total", (long long)tb.size()).i("size", (long long)tb.size() - hdr)
          .i("advertised", (long long)tw[i]->get_serialized_size_bytes()).bytes("img", tb.data() + hdr, tb.size() - hdr).bytes("simg", tst.data(), tst.size())
          .b("restored", true).i("twinOf", i).i("twinBlob", b);
        scalars<F, T>(t, *tw[i]); iterate<F, T>(t, *tw[i], nullptr); t.emit();
      }
  };
  // deserialize image b: as a twin of its (unchanged) source, continued in lock-step, or into a free slot (want_twin / want_stream: -1 = draw)
  auto do_deser = [&](int b, int want_twin, int want_stream, uint64_t os) -> bool {
      // deserialize an image: as a twin of its (unchanged) source, continued in lock-step, or into a free slot
      if (blob_src[b] < 0) return false;
      int src = blob_src[b];
      const bool fresh = sk[src] && version[src] == blob_ver[b];
      int dst = -1; bool as_twin = false;
      if (fresh && (want_twin == 1 || (want_twin < 0 && g.chance(70)))) { as_twin = true; dst = TW + src; }
      else { if (want_twin == 1) return false; for (int c = 0; c < NS; c++) if (!sk[c]) dst = c; if (dst < 0) return false; }
      const bool stream = want_stream < 0 ? g.chance(50) : want_stream == 1;
      std::unique_ptr<Sk> r; long long consumed;
      seed_op(os);
      if (stream) {
        std::string in((const char*)blob[b].data(), blob[b].size()); in += std::string(16, '\x5a');
        std::istringstream is(in);
        r.reset(new Sk(Sk::deserialize(is)));
        consumed = (long long)is.tellg();
      } else {
        r.reset(new Sk(Sk::deserialize(blob[b].data(), blob[b].size())));
        consumed = (long long)blob[b].size();
      }
      auto re = r->serialize();
      if (as_twin) drop_twin(src);
      Ev e("Deser"); e.i("blob", b).i("dst", dst).str("fam", F::name()).str("path", stream ? "stream" : "bytes").i("consumed", consumed)
        .bytes("reimg", re.data(), re.size()).b("restored", true);
      if (as_twin) e.i("twinOf", src);
      e.il("coins", g_bits);      // REQ draws one coin per restored compactor
      scalars<F, T>(e, *r); iterate<F, T>(e, *r, nullptr); e.emit();
      if (as_twin) tw[src] = std::move(r);
      else { sk[dst] = std::move(r); shape[dst] = shape[src]; pool[dst] = pool[src]; version[dst]++; }
      return true;
  };
  // every construction route: an object of a DIFFERENT configuration (other k; REQ: the other accuracy mode; already holding a few items)
  // is copy- or move-ASSIGNED from the source (also from a deserialize() temporary), or a new object is copy- / move-CONSTRUCTED; it must
  // become the source in every observable respect including the image, and then continues as the source's lock-step twin
  auto do_assign = [&](int i, int route, uint64_t os) {
    static const char* RN[] = {"copy-assign", "move-assign", "move-assign-deserialized", "copy-construct", "move-construct"};
    do_ser(i, 2, 0);                                   // the source's image (the classic sketch sorts its base buffer while writing it)
    Sk& s = *sk[i];
    drop_twin(i);
    std::unique_ptr<Sk> t;
    if (route <= 2) {
      const unsigned k2 = s.get_k() == F::min_k() ? F::min_k() * 2 : F::min_k();
      t.reset(new Sk(F::make(k2, !hra)));
      for (int q = 0; q < 7; q++) t->update(A::mk(50000 + q));
    }
    seed_op(os);
    if (route == 0) *t = s;
    else if (route == 1) *t = Sk(s);
    else if (route == 2) *t = Sk::deserialize(blob[2].data(), blob[2].size());
    else if (route == 3) t.reset(new Sk(s));
    else { Sk tmp(s); t.reset(new Sk(std::move(tmp))); }
    auto img = t->serialize();
    Ev e("Assign"); e.i("src", i).i("dst", TW + i).str("route", RN[route]).il("coins", g_bits)
      .bytes("img", img.data(), img.size()).bytes("srcimg", blob[2].data(), blob[2].size());
    scalars<F, T>(e, *t); iterate<F, T>(e, *t, nullptr); e.emit();
    tw[i] = std::move(t);
  };
  // DIRECTED (C09: restore, then continue): at the EMPTY state and at exactly ONE item the sketch is serialized (bytes with a header and
  // stream form), restored through the bytes / stream path as a twin, and both are continued in lock-step under the same coins: updates
  // into estimation mode, queries, a merge INTO them, their use as merge OPERANDS of two equal sketches, a second serialization.  The
  // twin must show the same observable behaviour (all scalars for every family; pairs and images where the coins are shared).
  for (int round = 0; round < 2; round++) {
    static const unsigned HS2[] = {0, 1, 7, 8, 13, 64, 0};
    const bool one = (seg + round) % 2 == 1, stream = (seg / 2 + round) % 2 == 1;
    const unsigned kd = F::min_k() * ((seg + round) % 3 == 0 ? 2 : 1);
    uint64_t os = opseed ^ (0x5151ULL + (uint64_t)round * 977);
    mk(0, kd);
    if (one) update_one(0, next_value(shape[0], g), false, os++, false);
    do_ser(0, 0, HS2[(seg + round) % 7]);
    if (!do_deser(0, 1, stream ? 1 : 0, os++)) { fprintf(stderr, "quant_rec: directed restore failed\n"); exit(6); }
    for (int t = 0; t < 45; t++) update_one(0, next_value(shape[0], g), t % 2 == 1, os++, t % 9 == 8);
    observe(0, os++);
    mk(1, kd); for (int t = 0; t < 35; t++) update_one(1, next_value(shape[1], g), false, os++, false);
    do_merge(0, 1, round == 1, os++);
    // the original and the restored sketch as merge operands of two equal sketches
    mk(2, F::min_k()); for (int t = 0; t < 25; t++) update_one(2, next_value(shape[2], g), false, os++, false);
    {
      const int Y2 = 31;
      Ev("Copy").i("src", 2).i("dst", Y2).emit(); Sk y2(*sk[2]);
      seed_op(os); sk[2]->merge(*sk[0]); version[2]++;
      { Ev e("Merge"); e.i("dst", 2).i("src", 0).b("rv", false).i("srck", sk[0]->get_k()).il("coins", g_bits); scalars<F, T>(e, *sk[2]); iterate<F, T>(e, *sk[2], nullptr); e.emit(); }
      seed_op(os); y2.merge(*tw[0]);
      { Ev t("Merge"); t.i("dst", Y2).i("src", TW + 0).b("rv", false).b("restored", true).i("twinOf", 2).il("coins", g_bits); scalars<F, T>(t, y2); iterate<F, T>(t, y2, nullptr); t.emit(); }
      Ev("Destroy").i("id", Y2).emit(); os++;
    }
    do_ser(0, 1, 0);
    do_assign(0, (int)((seg * 2 + round) % 5), os++);
    for (int t = 0; t < 20; t++) update_one(0, next_value(shape[0], g), false, os++, t == 19);
  }
  // DIRECTED: an extreme k (the top of "all k") with a short stream: contract, published space bound and (tier B) the level capacities
  { mk(3, F::extreme_k(seg)); uint64_t os = opseed ^ 0x7e7eULL; for (int t = 0; t < 24; t++) update_one(3, next_value(shape[3], g), false, os++, t == 23); observe(3, os); }
  mk(0); mk(1);
  for (long step = 0; step < events; step++) {
    int i = (int)g.below(NS);
    if (!sk[i]) { if (g.chance(30)) mk(i); continue; }
    Sk& s = *sk[i];
    const uint64_t os = opseed + (uint64_t)step * 7919;
    int op = (int)g.below(100);
    const int upd = 100 - 22 - 2 * serde_pct;
    if (op < upd) {
      if (s.get_n() >= (uint64_t)maxn) continue;
      int burst = g.chance(15) ? (int)g.range(5, 40) : 1;
      for (int bq = 0; bq < burst; bq++) {
        const uint64_t os2 = os + (uint64_t)bq * 104729;
        if (A::has_nan && g.chance(3)) {
          seed_op(os2); s.update(A::nan());
          Ev e("UpdateNaN"); e.i("id", i); scalars<F, T>(e, s); iterate<F, T>(e, s, nullptr); e.emit();
          if (tw[i]) { seed_op(os2); tw[i]->update(A::nan()); Ev t("UpdateNaN"); t.i("id", TW + i).b("restored", true); scalars<F, T>(t, *tw[i]); t.emit(); }
          continue;
        }
        long v = next_value(shape[i], g);
        if (std::is_same<T, double>::value && g.chance(1)) v = g.chance(50) ? 99999 : -99999;   // infinities are ordinary items
        // cached derived state: every so often the update is bracketed by queries (no other call in between)
        const bool bracket = burst == 1 && g.chance(8);
        if (bracket) observe(i, os2 + 1);
        update_one(i, v, g.chance(50), os2, g.chance(4));
        if (bracket) observe(i, os2 + 2);
      }
    } else if (op < upd + 2) {
      mk(i);
      if (g.chance(50)) { Ev e("Obs"); e.i("id", i); full_obs<F, T>(e, *sk[i], g, pool[i], true); e.emit(); }
    } else if (op < upd + 7) {
      int j = (int)g.below(NS);
      if (j == i || !sk[j] || s.get_n() + sk[j]->get_n() > (uint64_t)maxn) continue;
      const bool rv = g.chance(50);
      // merge into an EMPTY target (equal k, larger k, smaller k): it must come out as the source
      if (g.chance(15)) {
        const unsigned ksrc = sk[j]->get_k(); const int c = (int)g.below(3);
        mk(i, c == 0 ? ksrc : c == 1 ? std::min<unsigned>(ksrc * 2, (unsigned)maxk) : std::max<unsigned>(ksrc / 2, F::min_k()));
        observe(j, os + 11);
      }
      Sk& s = *sk[i];
      // merge paths that depend on the source's shape: every third merge first brings the source to an n that is an exact multiple of
      // 2 * k (classic: empty base buffer, levels only) by plain updates
      if (g.chance(35)) {
        const uint64_t per = 2ULL * sk[j]->get_k(); int added = 0;
        while (sk[j]->get_n() % per != 0 && added < 130 && s.get_n() + sk[j]->get_n() < (uint64_t)maxn) { update_one(j, next_value(shape[j], g), false, os + 7 + (uint64_t)added * 31, false); added++; }
      }
      do_merge(i, j, rv, os);
    } else if (op < upd + 17) {
      observe(i, os);
      if (g.chance(12)) convert_wide<F, T>(*sk[i], i, 30, os + 900, g);
      if (g.chance(15)) do_assign(i, (int)g.below(5), os + 1200);
      if (g.chance(8) && !sk[i]->is_empty()) convert_reversed<F, T>(*sk[i], i);
      if (g.chance(12)) trunc_stream<T>(*sk[i], i, g);
    } else if (op < upd + 22) {
      // invalid queries must throw
      struct Q { const char* what; std::function<void(const Sk&)> f; };
      std::vector<Q> qs;
      T a = A::mk(5), b = A::mk(3);   // any two distinct items
      typename A::C cmp;
      T lo = cmp(a, b) ? a : b, hi = cmp(a, b) ? b : a;
      const bool onempty = s.is_empty();
      if (onempty) {
        qs.push_back({"rank", [&](const Sk& z) { z.get_rank(lo, true); }});
        qs.push_back({"quantile", [&](const Sk& z) { z.get_quantile(0.5, true); }});
        qs.push_back({"cdf", [&](const Sk& z) { z.get_CDF(&lo, 1, true); }});
        qs.push_back({"pmf", [&](const Sk& z) { z.get_PMF(&lo, 1, false); }});
        qs.push_back({"min_item", [&](const Sk& z) { z.get_min_item(); }});
        qs.push_back({"max_item", [&](const Sk& z) { z.get_max_item(); }});
      } else {
        qs.push_back({"quantile-rank<0", [&](const Sk& z) { z.get_quantile(-0.001, true); }});
        qs.push_back({"quantile-rank>1", [&](const Sk& z) { z.get_quantile(1.001, false); }});
        T un[2] = {hi, lo}, du[2] = {lo, lo};
        qs.push_back({"cdf-unsorted", [=](const Sk& z) { z.get_CDF(un, 2, true); }});
        qs.push_back({"pmf-unsorted", [=](const Sk& z) { z.get_PMF(un, 2, true); }});
        qs.push_back({"cdf-repeated", [=](const Sk& z) { z.get_CDF(du, 2, false); }});
        qs.push_back({"pmf-repeated", [=](const Sk& z) { z.get_PMF(du, 2, false); }});
        if (A::has_nan) {
          T na[2] = {lo, A::nan()};
          qs.push_back({"cdf-nan", [=](const Sk& z) { z.get_CDF(na, 2, true); }});
          qs.push_back({"pmf-nan", [=](const Sk& z) { z.get_PMF(na + 1, 1, true); }});
        }
      }
      // a REFUSED call must leave every observable of the (live, continuing) sketch unchanged: query; refused call; full projection
      observe(i, os + 13);
      std::unique_ptr<Sk> bad; bool must_throw = false;
      if (g.chance(45) && F::refusable(s, (int)g.below(3), bad, must_throw)) {
        const bool rv = g.chance(50);
        for (int who = 0; who < 2; who++) {
          if (who == 1 && !tw[i]) break;
          Sk& z = who == 0 ? s : *tw[i];
          Sk operand(*bad);
          bool threw = false;
          seed_op(os + 14);
          try { if (rv) z.merge(std::move(operand)); else z.merge(operand); } catch (const std::exception&) { threw = true; }
          Ev e("Refused"); e.i("id", who == 0 ? i : TW + i).str("what", "merge-other-accuracy-mode").b("rv", rv).i("opn", (long long)bad->get_n())
            .b("mustthrow", must_throw).b("threw", threw).b("sorts", false);
          if (who == 1) e.b("restored", true).i("twinOf", i);
          scalars<F, T>(e, z); iterate<F, T>(e, z, nullptr); e.emit();
        }
        version[i]++;
        continue;
      }
      const Q& q = qs[g.below(qs.size())];
      version[i]++;
      for (int who = 0; who < 2; who++) {
        if (who == 1 && !tw[i]) break;
        const Sk& z = who == 0 ? s : *tw[i];
        bool threw = false;
        try { q.f(z); } catch (const std::exception&) { threw = true; }
        const bool sorts = !strncmp(q.what, "cdf", 3) || !strncmp(q.what, "pmf", 3);   // get_CDF / get_PMF build the sorted view before checking the split points
        Ev e("Invalid"); e.i("id", who == 0 ? i : TW + i).str("what", q.what).b("onempty", onempty).b("sorts", sorts).b("threw", threw);
        if (who == 1) e.b("restored", true).i("twinOf", i);
        scalars<F, T>(e, z); iterate<F, T>(e, z, nullptr);
        e.emit();
      }
    } else if (op < upd + 22 + serde_pct) {
      static const unsigned HS[] = {0, 0, 1, 7, 8, 13, 64};
      do_ser(i, (int)g.below(NB), HS[g.below(7)]);
    } else {
      do_deser((int)g.below(NB), -1, -1, os);
    }
  }
  for (int i = 0; i < NS; i++) if (sk[i]) {
    Ev e("Obs"); e.i("id", i).b("final", true); vt::Rng q(opseed + i); full_obs<F, T>(e, *sk[i], q, pool[i], true); e.emit();
    if (tw[i]) { Ev t("Obs"); t.i("id", TW + i).b("restored", true).i("twinOf", i).b("final", true); vt::Rng q2(opseed + i); full_obs<F, T>(t, *tw[i], q2, pool[i], true); t.emit(); }
  }
}

template<template<class> class F> static void by_type(int type, vt::Rng& g, long seg, long events, long maxk, long maxn, int serde) {
  switch (type) {
    case 0: segment<F<float>, float>(g, seg, events, maxk, maxn, serde); break;
    case 1: segment<F<double>, double>(g, seg, events, maxk, maxn, serde); break;
    case 2: segment<F<int64_t>, int64_t>(g, seg, events, maxk, maxn, serde); break;
    default: segment<F<std::string>, std::string>(g, seg, events, maxk, maxn, serde); break;
  }
}

int main(int argc, char** argv) {
  vt::install_terminate();
  uint64_t seed = (uint64_t)vt::argl(argc, argv, "--seed", 1);
  long segments = vt::argl(argc, argv, "--segments", 6);
  long events = vt::argl(argc, argv, "--events", 600);
  long maxn = vt::argl(argc, argv, "--maxn", 1500);
  long kscale = vt::argl(argc, argv, "--kscale", 1);     // 1: KLL 8..64, REQ 4..24, classic 2..32; 2: 8..200, 4..50, 2..128
  int serde = (int)vt::argl(argc, argv, "--serde", 4);
  const char* only = vt::arg(argc, argv, "--fam", "");
  vt::open_out(vt::arg(argc, argv, "--out", "/dev/stdout"));
  random_utils::random_bit.source = &coin_next;
  random_utils::random_bit.context = &g_coin;
  vt::Rng g(seed);
  for (long seg = 0; seg < segments; seg++) {
    int fam = (int)((seed + (uint64_t)seg) % 3); int type = (int)((seed + (uint64_t)seg / 3 + 2 * ((uint64_t)seg % 3)) % 4);   // every family meets every item type
    if (!strcmp(only, "kll")) fam = 0; else if (!strcmp(only, "req")) fam = 1; else if (!strcmp(only, "classic")) fam = 2;
    if (fam == 0) by_type<KllF>(type, g, seg, events, kscale == 1 ? 64 : 200, maxn, serde);
    else if (fam == 1) by_type<ReqF>(type, g, seg, events, kscale == 1 ? 24 : 50, maxn, serde);
    else by_type<ClassicF>(type, g, seg, events, kscale == 1 ? 32 : 128, maxn, serde);
  }
  vt::close_out();
  fprintf(stderr, "quant_rec: %ld events, %llu coin flips\n", vt::g_events, (unsigned long long)random_utils::random_bit.calls);
  return 0;
}
