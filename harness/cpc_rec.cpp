// Recording driver for the CPC sketch and the CPC union (C05), with estimate/bound observations (C06 clauses)
// and serialization events (C09).  Runs randomized / aimed operation histories on the real classes from /repo and
// logs one ND-JSON event per public call.  The coupon offered to the specification is the REFERENCE cell
// (row, col) = (h1 & (K-1), min(clz(h2), 63)) of the reference MurmurHash3_x64_128 (refhash.hpp) of the documented
// canonical bytes of the input - never a value computed by the library.
//
// Segment kinds (one Begin each):
//   sweep  - random typed items (all 12 overloads) until the coupon count has crossed every flavor boundary
//            3K/32, K/2, 27K/8 and a few window shifts; an Obs on both sides of every boundary
//   aimed  - small K: a pool of items indexed by (row, col) lets the driver fill the matrix column-wise (many window
//            shifts with few updates), hit the early zone before the window (inverted logic), the window, far columns
//   union  - 2..5 sketches of unequal lgK (empty / sparse / hybrid / pinned / sliding), several permutations, a fresh
//            union per permutation, lvalue and rvalue update, results observed, updated further and serialized
//   big    - larger K, updates logged in batches (UpdateMany) between boundaries
//   empty  - DIRECTED: EMPTY and ONE-item sketches / union results serialized, restored through both readers, continued in lock-step
//   x      - DIRECTED: stop exactly at every flavor / window-shift boundary count and its neighbours; observe, serialize, restore, union
//   delete / long - the surprising-value table under stress in SLIDING flavor (see seg_delete / seg_long)
// Serialization (bytes and stream, header sizes, custom seed) and copies happen at random points; the restored sketch
// and its original then receive the same further updates (events on restored objects carry "restored":true).
#include <memory>
#include <sstream>
#include <algorithm>
#include <set>
#include <map>
#include <cpc_sketch.hpp>
#include <cpc_union.hpp>
#include "vtrace.hpp"
#include "refhash.hpp"

using namespace datasketches;
using vt::Ev;

// ---------------------------------------------------------------------------------------------------------
// items, reference canonicalisation (same rules as theta_rec.cpp), reference cell
// ---------------------------------------------------------------------------------------------------------
struct Item { int type; long long iv; double dv; std::string sv; };
static const char* TYPES[] = {"u64","i64","u32","i32","u16","i16","u8","i8","f64","f32","str","raw"};

static bool ref_hash(const Item& it, uint64_t seed, refhash::H128& h) {
  uint8_t buf[8];
  int64_t c = 0;
  switch (it.type) {
    case 0: c = (int64_t)(uint64_t)it.iv; break;
    case 1: c = (int64_t)it.iv; break;
    case 2: c = (int64_t)(int32_t)(uint32_t)it.iv; break;
    case 3: c = (int64_t)(int32_t)it.iv; break;
    case 4: c = (int64_t)(int16_t)(uint16_t)it.iv; break;
    case 5: c = (int64_t)(int16_t)it.iv; break;
    case 6: c = (int64_t)(int8_t)(uint8_t)it.iv; break;
    case 7: c = (int64_t)(int8_t)it.iv; break;
    case 8: { uint64_t b = refhash::canon_double_bits(it.dv); memcpy(&c, &b, 8); break; }
    case 9: { uint64_t b = refhash::canon_double_bits((double)(float)it.dv); memcpy(&c, &b, 8); break; }
    case 10: case 11:
      if (it.type == 10 && it.sv.empty()) return false;
      h = refhash::murmur3_x64_128(it.sv.data(), it.sv.size(), seed); return true;
  }
  memcpy(buf, &c, 8);
  h = refhash::murmur3_x64_128(buf, 8, seed);
  return true;
}

static int ref_clz64(uint64_t x) { int n = 0; if (x == 0) return 64; while (!(x >> 63)) { x <<= 1; n++; } return n; }

// reference coupon of an item for a sketch of 2^lgk rows: false if the documentation says "ignored"
static bool ref_cell(const Item& it, uint64_t seed, int lgk, int& row, int& col) {
  refhash::H128 h;
  if (!ref_hash(it, seed, h)) return false;
  row = (int)(h.h1 & ((1ULL << lgk) - 1));
  col = std::min(ref_clz64(h.h2), 63);
  return true;
}

static void do_update(cpc_sketch& s, const Item& it) {
  switch (it.type) {
    case 0: s.update((uint64_t)it.iv); break;
    case 1: s.update((int64_t)it.iv); break;
    case 2: s.update((uint32_t)it.iv); break;
    case 3: s.update((int32_t)it.iv); break;
    case 4: s.update((uint16_t)it.iv); break;
    case 5: s.update((int16_t)it.iv); break;
    case 6: s.update((uint8_t)it.iv); break;
    case 7: s.update((int8_t)it.iv); break;
    case 8: s.update((double)it.dv); break;
    case 9: s.update((float)it.dv); break;
    case 10: s.update(it.sv); break;
    case 11: s.update(it.sv.data(), it.sv.size()); break;
  }
}

static Item draw(vt::Rng& g, long long base, long wide) {
  Item it; it.type = (int)g.below(12); it.iv = 0; it.dv = 0;
  long long v = g.chance(10) ? g.range(-40, 300) : base + g.range(0, wide);
  if (it.type <= 7) it.iv = v;
  else if (it.type <= 9) {
    int c = (int)g.below(40);
    if (c == 0) it.dv = -0.0; else if (c == 1) it.dv = 0.0;
    else if (c == 2) it.dv = std::nan("1"); else if (c == 3) { uint64_t b = 0xfff8000000000123ULL; memcpy(&it.dv, &b, 8); }
    else if (c == 4) it.dv = INFINITY; else if (c == 5) it.dv = v + 0.5; else it.dv = (double)v;
  } else {
    if (g.chance(2)) it.sv = ""; else if (g.chance(30)) { int64_t x = v; it.sv.assign((const char*)&x, 8); }
    else it.sv = "k" + std::to_string(v);
    if (it.type == 11 && it.sv.empty()) it.sv = "z";
  }
  return it;
}
// wide-range item of a 64-bit type (distinct with overwhelming probability)
static Item draw_wide(vt::Rng& g) {
  Item it; it.type = (int)g.below(2); it.dv = 0; it.iv = (long long)g.next();
  if (g.chance(20)) { it.type = 8; it.dv = (double)(g.next() >> 12) * 0.25; }
  else if (g.chance(15)) { it.type = 10 + (int)g.below(2); it.sv = "w" + std::to_string(g.next()); }
  return it;
}

// ---------------------------------------------------------------------------------------------------------
// projection of a real sketch (public API + to_string() + the guarded matrix accessor)
// ---------------------------------------------------------------------------------------------------------
static std::string field(const std::string& text, const char* key) {
  size_t p = text.find(key);
  if (p == std::string::npos) return "";
  p = text.find(':', p);
  size_t e = text.find('\n', p);
  std::string v = text.substr(p + 1, e - p - 1);
  size_t a = v.find_first_not_of(' '); size_t b = v.find_last_not_of(" \r");
  return a == std::string::npos ? "" : v.substr(a, b - a + 1);
}

static const int CELLS_MAX_LGK = 10;

static std::string proj(const cpc_sketch& s, bool cells = true) {
  std::string t(s.to_string().c_str());
  Ev r("x");
  r.s = "{\"z\":0";
  r.i("lgk", s.get_lg_k()).i("C", s.get_num_coupons()).b("empty", s.is_empty()).b("valid", s.validate());
  r.b("merged", field(t, "merged") == "true");
  r.i("flavor", atoi(field(t, "flavor").c_str())).i("fic", atoi(field(t, "interesting col").c_str()))
   .i("ntab", atoi(field(t, "table entries").c_str()));
  bool alloc = field(t, "window  ") == "allocated";
  r.b("alloc", alloc).i("woff", alloc ? atoi(field(t, "window offset").c_str()) : -1);
  r.str("kxps", field(t, "kxp")).str("hips", field(t, "HIP estimate"));
  r.d("est", s.get_estimate());
  std::vector<double> lb, ub;
  for (int k = 1; k <= 3; k++) { lb.push_back(s.get_lower_bound(k)); ub.push_back(s.get_upper_bound(k)); }
  r.dl("lb", lb).dl("ub", ub);
  bool fin = std::isfinite(s.get_estimate());
  for (int k = 0; k < 3; k++) fin = fin && std::isfinite(lb[k]) && std::isfinite(ub[k]);
  r.b("fin", fin);
  if (cells && s.get_lg_k() <= CELLS_MAX_LGK) {
    auto m = s.verif_bit_matrix();
    std::vector<int> cs;
    for (size_t row = 0; row < m.size(); row++) {
      uint64_t w = m[row];
      for (int c = 0; c < 64 && w; c++) if (w >> c & 1) { cs.push_back((int)row * 64 + c); w &= ~(1ULL << c); }
    }
    r.il("cells", cs);
  }
  r.s += "}";
  return r.s;
}

// ---------------------------------------------------------------------------------------------------------
// driver state
// ---------------------------------------------------------------------------------------------------------
static const int NS = 13, NU = 3, NB = 4;
static const int EMPTY_SLOT = 7;   // union rounds: slot of the EMPTY probe sketches (inputs 0..4, result 5, fed-back result 6)
struct World {
  vt::Rng g;
  std::unique_ptr<cpc_sketch> sk[NS];
  std::unique_ptr<cpc_union> un[NU];
  std::vector<uint8_t> blob[NB]; bool blive[NB]; int bsrc[NB];
  bool restored[NS];
  int partner[NS];           // restored twin that has seen exactly the same updates since Deser (or -1)
  uint64_t seed;
  int serde_pct;             // percentage points of side operations that are serde
  long budget;               // remaining events of the segment
  // pool of items by (row, col) for the aimed segments
  int pool_lgk; int pool_cols; std::vector<uint64_t> pool; std::vector<uint8_t> pool_has;
  explicit World(uint64_t s) : g(s) {}
};

static void clear_slot(World& w, int i) {
  if (w.partner[i] >= 0) { w.partner[w.partner[i]] = -1; w.partner[i] = -1; }
  w.restored[i] = false;
}

static void ev_obs(World& w, int i, bool cells = true) {
  Ev e("Obs"); e.i("id", i); if (w.restored[i]) e.b("restored", true);
  e.raw("r", proj(*w.sk[i], cells)).emit(); w.budget--;
}

static void ev_new(World& w, int i, int lgk) {
  clear_slot(w, i);
  w.sk[i].reset(new cpc_sketch((uint8_t)lgk, w.seed));
  Ev("New").i("id", i).i("lgk", lgk).emit(); w.budget--;
}

static void one_update(World& w, int i, const Item& it, int twin) {
  cpc_sketch& s = *w.sk[i];
  int row = 0, col = 0; bool counted = ref_cell(it, w.seed, s.get_lg_k(), row, col);
  do_update(s, it);
  Ev e(counted ? "Update" : "UpdateIgnored");
  e.i("id", i).str("type", TYPES[it.type]);
  if (counted) e.i("row", row).i("col", col);
  e.i("C", s.get_num_coupons()).d("est", s.get_estimate()).b("fin", std::isfinite(s.get_estimate()));
  if (w.restored[i]) e.b("restored", true);
  if (twin >= 0) e.i("twin", twin);
  e.emit(); w.budget--;
}

// an update of sketch i; when i has a synchronized twin the same item usually goes to both (C09: continued use)
static void upd(World& w, int i, const Item& it) {
  int j = w.partner[i];
  if (j >= 0 && w.g.chance(90)) {
    int a = w.restored[i] ? j : i, b = w.restored[i] ? i : j;   // original first, then the restored twin
    one_update(w, a, it, -1);
    one_update(w, b, it, a);
  } else {
    if (j >= 0) { w.partner[j] = -1; w.partner[i] = -1; }
    one_update(w, i, it, -1);
  }
}

// a batch of updates logged as one event (big segments only); the twin, if any, gets the same batch
static void upd_many(World& w, int i, const std::vector<Item>& items) {
  int j = w.partner[i];
  int ids[2] = {i, -1}; int n = 1;
  if (j >= 0) { ids[0] = w.restored[i] ? j : i; ids[1] = w.restored[i] ? i : j; n = 2; }
  for (int q = 0; q < n; q++) {
    cpc_sketch& s = *w.sk[ids[q]];
    std::vector<int> rows, cols;
    for (auto& it : items) {
      int row, col;
      if (ref_cell(it, w.seed, s.get_lg_k(), row, col)) { rows.push_back(row); cols.push_back(col); }
      do_update(s, it);
    }
    Ev e("UpdateMany"); e.i("id", ids[q]).il("rows", rows).il("cols", cols).i("C", s.get_num_coupons()).d("est", s.get_estimate());
    e.b("fin", std::isfinite(s.get_estimate()));
    if (w.restored[ids[q]]) e.b("restored", true);
    if (q == 1) e.i("twin", ids[0]);
    e.emit(); w.budget--;
  }
}

static void ev_copy(World& w, int i, int j) {
  if (i == j) return;
  clear_slot(w, j);
  if (w.sk[j] && w.g.chance(50)) *w.sk[j] = *w.sk[i]; else w.sk[j].reset(new cpc_sketch(*w.sk[i]));
  w.restored[j] = w.restored[i];
  Ev e("Copy"); e.i("src", i).i("dst", j); if (w.restored[j]) e.b("restored", true);
  e.raw("r", proj(*w.sk[j])).emit(); w.budget--;
}

static void ev_ser(World& w, int i, int b) {
  static const unsigned HS[] = {0, 0, 1, 7, 8, 13, 64};
  unsigned hdr = HS[w.g.below(7)];
  cpc_sketch& s = *w.sk[i];
  auto bytes = s.serialize(hdr);
  std::ostringstream os; s.serialize(os); std::string st = os.str();
  bool hdr_zero = true; for (unsigned q = 0; q < hdr && q < bytes.size(); q++) hdr_zero = hdr_zero && bytes[q] == 0;
  w.blob[b].assign(bytes.begin() + std::min<size_t>(hdr, bytes.size()), bytes.end()); w.blive[b] = true; w.bsrc[b] = i;
  Ev e("Ser"); e.i("src", i).i("blob", b).i("hdr", hdr).i("total", (long long)bytes.size()).i("size", (long long)w.blob[b].size())
    .i("ssize", (long long)st.size()).b("hdrzero", hdr_zero)
    .bytes("img", w.blob[b].data(), w.blob[b].size()).bytes("simg", st.data(), st.size());
  if (w.restored[i]) e.b("restored", true);
  e.raw("r", proj(s)).emit(); w.budget--;
}

static void ev_deser(World& w, int b, int j, int path = -1, bool reser = true) {   // path: 0 bytes, 1 stream, -1 random; reser: re-serialize now
  if (!w.blive[b]) return;
  clear_slot(w, j);
  bool stream = path < 0 ? w.g.chance(50) : path == 1;
  long long consumed;
  if (!stream) {
    w.sk[j].reset(new cpc_sketch(cpc_sketch::deserialize(w.blob[b].data(), w.blob[b].size(), w.seed)));
    consumed = (long long)w.blob[b].size();
  } else {
    std::string in((const char*)w.blob[b].data(), w.blob[b].size()); in += std::string(16, '\x5a');
    std::istringstream is(in);
    w.sk[j].reset(new cpc_sketch(cpc_sketch::deserialize(is, w.seed)));
    consumed = (long long)is.tellg();
  }
  w.restored[j] = true;
  // the twin relation holds while the source of the image has not been updated since Ser
  Ev e("Deser"); e.i("blob", b).i("dst", j).str("path", stream ? "stream" : "bytes").i("consumed", consumed);
  if (reser) { auto re = w.sk[j]->serialize(); e.bytes("reimg", re.data(), re.size()); }
  e.b("restored", true).raw("r", proj(*w.sk[j])).emit(); w.budget--;
}

// serialize() of a restored object that has not been updated since Deser, as an event of its own (directed segments place it
// AFTER the restored copy has been used as a union operand): same image, and the image is readable with the segment's seed
static void ev_reser(World& w, int j, int b) {
  auto re = w.sk[j]->serialize();
  bool readable = true;
  try { cpc_sketch t = cpc_sketch::deserialize(re.data(), re.size(), w.seed); (void)t; } catch (const std::exception&) { readable = false; }
  Ev("Reser").i("id", j).i("blob", b).bytes("reimg", re.data(), re.size()).b("readable", readable).b("restored", true).emit(); w.budget--;
}

// side operations sprinkled between updates: Obs / Copy / Ser / Deser (+ pairing of original and restored)
static void side_ops(World& w, int i, int pct) {
  if (w.serde_pct >= 10) pct *= 8;   // serde profile (C09): about a fifth of all events are Ser / Deser
  if (!w.g.chance(pct)) return;
  int op = (int)w.g.below(100);
  int sp = std::min(80, 30 + 3 * w.serde_pct);
  if (op < sp) {
    // serialize now, deserialize immediately into a scratch slot and keep both in lock-step
    int b = (int)w.g.below(NB);
    ev_ser(w, i, b);
    if (w.g.chance(85)) {
      int j = NS - 1 - (int)w.g.below(3);
      if (j != i) {
        ev_deser(w, b, j);
        if (w.partner[i] >= 0) { w.partner[w.partner[i]] = -1; }
        w.partner[i] = j; w.partner[j] = i;
      }
    }
  } else if (op < sp + 10) {
    // a stale image: deserialize something serialized earlier (the source may have moved on since)
    int b = (int)w.g.below(NB); int j = NS - 1 - (int)w.g.below(3);
    if (w.blive[b] && j != i) ev_deser(w, b, j);
  } else if (op < sp + 25) {
    int j = NS - 4 - (int)w.g.below(2);
    if (j != i) ev_copy(w, i, j);
  } else {
    ev_obs(w, i);
  }
}

// ---------------------------------------------------------------------------------------------------------
// flavor boundaries: Obs on both sides
// ---------------------------------------------------------------------------------------------------------
static bool near_boundary(long K, long c) {
  // c == b-1 or c == b for a boundary b = ceil(3K/32), K/2, ceil((27 + 8j)K/8), j = 0..56
  auto hit = [&](long b) { return c == b - 1 || c == b; };
  if (hit((3 * K + 31) / 32) || hit(K / 2)) return true;
  long j = (8 * (c + 1) - 27 * K) / (8 * K);
  for (long q = std::max(0L, j - 1); q <= j + 1; q++) if (hit(((27 + 8 * q) * K + 7) / 8)) return true;
  return false;
}

static void upd_watch(World& w, int i, const Item& it) {
  long K = 1L << w.sk[i]->get_lg_k();
  long c0 = w.sk[i]->get_num_coupons();
  upd(w, i, it);
  long c1 = w.sk[i]->get_num_coupons();
  if (c1 != c0 && near_boundary(K, c1)) {
    ev_obs(w, i);
    if (w.partner[i] >= 0 && w.g.chance(50)) ev_obs(w, w.partner[i]);
  }
}

// ---------------------------------------------------------------------------------------------------------
// pool of items by reference (row, col)
// ---------------------------------------------------------------------------------------------------------
static void build_pool(World& w, int lgk) {
  long K = 1L << lgk;
  int cols = 0; while (cols < 22 && (K << (cols + 2)) <= (1L << 22)) cols++;   // K * 2^(cols+1) candidates
  w.pool_lgk = lgk; w.pool_cols = cols;
  w.pool.assign(K * cols, 0); w.pool_has.assign(K * cols, 0);
  uint64_t base = w.g.next() >> 8;
  long tries = K << (cols + 1);
  for (long n = 0; n < tries; n++) {
    Item it; it.type = 0; it.iv = (long long)(base + n); it.dv = 0;
    int row, col; ref_cell(it, w.seed, lgk, row, col);
    if (col < cols && !w.pool_has[row * cols + col]) { w.pool_has[row * cols + col] = 1; w.pool[row * cols + col] = base + n; }
  }
}
static bool pool_item(World& w, int row, int col, Item& it) {
  if (col >= w.pool_cols || !w.pool_has[row * w.pool_cols + col]) return false;
  it.type = (int)w.g.below(2); it.iv = (long long)w.pool[row * w.pool_cols + col]; it.dv = 0;
  return true;
}

// ---------------------------------------------------------------------------------------------------------
// filling a sketch to a target coupon count
// ---------------------------------------------------------------------------------------------------------
// random typed stream (single events) until C >= target or the cap of updates is reached
static void fill_random(World& w, int i, long target, long cap, int side_pct, bool watch) {
  long long base = (long long)(w.g.next() >> 20);
  long wide = 1L << 40;
  for (long n = 0; n < cap && (long)w.sk[i]->get_num_coupons() < target && w.budget > 0; n++) {
    Item it = w.g.chance(70) ? draw_wide(w.g) : draw(w.g, base, wide);
    if (watch) upd_watch(w, i, it); else upd(w, i, it);
    side_ops(w, i, side_pct);
  }
}

// aimed fill with the pool (sketch i must have lgk == pool_lgk)
static void fill_aimed(World& w, int i, long target, long cap, int side_pct, bool watch) {
  cpc_sketch& s = *w.sk[i];
  int lgk = s.get_lg_k(); long K = 1L << lgk;
  std::set<int> mine;   // cells this driver has offered (driver bookkeeping only)
  int front = 0;        // column currently being filled
  for (long n = 0; n < cap && (long)s.get_num_coupons() < target && w.budget > 0; n++) {
    long c = s.get_num_coupons();
    long off = std::max(0L, (8 * c - 19 * K)) / (8 * K);
    int mode = (int)w.g.below(100);
    int row = (int)w.g.below(K), col;
    if (mode < 45) {          // fill front columns
      col = front + (int)w.g.below(3);
      if ((int)w.g.below(K) == 0) front++;
      int tries = 0;
      while (mine.count(row * 64 + col) && tries++ < 8) { row = (int)w.g.below(K); if (tries > 4) col++; }
    } else if (mode < 65) {   // early zone before the window: inverted logic (surprising zeros)
      col = off > 0 ? (int)w.g.below(off) : (int)w.g.below(2);
      int tries = 0;
      while (mine.count(row * 64 + col) && tries++ < 12) row = (int)w.g.below(K);
    } else if (mode < 80) {   // inside the window
      col = (int)off + (int)w.g.below(8);
    } else if (mode < 92) {   // surprising ones after the window
      col = (int)off + 8 + (int)w.g.below(6);
    } else if (mode < 96 && !mine.empty()) {  // duplicate
      auto itx = mine.lower_bound((int)w.g.below(K * 64)); if (itx == mine.end()) itx = mine.begin();
      row = *itx / 64; col = *itx % 64;
    } else {                  // a random item
      Item it = draw_wide(w.g);
      if (watch) upd_watch(w, i, it); else upd(w, i, it);
      continue;
    }
    if (front < off) front = (int)off;
    Item it;
    if (!pool_item(w, row, col, it)) { it = draw_wide(w.g); }
    else mine.insert(row * 64 + col);
    if (watch) upd_watch(w, i, it); else upd(w, i, it);
    side_ops(w, i, side_pct);
  }
}

// batches between boundaries, single watched updates around them (big K)
static void fill_big(World& w, int i, long target, int side_pct) {
  cpc_sketch& s = *w.sk[i];
  long K = 1L << s.get_lg_k();
  while ((long)s.get_num_coupons() < target && w.budget > 0) {
    long c = s.get_num_coupons();
    bool close = false;
    for (long d = 0; d <= 6 && !close; d++) close = near_boundary(K, c + d);
    if (close) {
      for (int q = 0; q < 12 && w.budget > 0; q++) upd_watch(w, i, draw_wide(w.g));
    } else {
      // distance to the next boundary in coupons is unknown to the driver: use small batches relative to K
      long bs = std::max(8L, std::min(400L, K / 8));
      std::vector<Item> items;
      for (long q = 0; q < bs; q++) items.push_back(draw_wide(w.g));
      upd_many(w, i, items);
      long c1 = s.get_num_coupons();
      if (near_boundary(K, c1)) ev_obs(w, i);
    }
    side_ops(w, i, side_pct);
  }
}

// target coupon counts that straddle the flavor boundaries of K
static long pick_target(World& w, long K, int maxshift) {
  long opts[] = {0, 1, (3 * K + 31) / 32 - 1, (3 * K + 31) / 32 + 1, K / 4, K / 2 - 1, K / 2 + 2, K, 2 * K, (27 * K + 7) / 8 - 1,
                 (27 * K + 7) / 8 + 1, ((27 + 8 * (long)w.g.range(1, maxshift)) * K + 7) / 8 + (long)w.g.range(-1, 2)};
  long t = opts[w.g.below(sizeof opts / sizeof opts[0])];
  return std::max(0L, t);
}

// ---------------------------------------------------------------------------------------------------------
// segments
// ---------------------------------------------------------------------------------------------------------
static void seg_sweep(World& w, int lgk, int shifts) {
  long K = 1L << lgk;
  ev_new(w, 0, lgk);
  ev_obs(w, 0);
  long target = ((27 + 8 * (long)shifts) * K + 7) / 8 + 2;
  fill_random(w, 0, target, 1L << 30, lgk <= 6 ? 3 : 1, true);
  ev_obs(w, 0);
}

static void seg_aimed(World& w, int lgk, int shifts) {
  long K = 1L << lgk;
  build_pool(w, lgk);
  ev_new(w, 0, lgk);
  long target = ((27 + 8 * (long)shifts) * K + 7) / 8 + 2;
  fill_aimed(w, 0, target, 40 * K + 400, 3, true);
  ev_obs(w, 0);
  // a second sketch from a copy taken on the way keeps going separately
  if (w.sk[NS - 4]) { fill_aimed(w, NS - 4, (long)w.sk[NS - 4]->get_num_coupons() + K, 6 * K, 3, true); ev_obs(w, NS - 4); }
}

// ---------------------------------------------------------------------------------------------------------
// surprising-value table under stress (SLIDING flavor): the table is an open-addressing hash table indexed by the HIGH bits
// of (row << 6 | col), with deletions (a coupon arriving in the early zone deletes its "surprising 0") and cluster repair.
//   seg_delete - aimed: the last ("hot") rows keep holes in their early / window columns while the other rows are filled
//                column-wise, so that after each window move the surprising 0s and 1s pile up at the END of the slot array
//                (probe clusters that wrap around to slot 0); the holes are then filled in random order (deletions inside
//                those clusters), hot late-zone coupons are inserted and repeated.  Obs every ~120 updates and at every move.
//   seg_long   - plain random stream far beyond 27K/8 (tens of thousands of items, many window moves), logged in small
//                batches, Obs every few hundred updates and around every boundary.
// ---------------------------------------------------------------------------------------------------------
static void seg_delete(World& w, int lgk) {
  long K = 1L << lgk;
  build_pool(w, lgk);
  ev_new(w, 0, lgk);
  cpc_sketch& s = *w.sk[0];
  const int cols = w.pool_cols;
  long hot = std::max(2L, K / (long)w.g.range(4, 8));          // rows K-hot .. K-1
  if (w.g.chance(25)) hot = std::max(2L, K / 2);
  std::vector<uint8_t> mine(K * 64, 0);
  long since_obs = 0, cap = 60 * K + 2000;
  auto offer = [&](int row, int col) -> bool {
    Item it;
    if (col < 0 || col >= cols || !pool_item(w, row, col, it)) return false;
    mine[row * 64 + col] = 1;
    upd_watch(w, 0, it);
    since_obs++;
    return true;
  };
  for (long n = 0; n < cap && w.budget > 0; n++) {
    long c = s.get_num_coupons();
    long off = std::max(0L, (8 * c - 19 * K)) / (8 * K);
    if (off + 9 >= cols) break;                               // the pool has no further columns
    int mode = (int)w.g.below(100);
    bool done = false;
    if (mode < 46) {
      // cold rows: lowest unfilled column first (keeps C growing and the cold rows free of surprises)
      for (int col = 0; col < off + 8 && !done; col++) {
        int r0 = (int)w.g.below(K - hot);
        for (long q = 0; q < K - hot && !done; q++) {
          int row = (int)((r0 + q) % (K - hot));
          if (!mine[row * 64 + col]) done = offer(row, col);
        }
      }
      if (!done) mode = 50;
    }
    if (!done && mode < 70) {
      // hot rows, early zone: fill a hole = delete a surprising 0 (random hole, biased to the very last rows)
      for (int t = 0; t < 24 && !done; t++) {
        int row = (int)(K - 1 - std::min<long>(w.g.below(hot), w.g.below(hot)));
        int col = off > 0 ? (int)w.g.below(off) : (int)w.g.below(3);
        if (!mine[row * 64 + col]) done = offer(row, col);
      }
      if (!done) mode = 75;
    }
    if (!done && mode < 86) {
      // hot rows, late zone: surprising 1s (new ones, or the same coupon again)
      int row = (int)(K - 1 - w.g.below(hot));
      int col = (int)off + 8 + (int)w.g.below(4);
      done = offer(row, col);
    }
    if (!done && mode < 93) {
      // hot rows, window
      int row = (int)(K - 1 - w.g.below(hot));
      done = offer(row, (int)off + (int)w.g.below(8));
    }
    if (!done) { upd_watch(w, 0, draw_wide(w.g)); since_obs++; }
    if (since_obs >= 120) { ev_obs(w, 0); since_obs = 0; }
    side_ops(w, 0, 1);
  }
  ev_obs(w, 0);
}

static void seg_long(World& w, int lgk, long n_updates) {
  long K = 1L << lgk;
  ev_new(w, 0, lgk);
  cpc_sketch& s = *w.sk[0];
  long done = 0, since_obs = 0;
  long bs = K <= 32 ? (long)w.g.range(8, 16) : (long)w.g.range(24, 64);   // small batches straddle the boundaries (K coupons apart)
  while (done < n_updates && w.budget > 0) {
    std::vector<Item> items;
    for (long q = 0; q < bs; q++) items.push_back(draw_wide(w.g));
    upd_many(w, 0, items);
    done += bs; since_obs += bs;
    if (near_boundary(K, (long)s.get_num_coupons()) || since_obs >= 300) { ev_obs(w, 0); since_obs = 0; }
    side_ops(w, 0, 1);
  }
  ev_obs(w, 0);
}

// ---------------------------------------------------------------------------------------------------------
// DIRECTED segment, first in every file (C09 "restore, then continue"): at the EMPTY state and at exactly ONE item (CPC has
// no reset()), for a fresh sketch and for a union result, serialize (bytes with a header, and stream), restore through BOTH
// reader paths, then continue the original and both restored copies with the same updates in lock-step (estimates must stay
// bit-identical and finite), observe all three, and use original and restored as union operands (lvalue and rvalue).
// ---------------------------------------------------------------------------------------------------------
static void lockstep3(World& w, int a, int b, int c, long n, bool aimed) {
  long K = 1L << w.sk[a]->get_lg_k();
  for (long q = 0; q < n && w.budget > 0; q++) {
    Item it = draw_wide(w.g);
    if (aimed && w.sk[a]->get_lg_k() == w.pool_lgk && w.g.chance(70)) {
      Item pit; if (pool_item(w, (int)w.g.below(K), (int)w.g.below(std::min(w.pool_cols, 6)), pit)) it = pit;
    }
    if (q == 3) { it.type = 10; it.sv = ""; }                     // an ignored update on all three
    one_update(w, a, it, -1);
    one_update(w, b, it, a);
    one_update(w, c, it, a);
    if (q == 0 || q == 1 || q == n / 2) { ev_obs(w, a); ev_obs(w, b); ev_obs(w, c); }
  }
  ev_obs(w, a); ev_obs(w, b); ev_obs(w, c);
}

static void union_of(World& w, int u, int ulgk, std::initializer_list<int> srcs, int rvalue_src, int dst) {
  w.un[u].reset(new cpc_union((uint8_t)ulgk, w.seed));
  Ev("UNew").i("u", u).i("lgk", ulgk).emit(); w.budget--;
  for (int i : srcs) {
    if (i == rvalue_src) {
      int tmp = NS - 5;
      ev_copy(w, i, tmp);
      w.un[u]->update(std::move(*w.sk[tmp]));
      w.sk[tmp].reset(); clear_slot(w, tmp);
      Ev("UUpdate").i("u", u).i("src", tmp).b("rvalue", true).emit(); w.budget--;
    } else {
      w.un[u]->update(*w.sk[i]);
      Ev("UUpdate").i("u", u).i("src", i).b("rvalue", false).emit(); w.budget--;
    }
  }
  clear_slot(w, dst);
  w.sk[dst].reset(new cpc_sketch(w.un[u]->get_result()));
  Ev("UResult").i("u", u).i("dst", dst).raw("r", proj(*w.sk[dst])).emit(); w.budget--;
}

// sketch in slot 0 is in the state of interest: image -> both readers -> lock-step -> union operands
static void restore_and_continue(World& w, long nupd, bool aimed) {
  const int A = 0, RB = 10, RS = 11, X = 1;      // original, restored from bytes, restored from stream, a non-empty operand
  ev_obs(w, A);
  ev_ser(w, A, 0);
  ev_deser(w, 0, RB, 0, false);
  ev_ser(w, A, 1);                                // a second image (another header size), read through the stream path
  ev_deser(w, 1, RS, 1, false);
  // the restored copies as union operands BEFORE any further update (with a non-empty partner of a larger lg_k)
  int lgk = w.sk[A]->get_lg_k();
  union_of(w, 0, std::min(12, lgk + 2), {RB, X}, -1, 5);
  union_of(w, 0, std::min(12, lgk + 2), {X, RS}, RS, 5);
  union_of(w, 0, std::min(12, lgk + 2), {A, X}, -1, 5);
  ev_reser(w, RB, 0); ev_reser(w, RS, 1);
  lockstep3(w, A, RB, RS, nupd, aimed);
  // and after: original and restored give the same union result (both are checked against the contract's UnionDef)
  union_of(w, 0, lgk, {A, X}, A, 5);
  union_of(w, 1, lgk, {RB, X}, -1, 6);
  union_of(w, 2, std::max(4, lgk - 1), {X, RS}, RS, 6);
  // a second generation: image of the restored copy after the updates
  ev_ser(w, RB, 2); ev_deser(w, 2, 12, (int)w.g.below(2));
  ev_obs(w, 12);
}

static void seg_empty(World& w, int maxlgk) {
  int lgks[2] = {(int)w.g.range(4, 6), (int)w.g.range(7, std::min(maxlgk, 11))};
  for (int round = 0; round < 4 && w.budget > 0; round++) {
    int lgk = lgks[round & 1];
    bool one = round >= 2;                         // rounds 0,1: EMPTY; rounds 2,3: exactly ONE item
    build_pool(w, std::min(lgk, 6));
    // a non-empty operand of a larger lg_k
    ev_new(w, 1, std::min(12, lgk + 1));
    for (int q = 0; q < 6; q++) one_update(w, 1, draw_wide(w.g), -1);
    ev_new(w, 0, lgk);
    if (one) one_update(w, 0, draw_wide(w.g), -1);
    restore_and_continue(w, lgk <= 6 ? 40 : 25, lgk <= 6);
    // the same for a UNION RESULT in that state: untouched union / union of empty inputs (EMPTY), one one-coupon input (ONE)
    ev_new(w, 2, lgk + (int)w.g.below(2));
    if (one) one_update(w, 2, draw_wide(w.g), -1);
    ev_new(w, 3, std::max(4, lgk - 1));            // an empty input of a smaller lg_k
    if (!one && (round & 1)) {
      w.un[0].reset(new cpc_union((uint8_t)lgk, w.seed));
      Ev("UNew").i("u", 0).i("lgk", lgk).emit(); w.budget--;
      clear_slot(w, 0);
      w.sk[0].reset(new cpc_sketch(w.un[0]->get_result()));
      Ev("UResult").i("u", 0).i("dst", 0).raw("r", proj(*w.sk[0])).emit(); w.budget--;
    } else {
      union_of(w, 0, lgk, {3, 2}, -1, 0);
    }
    restore_and_continue(w, 25, false);
  }
}

// ---------------------------------------------------------------------------------------------------------
// DIRECTED boundary sweep (kind x, second segment of every file): the stream is stopped EXACTLY at every flavor / window-shift
// boundary count b = ceil(3K/32), K/2, 27K/8 + wK (w = 0, 1, ...) and at b-1 and b+1.  At each stop: Obs (window offset and
// flavor must be the documented functions of (C, K)), Ser (two forms), Deser through both readers, Obs of the restored copies,
// a union fed the sketch and a union fed its restored copy (both must give the sketch's matrix), then the original and the
// restored copy continue in lock-step to the next stop.  lg_k = 4 + seed % 4 (pool-aimed, every w the pool allows) and
// lg_k = 8 + (seed % 8) / 2 (random stream in exact-length batches, w = 0..1): the 8 files of a run cover lg_k 4..11.
// ---------------------------------------------------------------------------------------------------------
static void boundary_probe(World& w, int A) {
  const int RB = 10, RS = 11;
  int lgk = w.sk[A]->get_lg_k();
  if (w.partner[A] >= 0) { w.partner[w.partner[A]] = -1; w.partner[A] = -1; }
  ev_obs(w, A);
  ev_ser(w, A, 0);
  ev_deser(w, 0, RB, 0, false);
  ev_deser(w, 0, RS, 1, false);
  union_of(w, 0, lgk, {A}, -1, 5);
  union_of(w, 1, lgk, {RB}, -1, 6);
  union_of(w, 2, std::max(4, lgk - 1), {RS}, RS, 6);
  ev_reser(w, RB, 0);
  w.partner[A] = RB; w.partner[RB] = A;            // lock-step until the next stop
}

static std::vector<long> stop_counts(long K, int wmax) {
  std::vector<long> bs = {(3 * K + 31) / 32, K / 2};
  for (int q = 0; q <= wmax; q++) bs.push_back(((27 + 8 * (long)q) * K + 7) / 8);
  std::vector<long> st;
  for (long b : bs) for (long d = -1; d <= 1; d++) if (b + d >= 1) st.push_back(b + d);
  std::sort(st.begin(), st.end()); st.erase(std::unique(st.begin(), st.end()), st.end());
  return st;
}

static void sweep_small(World& w, int lgk) {
  long K = 1L << lgk;
  build_pool(w, lgk);
  ev_new(w, 0, lgk);
  // all pool cells, roughly column-major with jitter: every offer is a NEW cell, so C grows by exactly one per update
  std::vector<int> cells;
  for (int col = 0; col < w.pool_cols; col++) for (int row = 0; row < K; row++) if (w.pool_has[row * w.pool_cols + col]) cells.push_back(row * 64 + col);
  for (size_t a = 0; a < cells.size(); a++) { size_t b = a + w.g.below(std::min<size_t>(3 * K, cells.size() - a)); std::swap(cells[a], cells[b]); }
  int wmax = std::max(0, w.pool_cols - 12);
  std::vector<long> st = stop_counts(K, wmax);
  size_t next = 0, si = 0;
  while (si < st.size() && next < cells.size() && w.budget > 60) {
    long c = w.sk[0]->get_num_coupons();
    if (c == st[si]) { boundary_probe(w, 0); si++; continue; }
    if (c > st[si]) { si++; continue; }
    Item it; int cell = cells[next++];
    if (!pool_item(w, cell / 64, cell % 64, it)) continue;
    upd(w, 0, it);
    if (w.g.chance(4)) upd(w, 0, it);               // a duplicate now and then
  }
  ev_obs(w, 0);
}

static void sweep_large(World& w, int lgk, int wmax) {
  long K = 1L << lgk;
  ev_new(w, 0, lgk);
  std::vector<long> st = stop_counts(K, wmax);
  size_t si = 0;
  while (si < st.size() && w.budget > 60) {
    long c = w.sk[0]->get_num_coupons();
    if (c == st[si]) { boundary_probe(w, 0); si++; continue; }
    if (c > st[si]) { si++; continue; }
    long room = st[si] - c;                          // a batch of n items adds at most n coupons: never overshoots
    if (room >= 8) {
      std::vector<Item> items;
      for (long q = 0; q < std::min(400L, room); q++) items.push_back(draw_wide(w.g));
      upd_many(w, 0, items);
    } else {
      upd(w, 0, draw_wide(w.g));
    }
  }
  ev_obs(w, 0);
}

static void seg_big(World& w, int lgk, int shifts) {
  long K = 1L << lgk;
  ev_new(w, 0, lgk);
  long target = ((27 + 8 * (long)shifts) * K + 7) / 8 + 2;
  fill_big(w, 0, target, 2);
  ev_obs(w, 0);
}

static void union_round(World& w, int u, int ulgk, const std::vector<int>& order, int dst, bool mid_results) {
  w.un[u].reset(new cpc_union((uint8_t)ulgk, w.seed));
  Ev("UNew").i("u", u).i("lgk", ulgk).emit(); w.budget--;
  if (w.g.chance(15)) {   // result of a union that has seen nothing
    clear_slot(w, dst);
    w.sk[dst].reset(new cpc_sketch(w.un[u]->get_result()));
    Ev("UResult").i("u", u).i("dst", dst).raw("r", proj(*w.sk[dst])).emit(); w.budget--;
  }
  // EMPTY inputs are a regular part of every round: an empty sketch of smaller / equal / larger lg_k than the union currently
  // has, offered first, in the middle or last, lvalue or rvalue - into a union that is still empty, on its accumulator or on
  // its bit matrix.  The property: only NON-EMPTY inputs lower the result's lg_k, and an empty input changes nothing.
  auto empty_probe = [&](bool force_result) {
    int lgk;
    int c = (int)w.g.below(100);
    if (c < 45) lgk = (int)w.g.range(4, std::max(4, ulgk - 1));          // usually strictly smaller than the configured lg_k
    else if (c < 60) lgk = 4;                                             // the smallest there is
    else if (c < 75) lgk = ulgk;
    else lgk = (int)w.g.range(ulgk, 12);
    ev_new(w, EMPTY_SLOT, lgk);
    if (w.g.chance(35)) {
      w.un[u]->update(std::move(*w.sk[EMPTY_SLOT]));
      w.sk[EMPTY_SLOT].reset(); clear_slot(w, EMPTY_SLOT);
      Ev("UUpdate").i("u", u).i("src", EMPTY_SLOT).b("rvalue", true).b("emptysrc", true).emit(); w.budget--;
    } else {
      w.un[u]->update(*w.sk[EMPTY_SLOT]);
      Ev("UUpdate").i("u", u).i("src", EMPTY_SLOT).b("rvalue", false).b("emptysrc", true).emit(); w.budget--;
    }
    if (force_result || w.g.chance(60)) {
      clear_slot(w, dst);
      w.sk[dst].reset(new cpc_sketch(w.un[u]->get_result()));
      Ev("UResult").i("u", u).i("dst", dst).raw("r", proj(*w.sk[dst])).emit(); w.budget--;
    }
  };
  // REFUSED calls leave no trace: a non-empty sketch built with ANOTHER seed (smaller / equal / larger lg_k, sparse or windowed,
  // lvalue or rvalue) is offered to the live union - still empty, on its accumulator, on its bit matrix.  The call must throw and
  // the union must behave afterwards exactly as if it had never been made (the model state is unchanged; the results that
  // follow are checked against it).  The foreign sketch is an environment value, not a model object.
  auto foreign_probe = [&]() {
    int c = (int)w.g.below(100);
    int lgk = c < 50 ? (int)w.g.range(4, std::max(4, ulgk - 1)) : (c < 65 ? 4 : (c < 80 ? ulgk : (int)w.g.range(ulgk, 12)));
    long K = 1L << lgk;
    cpc_sketch f((uint8_t)lgk, w.seed + 1 + w.g.below(1000));
    long n = w.g.chance(50) ? (long)w.g.range(1, 3) : (long)w.g.range(K / 2, 3 * K);
    for (long q = 0; q < n; q++) f.update((uint64_t)w.g.next());
    bool rv = w.g.chance(35), threw = false;
    long fc = f.get_num_coupons();
    try { if (rv) { cpc_sketch g2(f); w.un[u]->update(std::move(g2)); } else w.un[u]->update(f); }
    catch (const std::invalid_argument&) { threw = true; }
    Ev("URefused").i("u", u).i("lgk", lgk).i("C", fc).b("rvalue", rv).b("threw", threw).emit(); w.budget--;
    if (w.g.chance(70)) {
      clear_slot(w, dst);
      w.sk[dst].reset(new cpc_sketch(w.un[u]->get_result()));
      Ev("UResult").i("u", u).i("dst", dst).raw("r", proj(*w.sk[dst])).emit(); w.budget--;
    }
  };
  if (w.g.chance(40)) foreign_probe();                                    // into the empty union
  if (w.g.chance(45)) empty_probe(false);                                 // first: into the empty union
  for (size_t q = 0; q < order.size(); q++) {
    int i = order[q];
    if (q > 0 && w.g.chance(35)) empty_probe(false);                      // in the middle
    if (q > 0 && w.g.chance(40)) foreign_probe();
    bool rv = w.g.chance(35);
    if (rv) {
      // rvalue update consumes a copy of the input
      int tmp = NS - 5;
      ev_copy(w, i, tmp);
      w.un[u]->update(std::move(*w.sk[tmp]));
      w.sk[tmp].reset(); clear_slot(w, tmp);
      Ev("UUpdate").i("u", u).i("src", tmp).b("rvalue", true).emit(); w.budget--;
    } else {
      w.un[u]->update(*w.sk[i]);
      Ev("UUpdate").i("u", u).i("src", i).b("rvalue", false).emit(); w.budget--;
    }
    if (w.g.chance(10)) {   // copy / assignment of the union object keeps the accumulated inputs
      int v = (u + 1) % NU;
      if (w.un[v] && w.g.chance(50)) *w.un[v] = *w.un[u]; else w.un[v].reset(new cpc_union(*w.un[u]));
      Ev("UCopy").i("u", u).i("v", v).emit(); w.budget--;
      std::swap(w.un[u], w.un[v]);   // continue with the copy under the same id: log as a second copy back
      Ev("UCopy").i("u", v).i("v", u).emit(); w.budget--;
    }
    if ((mid_results && w.g.chance(50)) || q + 1 == order.size()) {
      clear_slot(w, dst);
      w.sk[dst].reset(new cpc_sketch(w.un[u]->get_result()));
      Ev("UResult").i("u", u).i("dst", dst).raw("r", proj(*w.sk[dst])).emit(); w.budget--;
    }
  }
  if (w.g.chance(50)) foreign_probe();
  if (w.g.chance(50)) empty_probe(true);                                  // last: the result must not change
}

static void seg_union(World& w, int maxlgk) {
  int n = (int)w.g.range(2, 5);
  int lo = 4, hi = std::min(maxlgk, 10);
  bool small = w.g.chance(60);
  if (small) hi = std::min(hi, 7);
  int poollgk = (int)w.g.range(4, std::min(6, hi));
  build_pool(w, poollgk);
  std::vector<int> ins;
  // sparse-heavy rounds keep the union on its accumulator path (case A: adopt / walk the table through row_col_update,
  // reduce_k of the accumulator, get_result_from_accumulator); sparse means C < 3K/32, so this needs the larger K
  bool sparse_heavy = w.g.chance(40);
  bool tiny = w.g.chance(50);
  for (int i = 0; i < n; i++) {
    int lgk = w.g.chance(30) ? poollgk : (int)w.g.range(lo, hi);
    if (sparse_heavy) lgk = (int)w.g.range(5, std::max(8, std::min(maxlgk, 10)));
    long K = 1L << lgk;
    ev_new(w, i, lgk);
    long target = w.g.chance(12) ? 0 : pick_target(w, K, lgk <= 6 ? 6 : 2);
    if (sparse_heavy && !w.g.chance(15)) {
      long top = std::max(1L, (3 * K + 31) / 32 - 1);
      if (tiny) top = std::max(1L, top / (n + 1));   // so that the OR of all inputs can stay sparse
      target = w.g.chance(10) ? 0 : (long)w.g.range(1, top);
    }
    if (lgk == poollgk && w.g.chance(60)) fill_aimed(w, i, target, 30 * K + 200, 0, false);
    else if (lgk <= 7 || target < 200) fill_random(w, i, target, 60 * K, 0, false);
    else fill_big(w, i, std::min(target, 5 * K), 0);
    ev_obs(w, i);
    ins.push_back(i);
  }
  int perms = (int)w.g.range(2, 4);
  for (int p = 0; p < perms && w.budget > 0; p++) {
    std::vector<int> order = ins;
    for (size_t a = order.size(); a > 1; a--) std::swap(order[a - 1], order[w.g.below(a)]);
    if (p == 1) std::reverse(order.begin(), order.end());
    if (w.g.chance(20)) order.push_back(order[w.g.below(order.size())]);   // the same input twice
    int ulgk = (int)w.g.range(4, std::min(maxlgk, 12));
    if (w.g.chance(40)) ulgk = (int)w.sk[ins[w.g.below(ins.size())]]->get_lg_k();
    if (sparse_heavy && w.g.chance(60)) ulgk = (int)w.g.range(std::min(8, maxlgk), std::min(maxlgk, 12));
    int dst = 5;
    union_round(w, 0, ulgk, order, dst, p == 0);
    // the result is an ordinary sketch: observe, keep updating, serialize
    if (w.budget > 0) {
      long K = 1L << w.sk[dst]->get_lg_k();
      long more = (long)w.sk[dst]->get_num_coupons() + std::max(3L, K / 4);
      if (w.sk[dst]->get_lg_k() == poollgk && w.g.chance(60)) fill_aimed(w, dst, more, 3 * K + 20, 8, true);
      else fill_random(w, dst, more, 4 * K + 20, 8, true);
      ev_obs(w, dst);
      // a result fed into the next round as one more input
      if (w.g.chance(30) && ins.size() < 6) { ev_copy(w, dst, 6); ins.push_back(6); }
    }
  }
}

int main(int argc, char** argv) {
  refhash::self_check();
  vt::install_terminate();
  uint64_t seed = (uint64_t)vt::argl(argc, argv, "--seed", 1);
  long segments = vt::argl(argc, argv, "--segments", 8);
  long events = vt::argl(argc, argv, "--events", 4000);
  int maxlgk = (int)vt::argl(argc, argv, "--maxlgk", 10);
  int serde_pct = (int)vt::argl(argc, argv, "--serde", 4);
  std::string kinds = vt::arg(argc, argv, "--kinds", "saubdrus");   // s sweep, a aimed, u union, b big, d deletion-heavy aimed, r long random
  vt::open_out(vt::arg(argc, argv, "--out", "/dev/stdout"));
  World w(seed);
  w.serde_pct = serde_pct;
  for (long seg = 0; seg < segments; seg++) {
    for (int i = 0; i < NS; i++) { w.sk[i].reset(); w.restored[i] = false; w.partner[i] = -1; }
    for (int i = 0; i < NU; i++) w.un[i].reset();
    for (int i = 0; i < NB; i++) { w.blive[i] = false; w.blob[i].clear(); }
    w.seed = w.g.chance(25) ? w.g.next() % 100000 + 1 : DEFAULT_SEED;
    {
      char kd = kinds[seg % kinds.size()];
      // directed segments: a NON-default seed in every second file (both reader paths, unions fed restored copies)
      if (kd == 'e' || kd == 'x') w.seed = (seed % 2 == 1) ? 12345 + seed % 9973 : DEFAULT_SEED;
    }
    w.budget = events;
    char kind = kinds[seg % kinds.size()];
    Ev("Begin").i("seg", seg).str("kind", std::string(1, kind)).i("seed", (long long)w.seed).emit();
    try {
    switch (kind) {
      case 's': { int lgk = (int)w.g.range(4, std::min(maxlgk, 7)); seg_sweep(w, lgk, (int)w.g.range(1, lgk <= 5 ? 5 : 3)); break; }
      case 'a': { int lgk = (int)w.g.range(4, 6); seg_aimed(w, lgk, (int)w.g.range(3, lgk == 4 ? 12 : (lgk == 5 ? 10 : 8))); break; }
      case 'u': seg_union(w, maxlgk); break;
      case 'e': seg_empty(w, maxlgk); break;
      case 'x': {
        int small = 4 + (int)(seed % 4), large = 8 + (int)((seed % 8) / 2);   // 8..11 whatever --maxlgk says
        sweep_small(w, small);
        w.budget = events;
        Ev("Begin").i("seg", seg).str("kind", "X").i("seed", (long long)w.seed).emit();
        for (int i = 0; i < NS; i++) { w.sk[i].reset(); w.restored[i] = false; w.partner[i] = -1; }
        for (int i = 0; i < NU; i++) w.un[i].reset();
        for (int i = 0; i < NB; i++) { w.blive[i] = false; w.blob[i].clear(); }
        sweep_large(w, large, large >= 10 ? 0 : 1);
        break;
      }
      case 'd': seg_delete(w, (int)w.g.range(4, std::min(maxlgk, 8))); break;
      case 'r': { int lgk = (int)w.g.range(4, std::min(maxlgk, 8)); seg_long(w, lgk, (long)w.g.range(20000, 40000)); break; }
      case 'b': { int lgk = (int)w.g.range(std::min(8, maxlgk), maxlgk); seg_big(w, lgk, (int)w.g.range(0, 3)); break; }
      default: break;
    }
    } catch (const std::exception& ex) {
      // an exception out of a public call on valid input (the library's own consistency checks are std::logic_error):
      // logged as an event the specification has no action for, so the events before it are still validated and the
      // segment is rejected at this point at the latest; the next segment starts from scratch
      std::string what = ex.what();
      for (auto& ch : what) if (ch == '"' || ch == '\\' || (unsigned char)ch < 32) ch = ' ';
      Ev("Exception").str("what", what).emit();
    }
  }
  vt::close_out();
  fprintf(stderr, "cpc_rec: %ld events\n", vt::g_events);
  return 0;
}
