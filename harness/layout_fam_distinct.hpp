// C10 catalogue, distinct-count families: Theta compact (v3 / v4), Tuple, array-of-doubles, HLL, CPC.
#pragma once
#include <theta_sketch.hpp>
#include <theta_union.hpp>
#include <tuple_sketch.hpp>
#include <array_of_doubles_sketch.hpp>
#include <hll.hpp>
#include <cpc_sketch.hpp>
#include <cpc_union.hpp>
#include "layout_common.hpp"

namespace lay {
using namespace datasketches;

// ------------------------------------------------------------------ Theta
template<class S> static std::string proj_theta(const S& s, uint64_t seed) {
  L ent; for (auto it = s.begin(); it != s.end(); ++it) ent.add(bv((uint64_t)*it));
  return J().b("empty", s.is_empty()).b("ordered", s.is_ordered()).i("n", s.get_num_retained())
      .raw("theta", bv((uint64_t)s.get_theta64())).b("est", s.is_estimation_mode())
      .i("seedhash", ref_seed_hash(seed)).raw("ent", ent.done()).done();
}
static Read read_theta(const Bytes& b, uint64_t seed, bool compressed) {
  auto s = compact_theta_sketch::deserialize(b.data(), b.size(), seed);
  Bytes rs = tob(compressed ? s.serialize_compressed() : s.serialize()); return Read{proj_theta(s, seed), rs};
}
static void cat_theta(std::vector<Entry>& out) {
  struct K { const char* kind; int lgk; int n; float p; bool ordered; uint64_t seed; };
  const K ks[] = {
    {"empty", 5, 0, 1.0f, true, DEFAULT_SEED}, {"single", 5, 1, 1.0f, true, DEFAULT_SEED},
    {"exact_ord", 5, 20, 1.0f, true, DEFAULT_SEED}, {"exact_unord", 5, 20, 1.0f, false, DEFAULT_SEED},
    {"est_ord", 5, 300, 1.0f, true, DEFAULT_SEED}, {"est_unord", 5, 300, 1.0f, false, DEFAULT_SEED},
    {"est_lgk8", 8, 2000, 1.0f, true, DEFAULT_SEED},
    {"sampled_none", 5, 3, 0.0001f, true, DEFAULT_SEED},   // non-empty, zero retained, theta < 1
    {"sampled_few", 6, 40, 0.5f, true, DEFAULT_SEED},
    {"seed_exact", 5, 9, 1.0f, true, 12345}, {"seed_est", 5, 100, 1.0f, false, 777},
  };
  for (const K& k : ks) {
    auto u = update_theta_sketch::builder().set_lg_k((uint8_t)k.lgk).set_p(k.p).set_seed(k.seed).build();
    for (int i = 1; i <= k.n; i++) u.update((int64_t)IV((long long)i * 7919));
    auto c = u.compact(k.ordered);
    uint64_t seed = k.seed;
    for (int v = 3; v <= 4; v++) {
      Entry e; e.family = "theta"; e.kind = std::string(k.kind) + (v == 4 ? "_c" : "");
      e.name = "theta_" + e.kind; e.hints = "{}";
      auto b = v == 4 ? c.serialize_compressed() : c.serialize();
      e.bytes.assign(b.begin(), b.end());
      e.proj = proj_theta(c, seed);
      e.reader = [seed, v](const Bytes& x) { return read_theta(x, seed, v == 4); };
      out.push_back(e);
    }
  }
}

// ------------------------------------------------------------------ Tuple<double>, array of doubles
template<class S> static std::string proj_tuple(const S& s, uint64_t seed) {
  L ent; for (auto it = s.begin(); it != s.end(); ++it) ent.add(L().add(bv((uint64_t)(*it).first)).add(bv((double)(*it).second)).done());
  return J().b("empty", s.is_empty()).b("ordered", s.is_ordered()).i("n", s.get_num_retained())
      .raw("theta", bv((uint64_t)s.get_theta64())).b("est", s.is_estimation_mode())
      .i("seedhash", ref_seed_hash(seed)).raw("ent", ent.done()).done();
}
static Read read_tuple(const Bytes& b, uint64_t seed) {
  auto s = compact_tuple_sketch<double>::deserialize(b.data(), b.size(), seed);
  Bytes rs = tob(s.serialize()); return Read{proj_tuple(s, seed), rs};
}
static void cat_tuple(std::vector<Entry>& out) {
  struct K { const char* kind; int lgk; int n; float p; bool ordered; uint64_t seed; };
  const K ks[] = {
    {"empty", 5, 0, 1.0f, true, DEFAULT_SEED}, {"single", 5, 1, 1.0f, true, DEFAULT_SEED},
    {"exact_ord", 5, 12, 1.0f, true, DEFAULT_SEED}, {"exact_unord", 5, 12, 1.0f, false, DEFAULT_SEED},
    {"est_ord", 5, 300, 1.0f, true, DEFAULT_SEED}, {"est_unord", 5, 300, 1.0f, false, 4242},
    {"sampled_none", 5, 3, 0.0001f, true, DEFAULT_SEED},
  };
  for (const K& k : ks) {
    auto u = update_tuple_sketch<double>::builder().set_lg_k((uint8_t)k.lgk).set_p(k.p).set_seed(k.seed).build();
    for (int i = 1; i <= k.n; i++) { u.update((int64_t)IV((long long)i * 104729), (double)i); if (i % 3 == 0) u.update((int64_t)IV((long long)i * 104729), 0.5); }
    auto c = u.compact(k.ordered);
    uint64_t seed = k.seed;
    Entry e; e.family = "tuple"; e.kind = k.kind; e.name = "tuple_" + e.kind; e.hints = J().i("ssz", 8).done();
    auto b = c.serialize(); e.bytes.assign(b.begin(), b.end());
    e.proj = proj_tuple(c, seed);
    e.reader = [seed](const Bytes& x) { return read_tuple(x, seed); };
    out.push_back(e);
  }
}
template<class S> static std::string proj_aod(const S& s, uint64_t seed) {
  L ent;
  for (auto it = s.begin(); it != s.end(); ++it) {
    L vals; for (size_t j = 0; j < (*it).second.size(); j++) vals.add(bv((double)(*it).second[j]));
    ent.add(L().add(bv((uint64_t)(*it).first)).add(vals.done()).done());
  }
  return J().b("empty", s.is_empty()).b("ordered", s.is_ordered()).i("n", s.get_num_retained())
      .raw("theta", bv((uint64_t)s.get_theta64())).i("nv", s.get_num_values())
      .i("seedhash", ref_seed_hash(seed)).raw("ent", ent.done()).done();
}
static Read read_aod(const Bytes& b, uint64_t seed) {
  auto s = compact_array_of_doubles_sketch::deserialize(b.data(), b.size(), seed);
  Bytes rs = tob(s.serialize()); return Read{proj_aod(s, seed), rs};
}
static void cat_aod(std::vector<Entry>& out) {
  struct K { const char* kind; int lgk; int n; int nv; float p; bool ordered; uint64_t seed; };
  const K ks[] = {
    {"empty", 5, 0, 1, 1.0f, true, DEFAULT_SEED}, {"single", 5, 1, 2, 1.0f, true, DEFAULT_SEED},
    {"exact_ord", 5, 10, 2, 1.0f, true, DEFAULT_SEED}, {"exact_unord", 5, 10, 3, 1.0f, false, DEFAULT_SEED},
    {"est_ord", 5, 200, 2, 1.0f, true, 99}, {"sampled_none", 5, 2, 1, 0.0001f, true, DEFAULT_SEED},
  };
  for (const K& k : ks) {
    auto u = update_array_of_doubles_sketch::builder(default_array_of_doubles_update_policy((uint8_t)k.nv))
        .set_lg_k((uint8_t)k.lgk).set_p(k.p).set_seed(k.seed).build();
    for (int i = 1; i <= k.n; i++) {
      std::vector<double> a; for (int j = 0; j < k.nv; j++) a.push_back(i + 0.25 * j);
      u.update((int64_t)IV((long long)i * 15485863), a);
    }
    auto c = u.compact(k.ordered);
    uint64_t seed = k.seed;
    Entry e; e.family = "aod"; e.kind = k.kind; e.name = "aod_" + e.kind; e.hints = "{}";
    auto b = c.serialize(); e.bytes.assign(b.begin(), b.end());
    e.proj = proj_aod(c, seed);
    e.reader = [seed](const Bytes& x) { return read_aod(x, seed); };
    out.push_back(e);
  }
}

// ------------------------------------------------------------------ HLL
// logical content = REFERENCE coupons of the items fed (published definition: slot = low 26 bits of h1,
// value = min(leading zeros of h2, 62) + 1 of MurmurHash3_x64_128(item, 9001)); registers = per-slot max
struct Coupon { uint32_t slot26; int val; };
static Coupon ref_coupon(int64_t item) {
  auto h = refhash::murmur3_x64_128(&item, 8, 9001);
  int lz = h.h2 == 0 ? 64 : __builtin_clzll(h.h2);
  return Coupon{(uint32_t)(h.h1 & 0x3ffffff), std::min(lz, 62) + 1};
}
struct HllKnown { std::vector<int64_t> items; bool compact; bool ooo = false; };
static std::string proj_hll(const hll_sketch& s, const HllKnown& kn) {
  const int lgk = s.get_lg_config_k();
  std::vector<Coupon> cs; for (auto it : kn.items) cs.push_back(ref_coupon(it));
  std::sort(cs.begin(), cs.end(), [](const Coupon& a, const Coupon& b) { return a.slot26 != b.slot26 ? a.slot26 < b.slot26 : a.val < b.val; });
  L coup; size_t distinct = 0;
  for (size_t i = 0; i < cs.size(); i++) if (i == 0 || cs[i].slot26 != cs[i - 1].slot26 || cs[i].val != cs[i - 1].val) { coup.add(L().addi(cs[i].slot26).addi(cs[i].val).done()); distinct++; }
  std::vector<int> regs((size_t)1 << lgk, 0);
  for (auto& c : cs) { int& r = regs[c.slot26 & ((1u << lgk) - 1)]; r = std::max(r, c.val); }
  L rl; for (int r : regs) rl.addi(r);
  double est = s.get_estimate();
  J j; j.i("lgk", lgk).i("tgt", (int)s.get_target_type()).b("empty", s.is_empty()).b("compact", kn.compact).b("ooo", kn.ooo)
      .i("ncoupons", (long long)distinct).raw("coupons", coup.done()).raw("regs", rl.done()).raw("est", bv(est)).raw("cest", bv((double)s.get_composite_estimate()))
      .raw("lb1", bv((double)s.get_lower_bound(1))).raw("ub1", bv((double)s.get_upper_bound(1)));
  return j.done();
}
static void cat_hll(std::vector<Entry>& out) {
  struct K { const char* kind; int lgk; int n; };
  const K ks[] = { {"empty", 8, 0}, {"list", 8, 3}, {"list7", 10, 7}, {"set", 10, 20}, {"set_grown", 10, 60},
                   {"hll_lgk4", 4, 40}, {"hll_lgk4_dense", 4, 3000}, {"hll_lgk8", 8, 300}, {"hll_lgk10", 10, 1500},
                   {"hll_lgk7_dense", 7, 20000} };
  const char* tn[] = {"4", "6", "8"};
  for (const K& k : ks) for (int t = 0; t < 3; t++) for (int compact = 0; compact < 2; compact++) {
    hll_sketch s((uint8_t)k.lgk, (target_hll_type)t);
    HllKnown kn; kn.compact = compact != 0;
    for (int i = 1; i <= k.n; i++) { int64_t v = (int64_t)IV((long long)i * 2654435761LL); s.update(v); kn.items.push_back(v); }
    Entry e; e.family = "hll"; e.kind = std::string(k.kind) + "_t" + tn[t] + (compact ? "_c" : "_u");
    e.name = "hll_" + e.kind; e.hints = "{}";
    auto b = compact ? s.serialize_compact() : s.serialize_updatable();
    e.bytes.assign(b.begin(), b.end());
    e.proj = proj_hll(s, kn);
    e.reader = [kn](const Bytes& x) { auto r = hll_sketch::deserialize(x.data(), x.size());
      Bytes rs = tob(kn.compact ? r.serialize_compact() : r.serialize_updatable()); return Read{proj_hll(r, kn), rs}; };
    out.push_back(e);
  }
  // union results: both inputs in HLL mode, same lgK -> the result is marked out-of-order (HIP accumulator invalid)
  for (int t = 0; t < 3; t++) for (int compact = 0; compact < 2; compact++) {
    hll_sketch a(10, HLL_8), b(10, HLL_4);
    HllKnown kn; kn.compact = compact != 0; kn.ooo = true;
    for (int i = 1; i <= 700; i++) { int64_t v = (int64_t)IV((long long)i * 2654435761LL); (i % 2 ? a : b).update(v); kn.items.push_back(v); }
    for (int i = 1; i <= 200; i++) { int64_t v = (int64_t)IV((long long)i * 2654435761LL); a.update(v); b.update(v); }
    hll_union u(10); u.update(a); u.update(b);
    hll_sketch s = u.get_result((target_hll_type)t);
    Entry e; e.family = "hll"; e.kind = std::string("union_ooo_t") + tn[t] + (compact ? "_c" : "_u");
    e.name = "hll_" + e.kind; e.hints = "{}";
    e.bytes = tob(compact ? s.serialize_compact() : s.serialize_updatable());
    e.proj = proj_hll(s, kn);
    e.reader = [kn](const Bytes& x) { auto r = hll_sketch::deserialize(x.data(), x.size());
      Bytes rs = tob(kn.compact ? r.serialize_compact() : r.serialize_updatable()); return Read{proj_hll(r, kn), rs}; };
    out.push_back(e);
  }
}

// ------------------------------------------------------------------ CPC (documented preamble only)
struct CpcKnown { uint64_t seed; bool merged; };
static std::string proj_cpc(const cpc_sketch& s, const CpcKnown& kn) {
  double hip = s.get_estimate();   // the HIP accumulator unless the sketch is a union result (then ICON, not stored)
  return J().i("lgk", s.get_lg_k()).b("empty", s.is_empty()).i("c", s.get_num_coupons()).b("merged", kn.merged)
      .raw("hip", bv(hip)).i("seedhash", ref_seed_hash(kn.seed)).done();
}
static void cat_cpc(std::vector<Entry>& out) {
  struct K { const char* kind; int lgk; int n; uint64_t seed; bool merged; };
  const K ks[] = { {"empty", 10, 0, DEFAULT_SEED, false}, {"sparse", 10, 20, DEFAULT_SEED, false}, {"hybrid", 10, 200, DEFAULT_SEED, false},
                   {"pinned", 10, 1500, DEFAULT_SEED, false}, {"sliding", 10, 8000, DEFAULT_SEED, false}, {"sliding_lgk5", 5, 3000, DEFAULT_SEED, false},
                   {"seed_sparse", 8, 10, 4711, false}, {"merged_sparse", 10, 30, DEFAULT_SEED, true}, {"merged_sliding", 8, 3000, DEFAULT_SEED, true},
                   // window WITHOUT table (all coupons inside the 8-column window; small lgK only): with HIP the documented order is
                   // numCoupons, wLengthInts, KxP, HIP (format PINNED_SLIDING_HIP_NOSV); n found for this item stream on the baseline tree
                   {"notable_lgk4_n10", 4, 10, DEFAULT_SEED, false}, {"notable_lgk4_n3000", 4, 3000, DEFAULT_SEED, false}, {"notable_lgk5", 5, 18, DEFAULT_SEED, false},
                   {"notable_lgk6", 6, 33, DEFAULT_SEED, false}, {"notable_lgk7", 7, 70, DEFAULT_SEED, false}, {"notable_lgk8", 8, 142, 4711, false},
                   {"notable_lgk8_default", 8, 142, DEFAULT_SEED, false},
                   {"merged_notable_lgk4", 4, 10, DEFAULT_SEED, true}, {"merged_notable_lgk6", 6, 33, DEFAULT_SEED, true}, {"merged_empty", 10, 0, DEFAULT_SEED, true} };
  for (const K& k : ks) {
    cpc_sketch s((uint8_t)k.lgk, k.seed);
    for (int i = 1; i <= k.n; i++) s.update((int64_t)IV((long long)i * 1000003));
    cpc_sketch t = s;
    if (k.merged) { cpc_union u((uint8_t)k.lgk, k.seed); u.update(s); t = u.get_result(); }
    CpcKnown kn{k.seed, k.merged && k.n > 0};   // the result of an empty union is a fresh (never merged) empty sketch
    Entry e; e.family = "cpc"; e.kind = k.kind; e.name = "cpc_" + e.kind; e.hints = "{}";
    auto b = t.serialize(); e.bytes.assign(b.begin(), b.end());
    e.proj = proj_cpc(t, kn);
    e.reader = [kn](const Bytes& x) { auto r = cpc_sketch::deserialize(x.data(), x.size(), kn.seed); Bytes rs = tob(r.serialize()); return Read{proj_cpc(r, kn), rs}; };
    out.push_back(e);
  }
}

} // namespace lay
