// C10 catalogue, distinct-count families: Theta compact (v3 / v4), Tuple, array-of-doubles, HLL, CPC.
#pragma once
#include <theta_sketch.hpp>
#include <theta_union.hpp>
#include <theta_intersection.hpp>
#include <theta_a_not_b.hpp>
#include <tuple_union.hpp>
#include <tuple_intersection.hpp>
#include <tuple_a_not_b.hpp>
#include <tuple_sketch.hpp>
#include <array_of_doubles_sketch.hpp>
#include <hll.hpp>
#include <cpc_sketch.hpp>
#include <cpc_union.hpp>
#include "layout_common.hpp"

namespace lay {
using namespace datasketches;

// ------------------------------------------------------------------ Theta
template<class S> static std::string proj_theta(const S& s, uint64_t seed) {
  L ent; for (auto it = s.begin(); it != s.end(); ++it) ent.add(bv((uint64_t)*it));
  return J().b("empty", s.is_empty()).b("ordered", s.is_ordered()).i("n", s.get_num_retained())
      .raw("theta", bv((uint64_t)s.get_theta64())).b("est", s.is_estimation_mode())
      .i("seedhash", ref_seed_hash(seed)).raw("ent", ent.done()).done();
}
static void fill_theta(Entry& e, compact_theta_sketch& c, uint64_t seed, bool compressed) {
  fill(e, c,
    [compressed](const compact_theta_sketch& s, bool st) {
      if (!st) return tob(compressed ? s.serialize_compressed() : s.serialize());
      return via_stream([&](std::ostream& os) { if (compressed) s.serialize_compressed(os); else s.serialize(os); }); },
    [seed](const Bytes& x, bool st) { if (!st) return compact_theta_sketch::deserialize(x.data(), x.size(), seed);
      auto is = in_stream(x); return compact_theta_sketch::deserialize(is, seed); },
    [seed](const compact_theta_sketch& s) { return proj_theta(s, seed); });
}
static void cat_theta(std::vector<Entry>& out) {
  struct K { const char* kind; int lgk; int n; float p; bool ordered; uint64_t seed; };
  const K ks[] = {
    {"empty", 5, 0, 1.0f, true, DEFAULT_SEED}, {"single", 5, 1, 1.0f, true, DEFAULT_SEED},
    {"exact_ord", 5, 20, 1.0f, true, DEFAULT_SEED}, {"exact_unord", 5, 20, 1.0f, false, DEFAULT_SEED},
    {"est_ord", 5, 300, 1.0f, true, DEFAULT_SEED}, {"est_unord", 5, 300, 1.0f, false, DEFAULT_SEED},
    {"est_lgk8", 8, 2000, 1.0f, true, DEFAULT_SEED},
    {"sampled_none", 5, 3, 0.0001f, true, DEFAULT_SEED},   // non-empty, zero retained, theta < 1
    {"sampled_few", 6, 40, 0.5f, true, DEFAULT_SEED},
    {"seed_exact", 5, 9, 1.0f, true, 12345}, {"seed_est", 5, 100, 1.0f, false, 777},
  };
  for (const K& k : ks) {
    auto u = update_theta_sketch::builder().set_lg_k((uint8_t)k.lgk).set_p(k.p).set_seed(k.seed).build();
    for (int i = 1; i <= k.n; i++) u.update((int64_t)IV((long long)i * 7919));
    auto c = u.compact(k.ordered);
    uint64_t seed = k.seed;
    for (int v = 3; v <= 4; v++) {
      Entry e; e.family = "theta"; e.kind = std::string(k.kind) + (v == 4 ? "_c" : "");
      e.name = "theta_" + e.kind; e.hints = "{}";
      fill_theta(e, c, seed, v == 4);
      out.push_back(e);
    }
  }
}

// ------------------------------------------------------------------ Tuple<double>, array of doubles
template<class S> static std::string proj_tuple(const S& s, uint64_t seed) {
  L ent; for (auto it = s.begin(); it != s.end(); ++it) ent.add(L().add(bv((uint64_t)(*it).first)).add(bv((double)(*it).second)).done());
  return J().b("empty", s.is_empty()).b("ordered", s.is_ordered()).i("n", s.get_num_retained())
      .raw("theta", bv((uint64_t)s.get_theta64())).b("est", s.is_estimation_mode())
      .i("seedhash", ref_seed_hash(seed)).raw("ent", ent.done()).done();
}
static void fill_tuple(Entry& e, compact_tuple_sketch<double>& c, uint64_t seed) {
  fill(e, c,
    [](const compact_tuple_sketch<double>& s, bool st) { return st ? via_stream([&](std::ostream& os) { s.serialize(os); }) : tob(s.serialize()); },
    [seed](const Bytes& x, bool st) { if (!st) return compact_tuple_sketch<double>::deserialize(x.data(), x.size(), seed);
      auto is = in_stream(x); return compact_tuple_sketch<double>::deserialize(is, seed); },
    [seed](const compact_tuple_sketch<double>& s) { return proj_tuple(s, seed); });
}
static void cat_tuple(std::vector<Entry>& out) {
  struct K { const char* kind; int lgk; int n; float p; bool ordered; uint64_t seed; };
  const K ks[] = {
    {"empty", 5, 0, 1.0f, true, DEFAULT_SEED}, {"single", 5, 1, 1.0f, true, DEFAULT_SEED},
    {"exact_ord", 5, 12, 1.0f, true, DEFAULT_SEED}, {"exact_unord", 5, 12, 1.0f, false, DEFAULT_SEED},
    {"est_ord", 5, 300, 1.0f, true, DEFAULT_SEED}, {"est_unord", 5, 300, 1.0f, false, 4242},
    {"sampled_none", 5, 3, 0.0001f, true, DEFAULT_SEED},
  };
  for (const K& k : ks) {
    auto u = update_tuple_sketch<double>::builder().set_lg_k((uint8_t)k.lgk).set_p(k.p).set_seed(k.seed).build();
    for (int i = 1; i <= k.n; i++) { u.update((int64_t)IV((long long)i * 104729), (double)i); if (i % 3 == 0) u.update((int64_t)IV((long long)i * 104729), 0.5); }
    auto c = u.compact(k.ordered);
    uint64_t seed = k.seed;
    Entry e; e.family = "tuple"; e.kind = k.kind; e.name = "tuple_" + e.kind; e.hints = J().i("ssz", 8).done();
    fill_tuple(e, c, seed);
    out.push_back(e);
  }
}
template<class S> static std::string proj_aod(const S& s, uint64_t seed) {
  L ent;
  for (auto it = s.begin(); it != s.end(); ++it) {
    L vals; for (size_t j = 0; j < (*it).second.size(); j++) vals.add(bv((double)(*it).second[j]));
    ent.add(L().add(bv((uint64_t)(*it).first)).add(vals.done()).done());
  }
  return J().b("empty", s.is_empty()).b("ordered", s.is_ordered()).i("n", s.get_num_retained())
      .raw("theta", bv((uint64_t)s.get_theta64())).i("nv", s.get_num_values())
      .i("seedhash", ref_seed_hash(seed)).raw("ent", ent.done()).done();
}
static void fill_aod(Entry& e, compact_array_of_doubles_sketch& c, uint64_t seed) {
  fill(e, c,
    [](const compact_array_of_doubles_sketch& s, bool st) { return st ? via_stream([&](std::ostream& os) { s.serialize(os); }) : tob(s.serialize()); },
    [seed](const Bytes& x, bool st) { if (!st) return compact_array_of_doubles_sketch::deserialize(x.data(), x.size(), seed);
      auto is = in_stream(x); return compact_array_of_doubles_sketch::deserialize(is, seed); },
    [seed](const compact_array_of_doubles_sketch& s) { return proj_aod(s, seed); });
}
static void cat_aod(std::vector<Entry>& out) {
  struct K { const char* kind; int lgk; int n; int nv; float p; bool ordered; uint64_t seed; };
  const K ks[] = {
    {"empty", 5, 0, 1, 1.0f, true, DEFAULT_SEED}, {"single", 5, 1, 2, 1.0f, true, DEFAULT_SEED},
    {"exact_ord", 5, 10, 2, 1.0f, true, DEFAULT_SEED}, {"exact_unord", 5, 10, 3, 1.0f, false, DEFAULT_SEED},
    {"est_ord", 5, 200, 2, 1.0f, true, 99}, {"sampled_none", 5, 2, 1, 0.0001f, true, DEFAULT_SEED},
  };
  for (const K& k : ks) {
    auto u = update_array_of_doubles_sketch::builder(default_array_of_doubles_update_policy((uint8_t)k.nv))
        .set_lg_k((uint8_t)k.lgk).set_p(k.p).set_seed(k.seed).build();
    for (int i = 1; i <= k.n; i++) {
      std::vector<double> a; for (int j = 0; j < k.nv; j++) a.push_back(i + 0.25 * j);
      u.update((int64_t)IV((long long)i * 15485863), a);
    }
    auto c = u.compact(k.ordered);
    uint64_t seed = k.seed;
    Entry e; e.family = "aod"; e.kind = k.kind; e.name = "aod_" + e.kind; e.hints = "{}";
    fill_aod(e, c, seed);
    out.push_back(e);
  }
}

// ------------------------------------------------------------------ results of set operations (Theta, Tuple, array of doubles)
// Every result state (empty, exact, estimation, non-empty with zero retained entries and theta < 1) of union / intersection / A-not-B,
// built with a NON-default seed (and, for Theta, the default one): the result image must carry the reference hash of the configured seed.
struct ThetaOps {
  typedef compact_theta_sketch Compact;
  static const char* fam() { return "theta"; }
  static update_theta_sketch mk(int lgk, float p, uint64_t seed) { return update_theta_sketch::builder().set_lg_k((uint8_t)lgk).set_p(p).set_seed(seed).build(); }
  static void feed(update_theta_sketch& s, long long lo, long long hi) { for (long long i = lo; i < hi; i++) s.update((int64_t)IV(i * 7919)); }
  static theta_union mku(uint64_t seed) { return theta_union::builder().set_lg_k(5).set_seed(seed).build(); }
  static theta_intersection mki(uint64_t seed) { return theta_intersection(seed); }
  static theta_a_not_b mkd(uint64_t seed) { return theta_a_not_b(seed); }
  static void fill_entry(Entry& e, Compact& c, uint64_t seed) { e.hints = "{}"; fill_theta(e, c, seed, false); }
};
struct TupleSum { void operator()(double& s, const double& o) const { s += o; } };
struct TupleOps {
  typedef compact_tuple_sketch<double> Compact;
  static const char* fam() { return "tuple"; }
  static update_tuple_sketch<double> mk(int lgk, float p, uint64_t seed) { return update_tuple_sketch<double>::builder().set_lg_k((uint8_t)lgk).set_p(p).set_seed(seed).build(); }
  static void feed(update_tuple_sketch<double>& s, long long lo, long long hi) { for (long long i = lo; i < hi; i++) s.update((int64_t)IV(i * 7919), (double)(i % 5 + 1)); }
  static tuple_union<double> mku(uint64_t seed) { return tuple_union<double>::builder().set_lg_k(5).set_seed(seed).build(); }
  static tuple_intersection<double, TupleSum> mki(uint64_t seed) { return tuple_intersection<double, TupleSum>(seed); }
  static tuple_a_not_b<double> mkd(uint64_t seed) { return tuple_a_not_b<double>(seed); }
  static void fill_entry(Entry& e, Compact& c, uint64_t seed) { e.hints = J().i("ssz", 8).done(); fill_tuple(e, c, seed); }
};
struct AodSum { void operator()(array<double>& a, const array<double>& o) const { for (size_t i = 0; i < a.size(); i++) a[i] += o[i]; } uint8_t get_num_values() const { return 2; } };
struct AodOps {
  typedef compact_array_of_doubles_sketch Compact;
  static const char* fam() { return "aod"; }
  static update_array_of_doubles_sketch mk(int lgk, float p, uint64_t seed) {
    return update_array_of_doubles_sketch::builder(default_array_of_doubles_update_policy(2)).set_lg_k((uint8_t)lgk).set_p(p).set_seed(seed).build(); }
  static void feed(update_array_of_doubles_sketch& s, long long lo, long long hi) {
    for (long long i = lo; i < hi; i++) { std::vector<double> a = {(double)(i % 7), 0.5}; s.update((int64_t)IV(i * 7919), a); } }
  static array_of_doubles_union mku(uint64_t seed) { return array_of_doubles_union::builder(default_array_of_doubles_union_policy(2)).set_lg_k(5).set_seed(seed).build(); }
  static array_of_doubles_intersection<AodSum> mki(uint64_t seed) { return array_of_doubles_intersection<AodSum>(seed); }
  static array_of_doubles_a_not_b mkd(uint64_t seed) { return array_of_doubles_a_not_b(seed); }
  static void fill_entry(Entry& e, Compact& c, uint64_t seed) { e.hints = "{}"; fill_aod(e, c, seed); }
};
template<class O> static void cat_setops_t(std::vector<Entry>& out, uint64_t seed, const char* stag) {
  auto add = [&](const std::string& kind, typename O::Compact c) {
    Entry e; e.family = O::fam(); e.kind = "op_" + kind + "_" + stag; e.name = e.family + "_" + e.kind;
    O::fill_entry(e, c, seed); out.push_back(e);
  };
  // a scenario the library refuses to execute (exception) is logged as such and rejected by the specification, not a harness crash
  auto scen = [&](const std::string& kind, std::function<typename O::Compact()> fn) {
    try { add(kind, fn()); }
    catch (const std::exception& ex) {
      Entry e; e.family = O::fam(); e.kind = "op_" + kind + "_" + stag; e.name = e.family + "_" + e.kind; e.hints = "{}";
      e.proj = "{\"threw\":true}"; e.reader = [](const Bytes&, bool) { return Read{"{\"threw\":true}", Bytes()}; };
      out.push_back(e);
    }
  };
  // operands: exact (lgK 5, 20 items), estimation (300 items), empty, "zero" = non-empty with no retained entry and theta < 1
  auto XA = O::mk(5, 1.0f, seed); O::feed(XA, 1, 21);        auto XB = O::mk(5, 1.0f, seed); O::feed(XB, 11, 31);   // overlap 11..20
  auto XC = O::mk(5, 1.0f, seed); O::feed(XC, 1000, 1015);                                                         // disjoint from XA
  auto EA = O::mk(5, 1.0f, seed); O::feed(EA, 1, 301);       auto EB = O::mk(5, 1.0f, seed); O::feed(EB, 151, 451); // overlap 151..300
  auto EC = O::mk(5, 1.0f, seed); O::feed(EC, 5000, 5300);                                                         // disjoint from EA
  auto EM = O::mk(5, 1.0f, seed);
  auto Z = O::mk(5, 0.0001f, seed); O::feed(Z, 1, 4);
  scen("u_none", [&]() -> typename O::Compact { auto u = O::mku(seed); return u.get_result(); });
  scen("u_empty", [&]() -> typename O::Compact { auto u = O::mku(seed); u.update(EM); u.update(EM); return u.get_result(); });
  scen("u_exact", [&]() -> typename O::Compact { auto u = O::mku(seed); u.update(XA); u.update(XB); return u.get_result(); });
  scen("u_exact_unord", [&]() -> typename O::Compact { auto u = O::mku(seed); u.update(XA); u.update(XC); return u.get_result(false); });
  scen("u_est", [&]() -> typename O::Compact { auto u = O::mku(seed); u.update(EA); u.update(EB); return u.get_result(); });
  scen("u_est_mixed_unord", [&]() -> typename O::Compact { auto u = O::mku(seed); u.update(EA); u.update(EM); u.update(XC); return u.get_result(false); });
  scen("u_zero", [&]() -> typename O::Compact { auto u = O::mku(seed); u.update(Z); u.update(Z); return u.get_result(); });
  scen("i_one_exact", [&]() -> typename O::Compact { auto x = O::mki(seed); x.update(XA); return x.get_result(); });
  scen("i_one_est_unord", [&]() -> typename O::Compact { auto x = O::mki(seed); x.update(EA); return x.get_result(false); });
  scen("i_overlap_exact", [&]() -> typename O::Compact { auto x = O::mki(seed); x.update(XA); x.update(XB); return x.get_result(); });
  scen("i_overlap_est", [&]() -> typename O::Compact { auto x = O::mki(seed); x.update(EA); x.update(EB); return x.get_result(); });
  scen("i_disjoint_exact", [&]() -> typename O::Compact { auto x = O::mki(seed); x.update(XA); x.update(XC); return x.get_result(); });
  scen("i_disjoint_est", [&]() -> typename O::Compact { auto x = O::mki(seed); x.update(EA); x.update(EC); return x.get_result(); });           // zero retained, theta < 1
  scen("i_overlap_then_disjoint", [&]() -> typename O::Compact { auto x = O::mki(seed); x.update(EA); x.update(EB); x.update(EC); return x.get_result(); });
  scen("i_disjoint_then_more", [&]() -> typename O::Compact { auto x = O::mki(seed); x.update(EA); x.update(EC); x.update(EA); return x.get_result(false); });
  scen("i_with_empty", [&]() -> typename O::Compact { auto x = O::mki(seed); x.update(EA); x.update(EM); return x.get_result(); });
  scen("i_with_zero", [&]() -> typename O::Compact { auto x = O::mki(seed); x.update(EA); x.update(Z); return x.get_result(); });
  scen("d_exact", [&]() -> typename O::Compact { auto d = O::mkd(seed); return d.compute(XA, XB); });
  scen("d_est_unord", [&]() -> typename O::Compact { auto d = O::mkd(seed); return d.compute(EA, EB, false); });
  scen("d_self_est", [&]() -> typename O::Compact { auto d = O::mkd(seed); return d.compute(EA, EA); });                                          // zero retained, theta < 1
  scen("d_empty_a", [&]() -> typename O::Compact { auto d = O::mkd(seed); return d.compute(EM, EA); });
  scen("d_b_empty", [&]() -> typename O::Compact { auto d = O::mkd(seed); return d.compute(EA, EM); });
  scen("d_disjoint_exact", [&]() -> typename O::Compact { auto d = O::mkd(seed); return d.compute(XA, XC); });
}
static void cat_setops(std::vector<Entry>& out) {
  cat_setops_t<ThetaOps>(out, 12345, "s12345"); cat_setops_t<ThetaOps>(out, DEFAULT_SEED, "sdef");
  cat_setops_t<TupleOps>(out, 0xdeadbeefcafeULL, "sbeef");
  cat_setops_t<AodOps>(out, 777, "s777");
}

// ------------------------------------------------------------------ HLL
// logical content = REFERENCE coupons of the items fed (published definition: slot = low 26 bits of h1,
// value = min(leading zeros of h2, 62) + 1 of MurmurHash3_x64_128(item, 9001)); registers = per-slot max
struct Coupon { uint32_t slot26; int val; };
static Coupon ref_coupon(int64_t item) {
  auto h = refhash::murmur3_x64_128(&item, 8, 9001);
  int lz = h.h2 == 0 ? 64 : __builtin_clzll(h.h2);
  return Coupon{(uint32_t)(h.h1 & 0x3ffffff), std::min(lz, 62) + 1};
}
struct HllKnown { std::vector<int64_t> items; bool compact; bool ooo = false; };
static std::string proj_hll(const hll_sketch& s, const HllKnown& kn) {
  const int lgk = s.get_lg_config_k();
  std::vector<Coupon> cs; for (auto it : kn.items) cs.push_back(ref_coupon(it));
  std::sort(cs.begin(), cs.end(), [](const Coupon& a, const Coupon& b) { return a.slot26 != b.slot26 ? a.slot26 < b.slot26 : a.val < b.val; });
  L coup; size_t distinct = 0;
  for (size_t i = 0; i < cs.size(); i++) if (i == 0 || cs[i].slot26 != cs[i - 1].slot26 || cs[i].val != cs[i - 1].val) { coup.add(L().addi(cs[i].slot26).addi(cs[i].val).done()); distinct++; }
  std::vector<int> regs((size_t)1 << lgk, 0);
  for (auto& c : cs) { int& r = regs[c.slot26 & ((1u << lgk) - 1)]; r = std::max(r, c.val); }
  L rl; for (int r : regs) rl.addi(r);
  double est = s.get_estimate();
  J j; j.i("lgk", lgk).i("tgt", (int)s.get_target_type()).b("empty", s.is_empty()).b("compact", kn.compact).b("ooo", kn.ooo)
      .i("ncoupons", (long long)distinct).raw("coupons", coup.done()).raw("regs", rl.done()).raw("est", bv(est)).raw("cest", bv((double)s.get_composite_estimate()))
      .raw("lb1", bv((double)s.get_lower_bound(1))).raw("ub1", bv((double)s.get_upper_bound(1)));
  return j.done();
}
static void fill_hll(Entry& e, hll_sketch& s, const HllKnown& kn) {
  const bool compact = kn.compact;
  fill(e, s,
    [compact](const hll_sketch& h, bool st) {
      if (!st) return tob(compact ? h.serialize_compact() : h.serialize_updatable());
      return via_stream([&](std::ostream& os) { if (compact) h.serialize_compact(os); else h.serialize_updatable(os); }); },
    [](const Bytes& x, bool st) { if (!st) return hll_sketch::deserialize(x.data(), x.size()); auto is = in_stream(x); return hll_sketch::deserialize(is); },
    [kn](const hll_sketch& h) { return proj_hll(h, kn); });
}
static void cat_hll(std::vector<Entry>& out) {
  struct K { const char* kind; int lgk; int n; };
  const K ks[] = { {"empty", 8, 0}, {"list", 8, 3}, {"list7", 10, 7}, {"set", 10, 20}, {"set_grown", 10, 60},
                   {"hll_lgk4", 4, 40}, {"hll_lgk4_dense", 4, 3000}, {"hll_lgk8", 8, 300}, {"hll_lgk10", 10, 1500},
                   {"hll_lgk7_dense", 7, 20000} };
  const char* tn[] = {"4", "6", "8"};
  for (const K& k : ks) for (int t = 0; t < 3; t++) for (int compact = 0; compact < 2; compact++) {
    hll_sketch s((uint8_t)k.lgk, (target_hll_type)t);
    HllKnown kn; kn.compact = compact != 0;
    for (int i = 1; i <= k.n; i++) { int64_t v = (int64_t)IV((long long)i * 2654435761LL); s.update(v); kn.items.push_back(v); }
    Entry e; e.family = "hll"; e.kind = std::string(k.kind) + "_t" + tn[t] + (compact ? "_c" : "_u");
    e.name = "hll_" + e.kind; e.hints = "{}";
    fill_hll(e, s, kn);
    out.push_back(e);
  }
  // union results: both inputs in HLL mode, same lgK -> the result is marked out-of-order (HIP accumulator invalid)
  for (int t = 0; t < 3; t++) for (int compact = 0; compact < 2; compact++) {
    hll_sketch a(10, HLL_8), b(10, HLL_4);
    HllKnown kn; kn.compact = compact != 0; kn.ooo = true;
    for (int i = 1; i <= 700; i++) { int64_t v = (int64_t)IV((long long)i * 2654435761LL); (i % 2 ? a : b).update(v); kn.items.push_back(v); }
    for (int i = 1; i <= 200; i++) { int64_t v = (int64_t)IV((long long)i * 2654435761LL); a.update(v); b.update(v); }
    hll_union u(10); u.update(a); u.update(b);
    hll_sketch s = u.get_result((target_hll_type)t);
    Entry e; e.family = "hll"; e.kind = std::string("union_ooo_t") + tn[t] + (compact ? "_c" : "_u");
    e.name = "hll_" + e.kind; e.hints = "{}";
    fill_hll(e, s, kn);
    out.push_back(e);
  }
}

// ------------------------------------------------------------------ CPC (documented preamble only)
// logical content of a CPC sketch = the k x 64 coupon bit matrix: REFERENCE (row, column) of every item fed (row = h1 mod k, column = min(lz(h2), 63)
// of MurmurHash3_x64_128(item, seed)).  Matrices are compared through a 64-bit digest logged as an "H:" token (equal digests <=> equal tokens).
struct RefMatrix {
  int lgk; uint64_t seed; std::vector<uint64_t> rows; uint32_t c = 0;
  RefMatrix(int lgk_, uint64_t seed_) : lgk(lgk_), seed(seed_), rows((size_t)1 << lgk_, 0) {}
  void add(int64_t item) {
    auto h = refhash::murmur3_x64_128(&item, 8, seed);
    int col = h.h2 == 0 ? 64 : __builtin_clzll(h.h2); if (col > 63) col = 63;
    uint64_t& r = rows[h.h1 & (((uint64_t)1 << lgk) - 1)]; const uint64_t bit = (uint64_t)1 << col;
    if (!(r & bit)) { r |= bit; c++; }
  }
};
static std::string matrix_token(const uint64_t* rows, size_t n) {
  char buf[32]; snprintf(buf, sizeof buf, "\"H:%016llx\"", (unsigned long long)refhash::murmur3_x64_128(rows, n * 8, 0).h1); return buf;
}
struct CpcKnown { uint64_t seed; bool merged; std::string mref; };
static std::string proj_cpc(const cpc_sketch& s, const CpcKnown& kn) {
  double hip = s.get_estimate();   // the HIP accumulator unless the sketch is a union result (then ICON, not stored)
  J j; j.i("lgk", s.get_lg_k()).b("empty", s.is_empty()).i("c", s.get_num_coupons()).b("merged", kn.merged)
      .raw("hip", bv(hip)).i("seedhash", ref_seed_hash(kn.seed));
#ifdef DATASKETCHES_VERIF
  auto m = s.verif_bit_matrix();
  std::vector<uint64_t> rows(m.begin(), m.end());
  j.raw("mlib", matrix_token(rows.data(), rows.size())).raw("mref", kn.mref);
#endif
  return j.done();
}
static void fill_cpc(Entry& e, cpc_sketch& t, const CpcKnown& kn) {
  fill(e, t,
    [](const cpc_sketch& c, bool st) { return st ? via_stream([&](std::ostream& os) { c.serialize(os); }) : tob(c.serialize()); },
    [kn](const Bytes& x, bool st) { if (!st) return cpc_sketch::deserialize(x.data(), x.size(), kn.seed); auto is = in_stream(x); return cpc_sketch::deserialize(is, kn.seed); },
    [kn](const cpc_sketch& c) { return proj_cpc(c, kn); });
}
static void cat_cpc(std::vector<Entry>& out) {
  struct K { const char* kind; int lgk; int n; uint64_t seed; bool merged; };
  const K ks[] = { {"empty", 10, 0, DEFAULT_SEED, false}, {"sparse", 10, 20, DEFAULT_SEED, false}, {"hybrid", 10, 200, DEFAULT_SEED, false},
                   {"pinned", 10, 1500, DEFAULT_SEED, false}, {"sliding", 10, 8000, DEFAULT_SEED, false}, {"sliding_lgk5", 5, 3000, DEFAULT_SEED, false},
                   {"seed_sparse", 8, 10, 4711, false}, {"merged_sparse", 10, 30, DEFAULT_SEED, true}, {"merged_sliding", 8, 3000, DEFAULT_SEED, true},
                   // window WITHOUT table (all coupons inside the 8-column window; small lgK only): with HIP the documented order is
                   // numCoupons, wLengthInts, KxP, HIP (format PINNED_SLIDING_HIP_NOSV); n found for this item stream on the baseline tree
                   {"notable_lgk4_n10", 4, 10, DEFAULT_SEED, false}, {"notable_lgk4_n3000", 4, 3000, DEFAULT_SEED, false}, {"notable_lgk5", 5, 18, DEFAULT_SEED, false},
                   {"notable_lgk6", 6, 33, DEFAULT_SEED, false}, {"notable_lgk7", 7, 70, DEFAULT_SEED, false}, {"notable_lgk8", 8, 142, 4711, false},
                   {"notable_lgk8_default", 8, 142, DEFAULT_SEED, false},
                   {"merged_notable_lgk4", 4, 10, DEFAULT_SEED, true}, {"merged_notable_lgk6", 6, 33, DEFAULT_SEED, true}, {"merged_empty", 10, 0, DEFAULT_SEED, true},
                   {"merged_seed_sparse", 8, 10, 4711, true}, {"merged_seed_sliding", 6, 2000, 0xabcdef0123ULL, true}, {"merged_seed_empty", 9, 0, 31337, true} };
  for (const K& k : ks) {
    cpc_sketch s((uint8_t)k.lgk, k.seed);
    RefMatrix rm(k.lgk, k.seed);
    for (int i = 1; i <= k.n; i++) { int64_t v = (int64_t)IV((long long)i * 1000003); s.update(v); rm.add(v); }
    cpc_sketch t = s;
    if (k.merged) { cpc_union u((uint8_t)k.lgk, k.seed); u.update(s); t = u.get_result(); }
    CpcKnown kn{k.seed, k.merged && k.n > 0, matrix_token(rm.rows.data(), rm.rows.size())};   // the result of an empty union is a fresh (never merged) empty sketch
    Entry e; e.family = "cpc"; e.kind = k.kind; e.name = "cpc_" + e.kind; e.hints = "{}";
    fill_cpc(e, t, kn);
    out.push_back(e);
  }
}

// ------------------------------------------------------------------ CPC grid: every flavor, window offset and compression phase with many coupons
// (a) one growing sketch per lgK, a snapshot each time C passes j * K/16 (sparse, hybrid, pinned, sliding offsets 0..3, all 16 phases of each);
// (b) lgK 10, sliding flavor: for each of the 16 phases, up to 3 item streams chosen (reference hashes only) so that the surprising values
//     spread over as many canonical columns (column - window offset - 8) in 8..16 as a search over 1500 candidate streams finds;
// (c) lgK 12, one snapshot per sliding phase.
static void cpc_snapshot(std::vector<Entry>& out, const std::string& kind, const cpc_sketch& s, const RefMatrix& rm) {
  cpc_sketch t = s;
  CpcKnown kn{DEFAULT_SEED, false, matrix_token(rm.rows.data(), rm.rows.size())};
  Entry e; e.family = "cpc"; e.kind = kind; e.name = "cpc_" + kind; e.hints = "{}";
  fill_cpc(e, t, kn);
  out.push_back(e);
}
static void cat_cpcgrid(std::vector<Entry>& out) {
  char buf[64];
  for (int lgk : {7, 10}) {
    cpc_sketch s((uint8_t)lgk); RefMatrix rm(lgk, DEFAULT_SEED);
    const uint32_t K = 1u << lgk; long long i = 0;
    for (uint32_t j = 1; j <= 112; j++) {
      while (rm.c < j * K / 16) { int64_t v = (int64_t)IV((++i) * 1000003LL); s.update(v); rm.add(v); }
      snprintf(buf, sizeof buf, "grid_lgk%d_j%03u", lgk, j); cpc_snapshot(out, buf, s, rm);
    }
  }
  { // (b) column spread at lgK 10
    const int lgk = 10; const uint32_t K = 1u << lgk; const int NB = 1500, NP = 16;
    std::vector<std::vector<uint32_t>> colmask(NP, std::vector<uint32_t>(NB, 0));   // bit (c - 8) set: canonical column c in 8..16 present
    auto target = [&](int p) { return (56 + p) * K / 16 + K / 32; };
    auto base_item = [&](int b, long long i) { return (int64_t)IV(((long long)(b + 1) << 32) + i); };
    for (int b = 0; b < NB; b++) {
      RefMatrix rm(lgk, DEFAULT_SEED); long long i = 0;
      for (int p = 0; p < NP; p++) {
        while (rm.c < target(p)) rm.add(base_item(b, ++i));
        const long long off = (8LL * rm.c - 19LL * K) / (8LL * K);           // window offset of the sliding flavor
        uint32_t mask = 0;
        for (uint64_t r : rm.rows) for (int c = 8; c <= 16; c++) { const long long col = off + 8 + c; if (col < 64 && ((r >> col) & 1)) mask |= 1u << (c - 8); }
        colmask[p][b] = mask;
      }
    }
    for (int p = 0; p < NP; p++) {
      uint32_t covered = 0;
      for (int pick = 0; pick < 3; pick++) {
        int best = -1, bestgain = 0;
        for (int b = 0; b < NB; b++) { int gain = __builtin_popcount(colmask[p][b] & ~covered); if (gain > bestgain) { bestgain = gain; best = b; } }
        if (best < 0) break;
        covered |= colmask[p][best];
        cpc_sketch s((uint8_t)lgk); RefMatrix rm(lgk, DEFAULT_SEED); long long i = 0;
        while (rm.c < target(p)) { int64_t v = base_item(best, ++i); s.update(v); rm.add(v); }
        snprintf(buf, sizeof buf, "cols_lgk10_phase%02d_%d", (56 + p) % 16, pick); cpc_snapshot(out, buf, s, rm);
      }
    }
  }
  { // (c) lgK 12
    const int lgk = 12; const uint32_t K = 1u << lgk;
    cpc_sketch s((uint8_t)lgk); RefMatrix rm(lgk, DEFAULT_SEED); long long i = 0;
    for (uint32_t j = 56; j < 72; j++) {
      while (rm.c < j * K / 16 + K / 32) { int64_t v = (int64_t)IV((++i) * 2654435761LL); s.update(v); rm.add(v); }
      snprintf(buf, sizeof buf, "grid_lgk12_j%03u", j); cpc_snapshot(out, buf, s, rm);
    }
  }
}

// ------------------------------------------------------------------ CPC code tables (the entropy coder's constants ARE the wire format)
// each row of the three published tables is confronted with the baseline record like an image (family "cpctab"): encoding_tables_for_high_entropy_byte
// [22][256] (u16), length_limited_unary_encoding_table65 [65] (u16), column_permutations_for_encoding [16][56] (u8)
static void cat_cpctab(std::vector<Entry>& out) {
  auto add = [&](const std::string& kind, const void* p, size_t nbytes, const char* tab) {
    Entry e; e.family = "cpctab"; e.kind = kind; e.name = "cpctab_" + kind; e.hints = J().str("table", tab).done();
    e.bytes.assign((const uint8_t*)p, (const uint8_t*)p + nbytes); e.sbytes = e.bytes; e.proj = J().i("len", (long long)nbytes).done();
    Bytes cur = e.bytes;
    e.reader = [cur, nbytes](const Bytes&, bool) { return Read{J().i("len", (long long)nbytes).done(), cur}; };   // the current tree's row, whatever is stored
    out.push_back(e);
  };
  char buf[64];
  for (int i = 0; i < 22; i++) { snprintf(buf, sizeof buf, "byte_codes_%02d", i); add(buf, encoding_tables_for_high_entropy_byte[i], 512, "codes"); }
  add("unary_codes_65", length_limited_unary_encoding_table65, 130, "codes");
  for (int i = 0; i < 16; i++) { snprintf(buf, sizeof buf, "column_permutation_%02d", i); add(buf, column_permutations_for_encoding[i], 56, "perm"); }
}

} // namespace lay
