// C10 catalogue: frequent items, count-min, VarOpt (sketch + union), EBPPS, Bloom, density.
#pragma once
#include <random>
#include <frequent_items_sketch.hpp>
#include <count_min.hpp>
#include <var_opt_sketch.hpp>
#include <var_opt_union.hpp>
#include <ebpps_sketch.hpp>
#include <bloom_filter.hpp>
#include <density_sketch.hpp>
#include "layout_common.hpp"

namespace lay {
using namespace datasketches;

// ------------------------------------------------------------------ frequent items
template<class T> static std::string proj_fi(const frequent_items_sketch<T>& s, int lgmax) {
  L rows;
  for (auto& r : s.get_frequent_items(NO_FALSE_NEGATIVES, 0)) rows.add(L().add(bv(r.get_item())).add(bv((uint64_t)r.get_lower_bound())).done());
  return J().i("lgmax", lgmax).b("empty", s.is_empty()).i("nactive", s.get_num_active_items())
      .raw("total", bv((uint64_t)s.get_total_weight())).raw("offset", bv((uint64_t)s.get_maximum_error())).raw("rows", rows.done()).done();
}
template<class T> static T fi_val(int i);
template<> int64_t fi_val<int64_t>(int i) { return (int64_t)IV((long long)i * 7) - 3; }
template<> std::string fi_val<std::string>(int i) { return "item" + std::to_string(i) + std::string((size_t)(i % 4), 'z'); }
template<class T> static void cat_fi_t(std::vector<Entry>& out, const char* tname) {
  struct K { const char* kind; int lgmax; int n; };
  const K ks[] = { {"empty", 3, 0}, {"one", 3, 1}, {"few", 4, 5}, {"grown", 6, 30}, {"purged", 3, 60} };
  for (const K& k : ks) {
    frequent_items_sketch<T> s((uint8_t)k.lgmax);
    for (int i = 1; i <= k.n; i++) s.update(fi_val<T>(i % 17), (uint64_t)(1 + (i * 5) % 7));
    int lgmax = k.lgmax;
    Entry e; e.family = "fi"; e.kind = std::string(k.kind) + "_" + tname; e.name = "fi_" + e.kind;
    e.hints = J().i("isz", std::is_same<T, std::string>::value ? 0 : (int)sizeof(T)).done();
    fill(e, s,
      [](const frequent_items_sketch<T>& o, bool st) { return st ? via_stream([&](std::ostream& os) { o.serialize(os); }) : tob(o.serialize()); },
      [lgmax](const Bytes& x, bool st) { if (!st) return frequent_items_sketch<T>::deserialize(x.data(), x.size()); auto is = in_stream(x); return frequent_items_sketch<T>::deserialize(is); },
      [lgmax](const frequent_items_sketch<T>& o) { return proj_fi(o, lgmax); });
    out.push_back(e);
  }
}
static void cat_fi(std::vector<Entry>& out) { cat_fi_t<int64_t>(out, "i64"); cat_fi_t<std::string>(out, "str"); }

// ------------------------------------------------------------------ count-min
static std::string proj_cm(const count_min_sketch<uint64_t>& s, uint64_t seed) {
  L cells; for (auto it = s.begin(); it != s.end(); ++it) cells.add(bv((uint64_t)*it));
  return J().i("nbuckets", s.get_num_buckets()).i("nhashes", s.get_num_hashes()).b("empty", s.is_empty())
      .i("seedhash", ref_seed_hash(seed)).raw("total", bv((uint64_t)s.get_total_weight())).raw("cells", cells.done()).done();
}
static void cat_cm(std::vector<Entry>& out) {
  struct K { const char* kind; int nh; int nb; int n; uint64_t seed; };
  const K ks[] = { {"empty", 3, 5, 0, DEFAULT_SEED}, {"one", 1, 3, 1, DEFAULT_SEED}, {"few", 3, 5, 10, DEFAULT_SEED}, {"wide", 4, 40, 200, 31337} };
  for (const K& k : ks) {
    count_min_sketch<uint64_t> s((uint8_t)k.nh, (uint32_t)k.nb, k.seed);
    for (int i = 1; i <= k.n; i++) s.update((uint64_t)IV((long long)i * 11), (uint64_t)(1 + i % 5));
    uint64_t seed = k.seed;
    Entry e; e.family = "countmin"; e.kind = k.kind; e.name = "countmin_" + e.kind; e.hints = "{}";
    fill(e, s,
      [](const count_min_sketch<uint64_t>& o, bool st) { return st ? via_stream([&](std::ostream& os) { o.serialize(os); }) : tob(o.serialize()); },
      [seed](const Bytes& x, bool st) { if (!st) return count_min_sketch<uint64_t>::deserialize(x.data(), x.size(), seed); auto is = in_stream(x); return count_min_sketch<uint64_t>::deserialize(is, seed); },
      [seed](const count_min_sketch<uint64_t>& o) { return proj_cm(o, seed); });
    out.push_back(e);
  }
}

// ------------------------------------------------------------------ VarOpt sketch / union
static std::string proj_vo(const var_opt_sketch<int64_t>& s) {
  L items, wts;
  if (!s.is_empty()) for (auto it = s.begin(); it != s.end(); ++it) { items.add(bv((int64_t)(*it).first)); wts.add(bv((double)(*it).second)); }
  return J().i("k", s.get_k()).i("n", (long long)s.get_n()).b("empty", s.is_empty()).i("nsamp", s.get_num_samples())
      .i("rf", 3 /* default resize factor X8, a construction parameter */).raw("items", items.done()).raw("wts", wts.done()).done();
}
static void vo_fill(var_opt_sketch<int64_t>& s, int n, int heavy) {
  for (int i = 1; i <= n; i++) s.update((int64_t)IV((long long)i * 13), (i <= heavy) ? 1000.0 * i : 1.0 + (i % 4) * 0.5);
}
static void cat_vo(std::vector<Entry>& out) {
  struct K { const char* kind; int k; int n; int heavy; };
  const K ks[] = { {"empty", 8, 0, 0}, {"one", 8, 1, 0}, {"warmup", 8, 5, 1}, {"exactly_k", 8, 8, 0}, {"full", 8, 100, 0}, {"full_heavy", 8, 100, 3}, {"full_k16", 16, 300, 2} };
  for (const K& k : ks) {
    random_utils::override_seed(2024);
    var_opt_sketch<int64_t> s((uint32_t)k.k);
    vo_fill(s, k.n, k.heavy);
    Entry e; e.family = "varopt"; e.kind = k.kind; e.name = "varopt_" + e.kind; e.hints = J().i("isz", 8).done();
    fill(e, s,
      [](const var_opt_sketch<int64_t>& o, bool st) { return st ? via_stream([&](std::ostream& os) { o.serialize(os); }) : tob(o.serialize()); },
      [](const Bytes& x, bool st) { if (!st) return var_opt_sketch<int64_t>::deserialize(x.data(), x.size()); auto is = in_stream(x); return var_opt_sketch<int64_t>::deserialize(is); },
      [](const var_opt_sketch<int64_t>& o) { return proj_vo(o); });
    out.push_back(e);
  }
  // union images: 32-byte union preamble followed by the gadget sketch image (gadget flag, marks)
  struct U { const char* kind; int maxk; int n1; int n2; int heavy; };
  const U us[] = { {"empty", 8, 0, 0, 0}, {"exact", 8, 3, 2, 0}, {"sampling", 8, 60, 50, 0}, {"sampling_heavy", 8, 60, 50, 2} };
  for (const U& k : us) {
    random_utils::override_seed(2025);
    var_opt_union<int64_t> u((uint32_t)k.maxk);
    var_opt_sketch<int64_t> a((uint32_t)k.maxk), b((uint32_t)k.maxk);
    vo_fill(a, k.n1, k.heavy); for (int i = 1; i <= k.n2; i++) b.update((int64_t)(100000 + i), 2.0);
    if (k.n1) u.update(a);
    if (k.n2) u.update(b);
    int maxk = k.maxk;
    auto pr = [maxk](const var_opt_union<int64_t>& v) {
      auto r = v.get_result();
      L ri; if (!r.is_empty()) for (auto it = r.begin(); it != r.end(); ++it) ri.add(L().add(bv((int64_t)(*it).first)).add(bv((double)(*it).second)).done());
      return J().i("maxk", maxk).i("n", (long long)r.get_n()).b("empty", r.is_empty()).raw("ritems", ri.done()).done();
    };
    Entry e; e.family = "varoptu"; e.kind = k.kind; e.name = "varoptu_" + e.kind; e.hints = J().i("isz", 8).done();
    fill(e, u,
      [](const var_opt_union<int64_t>& o, bool st) { return st ? via_stream([&](std::ostream& os) { o.serialize(os); }) : tob(o.serialize()); },
      [pr](const Bytes& x, bool st) { if (!st) return var_opt_union<int64_t>::deserialize(x.data(), x.size()); auto is = in_stream(x); return var_opt_union<int64_t>::deserialize(is); },
      [pr](const var_opt_union<int64_t>& o) { return pr(o); });
    out.push_back(e);
  }
}

// ------------------------------------------------------------------ EBPPS
struct EbKnown { double wtmax; };
static std::string proj_eb(const ebpps_sketch<int64_t>& s, const EbKnown& kn) {
  L res;
  if (!s.is_empty()) { random_utils::override_seed(77); for (auto& v : s.get_result()) res.add(bv((int64_t)v)); }
  return J().i("k", s.get_k()).i("n", (long long)s.get_n()).b("empty", s.is_empty()).raw("cumwt", bv((double)s.get_cumulative_weight()))
      .raw("c", bv((double)s.get_c())).raw("wtmax", bv(kn.wtmax)).raw("result", res.done()).done();
}
static void cat_eb(std::vector<Entry>& out) {
  struct K { const char* kind; int k; int n; int mode; };
  const K ks[] = { {"empty", 6, 0, 0}, {"one", 6, 1, 0}, {"underfull", 6, 4, 0}, {"full_equal", 6, 50, 0}, {"partial", 6, 50, 1}, {"partial_k3", 3, 20, 1} };
  for (const K& k : ks) {
    random_utils::override_seed(4242);
    ebpps_sketch<int64_t> s((uint32_t)k.k);
    EbKnown kn{0.0};
    for (int i = 1; i <= k.n; i++) { double w = k.mode ? 1.0 + (i % 5) : 1.0; kn.wtmax = std::max(kn.wtmax, w); s.update((int64_t)IV((long long)i * 17), w); }
    Entry e; e.family = "ebpps"; e.kind = k.kind; e.name = "ebpps_" + e.kind; e.hints = J().i("isz", 8).done();
    fill(e, s,
      [](const ebpps_sketch<int64_t>& o, bool st) { return st ? via_stream([&](std::ostream& os) { o.serialize(os); }) : tob(o.serialize()); },
      [kn](const Bytes& x, bool st) { if (!st) return ebpps_sketch<int64_t>::deserialize(x.data(), x.size()); auto is = in_stream(x); return ebpps_sketch<int64_t>::deserialize(is); },
      [kn](const ebpps_sketch<int64_t>& o) { return proj_eb(o, kn); });
    out.push_back(e);
  }
}

// ------------------------------------------------------------------ Bloom
// logical content = REFERENCE bit indices of the inserted items: ((h0 + i*h1) >> 1) mod capacity, i = 1..numHashes,
// h0 = XXH64(item, seed), h1 = XXH64(item, h0)
struct BlKnown { std::vector<int64_t> items; };
static std::string proj_bloom(bloom_filter& f, const BlKnown& kn, bool count_bits) {
  const uint64_t cap = f.get_capacity(), seed = f.get_seed();
  std::vector<uint64_t> idx;
  for (int64_t it : kn.items) {
    uint64_t h0 = refhash::xxh64(&it, 8, seed), h1 = refhash::xxh64(&it, 8, h0);
    for (uint64_t i = 1; i <= f.get_num_hashes(); i++) idx.push_back(((h0 + i * h1) >> 1) % cap);
  }
  std::sort(idx.begin(), idx.end()); idx.erase(std::unique(idx.begin(), idx.end()), idx.end());
  L bits; for (auto v : idx) bits.addi((long long)v);
  bool allq = true; for (int64_t it : kn.items) allq = allq && f.query(it);
  J j; j.i("nhashes", f.get_num_hashes()).raw("seed", bv(seed)).i("capacity", (long long)cap).b("empty", f.is_empty())
      .raw("bits", bits.done()).b("allfound", allq);
  j.i("bitsused", count_bits ? (long long)f.get_bits_used() : -1);
  return j.done();
}
static void cat_bloom(std::vector<Entry>& out) {
  struct K { const char* kind; int nbits; int nh; int n; uint64_t seed; bool clean; };
  const K ks[] = { {"empty", 128, 3, 0, 9001, true}, {"few_dirty", 128, 3, 4, 9001, false}, {"few_clean", 128, 3, 4, 9001, true},
                   {"odd_size", 100, 2, 9, 123456789, true}, {"larger", 1000, 5, 60, 0xfeedULL, false} };
  for (const K& k : ks) {
    auto f = bloom_filter::builder::create_by_size((uint64_t)k.nbits, (uint16_t)k.nh, k.seed);
    BlKnown kn;
    for (int i = 1; i <= k.n; i++) { int64_t v = (int64_t)IV((long long)i * 48271); f.update(v); kn.items.push_back(v); }
    bool clean = k.clean;
    if (clean) (void)f.get_bits_used();
    Entry e; e.family = "bloom"; e.kind = k.kind; e.name = "bloom_" + e.kind; e.hints = "{}";
    fill(e, f,
      [](const bloom_filter& o, bool st) { return st ? via_stream([&](std::ostream& os) { o.serialize(os); }) : tob(o.serialize()); },
      [kn, clean](const Bytes& x, bool st) { if (!st) return bloom_filter::deserialize(x.data(), x.size()); auto is = in_stream(x); return bloom_filter::deserialize(is); },
      [kn, clean](const bloom_filter& o) { return proj_bloom(const_cast<bloom_filter&>(o), kn, clean); });
    out.push_back(e);
  }
}

// ------------------------------------------------------------------ density
static std::string proj_den(const density_sketch<float>& s) {
  L pts;
  if (!s.is_empty()) for (auto it = s.begin(); it != s.end(); ++it) pts.add(L().add(bl((*it).first.data(), (*it).first.size() * sizeof(float))).addi(lg2((*it).second)).done());
  return J().i("k", s.get_k()).i("dim", s.get_dim()).i("n", (long long)s.get_n()).b("empty", s.is_empty()).i("nret", s.get_num_retained())
      .raw("pts", pts.done()).done();
}
static void cat_den(std::vector<Entry>& out) {
  struct K { const char* kind; int k; int dim; int n; };
  const K ks[] = { {"empty", 4, 3, 0}, {"one", 4, 3, 1}, {"exact", 10, 2, 9}, {"compacted", 4, 2, 60}, {"compacted_dim1", 6, 1, 200} };
  for (const K& k : ks) {
    random_utils::override_seed(31);
    density_sketch<float> s((uint16_t)k.k, (uint32_t)k.dim);
    for (int i = 1; i <= k.n; i++) { std::vector<float> p; for (int j = 0; j < k.dim; j++) p.push_back((float)(((PV(i) + j * 101) % 1009) * 0.125)); s.update(p); }
    Entry e; e.family = "density"; e.kind = k.kind; e.name = "density_" + e.kind; e.hints = "{}";
    fill(e, s,
      [](const density_sketch<float>& o, bool st) { return st ? via_stream([&](std::ostream& os) { o.serialize(os); }) : tob(o.serialize()); },
      [](const Bytes& x, bool st) { if (!st) return density_sketch<float>::deserialize(x.data(), x.size()); auto is = in_stream(x); return density_sketch<float>::deserialize(is); },
      [](const density_sketch<float>& o) { return proj_den(o); });
    out.push_back(e);
  }
}

} // namespace lay
