// Recording driver for the update Theta sketch (C01) with compact / serialization events (C09, C10 hashing).
// Runs randomized operation histories on the real classes from /repo and logs one ND-JSON event
// per public call.  Hashes offered to the specification are REFERENCE hashes (refhash.hpp).
#include <memory>
#include <sstream>
#include <algorithm>
#include <theta_sketch.hpp>
#include "vtrace.hpp"
#include "refhash.hpp"

using namespace datasketches;
using vt::Ev;

static const uint64_t MAXT = 0x7fffffffffffffffULL;

// reference seed hash: low 16 bits of MurmurHash3_x64_128 of the 8 seed bytes with seed 0
static long long ref_seed_hash(uint64_t seed) { return (long long)(refhash::murmur3_x64_128(&seed, 8, 0).h1 & 0xffff); }

template<class S> static std::string proj(const S& s, uint64_t seed) {
  std::vector<uint64_t> ent;
  for (auto it = s.begin(); it != s.end(); ++it) ent.push_back(*it);
  Ev r("x");
  r.s = "{\"z\":0";
  r.h("thetaH", s.get_theta64()).hl("ent", ent).b("empty", s.is_empty()).b("ordered", s.is_ordered())
   .i("n", s.get_num_retained()).b("estMode", s.is_estimation_mode()).d("est", s.get_estimate());
  double e = s.get_estimate();
  r.i("estI", (e == std::floor(e) && e < 2e9) ? (long long)e : -1);
  std::vector<double> lb, ub;
  for (int k = 1; k <= 3; k++) { lb.push_back(s.get_lower_bound(k)); ub.push_back(s.get_upper_bound(k)); }
  r.dl("lb", lb).dl("ub", ub);
  r.i("seedHash", s.get_seed_hash()).i("xSeedHash", ref_seed_hash(seed));
  r.s += "}";
  return r.s;
}

struct Item { int type; long long iv; double dv; std::string sv; };
static const char* TYPES[] = {"u64","i64","u32","i32","u16","i16","u8","i8","f64","f32","str","raw"};

// reference canonical bytes -> reference hash; returns false if the documentation says "ignored"
static bool ref_hash(const Item& it, uint64_t seed, uint64_t& h) {
  uint8_t buf[64]; size_t len = 8;
  int64_t c = 0;
  switch (it.type) {
    case 0: c = (int64_t)(uint64_t)it.iv; break;
    case 1: c = (int64_t)it.iv; break;
    case 2: c = (int64_t)(int32_t)(uint32_t)it.iv; break;
    case 3: c = (int64_t)(int32_t)it.iv; break;
    case 4: c = (int64_t)(int16_t)(uint16_t)it.iv; break;
    case 5: c = (int64_t)(int16_t)it.iv; break;
    case 6: c = (int64_t)(int8_t)(uint8_t)it.iv; break;
    case 7: c = (int64_t)(int8_t)it.iv; break;
    case 8: { uint64_t b = refhash::canon_double_bits(it.dv); memcpy(&c, &b, 8); break; }
    case 9: { uint64_t b = refhash::canon_double_bits((double)(float)it.dv); memcpy(&c, &b, 8); break; }
    case 10: case 11:
      if (it.type == 10 && it.sv.empty()) return false;
      h = refhash::murmur3_x64_128(it.sv.data(), it.sv.size(), seed).h1 >> 1; return true;
  }
  memcpy(buf, &c, 8);
  h = refhash::murmur3_x64_128(buf, len, seed).h1 >> 1;
  return true;
}

static void do_update(update_theta_sketch& s, const Item& it) {
  switch (it.type) {
    case 0: s.update((uint64_t)it.iv); break;
    case 1: s.update((int64_t)it.iv); break;
    case 2: s.update((uint32_t)it.iv); break;
    case 3: s.update((int32_t)it.iv); break;
    case 4: s.update((uint16_t)it.iv); break;
    case 5: s.update((int16_t)it.iv); break;
    case 6: s.update((uint8_t)it.iv); break;
    case 7: s.update((int8_t)it.iv); break;
    case 8: s.update((double)it.dv); break;
    case 9: s.update((float)it.dv); break;
    case 10: s.update(it.sv); break;
    case 11: s.update(it.sv.data(), it.sv.size()); break;
  }
}

static Item draw(vt::Rng& g, long wide) {
  Item it; it.type = (int)g.below(12); it.iv = 0; it.dv = 0;
  long long v = g.chance(35) ? g.range(-40, 300) : g.range(-wide, wide);
  if (it.type <= 7) it.iv = v;
  else if (it.type <= 9) {
    int c = (int)g.below(20);
    if (c == 0) it.dv = -0.0; else if (c == 1) it.dv = 0.0;
    else if (c == 2) it.dv = std::nan("1"); else if (c == 3) { uint64_t b = 0xfff8000000000123ULL; memcpy(&it.dv, &b, 8); }
    else if (c == 4) it.dv = INFINITY; else if (c == 5) it.dv = v + 0.5; else it.dv = (double)v;
  } else {
    if (g.chance(3)) it.sv = ""; else if (g.chance(30)) { int64_t x = v; it.sv.assign((const char*)&x, 8); }
    else if (g.chance(50)) it.sv = "k" + std::to_string(v);
    else {   // every byte length 1..48: the hash treats each length mod 16 (tail bytes) separately
      it.sv = "s" + std::to_string(v % 97); size_t len = 1 + (size_t)g.below(48);
      while (it.sv.size() < len) it.sv += (char)('a' + (it.sv.size() * 7 + (size_t)(v % 13 + 13)) % 26);
      it.sv.resize(len);
    }
    if (it.type == 11 && it.sv.empty()) it.sv = "z";
  }
  return it;
}

int main(int argc, char** argv) {
  refhash::self_check();
  vt::install_terminate();
  uint64_t seed = (uint64_t)vt::argl(argc, argv, "--seed", 1);
  long segments = vt::argl(argc, argv, "--segments", 10);
  long events = vt::argl(argc, argv, "--events", 600);
  long maxlgk = vt::argl(argc, argv, "--maxlgk", 9);
  int serde_pct = (int)vt::argl(argc, argv, "--serde", 4);
  vt::open_out(vt::arg(argc, argv, "--out", "/dev/stdout"));
  vt::Rng g(seed);
  static const float PS[] = {1.0f, 1.0f, 0.5f, 0.1f, 0.000001f};
  for (long seg = 0; seg < segments; seg++) {
    Ev("Begin").i("seg", seg).emit();
    const int NS = 3, NC = 4, NB = 4;
    std::unique_ptr<update_theta_sketch> sk[NS];
    std::unique_ptr<compact_theta_sketch> cv[NC];
    std::vector<uint8_t> blob[NB]; bool blobc[NB] = {false,false,false,false}; bool blive[NB] = {false,false,false,false};
    uint64_t hseed[NS], cseed[NC], bseed[NB]; uint8_t klg[NS], cklg[NC], bklg[NB];
    uint8_t lgk = (uint8_t)std::min(g.range(5, maxlgk), g.range(5, maxlgk));
    uint64_t sd = g.chance(25) ? g.next() % 100000 + 1 : DEFAULT_SEED;
    long wide = (1L << lgk) * (long)g.range(1, 6);
    const uint64_t sd2 = sd * 0x9E3779B97F4A7C15ULL + 12345;   // some sketches of a segment use another seed
    auto mk = [&](int i) {
      float p = PS[g.below(5)];
      auto rf = (resize_factor)g.below(4);
      const uint64_t myseed = g.chance(25) ? sd2 : sd;
      const uint8_t mylgk = (uint8_t)(g.chance(35) ? std::max(5, (int)lgk - 1 + (int)g.below(3)) : lgk);   // sketches of one segment differ in lg_k too
      klg[i] = mylgk;
      auto b = update_theta_sketch::builder();
      b.set_lg_k(mylgk).set_resize_factor(rf).set_p(p).set_seed(myseed);
      if (g.chance(30)) {
        // a REFUSED setter must leave the builder as it was
        int refused = 0;
        try { b.set_lg_k(g.chance(50) ? 4 : 27); } catch (const std::invalid_argument&) { refused++; }
        try { b.set_p(g.chance(50) ? 0.0f : 1.5f); } catch (const std::invalid_argument&) { refused++; }
        Ev("BuilderRefusal").i("refused", refused).i("of", 2).emit();
      }
      sk[i].reset(new update_theta_sketch(b.build()));
      hseed[i] = myseed;
      uint64_t startH = p < 1 ? (uint64_t)((double)MAXT * p) : MAXT;
      Ev("New").i("id", i).i("k", 1L << mylgk).i("lgk", mylgk).i("rf", (int)rf).h("startH", startH).h("maxH", MAXT).emit();
    };
    mk(0);
    for (long n = 0; n < events; n++) {
      int i = (int)g.below(NS);
      int op = (int)g.below(100);
      if (!sk[i]) { if (g.chance(20)) mk(i); else i = 0; }
      update_theta_sketch& s = *sk[i];
      if (op < 100 - 10 - 2 * serde_pct) {
        Item it = draw(g, wide);
        uint64_t h = 0; bool counted = ref_hash(it, hseed[i], h);
        do_update(s, it);
        Ev e(counted ? "Update" : "UpdateIgnored");
        e.i("id", i).str("type", TYPES[it.type]);
        if (counted) e.h("hH", h);
        e.h("thetaH", s.get_theta64()).i("n", s.get_num_retained()).b("empty", s.is_empty()).emit();
      } else if (op < 100 - 8 - 2 * serde_pct) {
        s.trim();
        Ev("Trim").i("id", i).h("thetaH", s.get_theta64()).i("n", s.get_num_retained()).b("empty", s.is_empty()).emit();
      } else if (op < 100 - 7 - 2 * serde_pct) {
        if (g.chance(30)) {
          s.reset();
          Ev("Reset").i("id", i).h("thetaH", s.get_theta64()).i("n", s.get_num_retained()).b("empty", s.is_empty()).emit();
        }
      } else if (op < 100 - 5 - 2 * serde_pct) {
        Ev("Obs").i("id", i).raw("r", proj(s, hseed[i])).emit();
      } else if (op < 100 - 3 - 2 * serde_pct) {
        int j = (int)g.below(NS);
        if (j != i) {
          // copy construction, copy assignment, move assignment from a temporary (targets of any configuration / emptiness)
          const int how = sk[j] ? (int)g.below(3) : 0;
          if (how == 1) *sk[j] = s; else if (how == 2) *sk[j] = update_theta_sketch(s); else sk[j].reset(new update_theta_sketch(s));
          hseed[j] = hseed[i]; klg[j] = klg[i];
          Ev("Copy").i("src", i).i("dst", j).raw("r", proj(*sk[j], hseed[j])).emit();
        }
      } else if (op < 100 - 2 * serde_pct) {
        int c = (int)g.below(NC); bool ord = g.chance(50);
        cv[c].reset(new compact_theta_sketch(s.compact(ord))); cseed[c] = hseed[i]; cklg[c] = klg[i];
        Ev("Compact").i("src", i).i("dst", c).b("ordered", ord).raw("r", proj(*cv[c], cseed[c])).emit();
      } else if (op < 100 - serde_pct) {
        int c = (int)g.below(NC); int b = (int)g.below(NB);
        if (cv[c]) {
          bool comp = g.chance(50);
          static const unsigned HS[] = {0, 0, 1, 7, 8, 13, 64};
          unsigned hdr = HS[g.below(7)];
          auto bytes = comp ? cv[c]->serialize_compressed(hdr) : cv[c]->serialize(hdr);
          std::ostringstream os; if (comp) cv[c]->serialize_compressed(os); else cv[c]->serialize(os);
          std::string st = os.str();
          blob[b].assign(bytes.begin() + hdr, bytes.end()); blobc[b] = comp; blive[b] = true; bseed[b] = cseed[c]; bklg[b] = cklg[c];
          Ev("Ser").i("src", c).i("blob", b).b("compressed", comp).i("hdr", hdr).i("total", (long long)bytes.size())
            .i("size", (long long)blob[b].size()).i("advertised", (long long)cv[c]->get_serialized_size_bytes(comp))
            .i("maxsize", (long long)compact_theta_sketch::get_max_serialized_size_bytes(cklg[c]))
            .bytes("img", blob[b].data(), blob[b].size()).bytes("simg", st.data(), st.size()).emit();
        }
      } else {
        int b = (int)g.below(NB); int c = (int)g.below(NC);
        if (blive[b]) {
          int path = (int)g.below(3);
          if (path == 0) {
            cv[c].reset(new compact_theta_sketch(compact_theta_sketch::deserialize(blob[b].data(), blob[b].size(), bseed[b]))); cseed[c] = bseed[b]; cklg[c] = bklg[b];
            auto re = blobc[b] ? cv[c]->serialize_compressed() : cv[c]->serialize();
            Ev("Deser").i("blob", b).i("dst", c).str("path", "bytes").i("consumed", (long long)blob[b].size())
              .bytes("reimg", re.data(), re.size()).raw("r", proj(*cv[c], cseed[c])).emit();
          } else if (path == 1) {
            std::string in((const char*)blob[b].data(), blob[b].size()); in += std::string(16, '\x5a');
            std::istringstream is(in);
            cv[c].reset(new compact_theta_sketch(compact_theta_sketch::deserialize(is, bseed[b]))); cseed[c] = bseed[b]; cklg[c] = bklg[b];
            long long consumed = (long long)is.tellg();
            auto re = blobc[b] ? cv[c]->serialize_compressed() : cv[c]->serialize();
            Ev("Deser").i("blob", b).i("dst", c).str("path", "stream").i("consumed", consumed)
              .bytes("reimg", re.data(), re.size()).raw("r", proj(*cv[c], cseed[c])).emit();
          } else {
            auto w = wrapped_compact_theta_sketch::wrap(blob[b].data(), blob[b].size(), bseed[b]);
            // a compact copy of the wrapped view, to continue with
            cv[c].reset(new compact_theta_sketch(w, w.is_ordered())); cseed[c] = bseed[b]; cklg[c] = bklg[b];
            Ev("Wrap").i("blob", b).i("dst", c).raw("r", proj(w, bseed[b])).raw("r2", proj(*cv[c], cseed[c])).emit();
            // the image is refused with any other seed
            bool refused = false;
            uint64_t other = bseed[b] + 1; while (ref_seed_hash(other) == ref_seed_hash(bseed[b])) other++;
            try { auto w2 = wrapped_compact_theta_sketch::wrap(blob[b].data(), blob[b].size(), other); (void)w2; refused = w.is_empty(); }
            catch (const std::invalid_argument&) { refused = true; }
            Ev("SeedMismatch").b("refused", refused).emit();
          }
        }
      }
    }
    for (int i = 0; i < NS; i++) if (sk[i]) Ev("Obs").i("id", i).raw("r", proj(*sk[i], hseed[i])).emit();
  }
  if (vt::argl(argc, argv, "--widths", 1)) {
    // every packing width of the compressed form on both paths: an ordered exact compact sketch whose entries are
    // chosen so that the largest delta needs exactly w bits (made by overwriting the entries of a real uncompressed
    // image), more than one block of 8 plus a remainder, serialized compressed to bytes and to a stream, restored
    // from both.  The abstract content of the injected image is logged (Inject) and everything after is validated
    // against it.
    Ev("Begin").i("seg", segments).str("mode", "widths").emit();
    const int NC = 4, NB = 4;
    std::unique_ptr<compact_theta_sketch> cv[NC];
    for (int w = 1; w <= 63; w++) {
      const int n = 9 + (int)((w * 5 + g.below(3)) % 20);
      auto u = update_theta_sketch::builder().set_lg_k(12).build();
      for (int i = 0; i < n; i++) u.update((uint64_t)i);
      auto img = u.compact(true).serialize();
      const size_t first = img.size() - (size_t)n * 8;
      std::vector<uint64_t> ent; uint64_t h = 0;
      const int big = (int)g.below((uint64_t)n);     // the delta that carries the top bit
      for (int i = 0; i < n; i++) {
        const int sw = w <= 58 ? w : 55;               // keep the sum below 2^63
        uint64_t d = sw >= 64 ? g.next() : (g.next() & ((1ULL << sw) - 1));
        if (i == big) d = (1ULL << (w - 1)) | (w > 1 ? (g.next() & ((1ULL << (w - 1)) - 1)) : 0);
        if (d == 0) d = 1;
        if (i != big && w < 64 && (d >> (w - 1)) > 1) d &= (1ULL << w) - 1;
        h += d; ent.push_back(h); memcpy(img.data() + first + 8 * (size_t)i, &h, 8);
      }
      if (h >= MAXT) continue;
      const int c = w % NC, b = w % NB;
      cv[c].reset(new compact_theta_sketch(compact_theta_sketch::deserialize(img.data(), img.size())));
      Ev("Inject").i("dst", c).i("w", w).h("thetaH", MAXT).h("maxH", MAXT).b("empty", false).hl("ent", ent).raw("r", proj(*cv[c], DEFAULT_SEED)).emit();
      auto bytes = cv[c]->serialize_compressed();
      std::ostringstream os; cv[c]->serialize_compressed(os); std::string st = os.str();
      Ev("Ser").i("src", c).i("blob", b).i("w", w).b("compressed", true).i("hdr", 0).i("total", (long long)bytes.size())
        .i("size", (long long)bytes.size()).i("advertised", (long long)cv[c]->get_serialized_size_bytes(true))
        .i("maxsize", (long long)compact_theta_sketch::get_max_serialized_size_bytes(12)).i("entryBits", bytes.size() > 3 ? bytes[3] : -1)
        .bytes("img", bytes.data(), bytes.size()).bytes("simg", st.data(), st.size()).emit();
      for (int path = 0; path < 2; path++) {
        const int c2 = (c + 1 + path) % NC;
        long long consumed;
        if (path == 0) { cv[c2].reset(new compact_theta_sketch(compact_theta_sketch::deserialize(bytes.data(), bytes.size()))); consumed = (long long)bytes.size(); }
        else {   // the STREAM image through the stream reader
          std::istringstream is(st + std::string(16, '\x5a'));
          cv[c2].reset(new compact_theta_sketch(compact_theta_sketch::deserialize(is))); consumed = (long long)is.tellg();
        }
        auto re = cv[c2]->serialize_compressed();
        Ev("Deser").i("blob", b).i("dst", c2).str("path", path == 0 ? "bytes" : "stream").i("consumed", consumed)
          .bytes("reimg", re.data(), re.size()).raw("r", proj(*cv[c2], DEFAULT_SEED)).emit();
      }
    }
  }
  vt::close_out();
  fprintf(stderr, "theta_rec: %ld events\n", vt::g_events);
  return 0;
}
