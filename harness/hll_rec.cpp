// Recording driver for hll_sketch (C03) with estimate/bound observations (C06) and serialization events (C09).
// Each segment keeps HLL_4 / HLL_6 / HLL_8 sketches and one start_full_size sketch in lock-step on the same items
// (DESIGN C03), plus conversion copies, plain copies, permuted re-feeds and objects restored from images, all of them
// continuing with the same operations.  One ND-JSON event per public call; the coupon offered to the specification is
// the REFERENCE coupon computed by hll_common.hpp / refhash.hpp, never the library's.
#include "hll_common.hpp"

using namespace datasketches;
using namespace hc;
using vt::Ev;

static const int NS = 10, NB = 4;
static void do_deser(vt::Rng& g, int b, int want_dst = -1, int want_stream = -1);
struct Group { std::vector<Item> items; long version = 0; bool crafted = false; };   // crafted: holds coupons no item can reproduce
struct Obj { std::unique_ptr<hll_sketch> s; int grp = -1; bool restored = false; Item last; bool has_last = false; };   // last: the item of the most recent update call on this VARIABLE
struct Blob { bool crafted = false; bool live = false; std::vector<uint8_t> bytes; bool compact = false; int grp = -1; long version = 0; std::vector<Item> items; };

static Obj obj[NS];
static std::vector<Group> groups;
static Blob blob[NB];
static long g_budget = 0;

static std::vector<int> members(int g) { std::vector<int> r; for (int i = 0; i < NS; i++) if (obj[i].s && obj[i].grp == g) r.push_back(i); return r; }
static int new_group(std::vector<Item> items) { groups.emplace_back(); groups.back().items = std::move(items); return (int)groups.size() - 1; }
static std::string bools(const std::vector<bool>& v) { std::string s = "["; for (size_t i = 0; i < v.size(); i++) { if (i) s += ","; s += v[i] ? "true" : "false"; } return s + "]"; }
static target_hll_type tt(int t) { return t == 4 ? HLL_4 : (t == 6 ? HLL_6 : HLL_8); }

static void emit_new(int id) {
  View v = view(*obj[id].s, false);
  Ev("New").i("id", id).i("lgk", v.lgk).i("type", v.type).b("full", (v.flags & 32) != 0).i("mode", v.mode).b("empty", obj[id].s->is_empty()).emit();
}

// the same item offered to every sketch in ids; originals and restored objects are logged as two events so that a
// rejection on an object restored from an image is attributed to C09
static void emit_update(const std::vector<int>& ids, const Item& it) {
  Coupon c{0, 0}; bool counted = ref_coupon(it, c);
  for (int id : ids) { do_update(*obj[id].s, it); obj[id].last = it; obj[id].has_last = true; }
  for (int pass = 0; pass < 2; pass++) {
    std::vector<int> sel, m, sv; std::vector<bool> em; std::string ph = "[";
    for (int id : ids) if ((int)obj[id].restored == pass) {
      sel.push_back(id); em.push_back(obj[id].s->is_empty());
      if (counted) { if (ph.size() > 1) ph += ","; ph += phys(*obj[id].s, c.addr, false); }
      if (obj[id].s->get_lg_config_k() > 16) { m.push_back(mode_light(*obj[id].s)); sv.push_back(-1); continue; }   // registers only at Obs
      View v = view(*obj[id].s);
      m.push_back(v.mode);
      sv.push_back(v.cmode == 2 ? (int)v.regs[c.addr & (((uint32_t)1 << v.lgk) - 1)] : -1);
    }
    if (sel.empty()) continue;
    Ev e(counted ? "Update" : "UpdateIgnored");
    e.il("ids", sel).str("ty", TYPES[it.type]);
    if (counted) e.raw("c", "[" + std::to_string(c.addr) + "," + std::to_string(c.val) + "]").il("sv", sv).raw("ph", ph + "]");
    e.il("m", m).raw("em", bools(em));
    if (pass) e.b("restored", true);
    e.emit(); g_budget--;
  }
}

// observation of several objects in one event: the specification compares every projection with the contract state and
// the estimates of objects whose contract states agree
static void emit_obs(const std::vector<int>& ids) {
  std::string o = "[", r = "["; int ref = -1; bool anyr = false;
  for (int id : ids) {
    if (!obj[id].restored) { if (o.size() > 1) o += ","; o += proj(id, *obj[id].s); if (ref < 0) ref = id; }
    else { if (r.size() > 1) r += ","; r += proj(id, *obj[id].s); anyr = true; }
  }
  if (ref >= 0) { Ev("Obs").raw("objs", o + "]").emit(); g_budget--; }
  if (anyr) {
    Ev e("Obs"); e.raw("objs", r + "]");
    if (ref >= 0) e.raw("ref", light(ref, *obj[ref].s));
    e.b("restored", true).emit(); g_budget--;
  }
}

static int pick_live(vt::Rng& g) { for (;;) { int i = (int)g.below(NS); if (obj[i].s) return i; } }
static int pick_dst(vt::Rng& g, int avoid) { for (;;) { int i = 4 + (int)g.below(NS - 4); if (i != avoid) return i; } }

// After a state-replacing operation on a variable (reset, copy / move assignment, deserialize into it) the very next update may be
// ANY item - in particular the item that variable saw last before the operation: offer exactly that one to its whole group.
static void replay_last(int id, const Item& it) {
  int gr = obj[id].grp;
  groups[gr].items.push_back(it); groups[gr].version++;
  emit_update(members(gr), it);
}

// deserialize blob b (or a random live one) into a free slot, bytes or stream path (16 sentinel bytes appended)
static void do_deser(vt::Rng& g, int b, int want_dst, int want_stream) {
  if (b < 0) b = (int)g.below(NB);
  if (!blob[b].live) return;
  Blob& bl = blob[b];
  int dst = want_dst >= 0 ? want_dst : pick_dst(g, -1);
  bool stream = want_stream >= 0 ? want_stream != 0 : g.chance(50);
  long long consumed;
  std::unique_ptr<hll_sketch> n;
  if (!stream) {
    n.reset(new hll_sketch(hll_sketch::deserialize(bl.bytes.data(), bl.bytes.size())));
    consumed = (long long)bl.bytes.size();
  } else {
    std::string in((const char*)bl.bytes.data(), bl.bytes.size()); in += std::string(16, '\x5a');
    std::istringstream is(in);
    n.reset(new hll_sketch(hll_sketch::deserialize(is)));
    consumed = (long long)is.tellg();
  }
  auto re = bl.compact ? n->serialize_compact() : n->serialize_updatable();
  std::vector<uint8_t> rev(re.begin(), re.end());
  auto cn = canon(rev);
  bool into_existing = obj[dst].s && obj[dst].has_last && g.chance(50);
  Item prev = obj[dst].last;
  if (into_existing) *obj[dst].s = std::move(*n);      // move-assignment into a live variable
  else { obj[dst].s = std::move(n); obj[dst].has_last = false; }
  obj[dst].restored = true;
  // the restored object continues in lock-step with its source if the source has not moved on since
  if (groups[bl.grp].version == bl.version && !members(bl.grp).empty()) obj[dst].grp = bl.grp;
  else { obj[dst].grp = new_group(bl.items); groups[obj[dst].grp].crafted = bl.crafted; }
  View dv = view(*obj[dst].s, false);
  Ev("Deser").i("blob", b).i("dst", dst).str("path", stream ? "stream" : "bytes").str("form", bl.compact ? "compact" : "updatable")
    .i("type", dv.type).i("mode", dv.mode).b("empty", obj[dst].s->is_empty()).i("consumed", consumed)
    .bytes("reimg", rev.data(), rev.size()).bytes("recanon", cn.data(), cn.size())
    .raw("r", proj(dst, *obj[dst].s)).b("restored", true).emit();
  g_budget--;
  if (into_existing) replay_last(dst, prev);
}

// serialize sketch src into a blob: compact (with header sizes) or updatable, bytes and stream
static int do_ser(vt::Rng& g, int src, int force_compact) {
  int b = (int)g.below(NB);
  hll_sketch& s = *obj[src].s;
  bool compact = force_compact < 0 ? g.chance(55) : force_compact != 0;
  static const unsigned HS[] = {0, 0, 1, 7, 8, 13, 64};
  unsigned hdr = compact ? HS[g.below(7)] : 0;
  auto bytes = compact ? s.serialize_compact(hdr) : s.serialize_updatable();
  auto bytes0 = compact ? s.serialize_compact() : s.serialize_updatable();
  std::ostringstream os; if (compact) s.serialize_compact(os); else s.serialize_updatable(os);
  std::string st = os.str();
  Blob& bl = blob[b];
  bl.live = true; bl.compact = compact; bl.bytes.assign(bytes.begin() + hdr, bytes.end());
  bl.grp = obj[src].grp; bl.version = groups[bl.grp].version; bl.items = groups[bl.grp].items; bl.crafted = groups[bl.grp].crafted;
  View v = view(s, false);
  long long mx = v.type == 4 ? -1 : (long long)hll_sketch::get_max_updatable_serialization_bytes((uint8_t)v.lgk, tt(v.type));
  auto cn = canon(bl.bytes);
  Ev e("Ser");
  e.i("src", src).i("blob", b).str("form", compact ? "compact" : "updatable").i("hdr", hdr).i("total", (long long)bytes.size())
   .i("size", (long long)bl.bytes.size())
   .i("advertised", (long long)(compact ? s.get_compact_serialization_bytes() : s.get_updatable_serialization_bytes()))
   .i("maxsize", mx)
   .bytes("img", bl.bytes.data(), bl.bytes.size()).bytes("img0", bytes0.data(), bytes0.size()).bytes("simg", st.data(), st.size())
   .bytes("canon", cn.data(), cn.size()).raw("p", light(src, s));
  if (obj[src].restored) e.b("restored", true);
  e.emit(); g_budget--;
  return b;
}

// Uniform fill (lg_k <= 7): exactly one mined item per slot, all with the same value v in 1..3, in random order, to the whole base
// group (promoted HLL_4/6/8 and start_full_size sketches).  At the moment the last slot is filled every slot holds v: HLL_4 has
// cur-min v and numAtCurMin k, i.e. the counters look like those of an untouched array.  Observations (is_empty on every update,
// Obs, serialize + deserialize of the HLL_4 sketches) are taken with all slots but two / one filled and exactly at that moment;
// optionally one slot is far ahead (aux exception) while the rest sits at cur-min.  Returns false if the pool lacks a slot.
static bool uniform_fill(vt::Rng& g, const Mined& mined, const Pool& pool, int g0, int lgk) {
  uint32_t v = (uint32_t)g.range(1, 3);
  auto idx = mined.by_slot(lgk, v);
  for (auto& c : idx) if (c.empty()) return false;
  size_t k = idx.size();
  std::vector<size_t> order(k);
  for (size_t i = 0; i < k; i++) order[i] = i;
  for (size_t a = k; a > 1; a--) std::swap(order[a - 1], order[g.below(a)]);
  auto ids = members(g0);
  auto feed1 = [&](const Item& it) { groups[g0].items.push_back(it); groups[g0].version++; emit_update(ids, it); };
  int ahead_at = g.chance(40) ? (int)g.below(k) : -1;     // position at which one high-value item (value >= 15) is offered
  for (size_t n = 0; n < k; n++) {
    if ((int)n == ahead_at) feed1(pool.pick(g, (uint32_t)g.range(15, 18)));
    feed1(mined.item(idx[order[n]][g.below(idx[order[n]].size())], g));
    if (n + 3 >= k) emit_obs(ids);                                                  // all but two, all but one, all slots at v
  }
  // exactly now: round trips of the HLL_4 sketches (the image carries the EMPTY flag of is_empty()), restored copies join the group
  for (int id : ids) if (obj[id].s->get_target_type() == HLL_4 && !obj[id].restored) { int b = do_ser(g, id, (int)g.below(2)); do_deser(g, b); }
  emit_obs(members(g0));
  return true;
}

// Directed C09 segment (present in every file): restore from the EMPTY state, from the state right after reset() and from
// exactly ONE item, in every form (compact / updatable) through every path (bytes / stream), for HLL_4/6/8 with start_full_size
// off and on; every restored sketch then CONTINUES in lock-step with its source through list, set and HLL mode (is_empty, mode,
// registers / coupons at Obs, estimates equal to the source's).
static void restore_rounds(vt::Rng& g, int g0, int lgk, long wide) {
  long k = 1L << lgk;
  long promo = lgk < 8 ? 8 : 3 * k / 32 + 1;
  auto feed1 = [&](const Item& it) { groups[g0].items.push_back(it); groups[g0].version++; emit_update(members(g0), it); };
  Item before_reset; bool have_before = false;
  for (int round = 0; round < 3; round++) {
    if (round > 0 && !members(g0).empty()) { int f = members(g0)[0]; have_before = obj[f].has_last; before_reset = obj[f].last; }
    if (round > 0) {                                   // round 1: the state right after reset(); round 2: reset, then one item
      auto ids = members(g0);
      groups[g0].items.clear(); groups[g0].version++; groups[g0].crafted = false;
      for (int id : ids) {
        obj[id].s->reset();
        View v = view(*obj[id].s, false);
        Ev e("Reset"); e.i("id", id).i("mode", v.mode).b("empty", obj[id].s->is_empty());
        if (obj[id].restored) e.b("restored", true);
        e.emit(); g_budget--;
      }
    }
    if (round == 2) { Item it; do it = draw(g, wide); while ((it.type == 10 && it.sv.empty())); if (have_before && g.chance(50)) it = before_reset; feed1(it); }
    // four restores per round: sources rotate over the six originals, (form, path) over the four combinations
    for (int slot = 0; slot < 4; slot++) {
      int src = (round * 2 + slot + (int)g.below(2) * 3) % 6;
      if (!obj[src].s || obj[src].restored) src = slot % 4;
      int combo = (slot + round) % 4;
      int b = do_ser(g, src, combo & 1);
      do_deser(g, b, 6 + slot, combo >> 1);
    }
    emit_obs(members(g0));
    // continue: across the promotion points, with duplicates, observing on the way
    long n = std::min(2 * promo + 40, 260L);
    for (long j = 0; j < n; j++) {
      Item it = draw(g, wide);
      if (g.chance(8) && !groups[g0].items.empty()) it = groups[g0].items[g.below(groups[g0].items.size())];
      if (j == 0 && round == 1 && have_before) it = before_reset;       // the very next update after reset(): the last item before it
      feed1(it);
      if (j == 0 || j == 7 || j == promo - 1 || j == promo || j % 50 == 49) emit_obs(members(g0));
    }
    emit_obs(members(g0));
  }
}

// Deterministic sweep over the bounds tables (every file, start of segment 0): for every lg_k 4..13 an in-order sketch in HLL
// mode (type and start_full_size rotating), observed once: lb3 <= lb2 <= lb1 <= est <= ub1 <= ub2 <= ub3 and the relative
// half-widths against sd * RSE(lg_k) - one row of RelativeErrorTables per lg_k <= 12, the closed formula above.
static void bounds_sweep(vt::Rng& g, long seed_off) {
  static const int T3s[] = {4, 6, 8};
  for (int lgk = 4; lgk <= 13; lgk++) {
    long k = 1L << lgk, promo = lgk < 8 ? 8 : 3 * k / 32 + 1;
    int id = 9;
    obj[id].s.reset(new hll_sketch((uint8_t)lgk, tt(T3s[(lgk + seed_off) % 3]), ((lgk + seed_off) / 3) % 2 == 0));
    obj[id].grp = new_group({}); obj[id].restored = false;
    emit_new(id);
    long n = promo + g.range(20, std::max(40L, k));
    std::vector<Coupon> cs;
    for (long j = 0; j < n; j++) {
      Item it = draw(g, 1L << 22); Coupon c;
      do_update(*obj[id].s, it);
      if (ref_coupon(it, c)) cs.push_back(c);
      if (cs.size() == 1000 || (j == n - 1 && !cs.empty())) {
        View v = view(*obj[id].s, false);
        Ev("Feed").i("id", id).raw("cs", coupons_json(cs)).i("mode", v.mode).b("empty", obj[id].s->is_empty()).raw("ph", phys(*obj[id].s, cs.back().addr, false)).emit();
        cs.clear();
      }
    }
    emit_obs({id});
    obj[id].s.reset(); obj[id].grp = -1;
  }
}

// Plant mined groups (hll_common.hpp Mined) into the base lock-step group, with an observation on both sides:
//   a pair of DISTINCT coupons with the same 26-bit address (larger value first or last), a pair of distinct items with the
//   identical coupon, a same-slot group with different addresses (equal and different values), and high-value steering items
//   on that slot.  Called once per phase of obj[0]: early LIST, LIST about to be promoted (the group straddles the promotion),
//   SET, SET about to be promoted, HLL right after promotion, HLL late.
static void plant(vt::Rng& g, const Mined& mined, const Pool& pool, int g0, int lgk) {
  auto ids = members(g0);
  if (ids.empty()) return;
  std::vector<Item> seq;
  if (!mined.same_addr.empty()) {
    auto pr = mined.same_addr[g.below(mined.same_addr.size())];
    bool larger_first = g.chance(50);
    seq.push_back(mined.item(larger_first ? pr.first : pr.second, g));
    seq.push_back(mined.item(larger_first ? pr.second : pr.first, g));
  }
  if (!mined.same_coupon.empty() && g.chance(50)) {
    auto pr = mined.same_coupon[g.below(mined.same_coupon.size())];
    seq.push_back(mined.item(pr.first, g)); seq.push_back(mined.item(pr.second, g));
  }
  {
    auto grp = mined.same_slot(lgk, (int)g.below(mined.all.size()), 3 + g.below(3));
    for (size_t a = grp.size(); a > 1; a--) std::swap(grp[a - 1], grp[g.below(a)]);
    for (int i : grp) seq.push_back(mined.item(i, g));
    // high-value items on the same slot, where the pool has any (small k)
    uint32_t mask = ((uint32_t)1 << lgk) - 1, slot = grp.empty() ? 0 : (mined.all[grp[0]].second.addr & mask);
    int added = 0;
    for (size_t i = g.below(pool.hi.size()), n = 0; n < pool.hi.size() && added < 2; n++, i = (i + 1) % pool.hi.size())
      if ((pool.hi[i].second.addr & mask) == slot) { Item it; it.type = 0; it.dv = 0; it.iv = (long long)pool.hi[i].first; seq.push_back(it); added++; }
  }
  if (g.chance(30)) std::swap(seq[0], seq[seq.size() - 1]);
  emit_obs(ids);
  for (auto& it : seq) { groups[g0].items.push_back(it); groups[g0].version++; emit_update(ids, it); }
  emit_obs(ids);
}

int main(int argc, char** argv) {
  refhash::self_check();
  vt::install_terminate();
  uint64_t seed = (uint64_t)vt::argl(argc, argv, "--seed", 1);
  long segments = vt::argl(argc, argv, "--segments", 6);
  long events = vt::argl(argc, argv, "--events", 1500);
  long minlgk = vt::argl(argc, argv, "--minlgk", 4);
  long maxlgk = vt::argl(argc, argv, "--maxlgk", 12);
  int serde_arg = (int)vt::argl(argc, argv, "--serde", 4);
  long hilo = vt::argl(argc, argv, "--hilo", 17), hihi = vt::argl(argc, argv, "--hihi", 18);   // lg_k range of the high-precision segment (0 0: none)
  vt::open_out(vt::arg(argc, argv, "--out", "/dev/stdout"));
  vt::Rng g(seed);
  Pool pool; pool.build(1u << 21);
  Mined mined; mined.build(200000);
  for (long seg = 0; seg < segments; seg++) {
    Ev("Begin").i("seg", seg).emit();
    for (int i = 0; i < NS; i++) { obj[i].s.reset(); obj[i].grp = -1; obj[i].restored = false; }
    for (int b = 0; b < NB; b++) blob[b] = Blob();
    groups.clear();
    // small lg_k twice as likely: cur-min shifts and aux exceptions need n >> k
    uint8_t lgk = (uint8_t)(g.chance(50) ? g.range(minlgk, std::max(minlgk, std::min(maxlgk, 7L))) : g.range(minlgk, maxlgk));
    // one high-precision segment per file (lg_k > 16, sparse observation): start_full_size sketches of all three types are in
    // HLL mode from the first update, the others stay in LIST / SET mode; no serde (images of megabytes)
    bool high = hihi >= hilo && hilo > 16 && seg == segments - 1;
    int serde_pct = high ? 0 : serde_arg;
    if (high) lgk = (uint8_t)g.range(hilo, hihi);
    else if (seg == 1) lgk = (uint8_t)g.range(std::max(4L, minlgk), std::max(minlgk, std::min(maxlgk, 7L)));
    bool restore_seg = !high && seg == 3;     // directed C09 segment: restore at empty / after reset / one item, then continue
    if (restore_seg) lgk = (uint8_t)g.range(std::max(4L, minlgk), std::max(minlgk, std::min(maxlgk, 9L)));
    long k = 1L << lgk;
    g_budget = high ? 260 : events + (lgk <= 6 ? 0 : (long)g.range(0, events / 2));
    long wide = std::max(64L, (long)(g_budget * (g.chance(30) ? 0.2 : 2.0)));   // narrow ranges give duplicate-heavy streams
    int steer = g.chance(60) ? (int)g.range(5, 30) : 0;                           // % of updates drawn from the high-value pool
    int obs_pct = high ? 2 : (lgk >= 11 ? 1 : (lgk >= 9 ? 2 : 4));
    if (seg == 0) bounds_sweep(g, (long)(seed % 6));
    int g0 = new_group({});
    static const int T3[] = {4, 6, 8};
    // crafted segment (segment 2 of a file and 15 % of the others, lg_k <= 10): the three lock-step sketches are deserialized from
    // hand-written coupon-list images holding coupon values 32..63 (kxq1, aux exceptions far above cur-min, bit 5 of the 6-bit
    // slots); two coupons share a slot so that the promotion replay overwrites a value >= 32 with a larger one
    bool crafted = !high && !restore_seg && lgk <= 10 && (seg == 2 || g.chance(15));
    if (crafted) {
      auto cs = craft_coupons(g, lgk);
      for (int i = 0; i < 3; i++) {
        auto img = craft_list_image(lgk, T3[i], cs);
        obj[i].s.reset(new hll_sketch(hll_sketch::deserialize(img.data(), img.size()))); obj[i].grp = g0;
        Ev("Craft").i("dst", i).i("lgk", lgk).i("type", T3[i]).raw("cs", coupons_json(cs)).raw("r", proj(i, *obj[i].s)).emit();
      }
      groups[g0].crafted = true;
      emit_obs(members(g0));
    } else
    for (int i = 0; i < 3; i++) { obj[i].s.reset(new hll_sketch(lgk, tt(T3[i]), false)); obj[i].grp = g0; emit_new(i); }
    int t3 = T3[g.below(3)];
    obj[3].s.reset(new hll_sketch(lgk, tt(t3), true)); obj[3].grp = crafted ? new_group({}) : g0; emit_new(3);
    if (high || restore_seg) {      // start_full_size sketches of all three types
      int at = 4;
      for (int t : T3) if (t != t3) { obj[at].s.reset(new hll_sketch(lgk, tt(t), true)); obj[at].grp = g0; emit_new(at); at++; }
    }
    if (high) {
      // items whose address has all top bits set: slots >= 2^16 and the last slots of the array
      auto ta = mined.top_addr();
      for (int n = 0; n < 8 && !ta.empty(); n++) { Item it = mined.item(ta[g.below(ta.size())], g); groups[g0].items.push_back(it); groups[g0].version++; emit_update(members(g0), it); }
      emit_obs(members(g0));
    }
    // uniform fill first (small lg_k): always in segment 1 of a file, otherwise in 40 % of the small segments
    if (restore_seg) restore_rounds(g, g0, lgk, wide);
    if (!high && !crafted && !restore_seg && lgk <= 7 && (seg == 1 || g.chance(40))) {
      if (t3 != 4 && !obj[4].s) { obj[4].s.reset(new hll_sketch(lgk, HLL_4, true)); obj[4].grp = g0; emit_new(4); }   // a start_full_size HLL_4 in any case
      uniform_fill(g, mined, pool, g0, lgk);
    }
    unsigned planted = 0;      // phases of obj[0] in which the mined groups were planted already
    int late_at = (int)(g_budget / 3);
    while (g_budget > 0) {
      if (obj[0].s && obj[0].grp == g0) {
        View v0 = view(*obj[0].s);
        long cnt = v0.cnt, setmax = 3 * k / 32;
        int phase = -1;
        if (v0.mode == 0) phase = cnt <= 2 ? 0 : (cnt >= 5 ? 1 : -1);
        else if (v0.mode == 1) phase = cnt >= setmax - 2 ? 3 : (cnt >= 12 ? 2 : -1);
        else phase = g_budget <= late_at ? 5 : 4;
        if (phase >= 0 && !(planted & (1u << phase))) { planted |= 1u << phase; plant(g, mined, pool, g0, lgk); continue; }
      }
      int op = (int)g.below(100);
      int serde2 = 2 * serde_pct;
      if (op < 100 - 16 - serde2) {
        // lock-step update of a whole group (mostly the base group)
        int gi = g.chance(80) ? g0 : obj[pick_live(g)].grp;
        auto ids = members(gi);
        if (ids.empty()) continue;
        Item it = (steer && g.chance(steer)) ? pool.pick(g, (uint32_t)g.range(12, 19)) : draw(g, wide);
        if (g.chance(5) && !groups[gi].items.empty()) it = groups[gi].items[g.below(groups[gi].items.size())];   // exact duplicate
        groups[gi].items.push_back(it); groups[gi].version++;
        emit_update(ids, it);
      } else if (op < 100 - 13 - serde2) {
        // one object continues alone (leaves its group)
        int i = 4 + (int)g.below(NS - 4);      // the four base sketches stay in lock-step for the whole segment
        if (!obj[i].s) continue;
        if (members(obj[i].grp).size() > 1) { bool cr = groups[obj[i].grp].crafted; int ng = new_group(groups[obj[i].grp].items); groups[ng].crafted = cr; obj[i].grp = ng; }
        Item it = g.chance(20) ? pool.pick(g, 12) : draw(g, wide);
        groups[obj[i].grp].items.push_back(it); groups[obj[i].grp].version++;
        emit_update({i}, it);
      } else if (op < 100 - 13 + obs_pct - serde2) {
        emit_obs(members(g.chance(70) ? g0 : obj[pick_live(g)].grp));
      } else if (op < 100 - 9 - serde2) {
        if (g.chance(25)) { int i = pick_live(g); emit_bad_arg(*obj[i].s, "id", i, g); g_budget--; }
        continue;   // (otherwise reserved share: keeps the mix stable when obs_pct < 4)
      } else if (op < 100 - 6 - serde2) {
        // conversion copy: joins the lock-step group of its source
        int src = pick_live(g), dst = pick_dst(g, src); int t = T3[g.below(3)];
        std::unique_ptr<hll_sketch> n(new hll_sketch(*obj[src].s, tt(t)));
        obj[dst].s = std::move(n); obj[dst].grp = obj[src].grp; obj[dst].restored = obj[src].restored;
        Ev e("Convert"); e.i("src", src).i("dst", dst).i("type", t).raw("r", proj(dst, *obj[dst].s)).raw("ref", light(src, *obj[src].s));
        if (obj[dst].restored) e.b("restored", true);
        e.emit(); g_budget--;
      } else if (op < 100 - 5 - serde2) {
        int src = pick_live(g), dst = pick_dst(g, src);
        bool assign = obj[dst].s && g.chance(60);
        bool had = assign && obj[dst].has_last; Item prev = obj[dst].last;
        if (assign) { if (g.chance(50)) *obj[dst].s = *obj[src].s; else *obj[dst].s = hll_sketch(*obj[src].s); }     // copy- or move-assignment
        else { obj[dst].s.reset(new hll_sketch(*obj[src].s)); obj[dst].has_last = false; }
        obj[dst].grp = obj[src].grp; obj[dst].restored = obj[src].restored;
        Ev e("Copy"); e.i("src", src).i("dst", dst).b("assign", assign).raw("r", proj(dst, *obj[dst].s)).raw("ref", light(src, *obj[src].s));
        if (obj[dst].restored) e.b("restored", true);
        e.emit(); g_budget--;
        if (had) replay_last(dst, prev);
      } else if (op < 100 - 4 - serde2) {
        if (!g.chance(25)) continue;
        // reset: a whole group (stays in lock-step) or one object
        int i = pick_live(g);
        std::vector<int> ids;
        if (i < 4 || g.chance(60)) ids = members(obj[i].grp); else { ids = {i}; if (members(obj[i].grp).size() > 1) obj[i].grp = new_group({}); }
        groups[obj[i].grp].items.clear(); groups[obj[i].grp].version++; groups[obj[i].grp].crafted = false;
        if (obj[i].grp == g0) planted = 0;     // the base group starts over: plant again in every phase
        bool had = obj[i].has_last; Item prev = obj[i].last;
        for (int id : ids) {
          obj[id].s->reset();
          View v = view(*obj[id].s, false);
          Ev e("Reset"); e.i("id", id).i("mode", v.mode).b("empty", obj[id].s->is_empty());
          if (obj[id].restored) e.b("restored", true);
          e.emit(); g_budget--;
        }
        if (had) replay_last(i, prev);
      } else if (op < 100 - serde2) {
        // permuted re-feed of everything a group has seen into a fresh sketch of another type
        if (!g.chance(40)) continue;
        int gi = obj[pick_live(g)].grp;
        auto& items = groups[gi].items;
        if (groups[gi].crafted || items.empty() || (long)items.size() > std::min(g_budget, 4 * k + 400)) continue;
        auto ids = members(gi);
        int dst = pick_dst(g, -1);
        if (std::find(ids.begin(), ids.end(), dst) != ids.end()) continue;
        std::vector<Item> perm(items);
        for (size_t a = perm.size(); a > 1; a--) std::swap(perm[a - 1], perm[g.below(a)]);
        obj[dst].s.reset(new hll_sketch(lgk, tt(T3[g.below(3)]), g.chance(20)));
        obj[dst].restored = false; obj[dst].grp = new_group({});
        emit_new(dst);
        for (auto& it : perm) { groups[obj[dst].grp].items.push_back(it); emit_update({dst}, it); }
        groups[obj[dst].grp].version++;
        ids.push_back(dst);
        emit_obs(ids);
      } else if (op < 100 - serde_pct) {
        int b = do_ser(g, pick_live(g), -1);
        if (g.chance(75)) do_deser(g, b);
      } else {
        do_deser(g, -1);
      }
    }
    // final observation of everything alive, group by group
    std::vector<int> seen;
    for (int i = 0; i < NS; i++) if (obj[i].s && std::find(seen.begin(), seen.end(), obj[i].grp) == seen.end()) {
      seen.push_back(obj[i].grp); emit_obs(members(obj[i].grp));
    }
  }
  vt::close_out();
  fprintf(stderr, "hll_rec: %ld events (mined: %zu same-address pairs, %zu identical-coupon pairs)\n", vt::g_events, mined.same_addr.size(), mined.same_coupon.size());
  return 0;
}
