// Recording driver for hll_sketch (C03) with estimate/bound observations (C06) and serialization events (C09).
// Each segment keeps HLL_4 / HLL_6 / HLL_8 sketches and one start_full_size sketch in lock-step on the same items
// (DESIGN C03), plus conversion copies, plain copies, permuted re-feeds and objects restored from images, all of them
// continuing with the same operations.  One ND-JSON event per public call; the coupon offered to the specification is
// the REFERENCE coupon computed by hll_common.hpp / refhash.hpp, never the library's.
#include "hll_common.hpp"

using namespace datasketches;
using namespace hc;
using vt::Ev;

static const int NS = 10, NB = 4;
struct Group { std::vector<Item> items; long version = 0; };
struct Obj { std::unique_ptr<hll_sketch> s; int grp = -1; bool restored = false; };
struct Blob { bool live = false; std::vector<uint8_t> bytes; bool compact = false; int grp = -1; long version = 0; std::vector<Item> items; };

static Obj obj[NS];
static std::vector<Group> groups;
static Blob blob[NB];
static long g_budget = 0;

static std::vector<int> members(int g) { std::vector<int> r; for (int i = 0; i < NS; i++) if (obj[i].s && obj[i].grp == g) r.push_back(i); return r; }
static int new_group(std::vector<Item> items) { groups.emplace_back(); groups.back().items = std::move(items); return (int)groups.size() - 1; }
static std::string bools(const std::vector<bool>& v) { std::string s = "["; for (size_t i = 0; i < v.size(); i++) { if (i) s += ","; s += v[i] ? "true" : "false"; } return s + "]"; }
static target_hll_type tt(int t) { return t == 4 ? HLL_4 : (t == 6 ? HLL_6 : HLL_8); }

static void emit_new(int id) {
  View v = view(*obj[id].s, false);
  Ev("New").i("id", id).i("lgk", v.lgk).i("type", v.type).b("full", (v.flags & 32) != 0).i("mode", v.mode).b("empty", obj[id].s->is_empty()).emit();
}

// the same item offered to every sketch in ids; originals and restored objects are logged as two events so that a
// rejection on an object restored from an image is attributed to C09
static void emit_update(const std::vector<int>& ids, const Item& it) {
  Coupon c{0, 0}; bool counted = ref_coupon(it, c);
  for (int id : ids) do_update(*obj[id].s, it);
  for (int pass = 0; pass < 2; pass++) {
    std::vector<int> sel, m, sv; std::vector<bool> em;
    for (int id : ids) if ((int)obj[id].restored == pass) {
      View v = view(*obj[id].s);
      sel.push_back(id); m.push_back(v.mode); em.push_back(obj[id].s->is_empty());
      sv.push_back(v.cmode == 2 ? (int)v.regs[c.addr & (((uint32_t)1 << v.lgk) - 1)] : -1);
    }
    if (sel.empty()) continue;
    Ev e(counted ? "Update" : "UpdateIgnored");
    e.il("ids", sel).str("ty", TYPES[it.type]);
    if (counted) e.raw("c", "[" + std::to_string(c.addr) + "," + std::to_string(c.val) + "]").il("sv", sv);
    e.il("m", m).raw("em", bools(em));
    if (pass) e.b("restored", true);
    e.emit(); g_budget--;
  }
}

// observation of several objects in one event: the specification compares every projection with the contract state and
// the estimates of objects whose contract states agree
static void emit_obs(const std::vector<int>& ids) {
  std::string o = "[", r = "["; int ref = -1; bool anyr = false;
  for (int id : ids) {
    if (!obj[id].restored) { if (o.size() > 1) o += ","; o += proj(id, *obj[id].s); if (ref < 0) ref = id; }
    else { if (r.size() > 1) r += ","; r += proj(id, *obj[id].s); anyr = true; }
  }
  if (ref >= 0) { Ev("Obs").raw("objs", o + "]").emit(); g_budget--; }
  if (anyr) {
    Ev e("Obs"); e.raw("objs", r + "]");
    if (ref >= 0) e.raw("ref", light(ref, *obj[ref].s));
    e.b("restored", true).emit(); g_budget--;
  }
}

static int pick_live(vt::Rng& g) { for (;;) { int i = (int)g.below(NS); if (obj[i].s) return i; } }
static int pick_dst(vt::Rng& g, int avoid) { for (;;) { int i = 4 + (int)g.below(NS - 4); if (i != avoid) return i; } }

// deserialize blob b (or a random live one) into a free slot, bytes or stream path (16 sentinel bytes appended)
static void do_deser(vt::Rng& g, int b) {
  if (b < 0) b = (int)g.below(NB);
  if (!blob[b].live) return;
  Blob& bl = blob[b];
  int dst = pick_dst(g, -1);
  bool stream = g.chance(50);
  long long consumed;
  std::unique_ptr<hll_sketch> n;
  if (!stream) {
    n.reset(new hll_sketch(hll_sketch::deserialize(bl.bytes.data(), bl.bytes.size())));
    consumed = (long long)bl.bytes.size();
  } else {
    std::string in((const char*)bl.bytes.data(), bl.bytes.size()); in += std::string(16, '\x5a');
    std::istringstream is(in);
    n.reset(new hll_sketch(hll_sketch::deserialize(is)));
    consumed = (long long)is.tellg();
  }
  auto re = bl.compact ? n->serialize_compact() : n->serialize_updatable();
  std::vector<uint8_t> rev(re.begin(), re.end());
  auto cn = canon(rev);
  obj[dst].s = std::move(n); obj[dst].restored = true;
  // the restored object continues in lock-step with its source if the source has not moved on since
  if (groups[bl.grp].version == bl.version && !members(bl.grp).empty()) obj[dst].grp = bl.grp;
  else obj[dst].grp = new_group(bl.items);
  View dv = view(*obj[dst].s, false);
  Ev("Deser").i("blob", b).i("dst", dst).str("path", stream ? "stream" : "bytes").str("form", bl.compact ? "compact" : "updatable")
    .i("type", dv.type).i("mode", dv.mode).b("empty", obj[dst].s->is_empty()).i("consumed", consumed)
    .bytes("reimg", rev.data(), rev.size()).bytes("recanon", cn.data(), cn.size())
    .raw("r", proj(dst, *obj[dst].s)).b("restored", true).emit();
  g_budget--;
}

int main(int argc, char** argv) {
  refhash::self_check();
  vt::install_terminate();
  uint64_t seed = (uint64_t)vt::argl(argc, argv, "--seed", 1);
  long segments = vt::argl(argc, argv, "--segments", 6);
  long events = vt::argl(argc, argv, "--events", 1500);
  long minlgk = vt::argl(argc, argv, "--minlgk", 4);
  long maxlgk = vt::argl(argc, argv, "--maxlgk", 12);
  int serde_pct = (int)vt::argl(argc, argv, "--serde", 4);
  vt::open_out(vt::arg(argc, argv, "--out", "/dev/stdout"));
  vt::Rng g(seed);
  Pool pool; pool.build(1u << 21);
  for (long seg = 0; seg < segments; seg++) {
    Ev("Begin").i("seg", seg).emit();
    for (int i = 0; i < NS; i++) { obj[i].s.reset(); obj[i].grp = -1; obj[i].restored = false; }
    for (int b = 0; b < NB; b++) blob[b] = Blob();
    groups.clear();
    // small lg_k twice as likely: cur-min shifts and aux exceptions need n >> k
    uint8_t lgk = (uint8_t)(g.chance(50) ? g.range(minlgk, std::max(minlgk, std::min(maxlgk, 7L))) : g.range(minlgk, maxlgk));
    long k = 1L << lgk;
    g_budget = events + (lgk <= 6 ? 0 : (long)g.range(0, events / 2));
    long wide = std::max(64L, (long)(g_budget * (g.chance(30) ? 0.2 : 2.0)));   // narrow ranges give duplicate-heavy streams
    int steer = g.chance(60) ? (int)g.range(5, 30) : 0;                           // % of updates drawn from the high-value pool
    int obs_pct = lgk >= 11 ? 1 : (lgk >= 9 ? 2 : 4);
    int g0 = new_group({});
    static const int T3[] = {4, 6, 8};
    for (int i = 0; i < 3; i++) { obj[i].s.reset(new hll_sketch(lgk, tt(T3[i]), false)); obj[i].grp = g0; emit_new(i); }
    obj[3].s.reset(new hll_sketch(lgk, tt(T3[g.below(3)]), true)); obj[3].grp = g0; emit_new(3);
    while (g_budget > 0) {
      int op = (int)g.below(100);
      int serde2 = 2 * serde_pct;
      if (op < 100 - 16 - serde2) {
        // lock-step update of a whole group (mostly the base group)
        int gi = g.chance(80) ? g0 : obj[pick_live(g)].grp;
        auto ids = members(gi);
        if (ids.empty()) continue;
        Item it = (steer && g.chance(steer)) ? pool.pick(g, (uint32_t)g.range(12, 19)) : draw(g, wide);
        if (g.chance(5) && !groups[gi].items.empty()) it = groups[gi].items[g.below(groups[gi].items.size())];   // exact duplicate
        groups[gi].items.push_back(it); groups[gi].version++;
        emit_update(ids, it);
      } else if (op < 100 - 13 - serde2) {
        // one object continues alone (leaves its group)
        int i = 4 + (int)g.below(NS - 4);      // the four base sketches stay in lock-step for the whole segment
        if (!obj[i].s) continue;
        if (members(obj[i].grp).size() > 1) { int ng = new_group(groups[obj[i].grp].items); obj[i].grp = ng; }
        Item it = g.chance(20) ? pool.pick(g, 12) : draw(g, wide);
        groups[obj[i].grp].items.push_back(it); groups[obj[i].grp].version++;
        emit_update({i}, it);
      } else if (op < 100 - 13 + obs_pct - serde2) {
        emit_obs(members(g.chance(70) ? g0 : obj[pick_live(g)].grp));
      } else if (op < 100 - 9 - serde2) {
        continue;   // (reserved share: keeps the mix stable when obs_pct < 4)
      } else if (op < 100 - 6 - serde2) {
        // conversion copy: joins the lock-step group of its source
        int src = pick_live(g), dst = pick_dst(g, src); int t = T3[g.below(3)];
        std::unique_ptr<hll_sketch> n(new hll_sketch(*obj[src].s, tt(t)));
        obj[dst].s = std::move(n); obj[dst].grp = obj[src].grp; obj[dst].restored = obj[src].restored;
        Ev e("Convert"); e.i("src", src).i("dst", dst).i("type", t).raw("r", proj(dst, *obj[dst].s)).raw("ref", light(src, *obj[src].s));
        if (obj[dst].restored) e.b("restored", true);
        e.emit(); g_budget--;
      } else if (op < 100 - 5 - serde2) {
        int src = pick_live(g), dst = pick_dst(g, src);
        bool assign = obj[dst].s && g.chance(50);
        if (assign) *obj[dst].s = *obj[src].s; else obj[dst].s.reset(new hll_sketch(*obj[src].s));
        obj[dst].grp = obj[src].grp; obj[dst].restored = obj[src].restored;
        Ev e("Copy"); e.i("src", src).i("dst", dst).b("assign", assign).raw("r", proj(dst, *obj[dst].s)).raw("ref", light(src, *obj[src].s));
        if (obj[dst].restored) e.b("restored", true);
        e.emit(); g_budget--;
      } else if (op < 100 - 4 - serde2) {
        if (!g.chance(25)) continue;
        // reset: a whole group (stays in lock-step) or one object
        int i = pick_live(g);
        std::vector<int> ids;
        if (i < 4 || g.chance(60)) ids = members(obj[i].grp); else { ids = {i}; if (members(obj[i].grp).size() > 1) obj[i].grp = new_group({}); }
        groups[obj[i].grp].items.clear(); groups[obj[i].grp].version++;
        for (int id : ids) {
          obj[id].s->reset();
          View v = view(*obj[id].s, false);
          Ev e("Reset"); e.i("id", id).i("mode", v.mode).b("empty", obj[id].s->is_empty());
          if (obj[id].restored) e.b("restored", true);
          e.emit(); g_budget--;
        }
      } else if (op < 100 - serde2) {
        // permuted re-feed of everything a group has seen into a fresh sketch of another type
        if (!g.chance(40)) continue;
        int gi = obj[pick_live(g)].grp;
        auto& items = groups[gi].items;
        if (items.empty() || (long)items.size() > std::min(g_budget, 4 * k + 400)) continue;
        auto ids = members(gi);
        int dst = pick_dst(g, -1);
        if (std::find(ids.begin(), ids.end(), dst) != ids.end()) continue;
        std::vector<Item> perm(items);
        for (size_t a = perm.size(); a > 1; a--) std::swap(perm[a - 1], perm[g.below(a)]);
        obj[dst].s.reset(new hll_sketch(lgk, tt(T3[g.below(3)]), g.chance(20)));
        obj[dst].restored = false; obj[dst].grp = new_group({});
        emit_new(dst);
        for (auto& it : perm) { groups[obj[dst].grp].items.push_back(it); emit_update({dst}, it); }
        groups[obj[dst].grp].version++;
        ids.push_back(dst);
        emit_obs(ids);
      } else if (op < 100 - serde_pct) {
        // serialize: compact (with header sizes) or updatable, bytes and stream
        int src = pick_live(g), b = (int)g.below(NB);
        hll_sketch& s = *obj[src].s;
        bool compact = g.chance(55);
        static const unsigned HS[] = {0, 0, 1, 7, 8, 13, 64};
        unsigned hdr = compact ? HS[g.below(7)] : 0;
        auto bytes = compact ? s.serialize_compact(hdr) : s.serialize_updatable();
        auto bytes0 = compact ? s.serialize_compact() : s.serialize_updatable();
        std::ostringstream os; if (compact) s.serialize_compact(os); else s.serialize_updatable(os);
        std::string st = os.str();
        Blob& bl = blob[b];
        bl.live = true; bl.compact = compact; bl.bytes.assign(bytes.begin() + hdr, bytes.end());
        bl.grp = obj[src].grp; bl.version = groups[bl.grp].version; bl.items = groups[bl.grp].items;
        View v = view(s, false);
        long long mx = v.type == 4 ? -1 : (long long)hll_sketch::get_max_updatable_serialization_bytes((uint8_t)v.lgk, tt(v.type));
        auto cn = canon(bl.bytes);
        Ev e("Ser");
        e.i("src", src).i("blob", b).str("form", compact ? "compact" : "updatable").i("hdr", hdr).i("total", (long long)bytes.size())
         .i("size", (long long)bl.bytes.size())
         .i("advertised", (long long)(compact ? s.get_compact_serialization_bytes() : s.get_updatable_serialization_bytes()))
         .i("maxsize", mx)
         .bytes("img", bl.bytes.data(), bl.bytes.size()).bytes("img0", bytes0.data(), bytes0.size()).bytes("simg", st.data(), st.size())
         .bytes("canon", cn.data(), cn.size()).raw("p", light(src, s));
        if (obj[src].restored) e.b("restored", true);
        e.emit(); g_budget--;
        if (g.chance(75)) do_deser(g, b);
      } else {
        do_deser(g, -1);
      }
    }
    // final observation of everything alive, group by group
    std::vector<int> seen;
    for (int i = 0; i < NS; i++) if (obj[i].s && std::find(seen.begin(), seen.end(), obj[i].grp) == seen.end()) {
      seen.push_back(obj[i].grp); emit_obs(members(obj[i].grp));
    }
  }
  vt::close_out();
  fprintf(stderr, "hll_rec: %ld events\n", vt::g_events);
  return 0;
}
