// Recording driver for Theta set operations (C02): union / intersection / A-not-B / Jaccard over operands in every
// physical form (update sketch, compact ordered / unordered, wrapped image, deserialized compressed / uncompressed).
#include <memory>
#include <sstream>
#include <algorithm>
#include <theta_sketch.hpp>
#include <theta_union.hpp>
#include <theta_intersection.hpp>
#include <theta_a_not_b.hpp>
#include <theta_jaccard_similarity.hpp>
#include "vtrace.hpp"

using namespace datasketches;
using vt::Ev;

static const uint64_t MAXT = 0x7fffffffffffffffULL;

template<class S> static std::string proj(const S& s) {
  std::vector<uint64_t> ent;
  for (auto it = s.begin(); it != s.end(); ++it) ent.push_back(*it);
  Ev r("x");
  r.s = "{\"z\":0";
  r.h("thetaH", s.get_theta64()).hl("ent", ent).b("empty", s.is_empty()).b("ordered", s.is_ordered())
   .i("n", s.get_num_retained()).b("estMode", s.is_estimation_mode()).d("est", s.get_estimate());
  double e = s.get_estimate();
  r.i("estI", (e == std::floor(e) && e < 2e9) ? (long long)e : -1);
  std::vector<double> lb, ub;
  for (int k = 1; k <= 3; k++) { lb.push_back(s.get_lower_bound(k)); ub.push_back(s.get_upper_bound(k)); }
  r.dl("lb", lb).dl("ub", ub);
  r.s += "}";
  return r.s;
}

enum Form { F_UPDATE = 0, F_COMPACT_U, F_COMPACT_O, F_WRAPPED, F_DESER, F_DESER_C, NFORMS };
static const char* FORMS[] = {"update", "compact-unordered", "compact-ordered", "wrapped", "deserialized", "deserialized-compressed"};

struct Slot {
  int form = -1;
  std::unique_ptr<update_theta_sketch> u;
  std::unique_ptr<compact_theta_sketch> c;
  std::vector<uint8_t> bytes;   // backing store of a wrapped view
  bool live() const { return form >= 0; }
};

// call f with the operand in its physical form
template<class F> static void with(const Slot& s, uint64_t seed, F f) {
  if (s.form == F_UPDATE) f(*s.u);
  else if (s.form == F_WRAPPED) { auto w = wrapped_compact_theta_sketch::wrap(s.bytes.data(), s.bytes.size(), seed); f(w); }
  else f(*s.c);
}

// express the content of compact sketch c in the requested form
static void set_form(Slot& s, const compact_theta_sketch& c, int form, uint64_t seed) {
  s.u.reset(); s.c.reset(); s.bytes.clear();
  if (form == F_COMPACT_U) { s.c.reset(new compact_theta_sketch(c)); }
  else if (form == F_COMPACT_O) { s.c.reset(new compact_theta_sketch(c, true)); }
  else if (form == F_WRAPPED) { auto b = c.serialize(); s.bytes.assign(b.begin(), b.end()); }
  else if (form == F_DESER) { auto b = c.serialize(); s.c.reset(new compact_theta_sketch(compact_theta_sketch::deserialize(b.data(), b.size(), seed))); }
  else if (form == F_DESER_C) { auto b = compact_theta_sketch(c, true).serialize_compressed(); s.c.reset(new compact_theta_sketch(compact_theta_sketch::deserialize(b.data(), b.size(), seed))); }
  s.form = form;
}

int main(int argc, char** argv) {
  vt::install_terminate();
  uint64_t seed = (uint64_t)vt::argl(argc, argv, "--seed", 1);
  long segments = vt::argl(argc, argv, "--segments", 10);
  long events = vt::argl(argc, argv, "--events", 120);
  long maxlgk = vt::argl(argc, argv, "--maxlgk", 7);
  vt::open_out(vt::arg(argc, argv, "--out", "/dev/stdout"));
  vt::Rng g(seed);
  static const float PS[] = {1.0f, 1.0f, 1.0f, 0.5f, 0.25f};
  const int NS = 10, NU = 2, NI = 2;
  if (vt::argl(argc, argv, "--directed", 1)) {
    // directed segment: the order-dependence corner of theta_intersection recorded in known_findings.json
    // (C02:inter-sticky-empty) is exercised in every run, in both presentation orders
    Ev("Begin").i("seg", -1).h("maxH", MAXT).emit();
    auto a = update_theta_sketch::builder().build(); a.update((int64_t)1);
    auto b = update_theta_sketch::builder().build(); b.update((int64_t)2);
    auto c = update_theta_sketch::builder().set_p(0.25f).build();
    for (int64_t v = 100; c.get_num_retained() == 0 && v < 103; v++) c.update(v);   // non-empty
    if (c.get_num_retained() > 0) { c = update_theta_sketch::builder().set_p(0.0001f).build(); c.update((int64_t)100); }
    Ev("Sk").i("id", 0).str("form", "update").raw("r", proj(a)).emit();
    Ev("Sk").i("id", 1).str("form", "update").raw("r", proj(b)).emit();
    Ev("Sk").i("id", 2).str("form", "update").raw("r", proj(c)).emit();
    for (int order = 0; order < 2; order++) {
      theta_intersection ix(DEFAULT_SEED);
      Ev("INew").i("i", order).emit();
      const update_theta_sketch* seq[2][3] = {{&a, &b, &c}, {&c, &a, &b}};
      const int ids[2][3] = {{0, 1, 2}, {2, 0, 1}};
      for (int j = 0; j < 3; j++) { ix.update(*seq[order][j]); Ev("IUpdate").i("i", order).i("src", ids[order][j]).b("rvalue", false).str("form", "update").emit(); }
      auto r = ix.get_result(true);
      Ev("IResult").i("i", order).b("ordered", true).i("dst", 5 + order).str("outcome", "ok").b("has", true).raw("r", proj(r)).emit();
    }
  }
  for (long seg = 0; seg < segments; seg++) {
    Ev("Begin").i("seg", seg).h("maxH", MAXT).emit();
    uint64_t sd = g.chance(25) ? g.next() % 100000 + 1 : DEFAULT_SEED;
    long domain = 40 + (long)g.below(3) * 150;     // small key domain: overlaps between operands are the rule
    Slot sl[NS];
    std::unique_ptr<theta_union> un[NU];
    std::unique_ptr<theta_intersection> ix[NI];
    auto make = [&](int id) {
      uint8_t lgk = (uint8_t)g.range(5, maxlgk);
      float p = PS[g.below(5)];
      auto u = update_theta_sketch::builder().set_lg_k(lgk).set_p(p).set_seed(sd).set_resize_factor((resize_factor)g.below(4)).build();
      int shape = (int)g.below(10);
      long n = shape == 0 ? 0 : shape <= 2 ? g.range(1, 4) : shape <= 6 ? g.range(5, 1L << lgk) : g.range(1L << lgk, 5L << lgk);
      long base = g.range(0, domain);
      for (long j = 0; j < n; j++) u.update((int64_t)(g.chance(50) ? base + j : g.range(0, domain * 4)));
      if (g.chance(10)) u.trim();
      int form = (int)g.below(NFORMS);
      if (form == F_UPDATE) { sl[id].u.reset(new update_theta_sketch(u)); sl[id].c.reset(); sl[id].bytes.clear(); sl[id].form = F_UPDATE; }
      else set_form(sl[id], u.compact(false), form, sd);
      with(sl[id], sd, [&](const auto& s) { Ev("Sk").i("id", id).str("form", FORMS[sl[id].form]).raw("r", proj(s)).emit(); });
    };
    for (int i = 0; i < 4; i++) make(i);
    auto pick = [&]() { int i; do { i = (int)g.below(NS); } while (!sl[i].live()); return i; };
    auto store = [&](int dst, const compact_theta_sketch& c) {
      // results become operands of later operations, in a random physical form (never F_UPDATE)
      int form = 1 + (int)g.below(NFORMS - 1);
      if (form == F_COMPACT_O && !c.is_ordered()) form = F_COMPACT_U;
      sl[dst].u.reset(); sl[dst].bytes.clear();
      sl[dst].c.reset(new compact_theta_sketch(c)); sl[dst].form = c.is_ordered() ? F_COMPACT_O : F_COMPACT_U;
      (void)form;
    };
    for (long n = 0; n < events; n++) {
      int op = (int)g.below(100);
      if (op < 12) { make((int)g.below(NS)); }
      else if (op < 20) {
        // re-express an operand in another physical form: must expose the same content
        int src = pick(), dst = (int)g.below(NS);
        if (src != dst) {
          int form = 1 + (int)g.below(NFORMS - 1);
          std::unique_ptr<compact_theta_sketch> c;
          with(sl[src], sd, [&](const auto& s) { c.reset(new compact_theta_sketch(s, false)); });
          set_form(sl[dst], *c, form, sd);
          with(sl[dst], sd, [&](const auto& s) { Ev("Form").i("src", src).i("id", dst).str("form", FORMS[form]).raw("r", proj(s)).emit(); });
        }
      }
      else if (op < 26) {
        int u = (int)g.below(NU); uint8_t lgk = (uint8_t)g.range(5, maxlgk); float p = PS[g.below(5)];
        // an existing variable is re-initialised by move assignment from the builder's temporary or by copy assignment
        // from a named union (the target has another lg_k / emptiness / theta); otherwise a new object
        {
          auto bld = theta_union::builder().set_lg_k(lgk).set_p(p).set_seed(sd).set_resize_factor((resize_factor)g.below(4));
          const int how = un[u] ? (int)g.below(3) : 0;
          if (how == 1) *un[u] = bld.build();
          else if (how == 2) { theta_union fresh = bld.build(); *un[u] = fresh; }
          else un[u].reset(new theta_union(bld.build()));
        }
        uint64_t startH = p < 1 ? (uint64_t)((double)MAXT * p) : MAXT;
        Ev("UNew").i("u", u).i("k", 1L << lgk).h("startH", startH).emit();
      }
      else if (op < 50) {
        int u = (int)g.below(NU); if (!un[u]) continue;
        int src = pick(); bool rv = g.chance(30);
        if (rv && sl[src].form != F_UPDATE && sl[src].form != F_WRAPPED) { compact_theta_sketch tmp(*sl[src].c); un[u]->update(std::move(tmp)); }
        else with(sl[src], sd, [&](const auto& s) { un[u]->update(s); });
        Ev("UUpdate").i("u", u).i("src", src).b("rvalue", rv).str("form", FORMS[sl[src].form]).emit();
      }
      else if (op < 60) {
        int u = (int)g.below(NU); if (!un[u]) continue;
        bool ord = g.chance(50); int dst = (int)g.below(NS);
        auto r = un[u]->get_result(ord);
        Ev("UResult").i("u", u).b("ordered", ord).i("dst", dst).raw("r", proj(r)).emit();
        store(dst, r);
      }
      else if (op < 62) {
        int u = (int)g.below(NU); if (!un[u]) continue;
        un[u]->reset(); Ev("UReset").i("u", u).emit();
      }
      else if (op < 66) {
        int i = (int)g.below(NI); ix[i].reset(new theta_intersection(sd)); Ev("INew").i("i", i).emit();
      }
      else if (op < 78) {
        int i = (int)g.below(NI); if (!ix[i]) continue;
        int src = pick(); bool rv = g.chance(30);
        if (rv && sl[src].form != F_UPDATE && sl[src].form != F_WRAPPED) { compact_theta_sketch tmp(*sl[src].c); ix[i]->update(std::move(tmp)); }
        else with(sl[src], sd, [&](const auto& s) { ix[i]->update(s); });
        Ev("IUpdate").i("i", i).i("src", src).b("rvalue", rv).str("form", FORMS[sl[src].form]).emit();
      }
      else if (op < 86) {
        int i = (int)g.below(NI); if (!ix[i]) continue;
        bool ord = g.chance(50); int dst = (int)g.below(NS);
        try {
          auto r = ix[i]->get_result(ord);
          Ev("IResult").i("i", i).b("ordered", ord).i("dst", dst).str("outcome", "ok").b("has", ix[i]->has_result()).raw("r", proj(r)).emit();
          store(dst, r);
        } catch (const std::invalid_argument&) {
          Ev("IResult").i("i", i).b("ordered", ord).i("dst", dst).str("outcome", "throw").b("has", ix[i]->has_result()).emit();
        }
      }
      else if (op < 94) {
        int a = pick(), b = pick(); bool ord = g.chance(50); int dst = (int)g.below(NS);
        theta_a_not_b anb(sd);
        std::unique_ptr<compact_theta_sketch> r;
        with(sl[a], sd, [&](const auto& sa) { with(sl[b], sd, [&](const auto& sb) { r.reset(new compact_theta_sketch(anb.compute(sa, sb, ord))); }); });
        Ev("AnotB").i("a", a).i("b", b).b("ordered", ord).i("dst", dst).str("forma", FORMS[sl[a].form]).str("formb", FORMS[sl[b].form]).raw("r", proj(*r)).emit();
        store(dst, *r);
      }
      else if (op < 98) {
        int a = pick(), b = pick();
        if (a == b) continue;   // the API special-cases the same object by address
        std::array<double, 3> j; bool eq = false;
        with(sl[a], sd, [&](const auto& sa) { with(sl[b], sd, [&](const auto& sb) {
          j = theta_jaccard_similarity::jaccard(sa, sb, sd); eq = theta_jaccard_similarity::exactly_equal(sa, sb, sd); }); });
        Ev("Jaccard").i("a", a).i("b", b).d("lb", j[0]).d("est", j[1]).d("ub", j[2]).i("estI", (long long)std::llround(j[1] * 1e6)).b("eq", eq).emit();
      }
      else {
        // operand built with a different seed: every operation must refuse it when it is non-empty
        // (a foreign operand in estimation mode with a low theta, so that a side effect of the refused call shows in
        // the later results of the LIVE union / intersection it was offered to: the specification keeps their state)
        auto f = update_theta_sketch::builder().set_lg_k(5).set_p(g.chance(50) ? 0.05f : 1.0f).set_seed(sd + 1).build();
        for (int64_t q = 1; q <= 300; q++) f.update(q);
        int which = (int)g.below(5); const char* out = "ok";
        int lu = (int)g.below(NU), li = (int)g.below(NI);
        if (which == 3 && !un[lu]) which = 0;
        if (which == 4 && !ix[li]) which = 1;
        // an intersection whose running result is already EMPTY may ignore every further operand unseen
        bool liveEmpty = false;
        if (which == 4 && ix[li]->has_result()) liveEmpty = ix[li]->get_result().is_empty();
        try {
          if (which == 0) { theta_union u = theta_union::builder().set_seed(sd).build(); u.update(f); }
          else if (which == 1) { theta_intersection i(sd); i.update(f); }
          else if (which == 2) { theta_a_not_b anb(sd); auto x = update_theta_sketch::builder().set_seed(sd).build(); x.update((int64_t)1); anb.compute(x, f); }
          else if (which == 3) { if (g.chance(50)) un[lu]->update(f); else un[lu]->update(f.compact(g.chance(50))); }
          else { if (g.chance(50)) ix[li]->update(f); else ix[li]->update(f.compact(g.chance(50))); }
        } catch (const std::invalid_argument&) { out = "throw"; }
        Ev("Mismatch").i("which", which).b("liveEmpty", liveEmpty).str("outcome", out).emit();
      }
    }
  }
  vt::close_out();
  fprintf(stderr, "thetaops_rec: %ld events\n", vt::g_events);
  return 0;
}
