// C10 harness: serialized images keep the documented layout; old images stay readable; hashing matches
// the published definitions.  The harness only LOGS (images as byte lists, projections through the public API,
// reference hashes from refhash.hpp); every comparison is made by TLC against spec/Layout.tla (TraceLayout).
//
//   layout_rec record   --part P [--corpus DIR] --out trace.ndjson      images of the deterministic catalogue (+ corpus confrontation)
//   layout_rec mkcorpus --corpus DIR                                   write baseline images + expected.ndjson (pinned tree only)
//   layout_rec replay   --in gen.txt --out trace.ndjson                 feed TLC-generated images to the real deserializers
//   layout_rec refs     --corpus DIR --out trace.ndjson                 reference images shipped with the repository
//   layout_rec hash     --seed S --out trace.ndjson                     hashing type sweep
#include <memory>
#include <map>
#include "layout_fam_distinct.hpp"
#include "layout_fam_quant.hpp"
#include "layout_fam_misc.hpp"

using namespace datasketches;
using namespace lay;
using vt::Ev;

// deterministic library randomness: mt19937_64 seeded per catalogue entry, fair coin from a splitmix counter
static uint64_t g_coin = 0;
static uint32_t coin_src(void*) { uint64_t z = (g_coin += 0x9E3779B97F4A7C15ULL); z = (z ^ (z >> 30)) * 0xBF58476D1CE4E5B9ULL; z = (z ^ (z >> 27)) * 0x94D049BB133111EBULL; return (uint32_t)((z ^ (z >> 31)) & 1); }
static void fix_random() {
  random_utils::override_seed(20260926);
  g_coin = 12345;
#ifdef DATASKETCHES_VERIF
  random_utils::random_bit.source = &coin_src;
#else
  random_utils::random_bit.seed(1);
#endif
}

typedef void (*CatFn)(std::vector<Entry>&);
struct Part { const char* name; std::vector<CatFn> fns; };
static std::vector<Part> parts() {
  return { {"theta", {cat_theta, cat_tuple, cat_aod}}, {"setops", {cat_setops}}, {"cpcgrid", {cat_cpcgrid, cat_cpctab}}, {"hll", {cat_hll}}, {"cpc", {cat_cpc, cat_cm, cat_bloom}},
           {"kll", {cat_kll}}, {"quant", {cat_req, cat_cq, cat_td}}, {"misc", {cat_fi, cat_vo, cat_eb, cat_den}} };
}
static std::vector<Entry> build(const std::string& part) {
  std::vector<Entry> out;
  for (auto& p : parts()) if (part == "all" || part == p.name) for (CatFn f : p.fns) { fix_random(); f(out); }
  return out;
}

static void emit_image(const Entry& e) {
  Ev("Image").str("name", e.name).str("family", e.family).str("kind", e.kind).raw("hints", e.hints)
      .raw("bytes", bvec(e.bytes)).b("ssame", e.sbytes == e.bytes).raw("sbytes", e.sbytes == e.bytes ? std::string("[]") : bvec(e.sbytes)).raw("proj", e.proj).emit();
}
static void emit_stored(const Entry& e, const Bytes& stored) {
  Ev ev("ReadStored");
  ev.str("name", e.name).str("family", e.family).str("kind", e.kind).raw("hints", e.hints).raw("bytes", bvec(stored));
  for (int st = 0; st < 2; st++) {       // bytes reader + bytes writer, then stream reader + stream writer
    const char* kp = st ? "sproj" : "proj"; const char* kr = st ? "sreser" : "reser"; const char* ko = st ? "sok" : "ok";
    try {
      fix_random();
      Read r = e.reader(stored, st != 0);
      ev.b(ko, true).raw(kp, r.proj).raw(kr, bvec(r.reser));
    } catch (const std::exception& ex) {
      ev.b(ko, false).raw(kp, "{}").raw(kr, "[]");
    }
  }
  ev.emit();
}

static std::string field(const std::string& line, const char* key) {
  std::string pat = std::string("\"") + key + "\":\"";
  size_t p = line.find(pat); if (p == std::string::npos) return "";
  p += pat.size(); size_t q = line.find('"', p); return line.substr(p, q - p);
}

static int do_record(const std::string& part, const std::string& corpus) {
  auto cat = build(part);
  std::map<std::string, std::string> expect;
  if (!corpus.empty()) {
    std::ifstream f(corpus + "/expected.ndjson"); std::string ln;
    while (std::getline(f, ln)) if (!ln.empty()) expect[field(ln, "name")] = ln;
  }
  std::string curfam;
  for (auto& e : cat) {
    if (e.family != curfam) {   // one segment per family, so a rejection in one family leaves the others examined
      curfam = e.family;
      Ev("Begin").str("mode", "record").str("part", part).str("family", curfam).i("dsh", ref_seed_hash(DEFAULT_SEED)).emit();
    }
    auto it = expect.find(e.name);
    if (it != expect.end()) {
      fputs((it->second + "\n").c_str(), vt::g_out); vt::g_events++;   // the recorded baseline, verbatim
      bool ok; Bytes stored = read_file(corpus + "/" + e.name + ".sk", ok);
      if (ok) emit_stored(e, stored);
    }
    emit_image(e);
  }
  return 0;
}

static int do_mkcorpus(const std::string& corpus) {
  auto cat = build("all");
  std::ofstream idx(corpus + "/expected.ndjson");
  for (auto& e : cat) {
    write_file(corpus + "/" + e.name + ".sk", e.bytes);
    Ev ev("Expect");
    ev.str("name", e.name).str("family", e.family).str("kind", e.kind).raw("hints", e.hints).raw("bytes", bvec(e.bytes)).raw("proj", e.proj);
    idx << ev.s << "}\n";
  }
  fprintf(stderr, "corpus: %zu images\n", cat.size());
  return 0;
}

// ------------------------------------------------------------------ replay of TLC-generated images
// both reader paths (bytes and stream) and, for Theta, the wrapped view, are projected
template<class F> static std::string guarded(F f) {
  try { fix_random(); return f(); } catch (const std::exception& ex) { return "{\"threw\":true}"; }
}
static std::istringstream mkstream(const Bytes& b) { return std::istringstream(std::string(b.begin(), b.end()), std::ios::binary); }

template<class T> static std::string replay_kll(const Bytes& b, bool stream, int mink) {
  if (!stream) { auto s = kll_sketch<T>::deserialize(b.data(), b.size()); return proj_kll(s, mink); }
  auto is = mkstream(b); auto s = kll_sketch<T>::deserialize(is); return proj_kll(s, mink);
}
template<class T> static std::string replay_cq(const Bytes& b, bool stream) {
  if (!stream) { auto s = quantiles_sketch<T>::deserialize(b.data(), b.size()); return proj_cq(s); }
  auto is = mkstream(b); auto s = quantiles_sketch<T>::deserialize(is); return proj_cq(s);
}
template<class T> static std::string replay_td(const Bytes& b, bool stream) {
  TdKnown kn; kn.with_buffer = false;
  if (!stream) { auto s = tdigest<T>::deserialize(b.data(), b.size()); return proj_td(s, kn); }
  auto is = mkstream(b); auto s = tdigest<T>::deserialize(is); return proj_td(s, kn);
}
static std::string replay_one(const std::string& variant, const Bytes& b, int path, int aux) {
  const uint64_t seed = DEFAULT_SEED;
  if (variant == "theta") {
    if (path == 0) { auto s = compact_theta_sketch::deserialize(b.data(), b.size(), seed); return proj_theta(s, seed); }
    if (path == 1) { auto is = mkstream(b); auto s = compact_theta_sketch::deserialize(is, seed); return proj_theta(s, seed); }
    auto w = wrapped_compact_theta_sketch::wrap(b.data(), b.size(), seed); return proj_theta(w, seed);
  }
  if (variant == "tuple") {
    if (path == 0) { auto s = compact_tuple_sketch<double>::deserialize(b.data(), b.size(), seed); return proj_tuple(s, seed); }
    auto is = mkstream(b); auto s = compact_tuple_sketch<double>::deserialize(is, seed); return proj_tuple(s, seed);
  }
  if (variant == "kll_f32") return replay_kll<float>(b, path == 1, aux);
  if (variant == "kll_i64") return replay_kll<int64_t>(b, path == 1, aux);
  if (variant == "quantiles_f64") return replay_cq<double>(b, path == 1);
  if (variant == "tdigest_f64") return replay_td<double>(b, path == 1);
  if (variant == "tdigest_f32") return replay_td<float>(b, path == 1);
  return "{\"unknown\":true}";
}
static int do_replay(const std::string& in) {
  std::ifstream f(in); std::string ln;
  std::string curvar;
  while (std::getline(f, ln)) {
    std::istringstream ss(ln); long id; std::string variant, hex; int aux = 0;
    if (!(ss >> id >> variant >> aux >> hex)) continue;
    if (variant != curvar) { curvar = variant; Ev("Begin").str("mode", "replay").str("family", variant).i("dsh", ref_seed_hash(DEFAULT_SEED)).emit(); }
    Bytes b = from_hex(hex == "-" ? "" : hex);
    Ev ev("Replayed");
    ev.i("id", id).str("variant", variant).raw("bytes", bvec(b));
    ev.raw("proj", guarded([&] { return replay_one(variant, b, 0, aux); }));
    ev.raw("sproj", guarded([&] { return replay_one(variant, b, 1, aux); }));
    if (variant == "theta") ev.raw("wproj", guarded([&] { return replay_one(variant, b, 2, aux); }));
    ev.emit();
  }
  return 0;
}

// ------------------------------------------------------------------ reference images shipped with the repository
static long long sll(double v) { return (v > -2e9 && v < 2e9) ? (long long)v : 2147483647LL; }   // integers logged for TLC stay in 32-bit range
static long long milli(double v) { return sll(std::round(v * 1000.0)); }
template<class S> static std::string ref_theta_proj(const S& s) {
  std::vector<uint64_t> ent; for (auto it = s.begin(); it != s.end(); ++it) ent.push_back(*it);
  Ev r("x"); r.s = "{\"z\":0";
  r.b("empty", s.is_empty()).b("est", s.is_estimation_mode()).b("ordered", s.is_ordered()).i("n", J::clamp(s.get_num_retained()))
   .h("thetaH", s.get_theta64()).i("theta_e9", sll(std::round(s.get_theta() * 1e9))).i("est_milli", milli(s.get_estimate()))
   .i("lb2_milli", milli(s.get_lower_bound(2))).i("ub2_milli", milli(s.get_upper_bound(2))).hl("ent", ent);
  r.s += "}"; return r.s;
}
static void ref_theta(const std::string& dir, const char* file, bool estimation) {
  bool ok; Bytes b = read_file(dir + "/" + file, ok);
  Ev ev("ReadRef"); ev.str("file", file).str("family", "theta").b("found", ok);
  if (estimation) {   // "the same construction process in Java must have produced exactly the same sketch": update(i), i = 0..8191
    std::vector<uint64_t> rh; for (int64_t i = 0; i < 8192; i++) rh.push_back(refhash::murmur3_x64_128(&i, 8, DEFAULT_SEED).h1 >> 1);
    ev.hl("refh", rh);
  } else ev.raw("refh", "[]");
  ev.h("maxH", 0x7fffffffffffffffULL);
  ev.raw("proj", guarded([&] { auto s = compact_theta_sketch::deserialize(b.data(), b.size()); return ref_theta_proj(s); }));
  ev.raw("sproj", guarded([&] { auto is = mkstream(b); auto s = compact_theta_sketch::deserialize(is); return ref_theta_proj(s); }));
  ev.raw("wproj", guarded([&] { auto s = wrapped_compact_theta_sketch::wrap(b.data(), b.size()); return ref_theta_proj(s); }));
  ev.emit();
}
template<class S> static std::string ref_quant_proj(const S& s) {
  // the generators fed 1..n; every retained item must be an integer value, logged as such (frac = any non-integral item)
  L items; bool frac = false; long long wsum = 0;
  for (auto it = s.begin(); it != s.end(); ++it) { double v = (double)(*it).first; if (v != std::floor(v)) frac = true; items.add(L().addi(sll(v)).addi((long long)(*it).second).done()); wsum += (long long)(*it).second; }
  J j; j.i("k", s.get_k()).i("n", (long long)s.get_n()).b("empty", s.is_empty()).b("est", s.is_estimation_mode()).i("nret", s.get_num_retained())
      .b("frac", frac).i("wsum", J::clamp(wsum)).raw("items", items.done());
  if (!s.is_empty()) { j.i("min", sll((double)s.get_min_item())).i("max", sll((double)s.get_max_item())); double m = (double)s.get_quantile(0.5); j.i("median", sll(m)).b("medfrac", m != std::floor(m)); }
  return j.done();
}
static void ref_quantiles(const std::string& dir, const char* file) {
  bool ok; Bytes b = read_file(dir + "/" + file, ok);
  Ev ev("ReadRef"); ev.str("file", file).str("family", "quantiles").b("found", ok);
  ev.raw("proj", guarded([&] { auto s = quantiles_sketch<double>::deserialize(b.data(), b.size()); return ref_quant_proj(s); }));
  ev.raw("sproj", guarded([&] { auto is = mkstream(b); auto s = quantiles_sketch<double>::deserialize(is); return ref_quant_proj(s); }));
  ev.emit();
}
static void ref_kll(const std::string& dir, const char* file) {
  bool ok; Bytes b = read_file(dir + "/" + file, ok);
  Ev ev("ReadRef"); ev.str("file", file).str("family", "kll").b("found", ok);
  ev.raw("proj", guarded([&] { auto s = kll_sketch<float>::deserialize(b.data(), b.size()); return ref_quant_proj(s); }));
  ev.raw("sproj", guarded([&] { auto is = mkstream(b); auto s = kll_sketch<float>::deserialize(is); return ref_quant_proj(s); }));
  ev.emit();
}
template<class T> static std::string ref_td_proj(tdigest<T>& s) {
  const double n = 10000;
  auto ppm = [&](double x) { return sll(std::round(s.get_rank((T)x) * 1e6)); };
  return J().i("k", s.get_k()).i("total", (long long)s.get_total_weight()).b("empty", s.is_empty())
      .i("min", sll((double)s.get_min_value())).i("max", sll((double)s.get_max_value()))
      .i("r0", ppm(0)).i("r25", ppm(n / 4)).i("r50", ppm(n / 2)).i("r75", ppm(n * 3 / 4)).i("r100", ppm(n)).done();
}
static void ref_td(const std::string& dir, const char* file) {
  bool ok; Bytes b = read_file(dir + "/" + file, ok);
  bool isfloat = std::string(file).find("float") != std::string::npos;
  Ev ev("ReadRef"); ev.str("file", file).str("family", "tdigest").b("found", ok);
  // the repository's tests read the double file with tdigest<double>, the float file with both tdigest<float> (stream) and tdigest<double> (bytes)
  ev.raw("proj", guarded([&] { auto s = tdigest<double>::deserialize(b.data(), b.size()); return ref_td_proj(s); }));
  ev.raw("sproj", guarded([&] { auto is = mkstream(b);
      if (isfloat) { auto s = tdigest<float>::deserialize(is); return ref_td_proj(s); }
      auto s = tdigest<double>::deserialize(is); return ref_td_proj(s); }));
  ev.emit();
}
static int do_refs(const std::string& corpus) {
  const std::string dir = corpus + "/ref";
  auto begin = [](const char* fam) { Ev("Begin").str("mode", "refs").str("family", fam).i("dsh", ref_seed_hash(DEFAULT_SEED)).emit(); };
  begin("theta");
  ref_theta(dir, "theta_compact_empty_from_java_v1.sk", false);
  ref_theta(dir, "theta_compact_empty_from_java_v2.sk", false);
  ref_theta(dir, "theta_compact_estimation_from_java_v1.sk", true);
  ref_theta(dir, "theta_compact_estimation_from_java_v2.sk", true);
  begin("quantiles");
  for (const char* n : {"50", "1000"}) for (const char* v : {"0.3.0", "0.6.0", "0.8.0", "0.8.3"}) {
    std::string f = std::string("Qk128_n") + n + "_v" + v + ".sk"; ref_quantiles(dir, f.c_str());
  }
  begin("kll");
  ref_kll(dir, "kll_sketch_float_one_item_v1.sk");
  begin("tdigest");
  ref_td(dir, "tdigest_ref_k100_n10000_double.sk");
  ref_td(dir, "tdigest_ref_k100_n10000_float.sk");
  return 0;
}

// ------------------------------------------------------------------ hashing type sweep
// Every event carries the REFERENCE hash words of the documented canonical bytes of the input (refhash.hpp) and what
// the library did with the same input; the specification derives the expected observation from the reference words.
struct Item { int type; long long iv; double dv; std::string sv; };
static const char* TYPES[] = {"u64","i64","u32","i32","u16","i16","u8","i8","f64","f32","str","raw"};
// canonical bytes per the documentation.  signext = distinct-count families (Theta/HLL/CPC: narrow unsigned ints go through
// their signed twin, "for compatibility with Java"); Bloom widens by value (unsigned zero-extended)
static bool canon(const Item& it, bool signext, std::string& out) {
  int64_t c = 0;
  switch (it.type) {
    case 0: c = (int64_t)(uint64_t)it.iv; break;
    case 1: c = (int64_t)it.iv; break;
    case 2: c = signext ? (int64_t)(int32_t)(uint32_t)it.iv : (int64_t)(uint64_t)(uint32_t)it.iv; break;
    case 3: c = (int64_t)(int32_t)it.iv; break;
    case 4: c = signext ? (int64_t)(int16_t)(uint16_t)it.iv : (int64_t)(uint64_t)(uint16_t)it.iv; break;
    case 5: c = (int64_t)(int16_t)it.iv; break;
    case 6: c = signext ? (int64_t)(int8_t)(uint8_t)it.iv : (int64_t)(uint64_t)(uint8_t)it.iv; break;
    case 7: c = (int64_t)(int8_t)it.iv; break;
    case 8: { uint64_t b = refhash::canon_double_bits(it.dv); memcpy(&c, &b, 8); break; }
    case 9: { uint64_t b = refhash::canon_double_bits((double)(float)it.dv); memcpy(&c, &b, 8); break; }
    case 10: if (it.sv.empty()) return false; out = it.sv; return true;
    case 11: out = it.sv; return true;
  }
  out.assign((const char*)&c, 8); return true;
}
template<class S> static void feed(S& s, const Item& it) {
  switch (it.type) {
    case 0: s.update((uint64_t)it.iv); break;  case 1: s.update((int64_t)it.iv); break;
    case 2: s.update((uint32_t)it.iv); break;  case 3: s.update((int32_t)it.iv); break;
    case 4: s.update((uint16_t)it.iv); break;  case 5: s.update((int16_t)it.iv); break;
    case 6: s.update((uint8_t)it.iv); break;   case 7: s.update((int8_t)it.iv); break;
    case 8: s.update((double)it.dv); break;    case 9: s.update((float)it.dv); break;
    case 10: s.update(it.sv); break;           case 11: s.update(it.sv.data(), it.sv.size()); break;
  }
}
template<class S> static bool qfeed(const S& s, const Item& it) {
  switch (it.type) {
    case 0: return s.query((uint64_t)it.iv);  case 1: return s.query((int64_t)it.iv);
    case 2: return s.query((uint32_t)it.iv);  case 3: return s.query((int32_t)it.iv);
    case 4: return s.query((uint16_t)it.iv);  case 5: return s.query((int16_t)it.iv);
    case 6: return s.query((uint8_t)it.iv);   case 7: return s.query((int8_t)it.iv);
    case 8: return s.query((double)it.dv);    case 9: return s.query((float)it.dv);
    case 10: return s.query(it.sv);           default: return s.query(it.sv.data(), it.sv.size());
  }
}
template<class S> static bool qufeed(S& s, const Item& it) {
  switch (it.type) {
    case 0: return s.query_and_update((uint64_t)it.iv);  case 1: return s.query_and_update((int64_t)it.iv);
    case 2: return s.query_and_update((uint32_t)it.iv);  case 3: return s.query_and_update((int32_t)it.iv);
    case 4: return s.query_and_update((uint16_t)it.iv);  case 5: return s.query_and_update((int16_t)it.iv);
    case 6: return s.query_and_update((uint8_t)it.iv);   case 7: return s.query_and_update((int8_t)it.iv);
    case 8: return s.query_and_update((double)it.dv);    case 9: return s.query_and_update((float)it.dv);
    case 10: return s.query_and_update(it.sv);           default: return s.query_and_update(it.sv.data(), it.sv.size());
  }
}
// typed update overloads that carry a value next to the key (Tuple family)
template<class S, class V> static void feedv(S& s, const Item& it, const V& v) {
  switch (it.type) {
    case 0: s.update((uint64_t)it.iv, v); break;  case 1: s.update((int64_t)it.iv, v); break;
    case 2: s.update((uint32_t)it.iv, v); break;  case 3: s.update((int32_t)it.iv, v); break;
    case 4: s.update((uint16_t)it.iv, v); break;  case 5: s.update((int16_t)it.iv, v); break;
    case 6: s.update((uint8_t)it.iv, v); break;   case 7: s.update((int8_t)it.iv, v); break;
    case 8: s.update((double)it.dv, v); break;    case 9: s.update((float)it.dv, v); break;
    case 10: s.update(it.sv, v); break;           case 11: s.update(it.sv.data(), it.sv.size(), v); break;
  }
}
static std::vector<Item> sweep(vt::Rng& g) {
  std::vector<Item> v;
  const long long ints[] = {0, 1, -1, 2, 127, 128, 255, 256, -128, -129, 32767, 32768, 65535, 65536, -32768, 2147483647LL, 2147483648LL, 4294967295LL,
                            -2147483648LL, 4294967296LL, 9223372036854775807LL, (long long)0x8000000000000000ULL, -2};
  for (int t = 0; t < 8; t++) { for (long long x : ints) v.push_back(Item{t, x, 0, ""}); for (int r = 0; r < 4; r++) v.push_back(Item{t, (long long)g.next(), 0, ""}); }
  double nan2; uint64_t nb = 0xfff8000000000123ULL; memcpy(&nan2, &nb, 8);
  const double dbl[] = {0.0, -0.0, 1.0, -1.0, 0.5, 1e300, -1e-300, 5e-324, INFINITY, -INFINITY, std::nan("1"), nan2, 3.0000001, 16777217.0};
  for (int t = 8; t < 10; t++) { for (double x : dbl) v.push_back(Item{t, 0, x, ""}); for (int r = 0; r < 4; r++) v.push_back(Item{t, 0, (g.unit() - 0.5) * 1e6, ""}); }
  const char* strs[] = {"", "a", "ab", "abc", "abcd", "abcdefg", "abcdefgh", "abcdefghi", "0123456789abcde", "0123456789abcdef", "0123456789abcdefg",
                        "The quick brown fox jumps over the lazy dog", "\xc3\xa9\xc3\xa8 utf8"};
  for (int t = 10; t < 12; t++) for (const char* s : strs) { if (t == 11 && !*s) continue; v.push_back(Item{t, 0, 0, s}); }
  v.push_back(Item{11, 0, 0, std::string("\0\0\0\0\0\0\0\0", 8)});
  return v;
}
static int do_hash(uint64_t seed) {
  vt::Rng g(seed);
  auto items = sweep(g);
  size_t idx = 0;
  for (const Item& it : items) {
    if (idx++ % 40 == 0) Ev("Begin").str("mode", "hash").i("dsh", ref_seed_hash(DEFAULT_SEED)).emit();
    std::string cb; bool counted = canon(it, true, cb);
    // Theta: retained hash = h1 >> 1 of MurmurHash3_x64_128(canonical bytes, seed)
    for (uint64_t sd : {(uint64_t)DEFAULT_SEED, (uint64_t)(seed * 7919 + 13)}) {
      auto u = update_theta_sketch::builder().set_lg_k(5).set_seed(sd).build();
      feed(u, it);
      L obs; for (auto h : u) obs.add(bv((uint64_t)h));
      Ev ev("Hash"); ev.str("target", "theta").str("type", TYPES[it.type]).b("counted", counted);
      if (counted) { auto h = refhash::murmur3_x64_128(cb.data(), cb.size(), sd); ev.raw("h1", bv(h.h1)).raw("h2", bv(h.h2)); }
      ev.raw("obs", obs.done()).emit();
    }
    refhash::H128 h{0, 0}; if (counted) h = refhash::murmur3_x64_128(cb.data(), cb.size(), DEFAULT_SEED);
    { // Tuple family: same key definition as Theta, through the typed overloads of update_tuple_sketch and update_array_of_doubles_sketch
      auto t = update_tuple_sketch<double>::builder().set_lg_k(5).build();
      feedv(t, it, 1.0);
      L obs; for (auto& en : t) obs.add(bv((uint64_t)en.first));
      Ev ev("Hash"); ev.str("target", "tuple").str("type", TYPES[it.type]).b("counted", counted);
      if (counted) ev.raw("h1", bv(h.h1)).raw("h2", bv(h.h2));
      ev.raw("obs", obs.done()).emit();
      auto a = update_array_of_doubles_sketch::builder(default_array_of_doubles_update_policy(1)).set_lg_k(5).build();
      std::vector<double> one = {1.0};
      feedv(a, it, one);
      L obsa; for (auto& en : a) obsa.add(bv((uint64_t)en.first));
      Ev ea("Hash"); ea.str("target", "aod").str("type", TYPES[it.type]).b("counted", counted);
      if (counted) ea.raw("h1", bv(h.h1)).raw("h2", bv(h.h2));
      ea.raw("obs", obsa.done()).emit();
    }
    { // HLL union: its own typed update overloads feed the gadget
      hll_union u(12); feed(u, it);
      hll_sketch r = u.get_result(HLL_8);
      auto img = r.serialize_updatable();
      Ev ev("Hash"); ev.str("target", "hllunion").str("type", TYPES[it.type]).b("counted", counted).b("empty", r.is_empty());
      if (counted) ev.raw("h1", bv(h.h1)).raw("h2", bv(h.h2));
      ev.raw("obs", bl(img.data() + 8, 4)).emit();
    }
    { // HLL: coupon of the single item = first int of the updatable LIST image
      hll_sketch s(12, HLL_8); feed(s, it);
      auto img = s.serialize_updatable();
      Ev ev("Hash"); ev.str("target", "hll").str("type", TYPES[it.type]).b("counted", counted).b("empty", s.is_empty());
      if (counted) ev.raw("h1", bv(h.h1)).raw("h2", bv(h.h2));
      ev.raw("obs", bl(img.data() + 8, 4)).emit();
    }
#ifdef DATASKETCHES_VERIF
    { // CPC: (row, column) of the single coupon, read from the reconstructed bit matrix
      const int lgk = 10; cpc_sketch s(lgk); feed(s, it);
      L obs; auto m = s.verif_bit_matrix();
      for (size_t r = 0; r < m.size(); r++) for (int c = 0; c < 64; c++) if ((m[r] >> c) & 1) obs.add(L().addi((long long)r).addi(c).done());
      Ev ev("Hash"); ev.str("target", "cpc").str("type", TYPES[it.type]).b("counted", counted).i("lgk", lgk);
      if (counted) ev.raw("h1", bv(h.h1)).raw("h2", bv(h.h2));
      ev.raw("obs", obs.done()).emit();
    }
#endif
    { // Bloom: bit indices ((h0 + i*h1) >> 1) mod capacity, h0 = XXH64(bytes, seed), h1 = XXH64(bytes, h0)
      std::string bb; bool bc = canon(it, false, bb);
      const uint64_t cap = 64 * (3 + g.below(60)), bseed = g.next(); const int nh = 1 + (int)g.below(6);
      auto f = bloom_filter::builder::create_by_size(cap, (uint16_t)nh, bseed);
      feed(f, it);
      auto img = f.serialize();
      L obs; if (img.size() > 32) for (size_t j = 32; j < img.size(); j++) for (int t = 0; t < 8; t++) if ((img[j] >> t) & 1) obs.addi((long long)((j - 32) * 8 + t));
      auto f2 = bloom_filter::builder::create_by_size(cap, (uint16_t)nh, bseed);
      bool before = qufeed(f2, it);               // query_and_update overloads: same indices, "not seen before"
      auto img2 = f2.serialize();
      L obsq; if (img2.size() > 32) for (size_t j = 32; j < img2.size(); j++) for (int t = 0; t < 8; t++) if ((img2[j] >> t) & 1) obsq.addi((long long)((j - 32) * 8 + t));
      Ev ev("Hash"); ev.str("target", "bloom").str("type", TYPES[it.type]).b("counted", bc).i("capacity", (long long)cap).i("nhashes", nh);
      ev.b("found", qfeed(f, it)).b("found_cross", qfeed(f2, it)).b("seen_before", before).raw("obsq", obsq.done());
      if (bc) { uint64_t h0 = refhash::xxh64(bb.data(), bb.size(), bseed), h1 = refhash::xxh64(bb.data(), bb.size(), h0); ev.raw("h1", bv(h0)).raw("h2", bv(h1)); }
      ev.raw("obs", obs.done()).emit();
    }
    if (it.type == 0 || it.type == 1 || it.type >= 10) { // count-min offers uint64 / int64 / string / raw bytes
      const uint32_t nb = 3 + (uint32_t)g.below(500); const int nh = 1 + (int)g.below(4); const uint64_t cseed = g.chance(50) ? DEFAULT_SEED : g.next() % 100000;
      count_min_sketch<uint64_t> s((uint8_t)nh, nb, cseed);
      if (it.type == 0) s.update((uint64_t)it.iv); else if (it.type == 1) s.update((int64_t)it.iv);
      else if (it.type == 10) s.update(it.sv); else s.update(it.sv.data(), it.sv.size(), 1);
      // row seeds per the documented construction: default_random_engine(seed) -> uniform uint64, plus the seed
      std::default_random_engine rng(cseed); std::uniform_int_distribution<uint64_t> d(0, std::numeric_limits<uint64_t>::max());
      L rows; for (int r = 0; r < nh; r++) { uint64_t rs = d(rng) + cseed; rows.add(bv(refhash::murmur3_x64_128(cb.data(), cb.size(), rs).h1)); }
      L obs; size_t idx = 0; for (auto c = s.begin(); c != s.end(); ++c, ++idx) if (*c != 0) obs.add(L().addi((long long)(idx / nb)).addi((long long)(idx % nb)).done());
      Ev ev("Hash"); ev.str("target", "countmin").str("type", TYPES[it.type]).b("counted", counted).i("nbuckets", nb).i("nhashes", nh)
        .raw("rows", counted ? rows.done() : "[]").raw("obs", obs.done())
        .i("est", (long long)(it.type == 0 ? s.get_estimate((uint64_t)it.iv) : it.type == 1 ? s.get_estimate((int64_t)it.iv)
                              : it.type == 10 ? s.get_estimate(it.sv) : s.get_estimate(it.sv.data(), it.sv.size()))).emit();
    }
  }
  return 0;
}

int main(int argc, char** argv) {
  refhash::self_check();
  if (ref_seed_hash(DEFAULT_SEED) != 0x93cc) { fprintf(stderr, "reference seed hash self-check failed\n"); return 3; }
  vt::install_terminate();
  if (argc < 2) { fprintf(stderr, "usage: layout_rec record|mkcorpus|replay|refs|hash ...\n"); return 2; }
  std::string mode = argv[1];
  std::string corpus = vt::arg(argc, argv, "--corpus", "");
  if (mode == "mkcorpus") return do_mkcorpus(corpus);
  vt::open_out(vt::arg(argc, argv, "--out", "/dev/stdout"));
  int rc = 2;
  g_v = vt::argl(argc, argv, "--vseed", 0);
  if (mode == "record") rc = do_record(vt::arg(argc, argv, "--part", "all"), g_v == 0 ? corpus : std::string());
  else if (mode == "replay") rc = do_replay(vt::arg(argc, argv, "--in", ""));
  else if (mode == "refs") rc = do_refs(corpus);
  else if (mode == "hash") rc = do_hash((uint64_t)vt::argl(argc, argv, "--seed", 1));
  vt::close_out();
  return rc;
}
