// X02 driver: argument validation of every constructor / builder / weighted update, at the documented boundaries, one step
// outside and at the extremes of the parameter types.  Every call runs in a forked child (address space limited, alarm), so that
// a crash of the library is a recorded OUTCOME ("crash"), not the end of the recording.  The harness only logs: the arguments
// (integers as four 16-bit limbs, doubles as order tokens next to the reference points 0, 1, +-inf), the outcome
// (ok / invalid_argument / bad_alloc / other / crash), the value the getter reports, the outcome of using the accepted object,
// and whether a refusal left the object as it was.  Which outcome is allowed is decided by spec/XArgs.tla.
#include <functional>
#include <limits>
#include <sstream>
#include <sys/resource.h>
#include <sys/wait.h>
#include <theta_sketch.hpp>
#include <theta_union.hpp>
#include <theta_intersection.hpp>
#include <tuple_sketch.hpp>
#include <tuple_union.hpp>
#include <array_of_doubles_sketch.hpp>
#include <hll.hpp>
#include <cpc_sketch.hpp>
#include <cpc_union.hpp>
#include <kll_sketch.hpp>
#include <req_sketch.hpp>
#include <quantiles_sketch.hpp>
#include <frequent_items_sketch.hpp>
#include <count_min.hpp>
#include <bloom_filter.hpp>
#include <var_opt_sketch.hpp>
#include <var_opt_union.hpp>
#include <ebpps_sketch.hpp>
#include <tdigest.hpp>
#include <density_sketch.hpp>
#include "vtrace.hpp"

using namespace datasketches;
using vt::Ev;

struct Res {
  int fd;
  void put(const std::string& s) { ssize_t w = write(fd, s.c_str(), s.size()); (void)w; }
  void accepted() { put("A"); }                                   // the call returned
  void echo(uint64_t v) { put("E" + std::to_string(v) + ";"); }   // what the getter reports
  void used() { put("U"); }                                       // the accepted object was used without incident
  void same(bool s) { put(s ? "S" : "D"); }                       // refusal left the object as it was / changed it
};

struct Outcome { std::string out, used; bool has_echo = false; uint64_t echo = 0; bool same = true; };

// runs body in a child; body performs the call and reports through Res
static Outcome in_child(const std::function<void(Res&)>& body) {
  int p[2]; if (pipe(p) != 0) { perror("pipe"); exit(3); }
  fflush(vt::g_out);
  pid_t pid = fork();
  if (pid == 0) {
    close(p[0]);
    struct rlimit rl; rl.rlim_cur = rl.rlim_max = 1536UL << 20; setrlimit(RLIMIT_AS, &rl);
    rl.rlim_cur = rl.rlim_max = 0; setrlimit(RLIMIT_CORE, &rl);
    alarm(15);      // a call that does not return is recorded as a crash (SIGALRM); generous: the machine may be loaded
    Res r{p[1]};
    try { body(r); }
    catch (const std::invalid_argument&) { r.put("I"); }
    catch (const std::bad_alloc&) { r.put("B"); }
    catch (const std::length_error&) { r.put("B"); }      // vector::reserve beyond max_size: the same answer of the environment
    catch (const std::exception&) { r.put("O"); }
    catch (...) { r.put("O"); }
    vt::child_exit(0);
  }
  close(p[1]);
  std::string s; char buf[256]; ssize_t n;
  while ((n = read(p[0], buf, sizeof buf)) > 0) s.append(buf, (size_t)n);
  close(p[0]);
  int st = 0; waitpid(pid, &st, 0);
  const bool died = !WIFEXITED(st) || WEXITSTATUS(st) != 0;
  Outcome o;
  const bool acc = s.find('A') != std::string::npos;
  if (acc) o.out = "ok";
  else if (s.find('I') != std::string::npos) o.out = "invalid_argument";
  else if (s.find('B') != std::string::npos) o.out = "bad_alloc";
  else if (s.find('O') != std::string::npos) o.out = "other";
  else o.out = died ? "crash" : "other";
  size_t e = s.find('E');
  if (e != std::string::npos) { o.has_echo = true; o.echo = strtoull(s.c_str() + e + 1, nullptr, 10); }
  if (!acc) o.used = "none";
  else if (s.find('U') != std::string::npos) o.used = "ok";
  else if (died) o.used = "crash";
  else o.used = (s.find('I') != std::string::npos || s.find('B') != std::string::npos || s.find('O') != std::string::npos) ? "threw" : "none";
  o.same = s.find('D') == std::string::npos;
  return o;
}

static std::string limbs(uint64_t v) {
  char b[64]; snprintf(b, sizeof b, "[%u,%u,%u,%u]", (unsigned)(v >> 48) & 0xffff, (unsigned)(v >> 32) & 0xffff, (unsigned)(v >> 16) & 0xffff, (unsigned)v & 0xffff);
  return b;
}
static std::string limb_list(const std::vector<uint64_t>& a) { std::string s = "["; for (size_t i = 0; i < a.size(); i++) { if (i) s += ","; s += limbs(a[i]); } return s + "]"; }

static long g_calls = 0;
static void emit(const char* site, const std::vector<uint64_t>& a, bool has_x, double x, const Outcome& o) {
  Ev ev("Arg");
  ev.str("site", site).raw("a", limb_list(a)).b("hasX", has_x);
  ev.b("xnan", has_x && std::isnan(x)).d("x", has_x && !std::isnan(x) ? x : 0.0);
  ev.d("zero", 0.0).d("one", 1.0).d("pinf", std::numeric_limits<double>::infinity()).d("ninf", -std::numeric_limits<double>::infinity());
  ev.str("out", o.out).str("used", o.used).b("same", o.same);
  ev.raw("echo", o.has_echo ? limbs(o.echo) : std::string("[]"));
  ev.emit(); g_calls++;
}
static void int_site(const char* site, const std::vector<uint64_t>& a, const std::function<void(Res&)>& body) { emit(site, a, false, 0, in_child(body)); }
static void flt_site(const char* site, const std::vector<uint64_t>& a, double x, const std::function<void(Res&)>& body) { emit(site, a, true, x, in_child(body)); }

// boundary values of an integer parameter with documented range lo..hi and a type whose largest value is tmax
static std::vector<uint64_t> around(uint64_t lo, uint64_t hi, uint64_t tmax, vt::Rng& g, int extra) {
  std::vector<uint64_t> v = {0, 1, tmax, tmax - 1, lo, lo + 1, hi, hi - 1, (lo + hi) / 2};
  if (lo > 0) v.push_back(lo - 1);
  if (lo > 1) v.push_back(lo - 2);
  if (hi < tmax) v.push_back(hi + 1);
  if (hi + 1 < tmax) v.push_back(hi + 2);
  for (int i = 0; i < extra; i++) v.push_back(g.below(tmax + 1 == 0 ? tmax : tmax + 1));
  for (int i = 0; i < extra; i++) v.push_back(lo + g.below(hi - lo + 1));
  std::sort(v.begin(), v.end()); v.erase(std::unique(v.begin(), v.end()), v.end());
  return v;
}
static const double NaN = std::numeric_limits<double>::quiet_NaN(), Inf = std::numeric_limits<double>::infinity();
static std::vector<double> prob_values(vt::Rng& g) {
  std::vector<double> v = {NaN, -Inf, -1.0, -1e-300, -0.0, 0.0, 5e-324, 1e-9, 0.001, 0.25, 0.5, 0.999, std::nextafter(1.0, 0.0), 1.0, std::nextafter(1.0, 2.0), 1.5, 1e300, Inf};
  for (int i = 0; i < 4; i++) v.push_back(g.unit());
  return v;
}
static std::vector<double> weight_values(vt::Rng& g) {
  std::vector<double> v = {NaN, -Inf, -1e300, -1.0, -5e-324, 0.0, 5e-324, 0.5, 1.0, 2.0, 1e6, 1e300, Inf};
  for (int i = 0; i < 3; i++) v.push_back(1000.0 * g.unit());
  return v;
}

static void seg_distinct(vt::Rng& g, int extra) {
  Ev("Begin").str("group", "distinct-counting").emit();
  for (uint64_t v : around(5, 26, 255, g, extra)) {
    // resize factor X8 (default): the starting table of a large lg_k is small
    int_site("theta.lg_k", {v}, [v](Res& r) { auto s = update_theta_sketch::builder().set_lg_k((uint8_t)v).build(); r.accepted(); r.echo(s.get_lg_k());
      for (int i = 0; i < 100; i++) s.update(i); (void)s.get_estimate(); (void)s.compact(); r.used(); });
    int_site("theta_union.lg_k", {v}, [v](Res& r) { auto u = theta_union::builder().set_lg_k((uint8_t)v).build(); r.accepted();
      auto s = update_theta_sketch::builder().build(); for (int i = 0; i < 100; i++) s.update(i); u.update(s); (void)u.get_result(); r.used(); });
    int_site("tuple.lg_k", {v}, [v](Res& r) { auto s = update_tuple_sketch<double>::builder().set_lg_k((uint8_t)v).build(); r.accepted(); r.echo(s.get_lg_k());
      for (int i = 0; i < 100; i++) s.update(i, 1.0); (void)s.get_estimate(); (void)s.compact(); r.used(); });
    int_site("tuple_union.lg_k", {v}, [v](Res& r) { auto u = tuple_union<double>::builder().set_lg_k((uint8_t)v).build(); r.accepted();
      auto s = update_tuple_sketch<double>::builder().build(); for (int i = 0; i < 100; i++) s.update(i, 1.0); u.update(s); (void)u.get_result(); r.used(); });
    int_site("aod.lg_k", {v}, [v](Res& r) { auto s = update_array_of_doubles_sketch::builder().set_lg_k((uint8_t)v).build(); r.accepted(); r.echo(s.get_lg_k());
      std::vector<double> a = {1}; for (int i = 0; i < 100; i++) s.update(i, a); (void)s.compact(); r.used(); });
  }
  for (double p : prob_values(g)) {
    const float pf = (float)p;     // set_p takes a float: the logged value is the float actually passed
    flt_site("theta.p", {}, (double)pf, [pf](Res& r) { auto s = update_theta_sketch::builder().set_p(pf).build(); r.accepted();
      for (int i = 0; i < 100; i++) s.update(i); (void)s.get_estimate(); r.used(); });
    flt_site("tuple.p", {}, (double)pf, [pf](Res& r) { auto s = update_tuple_sketch<double>::builder().set_p(pf).build(); r.accepted();
      for (int i = 0; i < 100; i++) s.update(i, 1.0); (void)s.get_estimate(); r.used(); });
  }
  for (uint64_t v : around(4, 21, 255, g, extra)) {
    for (int t = 0; t < 3; t++) {
      const target_hll_type tt = t == 0 ? HLL_4 : t == 1 ? HLL_6 : HLL_8;
      int_site("hll.lg_k", {v, (uint64_t)t}, [v, tt](Res& r) { hll_sketch s((uint8_t)v, tt); r.accepted(); r.echo(s.get_lg_config_k());
        for (int i = 0; i < 300; i++) s.update(i); (void)s.get_estimate(); (void)s.serialize_compact(); r.used(); });
    }
    int_site("hll.lg_k", {v, 3}, [v](Res& r) { hll_sketch s((uint8_t)v, HLL_8, true); r.accepted(); r.echo(s.get_lg_config_k());
      for (int i = 0; i < 300; i++) s.update(i); (void)s.get_estimate(); r.used(); });
    int_site("hll.max_ser_bytes", {v}, [v](Res& r) { (void)hll_sketch::get_max_updatable_serialization_bytes((uint8_t)v, HLL_4); r.accepted(); r.used(); });
    int_site("cpc.lg_k", {v}, [v](Res& r) { cpc_sketch s((uint8_t)v); r.accepted(); r.echo(s.get_lg_k());
      for (int i = 0; i < 300; i++) s.update(i); (void)s.get_estimate(); (void)s.serialize(); r.used(); });
  }
  for (uint64_t v : around(7, 21, 255, g, extra))
    int_site("hll_union.lg_max_k", {v}, [v](Res& r) { hll_union u((uint8_t)v); r.accepted(); r.echo(u.get_lg_config_k());
      hll_sketch s(10); for (int i = 0; i < 300; i++) s.update(i); u.update(s); (void)u.get_result(); (void)u.get_estimate(); r.used(); });
  for (uint64_t v : around(4, 26, 255, g, extra)) {
    int_site("cpc.lg_k", {v}, [v](Res& r) { cpc_sketch s((uint8_t)v); r.accepted(); r.echo(s.get_lg_k());
      for (int i = 0; i < 300; i++) s.update(i); (void)s.get_estimate(); (void)s.serialize(); r.used(); });
    int_site("cpc_union.lg_k", {v}, [v](Res& r) { cpc_union u((uint8_t)v); r.accepted();
      cpc_sketch s(10); for (int i = 0; i < 300; i++) s.update(i); u.update(s); (void)u.get_result(); r.used(); });
  }
}

static void seg_quantiles(vt::Rng& g, int extra) {
  Ev("Begin").str("group", "quantiles").emit();
  for (uint64_t v : around(8, 65535, 65535, g, extra))
    int_site("kll.k", {v}, [v](Res& r) { kll_sketch<float> s((uint16_t)v); r.accepted(); r.echo(s.get_k());
      for (int i = 0; i < 500; i++) s.update((float)i); (void)s.get_quantile(0.5); (void)s.get_rank(10.0f); r.used(); });
  {
    std::vector<uint64_t> ks = around(4, 1024, 65535, g, extra);
    for (uint64_t v : {12ULL, 50ULL, 254ULL, 255ULL, 256ULL, 257ULL, 258ULL, 300ULL, 510ULL, 512ULL, 514ULL, 1000ULL, 1022ULL}) ks.push_back(v);
    for (uint64_t v : ks)
      for (int hra = 0; hra < 2; hra++)
        int_site("req.k", {v, (uint64_t)hra}, [v, hra](Res& r) { req_sketch<float> s((uint16_t)v, hra != 0); r.accepted(); r.echo(s.get_k());
          for (int i = 0; i < 500; i++) s.update((float)i); (void)s.get_quantile(0.5); (void)s.get_rank(10.0f); r.used(); });
  }
  {
    std::vector<uint64_t> ks = around(2, 32768, 65535, g, extra);
    for (int i = 0; i <= 16; i++) { ks.push_back(1ULL << i); ks.push_back((1ULL << i) + 1); if (i > 1) ks.push_back((1ULL << i) - 1); }
    for (uint64_t v : ks) if (v <= 65535)
      int_site("quantiles.k", {v}, [v](Res& r) { quantiles_sketch<float> s((uint16_t)v); r.accepted(); r.echo(s.get_k());
        for (int i = 0; i < 500; i++) s.update((float)i); (void)s.get_quantile(0.5); (void)s.get_rank(10.0f); r.used(); });
  }
  for (uint64_t v : around(10, 65535, 65535, g, extra))
    int_site("tdigest.k", {v}, [v](Res& r) { tdigest_double s((uint16_t)v); r.accepted(); r.echo(s.get_k());
      for (int i = 0; i < 500; i++) s.update(i); (void)s.get_quantile(0.5); (void)s.get_rank(10.0); r.used(); });
  for (uint64_t v : around(2, 65535, 65535, g, extra))
    for (uint64_t dim : {0ULL, 1ULL, 3ULL})
      int_site("density.k", {v, dim}, [v, dim](Res& r) { density_sketch<float> s((uint16_t)v, (uint32_t)dim); r.accepted(); r.echo(s.get_k());
        if (dim > 0) { for (int i = 0; i < 200; i++) s.update(std::vector<float>(dim, (float)i)); (void)s.get_estimate(std::vector<float>(dim, 1.0f)); }
        r.used(); });
}

static void seg_frequency(vt::Rng& g, int extra) {
  Ev("Begin").str("group", "frequency").emit();
  for (uint64_t mx = 0; mx <= 12; mx += (mx < 5 ? 1 : 3))
    for (uint64_t st = 0; st <= 13; st += (st < 6 ? 1 : 2))
      int_site("fi.lg_sizes", {mx, st}, [mx, st](Res& r) { frequent_items_sketch<int> s((uint8_t)mx, (uint8_t)st); r.accepted();
        for (int i = 0; i < 300; i++) s.update(i % 37); (void)s.get_estimate(3); (void)s.get_frequent_items(NO_FALSE_POSITIVES); r.used(); });
  for (int64_t w : {-1000LL, -1LL, 0LL, 1LL, 1000LL, (long long)INT64_MIN, (long long)INT64_MAX / 4})
    int_site("fi.weight_i64", {(uint64_t)(w < 0 ? -(uint64_t)w : (uint64_t)w), (uint64_t)(w < 0)}, [w](Res& r) {
      frequent_items_sketch<int, int64_t> s(4); s.update(1, 5);
      const int64_t before = s.get_total_weight();
      try { s.update(2, w); } catch (...) { r.same(s.get_total_weight() == before && s.get_num_active_items() == 1); throw; }
      r.accepted(); (void)s.get_estimate(2); r.used(); });
  for (double w : weight_values(g))
    flt_site("fi.weight_double", {}, w, [w](Res& r) {
      frequent_items_sketch<int, double> s(4); s.update(1, 5.0);
      const double before = s.get_total_weight();
      try { s.update(2, w); } catch (...) { r.same(s.get_total_weight() == before && s.get_num_active_items() == 1); throw; }
      r.accepted(); (void)s.get_estimate(2); r.used(); });
  {
    // count-min: num_hashes x num_buckets; weights of one byte keep the boundary allocation small
    std::vector<uint64_t> hs = {0, 1, 2, 3, 4, 5, 7, 64, 128, 255};
    for (uint64_t h : hs) {
      std::vector<uint64_t> bs = {0, 1, 2, 3, 4, 100, 1ULL << 30, (1ULL << 31), (1ULL << 32) - 1, (1ULL << 31) + 5};
      if (h > 0) { const uint64_t q = ((1ULL << 30) - 1) / h; bs.push_back(q + 1); bs.push_back(q + 2);
        if (h == 1 || h == 255) { bs.push_back(q); bs.push_back(q - 1); }      // the largest accepted shapes allocate 1 GiB: two rows only
        else bs.push_back(q / 16);
        bs.push_back((1ULL << 32) / h); bs.push_back((1ULL << 32) / h + 1); bs.push_back(((1ULL << 32) + (1ULL << 29)) / h); }
      for (int i = 0; i < extra; i++) bs.push_back(g.below(1ULL << 32));
      for (uint64_t b : bs) if (b < (1ULL << 32))
        int_site("countmin.shape", {h, b}, [h, b](Res& r) { count_min_sketch<uint8_t> s((uint8_t)h, (uint32_t)b, 123); r.accepted();
          s.update((uint64_t)5, 1); s.update(std::string("x"), 2); (void)s.get_estimate((uint64_t)5); (void)s.get_upper_bound((uint64_t)5); r.used(); });
    }
  }
}

static void seg_filters(vt::Rng& g, int) {
  Ev("Begin").str("group", "filters").emit();
  {
    const uint64_t MAXB = 17179868920ULL;
    std::vector<uint64_t> bits = {0, 1, 2, 63, 64, 65, 1000, 1ULL << 20, MAXB + 1, MAXB + 8, 1ULL << 34, 1ULL << 62, 1ULL << 63, ~0ULL, ~0ULL - 63};
    for (uint64_t b : bits)
      for (uint64_t h : {0ULL, 1ULL, 2ULL, 7ULL, 65535ULL})
        int_site("bloom.by_size", {b, h}, [b, h](Res& r) { auto f = bloom_filter::builder::create_by_size(b, (uint16_t)h, 77); r.accepted(); r.echo(f.get_num_hashes());
          f.update((uint64_t)5); (void)f.query((uint64_t)5); (void)f.get_bits_used(); r.used(); });
    for (uint64_t n : {0ULL, 1ULL, 1000ULL, 1ULL << 32})
      for (double p : prob_values(g)) {
        if (n > 1000 && p > 0 && p < 1e-3) continue;      // a valid request for a filter of gigabytes: not a boundary of the argument check
        flt_site("bloom.by_accuracy", {n}, p, [n, p](Res& r) { auto f = bloom_filter::builder::create_by_accuracy(n, p, 77); r.accepted();
          f.update((uint64_t)5); (void)f.query((uint64_t)5); r.used(); });
      }
  }
}

static void seg_sampling(vt::Rng& g, int extra) {
  Ev("Begin").str("group", "sampling").emit();
  const uint64_t MAXK = (1ULL << 31) - 2;
  for (uint64_t v : around(1, MAXK, (1ULL << 32) - 1, g, extra)) {
    int_site("varopt.k", {v}, [v](Res& r) { var_opt_sketch<int> s((uint32_t)v); r.accepted(); r.echo(s.get_k());
      for (int i = 0; i < 200; i++) s.update(i, 1.0 + i); (void)s.get_num_samples(); for (auto it : s) { (void)it; } r.used(); });
    int_site("varopt_union.max_k", {v}, [v](Res& r) { var_opt_union<int> u((uint32_t)v); r.accepted();
      var_opt_sketch<int> s(16); for (int i = 0; i < 200; i++) s.update(i, 1.0 + i); u.update(s); (void)u.get_result(); r.used(); });
    int_site("ebpps.k", {v}, [v](Res& r) { ebpps_sketch<int> s((uint32_t)v); r.accepted(); r.echo(s.get_k());
      for (int i = 0; i < 200; i++) s.update(i, 1.0 + (i % 3)); (void)s.get_c(); (void)s.get_result(); r.used(); });
  }
  for (double w : weight_values(g)) {
    flt_site("varopt.weight", {}, w, [w](Res& r) {
      var_opt_sketch<int> s(8); for (int i = 0; i < 20; i++) s.update(i, 1.0 + i);
      const uint64_t n = s.get_n(); const uint32_t m = s.get_num_samples();
      try { s.update(99, w); } catch (...) { r.same(s.get_n() == n && s.get_num_samples() == m); throw; }
      r.accepted(); for (auto it : s) { (void)it; } (void)s.estimate_subset_sum([](int) { return true; }); r.used(); });
    flt_site("ebpps.weight", {}, w, [w](Res& r) {
      ebpps_sketch<int> s(8); for (int i = 0; i < 20; i++) s.update(i, 1.0 + (i % 3));
      const uint64_t n = s.get_n(); const double cw = s.get_cumulative_weight();
      try { s.update(99, w); } catch (...) { r.same(s.get_n() == n && s.get_cumulative_weight() == cw); throw; }
      r.accepted(); (void)s.get_result(); (void)s.get_c(); r.used(); });
  }
}

// NaN offered as an ITEM to the order-based sketches: NaN has no place in a strict weak order, so it must not be counted
template<class S> static void nan_item(const char* fam, S s) {
  Outcome o = in_child([&s](Res& r) {
    for (int i = 0; i < 50; i++) s.update((typename S::value_type)i);
    const uint64_t n = s.get_n();
    try { s.update(std::numeric_limits<typename S::value_type>::quiet_NaN()); } catch (...) { r.same(s.get_n() == n); throw; }
    r.accepted(); r.echo(s.get_n());
    const bool clean = !std::isnan(s.get_min_item()) && !std::isnan(s.get_max_item()) && !std::isnan(s.get_quantile(0.5)) && !std::isnan(s.get_quantile(1.0));
    if (clean) r.used();
  });
  Ev("NanItem").str("fam", fam).str("out", o.out).str("used", o.used).b("same", o.same).i("nBefore", 50).i("nAfter", o.has_echo ? (long long)o.echo : -1).emit();
  g_calls++;
}
static void seg_nan(vt::Rng&) {
  Ev("Begin").str("group", "nan-items").emit();
  nan_item("kll-float", kll_sketch<float>(20)); nan_item("kll-double", kll_sketch<double>(200));
  nan_item("req-float", req_sketch<float>(12)); nan_item("req-double", req_sketch<double>(12, false));
  nan_item("quantiles-float", quantiles_sketch<float>(16)); nan_item("quantiles-double", quantiles_sketch<double>(128));
  {
    Outcome o = in_child([](Res& r) {
      tdigest_double s(100); for (int i = 0; i < 50; i++) s.update(i);
      const uint64_t n = s.get_total_weight();
      try { s.update(NaN); } catch (...) { r.same(s.get_total_weight() == n); throw; }
      r.accepted(); r.echo(s.get_total_weight());
      if (!std::isnan(s.get_min_value()) && !std::isnan(s.get_max_value()) && !std::isnan(s.get_quantile(0.5))) r.used();
    });
    Ev("NanItem").str("fam", "tdigest-double").str("out", o.out).str("used", o.used).b("same", o.same).i("nBefore", 50).i("nAfter", o.has_echo ? (long long)o.echo : -1).emit();
  }
}

// ---- argument checks behind the constructors: bounds arguments, memory blocks, operands of another seed, corrupted operands
static std::vector<uint8_t> theta_image(bool ordered, int n, int corrupt) {
  auto u = update_theta_sketch::builder().build();
  for (int i = 0; i < n; i++) u.update(i);
  auto b = u.compact(ordered).serialize();
  std::vector<uint8_t> img(b.begin(), b.end());
  const size_t first = img.size() - (size_t)n * 8;
  if (corrupt == 1) memcpy(img.data() + first + 8 * 3, img.data() + first + 8 * 2, 8);     // a duplicated hash
  if (corrupt == 2) memset(img.data() + first + 8 * 3, 0, 8);                                // a zero hash: one entry fewer than the count says
  return img;
}

static void seg_calls(vt::Rng& g, int) {
  Ev("Begin").str("group", "calls").emit();
  // number of standard deviations of the bounds: 1, 2 or 3
  for (uint64_t k : {0ULL, 1ULL, 2ULL, 3ULL, 4ULL, 5ULL, 255ULL}) {
    for (uint64_t fn = 0; fn < 2; fn++) {
      for (uint64_t mode = 0; mode < 3; mode++) {      // list / set / hll mode
        const long n = mode == 0 ? 3 : mode == 1 ? 40 : 3000;
        int_site("hll.bound_num_std_dev", {k, fn, mode}, [k, fn, n](Res& r) { hll_sketch s(10); for (long i = 0; i < n; i++) s.update(i);
          const double b = fn ? s.get_upper_bound((uint8_t)k) : s.get_lower_bound((uint8_t)k); r.accepted(); if (b >= 0) r.used(); });
        int_site("hll_union.bound_num_std_dev", {k, fn, mode}, [k, fn, n](Res& r) { hll_union u(10); for (long i = 0; i < n; i++) u.update(i);
          const double b = fn ? u.get_upper_bound((uint8_t)k) : u.get_lower_bound((uint8_t)k); r.accepted(); if (b >= 0) r.used(); });
      }
      for (uint64_t merged = 0; merged < 2; merged++)
        int_site("cpc.bound_kappa", {k, fn, merged}, [k, fn, merged](Res& r) { cpc_sketch s(10); for (int i = 0; i < 3000; i++) s.update(i);
          cpc_union u(10); u.update(s); cpc_sketch m = u.get_result(); const cpc_sketch& x = merged ? m : s;
          const double b = fn ? x.get_upper_bound((unsigned)k) : x.get_lower_bound((unsigned)k); r.accepted(); if (b >= 0) r.used(); });
    }
  }
  // cpc_union::update with a sketch built with another seed: refused, the union unchanged
  for (uint64_t same_seed = 0; same_seed < 2; same_seed++)
    for (uint64_t rvalue = 0; rvalue < 2; rvalue++)
      int_site("cpc_union.update_seed", {same_seed, rvalue}, [same_seed, rvalue](Res& r) {
        cpc_union u(10, 123); cpc_sketch a(10, 123); for (int i = 0; i < 500; i++) a.update(i); u.update(a);
        const auto before = u.get_result().serialize();
        cpc_sketch b(10, same_seed ? 123 : 456); for (int i = 400; i < 900; i++) b.update(i);
        try { if (rvalue) u.update(std::move(b)); else u.update(b); } catch (...) { r.same(u.get_result().serialize() == before); throw; }
        r.accepted(); (void)u.get_result().get_estimate(); r.used(); });
  // tdigest get_CDF / get_PMF: split points must not be NaN and must be unique and increasing
  for (uint64_t kind = 0; kind < 8; kind++)
    for (uint64_t fn = 0; fn < 2; fn++)
      int_site("tdigest.split_points", {kind, fn}, [kind, fn](Res& r) {
        tdigest_double t(100); for (int i = 0; i < 1000; i++) t.update(i);
        std::vector<double> sp = {100.0, 200.0, 300.0};
        if (kind == 1) sp[0] = NaN; if (kind == 2) sp[1] = NaN; if (kind == 3) sp[2] = NaN; if (kind == 4) sp[1] = 100.0; if (kind == 5) sp = {300.0, 200.0, 100.0};
        if (kind == 6) sp = {NaN}; if (kind == 7) sp = {150.0};          // a single split point: only the NaN test can refuse it
        auto v = fn ? t.get_PMF(sp.data(), (uint32_t)sp.size()) : t.get_CDF(sp.data(), (uint32_t)sp.size()); r.accepted(); if (v.size() == sp.size() + 1) r.used(); });
  // Bloom filter in caller's memory: the block must hold the header and the bit array
  for (uint64_t bits : {0ULL, 1ULL, 64ULL, 65ULL, 1000ULL, 17179868921ULL})
    for (uint64_t h : {0ULL, 3ULL})
      for (long slack : {-33L, -8L, -1L, 0L, 1L, 64L}) {
        const uint64_t need = 32 + 8 * ((std::min<uint64_t>(bits, 1 << 20) + 63) / 64);
        const uint64_t len = (uint64_t)std::max(0L, (long)need + slack);
        int_site("bloom.init_by_size", {bits, h, len}, [bits, h, len](Res& r) { std::vector<uint8_t> mem(len + 16, 0xAB);
          auto f = bloom_filter::builder::initialize_by_size(mem.data(), len, bits, (uint16_t)h, 5); r.accepted(); r.echo(f.get_num_hashes());
          f.update((uint64_t)7); const bool q = f.query((uint64_t)7); bool clean = true; for (size_t i = len; i < len + 16; i++) clean = clean && mem[i] == 0xAB; if (q && clean) r.used(); });
      }
  for (uint64_t n : {0ULL, 100ULL, 1ULL << 40})
    for (double p : {NaN, 0.0, 0.01, 1.0, 1.5})
      for (uint64_t len : {8ULL, 39ULL, 1ULL << 20})
        flt_site("bloom.init_by_accuracy", {n, len}, p, [n, p, len](Res& r) { std::vector<uint8_t> mem(len, 0);
          auto f = bloom_filter::builder::initialize_by_accuracy(mem.data(), len, n, p, 5); r.accepted(); f.update((uint64_t)7); if (f.query((uint64_t)7)) r.used(); });
  // wrap / deserialize of a null pointer; the static size helper; the (n, m) helper with too many bits
  for (uint64_t kind = 0; kind < 3; kind++)
    for (uint64_t fn = 0; fn < 3; fn++)
      int_site("bloom.from_memory", {kind, fn}, [kind, fn](Res& r) {
        auto src = bloom_filter::builder::create_by_size(256, 3, 5); src.update((uint64_t)7); auto img = src.serialize();
        void* ptr = kind == 0 ? (void*)img.data() : nullptr; const size_t len = kind == 2 ? 0 : img.size();
        bool hit = false;
        if (fn == 0) { auto f = bloom_filter::deserialize(ptr, len); hit = f.query((uint64_t)7); }
        else if (fn == 1) { const auto f = bloom_filter::wrap(ptr, len); hit = f.query((uint64_t)7); }
        else { auto f = bloom_filter::writable_wrap(ptr, len); hit = f.query((uint64_t)7); }
        r.accepted(); if (hit) r.used(); });
  for (uint64_t bits : {0ULL, 1ULL, 64ULL, 65ULL, 1ULL << 40})
    int_site("bloom.serialized_size", {bits}, [bits](Res& r) { const size_t n = bloom_filter::get_serialized_size_bytes(bits); r.accepted(); r.echo(n); r.used(); });
  for (uint64_t n : {0ULL, 1ULL, 1000ULL})
    for (uint64_t m : {0ULL, 1ULL, 10000ULL, 17179868920ULL, 17179868921ULL, 1ULL << 63, ~0ULL})
      int_site("bloom.suggest_hashes_nm", {n, m}, [n, m](Res& r) { (void)bloom_filter::builder::suggest_num_hashes(n, m); r.accepted(); r.used(); });
  // theta_intersection given a hand-corrupted compact image (deserialized or wrapped) as its first / second operand
  for (uint64_t kind = 0; kind < 3; kind++)
    for (uint64_t pos = 1; pos <= 2; pos++)
      for (uint64_t ordered = 0; ordered < 2; ordered++)
        for (uint64_t form = 0; form < 2; form++)
          int_site("theta_intersection.operand", {kind, pos, ordered, form}, [kind, pos, ordered, form](Res& r) {
            auto good = theta_image(true, 40, 0); auto bad = theta_image(ordered != 0, 30, (int)kind);
            theta_intersection in;
            if (pos == 2) in.update(compact_theta_sketch::deserialize(good.data(), good.size()));
            try {
              if (form == 0) in.update(compact_theta_sketch::deserialize(bad.data(), bad.size()));
              else in.update(wrapped_compact_theta_sketch::wrap(bad.data(), bad.size()));
            } catch (...) {
              // "same" here: the intersection is still usable after the refusal
              bool usable = true;
              try { in.update(compact_theta_sketch::deserialize(good.data(), good.size())); auto res = in.get_result(); (void)res.get_estimate(); } catch (...) { usable = false; }
              r.same(usable); throw;
            }
            r.accepted(); auto res = in.get_result(); (void)res.get_estimate(); r.used(); });
  (void)g;
}

int main(int argc, char** argv) {
  vt::install_terminate();
  uint64_t seed = (uint64_t)vt::argl(argc, argv, "--seed", 1);
  int extra = (int)vt::argl(argc, argv, "--extra", 3);
  vt::open_out(vt::arg(argc, argv, "--out", "/dev/stdout"));
  vt::Rng g(seed);
  const std::string group = vt::arg(argc, argv, "--group", "all");
  auto on = [&](const char* n) { return group == "all" || group == n; };
  if (on("distinct")) seg_distinct(g, extra);
  if (on("quantiles")) seg_quantiles(g, extra);
  if (on("frequency")) seg_frequency(g, extra);
  if (on("filters")) seg_filters(g, extra);
  if (on("sampling")) seg_sampling(g, extra);
  if (on("nan")) seg_nan(g);
  if (on("calls")) seg_calls(g, extra);
  vt::close_out();
  fprintf(stderr, "x_args_rec: %ld events, %ld calls\n", vt::g_events, g_calls);
  return 0;
}
