// C19: instrumented item type.  Every probe_item carries a serial number (fresh per construction), a canary
// and a moved-from flag IN THE OBJECT, and appends what happens to it to the environment-event lists of
// track_alloc.hpp (judged by spec/Lifecycle.tla, EnvAfter):
//   ic  serial constructed (from a value, by copy or by move)
//   ov  <<serial, old>> the storage it is constructed on still holds the live canary of item `old` that was
//       constructed at this very address and never destroyed
//   id  serial destroyed        iu  serial whose value was read (comparator, hash, equality, serde, copy source)
//   im  serial whose value was read while the item was in the moved-from state
// A destructor flips the canary; every later event on that storage reports the serial NEGATED, so the trace
// says "destroyed item" without the harness keeping any table.  Reads are logged once per item and call.
// A moved-from item holds a poison value, so a library path that reads it also produces a different sketch
// (visible in the digest).  Being the target of an assignment makes an item live-with-value again; moving from
// a moved-from item propagates the state.  No default constructor, as for the repository's test_type.
#pragma once
#include <cstdint>
#include <cstring>
#include <functional>
#include <iostream>
#include "track_alloc.hpp"
#include "memory_operations.hpp"

#ifndef LIFE_DEAD_HOOK
#define LIFE_DEAD_HOOK ((void)0)     // debugging aid: a statement executed when a destroyed item is touched or read
#endif

namespace life {

// ebpps_sketch::merge(const&) calls swap() unqualified and relies on argument-dependent lookup reaching namespace std
// through the template arguments (true for std::allocator, false for user types).  Making std::swap visible to ADL from
// this namespace is neutral for correct code and lets the harness compile against the pinned tree; the defect itself is
// probed and reported by bin/vlib/p_lifecycle.py (harness/life_probe.cpp).
using std::swap;

class probe_item {
public:
  static const uint32_t LIVE = 0x11fe11feu, DEADC = 0xdeadd00du;
  static const int POISON = -7777777;
  explicit probe_item(int v) { born(); value_ = v; moved_ = false; }
  probe_item(const probe_item& o) { born(); value_ = o.read(); moved_ = false; }
  probe_item(probe_item&& o) noexcept { born(); value_ = o.value_; moved_ = o.moved_; o.note_touch(); o.value_ = POISON; o.moved_ = true; }
  probe_item& operator=(const probe_item& o) { note_touch(); int v = o.read(); value_ = v; moved_ = false; return *this; }
  probe_item& operator=(probe_item&& o) noexcept {
    note_touch(); o.note_touch();
    if (this != &o) { value_ = o.value_; moved_ = o.moved_; o.value_ = POISON; o.moved_ = true; }
    return *this;
  }
  ~probe_item() {
    Quiet q; rt.idt.push_back(id());
    // volatile: the compiler must not drop these stores as dead (the object's lifetime ends here)
    *const_cast<volatile uint32_t*>(&canary_) = DEADC; *const_cast<volatile int*>(&value_) = POISON;
  }
  int get() const { return read(); }
private:
  // LIVE canary: the serial; DEAD canary: the serial negated ("destroyed item"); anything else: storage on which no
  // probe_item was ever constructed (NEVER)
  static const long NEVER = -1000000000;
  long id() const { return canary_ == LIVE ? serial_ : (canary_ == DEADC && serial_ > 0 && serial_ < -NEVER) ? -serial_ : NEVER; }
  void born() {
    Quiet q;
    // storage may legitimately contain anything; a LIVE canary whose self pointer is this address is an item that was
    // constructed here and never destroyed
    const bool over = (*const_cast<const volatile uint32_t*>(&canary_) == LIVE && *const_cast<const void* const volatile*>(&self_) == this);
    const long old = over ? serial_ : 0;
    serial_ = ++rt.next_serial; canary_ = LIVE; self_ = this; last_use_ = -1;
    rt.ic.push_back(serial_);
    if (over) rt.ov.push_back({serial_, old});
  }
  void note_touch() const {   // assignment target / move source: the object must exist (a dead one shows up as a negative serial)
    if (canary_ != LIVE) { Quiet q; rt.iu.push_back(id()); LIFE_DEAD_HOOK; }
    last_use_ = -1;
  }
  int read() const {
    Quiet q;
    if (canary_ != LIVE || last_use_ != rt.step_no) {
      rt.iu.push_back(id());
      if (canary_ != LIVE) LIFE_DEAD_HOOK;
      if (canary_ == LIVE && moved_) rt.im.push_back(serial_);
      last_use_ = rt.step_no;
    }
    return value_;
  }
  uint32_t canary_;
  int value_;
  long serial_;
  const void* self_;
  mutable long last_use_;
  bool moved_;
};

struct probe_less { bool operator()(const probe_item& a, const probe_item& b) const { int x = a.get(), y = b.get(); return x < y; } };
struct probe_equal { bool operator()(const probe_item& a, const probe_item& b) const { int x = a.get(), y = b.get(); return x == y; } };
struct probe_hash { std::size_t operator()(const probe_item& a) const { return std::hash<uint64_t>()((uint64_t)(uint32_t)a.get() * 0x9E3779B97F4A7C15ULL); } };
static inline std::ostream& operator<<(std::ostream& os, const probe_item& a) { os << a.get(); return os; }

struct probe_serde {
  void serialize(std::ostream& os, const probe_item* items, unsigned num) const {
    for (unsigned i = 0; i < num; i++) { const int v = items[i].get(); os.write((const char*)&v, sizeof(v)); }
  }
  void deserialize(std::istream& is, probe_item* items, unsigned num) const {
    for (unsigned i = 0; i < num; i++) { int v = 0; is.read((char*)&v, sizeof(v)); new (&items[i]) probe_item(v); }
  }
  size_t size_of_item(const probe_item&) const { return sizeof(int); }
  size_t serialize(void* ptr, size_t capacity, const probe_item* items, unsigned num) const {
    const size_t bytes = sizeof(int) * num;
    datasketches::check_memory_size(bytes, capacity);
    for (unsigned i = 0; i < num; ++i) { const int v = items[i].get(); memcpy(ptr, &v, sizeof(int)); ptr = static_cast<char*>(ptr) + sizeof(int); }
    return bytes;
  }
  size_t deserialize(const void* ptr, size_t capacity, probe_item* items, unsigned num) const {
    const size_t bytes = sizeof(int) * num;
    datasketches::check_memory_size(bytes, capacity);
    for (unsigned i = 0; i < num; ++i) { int v; memcpy(&v, ptr, sizeof(int)); new (&items[i]) probe_item(v); ptr = static_cast<const char*>(ptr) + sizeof(int); }
    return bytes;
  }
};

} // namespace life
