// ND-JSON event writer + seeded driver RNG shared by all conformance harnesses.
// Wide values are logged tagged ("H:<hex>" hash domain, "D:<ieee754 hex>" doubles compared by
// order/equality only, "B:<hex>" opaque byte images); bin/vlib/munge.py renames them
// order-isomorphically to small integers before TLC reads the trace (DESIGN 4.1).
#pragma once
#include <cstdint>
#include <cstdio>
#include <cstdlib>
#include <cstring>
#include <cmath>
#include <string>
#include <vector>
#include <exception>
#include <unistd.h>

#ifdef VERIF_COVERAGE_BUILD
extern "C" void __gcov_dump(void);   // bin/implcov: children that leave through _exit still contribute their counts
#endif

namespace vt {

// normal end of a forked child: like _exit, but keeps the gcov counters in coverage builds
static inline void child_exit(int rc) {
#ifdef VERIF_COVERAGE_BUILD
  __gcov_dump();
#endif
  _exit(rc);
}

static FILE* g_out = nullptr;
static long g_events = 0;

static inline void open_out(const char* path) {
  g_out = fopen(path, "w");
  if (!g_out) { perror(path); exit(3); }
}
static inline void close_out() { if (g_out) { fclose(g_out); g_out = nullptr; } }

// a harness that dies from an uncaught exception is a machinery failure unless the driver decides otherwise
static inline void install_terminate() {
  std::set_terminate([]() {
    if (g_out) { fprintf(g_out, "{\"e\":\"Crash\",\"what\":\"terminate\"}\n"); fflush(g_out); }
    _exit(4);
  });
}

struct Ev {
  std::string s;
  explicit Ev(const char* name) { s.reserve(256); s = "{\"e\":\""; s += name; s += "\""; }
  Ev& key(const char* k) { s += ",\""; s += k; s += "\":"; return *this; }
  Ev& i(const char* k, long long v) { key(k); s += std::to_string(v); return *this; }
  Ev& b(const char* k, bool v) { key(k); s += v ? "true" : "false"; return *this; }
  Ev& str(const char* k, const std::string& v) { key(k); s += "\""; s += v; s += "\""; return *this; }
  static std::string htok(uint64_t v) { char buf[32]; snprintf(buf, sizeof buf, "\"H:%016llx\"", (unsigned long long)v); return buf; }
  static std::string dtok(double v) {
    if (std::isnan(v)) return "\"nan\"";
    if (v == 0.0) v = 0.0;
    uint64_t bits; memcpy(&bits, &v, 8);
    char buf[32]; snprintf(buf, sizeof buf, "\"D:%016llx\"", (unsigned long long)bits); return buf;
  }
  Ev& h(const char* k, uint64_t v) { key(k); s += htok(v); return *this; }
  Ev& d(const char* k, double v) { key(k); s += dtok(v); return *this; }
  template<class C> Ev& hl(const char* k, const C& c) {
    key(k); s += "["; bool f = true; for (auto v : c) { if (!f) s += ","; f = false; s += htok((uint64_t)v); } s += "]"; return *this;
  }
  template<class C> Ev& dl(const char* k, const C& c) {
    key(k); s += "["; bool f = true; for (auto v : c) { if (!f) s += ","; f = false; s += dtok((double)v); } s += "]"; return *this;
  }
  template<class C> Ev& il(const char* k, const C& c) {
    key(k); s += "["; bool f = true; for (auto v : c) { if (!f) s += ","; f = false; s += std::to_string((long long)v); } s += "]"; return *this;
  }
  // opaque byte image token: content-addressed, the munger replaces it by first-occurrence index
  Ev& bytes(const char* k, const void* p, size_t n) {
    key(k); s += "\"B:"; static const char* hx = "0123456789abcdef";
    const uint8_t* q = static_cast<const uint8_t*>(p);
    for (size_t j = 0; j < n; j++) { s += hx[q[j] >> 4]; s += hx[q[j] & 15]; }
    s += "\""; return *this;
  }
  // list of small ints for TLA-side decoding of images (0..255 each)
  Ev& bytelist(const char* k, const void* p, size_t n) {
    key(k); s += "["; const uint8_t* q = static_cast<const uint8_t*>(p);
    for (size_t j = 0; j < n; j++) { if (j) s += ","; s += std::to_string((int)q[j]); }
    s += "]"; return *this;
  }
  Ev& raw(const char* k, const std::string& json) { key(k); s += json; return *this; }
  void emit() { s += "}\n"; fputs(s.c_str(), g_out); g_events++; }
};

// splitmix64: deterministic driver randomness from VERIF_SEED
struct Rng {
  uint64_t x;
  // the seed is scrambled first: consecutive seeds must not give shifted copies of one stream
  explicit Rng(uint64_t seed) : x(0) {
    uint64_t z = seed + 0x632BE59BD9B4E019ULL;
    z = (z ^ (z >> 30)) * 0xBF58476D1CE4E5B9ULL; z = (z ^ (z >> 27)) * 0x94D049BB133111EBULL; z ^= z >> 31;
    x = z * 0xD1342543DE82EF95ULL + 0x1234567ULL;
  }
  uint64_t next() { uint64_t z = (x += 0x9E3779B97F4A7C15ULL); z = (z ^ (z >> 30)) * 0xBF58476D1CE4E5B9ULL; z = (z ^ (z >> 27)) * 0x94D049BB133111EBULL; return z ^ (z >> 31); }
  uint64_t below(uint64_t n) { return n ? next() % n : 0; }
  long range(long lo, long hi) { return lo + (long)below((uint64_t)(hi - lo + 1)); }
  bool chance(int pct) { return (int)below(100) < pct; }
  double unit() { return (next() >> 11) * (1.0 / 9007199254740992.0); }
};

// argv helpers: --key value
static inline const char* arg(int argc, char** argv, const char* key, const char* dflt) {
  for (int i = 1; i + 1 < argc; i++) if (!strcmp(argv[i], key)) return argv[i + 1];
  return dflt;
}
static inline long argl(int argc, char** argv, const char* key, long dflt) {
  const char* v = arg(argc, argv, key, nullptr); return v ? atol(v) : dflt;
}

} // namespace vt
